package triage

import (
	"context"
	"sync"
	"testing"
	"time"

	"github.com/plgd-dev/go-coap/v3/message"
	"github.com/plgd-dev/go-coap/v3/message/codes"
	"github.com/plgd-dev/go-coap/v3/message/noresponse"
	"github.com/plgd-dev/go-coap/v3/message/pool"
	"github.com/plgd-dev/go-coap/v3/net/blockwise"
	limit "github.com/plgd-dev/go-coap/v3/net/client/limitParallelRequests"
	"github.com/plgd-dev/go-coap/v3/pkg/cache"
	tcpcoder "github.com/plgd-dev/go-coap/v3/tcp/coder"
	udpcoder "github.com/plgd-dev/go-coap/v3/udp/coder"
)

func TestD1GetUint32sEnd(t *testing.T) {
	defer func() { t.Logf("recover: %v", recover()) }()
	buf := make([]byte, 16)
	var o message.Options
	o, n, _ := o.AddUint32(buf, message.MaxAge, 5)
	o, _, _ = o.AddUint32(buf[n:], message.MaxAge, 7)
	r := make([]uint32, 4)
	k, err := o.GetUint32s(message.MaxAge, r)
	t.Logf("k=%d err=%v r=%v", k, err, r)
}

func TestD1GetUint32sMiddle(t *testing.T) {
	buf := make([]byte, 16)
	var o message.Options
	o, n, _ := o.AddUint32(buf, message.MaxAge, 5)
	o, _, _ = o.AddUint32(buf[n:], message.Size1, 9)
	r := make([]uint32, 4)
	k, err := o.GetUint32s(message.MaxAge, r)
	t.Logf("k=%d err=%v r=%v (expect k=1 [5])", k, err, r)
}

func TestD5Block(t *testing.T) {
	_, err := blockwise.EncodeBlockOption(blockwise.SZX16, 0xfffff, false)
	t.Logf("encode num=0xfffff err=%v", err)
	_, _, _, err = blockwise.DecodeBlockOption(0xffffff)
	t.Logf("decode 0xffffff err=%v", err)
}

func TestD6NoResp(t *testing.T) {
	for _, c := range []codes.Code{codes.Continue, codes.RequestEntityIncomplete, codes.TooManyRequests, codes.Code(0x9f), codes.NotFound} {
		t.Logf("code %v v=2|8|16 -> %v", c, noresponse.IsNoResponseCode(c, 26))
	}
}

func TestD8TCP(t *testing.T) {
	var h tcpcoder.MessageHeader
	n, err := tcpcoder.DefaultCoder.DecodeHeader([]byte{0xf0, 0xff, 0xff, 0xff, 0xff, 0x01}, &h)
	t.Logf("n=%d err=%v MessageLength=%d", n, err, h.MessageLength)
	var m message.Message
	m.Options = make(message.Options, 0, 4)
	data := []byte{0x09, 0x01, 1, 2, 3, 4, 5, 6, 7, 8, 9}
	n, err = tcpcoder.DefaultCoder.Decode(data, &m)
	t.Logf("tkl9: n=%d err=%v token=%x", n, err, m.Token)
	_, err = tcpcoder.DefaultCoder.Size(m)
	t.Logf("re-encode err=%v", err)
}

func TestD9DecodeHang(t *testing.T) {
	p := pool.New(10, 1000)
	m := p.AcquireMessage(context.Background())
	m.SetMessage(message.Message{Code: codes.GET})
	p.ReleaseMessage(m)
	m = p.AcquireMessage(context.Background())
	t.Logf("cap opts=%d", cap(m.Options()))
	done := make(chan struct{})
	go func() {
		// CON GET mid 1, one option uri-path "a"
		_, err := m.UnmarshalWithDecoder(udpcoder.DefaultCoder, []byte{0x40, 0x01, 0, 1, 0xb1, 'a'})
		t.Logf("err=%v", err)
		close(done)
	}()
	select {
	case <-done:
	case <-time.After(2 * time.Second):
		t.Logf("HANG in decode")
	}
}

func TestD3CacheSweep(t *testing.T) {
	// sequential illustration is not possible w/o hook; skip
	_ = cache.NewCache[int, int]
}

func TestD4Limit(t *testing.T) {
	var mu sync.Mutex
	inflight, maxInflight := 0, 0
	release := make(chan struct{})
	do := func(req *pool.Message) (*pool.Message, error) {
		mu.Lock()
		inflight++
		if inflight > maxInflight {
			maxInflight = inflight
		}
		mu.Unlock()
		<-release
		mu.Lock()
		inflight--
		mu.Unlock()
		return nil, nil
	}
	l := limit.New(10, 1, do, nil)
	mk := func(ctx context.Context) *pool.Message {
		m := pool.NewMessage(ctx)
		m.SetPath("/a")
		return m
	}
	var wg sync.WaitGroup
	wg.Add(1)
	go func() { defer wg.Done(); l.Do(mk(context.Background())) }() // A holds slot
	time.Sleep(100 * time.Millisecond)
	ctxB, cancelB := context.WithCancel(context.Background())
	wg.Add(1)
	go func() { defer wg.Done(); l.Do(mk(context.Background())) }() // B queued
	time.Sleep(100 * time.Millisecond)
	wg.Add(1)
	go func() { defer wg.Done(); l.Do(mk(ctxB)) }() // C queued
	time.Sleep(100 * time.Millisecond)
	cancelB() // B cancelled while queued
	time.Sleep(200 * time.Millisecond)
	mu.Lock()
	t.Logf("max inflight with endpoint limit 1: %d", maxInflight)
	mu.Unlock()
	close(release)
	wg.Wait()
}

package triage

import (
	"bytes"
	"context"
	"sync"
	"sync/atomic"
	"testing"
	"time"

	"github.com/plgd-dev/go-coap/v3/message"
	"github.com/plgd-dev/go-coap/v3/message/codes"
	"github.com/plgd-dev/go-coap/v3/message/pool"
	"github.com/plgd-dev/go-coap/v3/net/blockwise"
	csync "github.com/plgd-dev/go-coap/v3/pkg/sync"
)

func TestD2LoadOrStore(t *testing.T) {
	bad := 0
	for iter := 0; iter < 20000; iter++ {
		m := csync.NewMap[int, int]()
		var stored atomic.Int32
		var wg sync.WaitGroup
		start := make(chan struct{})
		for g := 0; g < 4; g++ {
			wg.Add(1)
			go func(g int) {
				defer wg.Done()
				<-start
				if _, loaded := m.LoadOrStore(1, g); !loaded {
					stored.Add(1)
				}
			}(g)
		}
		close(start)
		wg.Wait()
		if stored.Load() != 1 {
			bad++
		}
	}
	t.Logf("iterations with !=1 winners: %d / 20000", bad)
}

func TestD16BertFirstBlock(t *testing.T) {
	bw := blockwise.New(&tc{pool.New(10, 1024)}, time.Hour, func(err error) { t.Log(err) }, nil)
	body := make([]byte, 5000)
	m := pool.NewMessage(context.Background())
	m.SetCode(codes.POST)
	m.SetToken(message.Token{7})
	m.SetBody(bytes.NewReader(body))
	_, err := bw.Do(m, blockwise.SZXBERT, 65536, func(r *pool.Message) (*pool.Message, error) {
		b, _ := r.ReadBody()
		b1, _ := r.GetOptionUint32(message.Block1)
		szx, num, more, _ := blockwise.DecodeBlockOption(b1)
		t.Logf("first wire msg: body=%d bytes of %d, block1 szx=%v num=%v more=%v", len(b), len(body), szx, num, more)
		return nil, context.Canceled
	})
	t.Log(err)
}

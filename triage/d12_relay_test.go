package triage

import (
	"bytes"
	"context"
	"testing"
	"time"

	"github.com/plgd-dev/go-coap/v3/message"
	"github.com/plgd-dev/go-coap/v3/message/codes"
	"github.com/plgd-dev/go-coap/v3/message/pool"
	"github.com/plgd-dev/go-coap/v3/net/blockwise"
	"github.com/plgd-dev/go-coap/v3/net/responsewriter"
)

func relay(t *testing.T, code codes.Code, n int, szx blockwise.SZX, maxMsg uint32) {
	sc, rc := &tc{pool.New(100, 1024)}, &tc{pool.New(100, 1024)}
	sender := blockwise.New(sc, time.Hour, func(err error) { t.Log("  sender err:", err) }, nil)
	receiver := blockwise.New(rc, time.Hour, func(err error) { t.Log("  receiver err:", err) }, nil)
	body := make([]byte, n)
	for i := range body {
		body[i] = byte(i*7 + 1)
	}
	m := pool.NewMessage(context.Background())
	m.SetCode(code)
	m.SetToken(message.Token{9})
	m.SetBody(bytes.NewReader(body))
	var got []byte
	delivered := 0
	err := sender.WriteMessage(m, szx, maxMsg, func(first *pool.Message) error {
		cur := first
		for i := 0; i < 2000; i++ {
			rw := responsewriter.New(rc.AcquireMessage(context.Background()), rc)
			receiver.Handle(rw, cur, szx, maxMsg, func(_ *responsewriter.ResponseWriter[*tc], r *pool.Message) {
				delivered++
				got, _ = r.ReadBody()
			})
			if delivered > 0 {
				return nil
			}
			sw := responsewriter.New(sc.AcquireMessage(context.Background()), sc)
			orig := sw.Message()
			sender.Handle(sw, rw.Message(), szx, maxMsg, func(*responsewriter.ResponseWriter[*tc], *pool.Message) {})
			if sw.Message() == orig {
				return nil // sender has nothing more to say
			}
			cur = sw.Message()
		}
		return nil
	})
	t.Logf("code=%v n=%d szx=%v: err=%v delivered=%d bodyOK=%v gotLen=%d", code, n, szx, err, delivered, bytes.Equal(got, body), len(got))
}

func TestD12Relay(t *testing.T) {
	relay(t, codes.POST, 40, blockwise.SZX16, 1152)
	relay(t, codes.POST, 48, blockwise.SZX16, 1152)
	relay(t, codes.Content, 40, blockwise.SZX16, 1152)
	relay(t, codes.PUT, 5000, blockwise.SZXBERT, 2048)
}

package triage

import (
	"context"
	"testing"
	"time"

	"github.com/plgd-dev/go-coap/v3/message"
	"github.com/plgd-dev/go-coap/v3/message/codes"
	"github.com/plgd-dev/go-coap/v3/message/pool"
	"github.com/plgd-dev/go-coap/v3/net/observation"
	"github.com/plgd-dev/go-coap/v3/net/responsewriter"
)

type fakeClient struct {
	p   *pool.Pool
	ctx context.Context
}

func (f *fakeClient) Context() context.Context                         { return f.ctx }
func (f *fakeClient) WriteMessage(req *pool.Message) error             { return nil }
func (f *fakeClient) ReleaseMessage(m *pool.Message)                   { f.p.ReleaseMessage(m) }
func (f *fakeClient) AcquireMessage(ctx context.Context) *pool.Message { return f.p.AcquireMessage(ctx) }

// D20: a duplicate-token Observe is rejected, but its deferred clean-up removes the FIRST observation's table entry.
func TestD20DuplicateObserveKillsOwner(t *testing.T) {
	cc := &fakeClient{p: pool.New(0, 0), ctx: context.Background()}
	h := observation.NewHandler(cc, func(w *responsewriter.ResponseWriter[*fakeClient], r *pool.Message) {}, nil)
	token := message.Token{1, 2, 3, 4}
	mk := func() *pool.Message {
		ctx, _ := context.WithTimeout(context.Background(), 2*time.Second)
		m := cc.AcquireMessage(ctx)
		m.SetCode(codes.GET)
		m.SetToken(token)
		m.SetObserve(0)
		return m
	}
	go func() { _, _ = h.NewObservation(mk(), func(*pool.Message) {}) }()
	time.Sleep(100 * time.Millisecond)
	if _, ok := h.GetObservation(token.Hash()); !ok {
		t.Fatal("first observation not registered")
	}
	_, err := h.NewObservation(mk(), func(*pool.Message) {})
	t.Logf("second registration: %v", err)
	if err == nil {
		t.Fatal("duplicate accepted")
	}
	if _, ok := h.GetObservation(token.Hash()); !ok {
		t.Fatalf("DEFECT: the rejected duplicate removed the first observation's entry")
	}
}

package triage

import (
	"testing"

	"github.com/plgd-dev/go-coap/v3/message"
	"github.com/plgd-dev/go-coap/v3/message/codes"
	"github.com/plgd-dev/go-coap/v3/udp/coder"
)

func TestD18TypeSpill(t *testing.T) {
	for _, typ := range []message.Type{4, 5, 8, 255} {
		m := message.Message{Code: codes.GET, MessageID: 7, Type: typ}
		buf := make([]byte, 16)
		n, err := coder.DefaultCoder.Encode(m, buf)
		var out message.Message
		_, derr := coder.DefaultCoder.Decode(buf[:max(n, 0)], &out)
		t.Logf("Type=%d: encode err=%v first byte=%#x; decode err=%v type=%v", typ, err, buf[0], derr, out.Type)
	}
}

package triage

import (
	"context"
	"net"
	"testing"
	"time"

	"github.com/plgd-dev/go-coap/v3/udp"
)

func TestD14PingClose(t *testing.T) {
	pc, err := net.ListenPacket("udp", "127.0.0.1:0") // silent peer
	if err != nil {
		t.Fatal(err)
	}
	defer pc.Close()
	cc, err := udp.Dial(pc.LocalAddr().String())
	if err != nil {
		t.Fatal(err)
	}
	done := make(chan error, 1)
	go func() { done <- cc.Ping(context.Background()) }()
	time.Sleep(200 * time.Millisecond)
	cc.Close()
	<-cc.Done()
	select {
	case err := <-done:
		t.Logf("ping returned: %v", err)
	case <-time.After(3 * time.Second):
		t.Logf("PING STILL BLOCKED 3s after connection closed and Done() signalled")
	}
}

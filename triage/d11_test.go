package triage

import (
	"context"
	"testing"
	"time"

	"github.com/plgd-dev/go-coap/v3/message"
	"github.com/plgd-dev/go-coap/v3/message/codes"
	"github.com/plgd-dev/go-coap/v3/message/pool"
	"github.com/plgd-dev/go-coap/v3/mux"
	coapNet "github.com/plgd-dev/go-coap/v3/net"
	"github.com/plgd-dev/go-coap/v3/options"
	"github.com/plgd-dev/go-coap/v3/tcp"
	"github.com/plgd-dev/go-coap/v3/udp"
)

func runNested(t *testing.T, useTCP bool, nested string) {
	res := make(chan string, 1)
	srvRouter := mux.NewRouter()
	srvRouter.HandleFunc("/a", func(w mux.ResponseWriter, r *mux.Message) {
		ctx, cancel := context.WithTimeout(context.Background(), 2*time.Second)
		defer cancel()
		start := time.Now()
		var err error
		switch nested {
		case "get":
			_, err = w.Conn().Get(ctx, "/obs")
		case "observe":
			_, err = w.Conn().Observe(ctx, "/obs", func(*pool.Message) {})
		}
		res <- nested + ": err=" + func() string {
			if err != nil {
				return err.Error()
			}
			return "nil"
		}() + " took=" + time.Since(start).Round(100*time.Millisecond).String()
		_ = w.SetResponse(codes.Content, message.TextPlain, nil)
	})
	cliRouter := mux.NewRouter()
	cliRouter.HandleFunc("/obs", func(w mux.ResponseWriter, r *mux.Message) {
		_ = w.SetResponse(codes.Content, message.TextPlain, nil)
		if _, err := r.Observe(); err == nil {
			w.Message().SetObserve(2)
		}
	})
	ctx, cancel := context.WithTimeout(context.Background(), 5*time.Second)
	defer cancel()
	if useTCP {
		l, err := coapNet.NewTCPListener("tcp", "127.0.0.1:0")
		if err != nil {
			t.Fatal(err)
		}
		defer l.Close()
		s := tcp.NewServer(options.WithMux(srvRouter))
		go s.Serve(l)
		defer s.Stop()
		cc, err := tcp.Dial(l.Addr().String(), options.WithMux(cliRouter))
		if err != nil {
			t.Fatal(err)
		}
		defer cc.Close()
		_, err = cc.Get(ctx, "/a")
		t.Logf("tcp outer err=%v; %s", err, <-res)
	} else {
		l, err := coapNet.NewListenUDP("udp", "127.0.0.1:0")
		if err != nil {
			t.Fatal(err)
		}
		defer l.Close()
		s := udp.NewServer(options.WithMux(srvRouter))
		go s.Serve(l)
		defer s.Stop()
		cc, err := udp.Dial(l.LocalAddr().String(), options.WithMux(cliRouter))
		if err != nil {
			t.Fatal(err)
		}
		defer cc.Close()
		_, err = cc.Get(ctx, "/a")
		t.Logf("udp outer err=%v; %s", err, <-res)
	}
}

func TestD11(t *testing.T) {
	runNested(t, true, "get")
	runNested(t, true, "observe")
	runNested(t, false, "get")
	runNested(t, false, "observe")
}

package triage

import (
	"context"
	"net"
	"sync"
	"testing"
	"time"

	"github.com/plgd-dev/go-coap/v3/message"
	"github.com/plgd-dev/go-coap/v3/message/codes"
	"github.com/plgd-dev/go-coap/v3/message/pool"
	coapNet "github.com/plgd-dev/go-coap/v3/net"
	"github.com/plgd-dev/go-coap/v3/net/responsewriter"
	"github.com/plgd-dev/go-coap/v3/udp/client"
	"github.com/plgd-dev/go-coap/v3/udp/coder"
)

type fakeSession struct {
	ctx    context.Context
	cancel context.CancelFunc
	mu     sync.Mutex
	sent   [][]byte
}

func (s *fakeSession) Context() context.Context { return s.ctx }
func (s *fakeSession) Close() error             { s.cancel(); return nil }
func (s *fakeSession) MaxMessageSize() uint32   { return 65535 }
func (s *fakeSession) RemoteAddr() net.Addr     { return &net.UDPAddr{IP: net.IPv4(127, 0, 0, 1), Port: 1} }
func (s *fakeSession) LocalAddr() net.Addr      { return &net.UDPAddr{IP: net.IPv4(127, 0, 0, 1), Port: 2} }
func (s *fakeSession) NetConn() net.Conn        { return nil }
func (s *fakeSession) WriteMessage(req *pool.Message) error {
	d, err := req.MarshalWithEncoder(coder.DefaultCoder)
	if err != nil {
		return err
	}
	s.mu.Lock()
	s.sent = append(s.sent, append([]byte(nil), d...))
	s.mu.Unlock()
	return nil
}
func (s *fakeSession) WriteMulticastMessage(*pool.Message, *net.UDPAddr, ...coapNet.MulticastOption) error {
	return nil
}
func (s *fakeSession) Run(*client.Conn) error           { <-s.ctx.Done(); return nil }
func (s *fakeSession) AddOnClose(client.EventFunc)      {}
func (s *fakeSession) SetContextValue(k, v interface{}) {}
func (s *fakeSession) Done() <-chan struct{}            { return s.ctx.Done() }

func TestD7NonDedup(t *testing.T) {
	ctx, cancel := context.WithCancel(context.Background())
	defer cancel()
	s := &fakeSession{ctx: ctx, cancel: cancel}
	cfg := client.DefaultConfig
	var mu sync.Mutex
	calls := 0
	cfg.Handler = func(w *responsewriter.ResponseWriter[*client.Conn], r *pool.Message) {
		mu.Lock()
		calls++
		mu.Unlock()
		_ = w.SetResponse(codes.Content, message.TextPlain, nil)
	}
	cfg.MessagePool = pool.New(10, 2048)
	cc := client.NewConnWithOpts(s, &cfg)
	for _, typ := range []message.Type{message.Confirmable, message.NonConfirmable} {
		mu.Lock()
		calls = 0
		mu.Unlock()
		m := pool.NewMessage(ctx)
		m.SetCode(codes.GET)
		m.SetToken(message.Token{byte(typ) + 1})
		m.SetType(typ)
		m.SetMessageID(int32(1000 + int(typ)))
		m.MustSetPath("/a")
		d, _ := m.MarshalWithEncoder(coder.DefaultCoder)
		d = append([]byte(nil), d...)
		for i := 0; i < 3; i++ {
			if err := cc.Process(nil, d); err != nil {
				t.Fatal(err)
			}
			time.Sleep(50 * time.Millisecond)
		}
		mu.Lock()
		t.Logf("type=%v handler calls for 3 copies: %d", typ, calls)
		mu.Unlock()
	}
}

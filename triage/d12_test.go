package triage

import (
	"bytes"
	"context"
	"testing"
	"time"

	"github.com/plgd-dev/go-coap/v3/message"
	"github.com/plgd-dev/go-coap/v3/message/codes"
	"github.com/plgd-dev/go-coap/v3/message/pool"
	"github.com/plgd-dev/go-coap/v3/net/blockwise"
)

type tc struct{ p *pool.Pool }

func (c *tc) AcquireMessage(ctx context.Context) *pool.Message { return c.p.AcquireMessage(ctx) }
func (c *tc) ReleaseMessage(m *pool.Message)                   { c.p.ReleaseMessage(m) }

func TestWriteMessagePost(t *testing.T) {
	for _, code := range []codes.Code{codes.POST, codes.Content} {
		bw := blockwise.New(&tc{pool.New(10, 1024)}, time.Hour, func(err error) { t.Log(err) }, nil)
		body := make([]byte, 40)
		for i := range body {
			body[i] = byte(i)
		}
		m := pool.NewMessage(context.Background())
		m.SetCode(code)
		m.SetToken(message.Token{1})
		m.SetBody(bytes.NewReader(body))
		err := bw.WriteMessage(m, blockwise.SZX16, 1152, func(r *pool.Message) error {
			b, _ := r.ReadBody()
			b1, e1 := r.GetOptionUint32(message.Block1)
			b2, e2 := r.GetOptionUint32(message.Block2)
			t.Logf("code=%v first wire message body=%v block1=%v/%v block2=%v/%v", code, b, b1, e1, b2, e2)
			return nil
		})
		t.Log(err)
	}
}

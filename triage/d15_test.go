package triage

import (
	"context"
	"strings"
	"testing"

	"github.com/plgd-dev/go-coap/v3/message"
	"github.com/plgd-dev/go-coap/v3/message/pool"
)

func TestD15SetPathGrow(t *testing.T) {
	m := pool.NewMessage(context.Background())
	m.MustSetPath("/a/b")
	m.SetContentFormat(message.AppJSON)
	m.AddQuery("q=1")
	long := "/" + strings.Repeat("x", 200) + "/" + strings.Repeat("y", 200)
	err := m.SetPath(long)
	t.Logf("err=%v", err)
	for _, o := range m.Options() {
		v := string(o.Value)
		if len(v) > 8 {
			v = v[:8] + "..."
		}
		t.Logf("  opt %v len=%d %q", o.ID, len(o.Value), v)
	}
	p, _ := m.Path()
	t.Logf("path ok=%v", p == long)
	cf, err := m.ContentFormat()
	t.Logf("cf=%v err=%v", cf, err)
	q, err := m.Queries()
	t.Logf("q=%v err=%v", q, err)
}

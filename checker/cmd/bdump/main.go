// bdump: development helper – prints the in-range obligations of the functions whose name has one of the given prefixes.
package main

import (
	"fmt"
	"os"
	"strings"

	"coapcheck/internal/core"
)

func main() {
	repo := os.Args[1]
	p, err := core.Load(repo, core.Config{Name: "linux/amd64", IntBit: 64})
	if err != nil {
		fmt.Println(err)
		os.Exit(1)
	}
	for _, f := range p.SrcFuncs(false) {
		n := core.FnName(f)
		m := false
		for _, pre := range os.Args[2:] {
			if strings.HasPrefix(n, pre) {
				m = true
			}
		}
		if !m {
			continue
		}
		b := core.NewBounds(p, f, nil)
		ok, bad := 0, 0
		for _, o := range b.Obligations() {
			if o.OK {
				ok++
			} else {
				bad++
				fmt.Printf("  FAIL %s %s %s @%s: %s\n", n, o.Kind, o.Desc, p.InstrPos(o.Instr), o.Why)
			}
		}
		fmt.Printf("%-60s ok=%d bad=%d\n", n, ok, bad)
	}
}

// dump: development helper – prints the wait inventory of /repo (not used by any check).
package main

import (
	"fmt"
	"os"
	"sort"

	"coapcheck/internal/core"
)

func main() {
	repo := "/repo"
	if len(os.Args) > 1 {
		repo = os.Args[1]
	}
	p, err := core.Load(repo, core.Config{Name: "linux/amd64", IntBit: 64})
	if err != nil {
		fmt.Println(err)
		os.Exit(1)
	}
	var lines []string
	for _, f := range p.SrcFuncs(false) {
		for _, w := range core.WaitsOf(f) {
			lines = append(lines, fmt.Sprintf("%-70s %s  @%s", core.FnName(f), w.Signature(), p.InstrPos(w.Instr)))
		}
	}
	sort.Strings(lines)
	for _, l := range lines {
		fmt.Println(l)
	}
}

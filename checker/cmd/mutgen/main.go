// mutgen: development/sweep helper – enumerates first-order source mutants of one Go file as byte-range replacements.
// It is not used by any registered check (the checks analyse /repo as it is); tools/mutsweep.py applies these
// mutants to scratch copies to measure which of them the static rules notice.
package main

import (
	"encoding/json"
	"fmt"
	"go/ast"
	"go/parser"
	"go/token"
	"os"
	"strconv"
)

type Mut struct {
	File  string `json:"file"`
	Start int    `json:"start"`
	End   int    `json:"end"`
	New   string `json:"new"`
	Kind  string `json:"kind"`
	Line  int    `json:"line"`
	Func  string `json:"func"`
}

func main() {
	path := os.Args[1]
	rel := os.Args[2]
	src, err := os.ReadFile(path)
	if err != nil {
		panic(err)
	}
	fset := token.NewFileSet()
	f, err := parser.ParseFile(fset, path, src, parser.ParseComments)
	if err != nil {
		panic(err)
	}
	var out []Mut
	off := func(p token.Pos) int { return fset.Position(p).Offset }
	cur := ""
	add := func(n ast.Node, s, e token.Pos, nw, kind string) {
		out = append(out, Mut{File: rel, Start: off(s), End: off(e), New: nw, Kind: kind, Line: fset.Position(n.Pos()).Line, Func: cur})
	}
	swap := map[token.Token][]string{
		token.LSS: {"<="}, token.LEQ: {"<"}, token.GTR: {">="}, token.GEQ: {">"},
		token.EQL: {"!="}, token.NEQ: {"=="}, token.LAND: {"||"}, token.LOR: {"&&"},
		token.ADD: {"-"}, token.SUB: {"+"},
	}
	for _, d := range f.Decls {
		fd, ok := d.(*ast.FuncDecl)
		if !ok || fd.Body == nil {
			continue
		}
		cur = fd.Name.Name
		if fd.Recv != nil && len(fd.Recv.List) > 0 {
			cur = fmt.Sprint(src[off(fd.Recv.List[0].Type.Pos()):off(fd.Recv.List[0].Type.End())]) + "." + fd.Name.Name
			cur = string(src[off(fd.Recv.List[0].Type.Pos()):off(fd.Recv.List[0].Type.End())]) + "." + fd.Name.Name
		}
		ast.Inspect(fd.Body, func(n ast.Node) bool {
			switch x := n.(type) {
			case *ast.BinaryExpr:
				for _, nw := range swap[x.Op] {
					// string concatenation "+" → "-" does not compile; harmless (skipped by the driver)
					add(x, x.OpPos, x.OpPos+token.Pos(len(x.Op.String())), nw, "binop "+x.Op.String()+"→"+nw)
				}
			case *ast.BasicLit:
				if x.Kind == token.INT {
					if v, err := strconv.ParseInt(x.Value, 0, 64); err == nil {
						add(x, x.Pos(), x.End(), strconv.FormatInt(v+1, 10), "int+1")
						if v > 0 {
							add(x, x.Pos(), x.End(), strconv.FormatInt(v-1, 10), "int-1")
						}
					}
				}
			case *ast.DeferStmt:
				add(x, x.Pos(), x.End(), "", "drop defer")
			case *ast.ExprStmt:
				if _, isCall := x.X.(*ast.CallExpr); isCall {
					add(x, x.Pos(), x.End(), "", "drop call")
				}
			case *ast.IfStmt:
				if x.Init == nil {
					add(x, x.Cond.Pos(), x.Cond.End(), "!("+string(src[off(x.Cond.Pos()):off(x.Cond.End())])+")", "negate if")
				}
			case *ast.IncDecStmt:
				add(x, x.Pos(), x.End(), "", "drop incdec")
			case *ast.Ident:
				if x.Name == "true" {
					add(x, x.Pos(), x.End(), "false", "true→false")
				} else if x.Name == "false" {
					add(x, x.Pos(), x.End(), "true", "false→true")
				}
			case *ast.AssignStmt:
				if x.Tok == token.ADD_ASSIGN || x.Tok == token.SUB_ASSIGN {
					add(x, x.Pos(), x.End(), "", "drop op-assign")
				}
			}
			return true
		})
	}
	_ = json.NewEncoder(os.Stdout).Encode(out)
}

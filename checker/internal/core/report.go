package core

import (
	"encoding/json"
	"fmt"
	"os"
	"path/filepath"
	"sort"
	"strings"
	"time"
)

// Status of an obligation.
const (
	Discharged = "discharged"
	Violated   = "violated"
	Undecided  = "undecided"
	Info       = "informational"
)

// Obligation is one statement a rule had to establish about a specific construct.
// Key is rule + construct (never a line number) so that known findings and
// mutant expectations survive unrelated edits.
type Obligation struct {
	Key        string `json:"key"`
	Rule       string `json:"rule"`
	Pos        string `json:"pos"`
	Status     string `json:"status"`
	Detail     string `json:"detail,omitempty"`
	Nontrivial bool   `json:"nontrivial"`
	Config     string `json:"config,omitempty"`
	Known      bool   `json:"known_finding,omitempty"`
}

// RuleInfo documents a rule in the evidence.
type RuleInfo struct {
	ID        string `json:"id"`
	Statement string `json:"statement"`
	Engine    string `json:"engine"`
	MinInst   int    `json:"expected_min_instances"`
	Instances int    `json:"instances"`
}

// Report collects the obligations of one property run.
type Report struct {
	Property   string
	Tier       string
	Level      string
	Start      time.Time
	Rules      []*RuleInfo
	ruleByID   map[string]*RuleInfo
	Obls       []*Obligation
	keys       map[string]int
	Configs    []string
	Stats      map[string]any
	Notes      []string
	Warnings   []string
	Explain    string
	NotDecided string
	Assume     []string
	curConfig  string
	Mutants    []MutantResult
	perCfg     map[string]*cfgCount // rule@config → floor / instances
}

type cfgCount struct {
	rule, cfg string
	min, inst int
}

// MutantResult records the sensitivity self-test of the thorough tier.
type MutantResult struct {
	Name     string   `json:"name"`
	Status   string   `json:"status"` // killed | survived | skipped
	Expect   string   `json:"expected_key_substring"`
	Reported []string `json:"reported_keys,omitempty"`
	Why      string   `json:"why,omitempty"`
}

func NewReport(property, tier, level string) *Report {
	return &Report{Property: property, Tier: tier, Level: level, Start: time.Now(), ruleByID: map[string]*RuleInfo{}, keys: map[string]int{}, Stats: map[string]any{}, perCfg: map[string]*cfgCount{}}
}

// SetConfig sets the configuration label attached to subsequent obligations.
func (r *Report) SetConfig(c string) {
	r.curConfig = c
	for _, x := range r.Configs {
		if x == c {
			return
		}
	}
	r.Configs = append(r.Configs, c)
}

// Rule registers a rule with its statement and the minimum number of instances confirmed by hand.
func (r *Report) Rule(id, engine, statement string, minInst int) {
	ck := id + "@" + r.curConfig
	if c, ok := r.perCfg[ck]; ok {
		c.min = minInst
	} else {
		r.perCfg[ck] = &cfgCount{rule: id, cfg: r.curConfig, min: minInst}
	}
	if ri, ok := r.ruleByID[id]; ok {
		ri.MinInst = minInst
		if statement != "" {
			ri.Statement = statement
		}
		return
	}
	ri := &RuleInfo{ID: id, Statement: statement, Engine: engine, MinInst: minInst}
	r.ruleByID[id] = ri
	r.Rules = append(r.Rules, ri)
}

func (r *Report) add(rule, construct, pos, status, detail string, nontrivial bool) *Obligation {
	key := rule + ":" + construct
	if r.curConfig != "" && r.curConfig != "linux/amd64" {
		key += "@" + r.curConfig
	}
	if n, dup := r.keys[key]; dup {
		r.keys[key] = n + 1
		key = fmt.Sprintf("%s#%d", key, n+1)
	} else {
		r.keys[key] = 1
	}
	o := &Obligation{Key: key, Rule: rule, Pos: pos, Status: status, Detail: detail, Nontrivial: nontrivial, Config: r.curConfig}
	r.Obls = append(r.Obls, o)
	if _, ok := r.ruleByID[rule]; !ok {
		r.Rule(rule, "", "", 0)
	}
	if status != Info {
		r.ruleByID[rule].Instances++
		ck := rule + "@" + r.curConfig
		if c, ok := r.perCfg[ck]; ok {
			c.inst++
		} else {
			r.perCfg[ck] = &cfgCount{rule: rule, cfg: r.curConfig, inst: 1}
		}
	}
	return o
}

// Ok records a discharged obligation. Nontrivial means discharging needed a fact beyond existence
// (a dominating guard, a lock region, an abstract value ≠ ⊤, a data dependence).
func (r *Report) Ok(rule, construct, pos, detail string) {
	r.add(rule, construct, pos, Discharged, detail, true)
}

// OkTrivial records an obligation discharged by mere presence/enumeration.
func (r *Report) OkTrivial(rule, construct, pos, detail string) {
	r.add(rule, construct, pos, Discharged, detail, false)
}

// Fail records a violated obligation.
func (r *Report) Fail(rule, construct, pos, detail string) {
	r.add(rule, construct, pos, Violated, detail, true)
}

// Undecided records an obligation that could not be decided (treated as failure).
func (r *Report) Undecided(rule, construct, pos, detail string) {
	r.add(rule, construct, pos, Undecided, "undecided: "+detail, true)
}

// Infof records an informational observation (never affects the verdict).
func (r *Report) Infof(rule, construct, pos, format string, a ...any) {
	r.add(rule, construct, pos, Info, fmt.Sprintf(format, a...), false)
}

// Check is a convenience: Ok if cond else Fail.
func (r *Report) Check(cond bool, rule, construct, pos, okDetail, failDetail string) bool {
	if cond {
		r.Ok(rule, construct, pos, okDetail)
	} else {
		r.Fail(rule, construct, pos, failDetail)
	}
	return cond
}

// Warn adds a WARNING line (printed, kept in evidence, does not affect the verdict).
func (r *Report) Warn(format string, a ...any) {
	r.Warnings = append(r.Warnings, fmt.Sprintf(format, a...))
}

// KnownFinding is an entry of /verif/known_findings.json.
type KnownFinding struct {
	Property string `json:"property"`
	Key      string `json:"key"`
	Status   string `json:"status"` // open | fixed
	Commit   string `json:"commit,omitempty"`
	What     string `json:"what"`
	Defect   string `json:"defect,omitempty"`
}

// LoadKnown reads the committed known-findings file (never written at run time).
func LoadKnown(path string) ([]KnownFinding, error) {
	b, err := os.ReadFile(path)
	if err != nil {
		if os.IsNotExist(err) {
			return nil, nil
		}
		return nil, err
	}
	var f struct {
		Findings []KnownFinding `json:"findings"`
	}
	if err := json.Unmarshal(b, &f); err != nil {
		return nil, err
	}
	return f.Findings, nil
}

// baseKey strips the "#n" duplicate suffix.
func baseKey(k string) string {
	if i := strings.LastIndex(k, "#"); i > 0 {
		k = k[:i]
	}
	// the configuration suffix of non-primary configurations ("…@linux/386"): a finding is a finding in every configuration
	if i := strings.LastIndex(k, "@"); i > 0 && !strings.Contains(k[i:], ":") {
		k = k[:i]
	}
	return k
}

// Finish checks instance floors, matches violations against open known findings,
// writes the evidence and replay files, prints the protocol lines and returns the exit code.
func (r *Report) Finish(verifDir string, known []KnownFinding, seed int64, checkerCmd string) int {
	// instance floors: a rule that matched fewer sites than confirmed by hand is undecided
	var cks []string
	for k := range r.perCfg {
		cks = append(cks, k)
	}
	sort.Strings(cks)
	for _, k := range cks {
		c := r.perCfg[k]
		if c.inst < c.min {
			r.curConfig = c.cfg
			r.add(c.rule, "instance-floor", "-", Undecided,
				fmt.Sprintf("undecided: rule matched %d instance(s) in configuration %s, at least %d were confirmed by hand; an anchor was renamed/removed or the rule went blind", c.inst, c.cfg, c.min), true)
		}
	}
	open := map[string]KnownFinding{}
	for _, k := range known {
		if k.Property == r.Property && k.Status == "open" {
			open[k.Key] = k
		}
	}
	var viol []*Obligation
	var knownHits []KnownFinding
	for _, o := range r.Obls {
		if o.Status != Violated && o.Status != Undecided {
			continue
		}
		if k, ok := open[baseKey(o.Key)]; ok && o.Status == Violated {
			o.Known = true
			knownHits = append(knownHits, k)
			continue
		}
		viol = append(viol, o)
	}
	evDir := filepath.Join(verifDir, "evidence")
	_ = os.MkdirAll(filepath.Join(evDir, "replay"), 0o755)
	// stale replay files of this property are removed so that the directory reflects this run
	if old, _ := filepath.Glob(filepath.Join(evDir, "replay", r.Property+"-*.json")); old != nil {
		for _, f := range old {
			_ = os.Remove(f)
		}
	}
	var lines []string
	for i, o := range viol {
		rp := filepath.Join(evDir, "replay", fmt.Sprintf("%s-%d.json", r.Property, i+1))
		b, _ := json.MarshalIndent(map[string]any{
			"property": r.Property, "rule": o.Rule, "key": o.Key, "pos": o.Pos, "status": o.Status,
			"detail": o.Detail, "config": o.Config, "tier": r.Tier,
			"replay_cmd": fmt.Sprintf("/verif/bin/coapcheck -property %s -tier %s -only %q -v", r.Property, r.Tier, o.Rule),
		}, "", " ")
		_ = os.WriteFile(rp, b, 0o644)
		lines = append(lines, fmt.Sprintf("VIOLATION property=%s replay=%s", r.Property, rp))
		fmt.Printf("  %s %s at %s: %s\n", o.Status, o.Key, o.Pos, o.Detail)
	}
	r.writeEvidence(filepath.Join(evDir, r.Property+".json"), seed, checkerCmd, len(viol), knownHits)
	for _, w := range r.Warnings {
		fmt.Printf("WARNING: property=%s %s\n", r.Property, w)
	}
	seenK := map[string]bool{}
	for _, k := range knownHits {
		if seenK[k.Key] {
			continue
		}
		seenK[k.Key] = true
		fmt.Printf("KNOWN-FINDING: property=%s %s [%s]\n", r.Property, k.What, k.Key)
	}
	for _, l := range lines {
		fmt.Println(l)
	}
	nOK := 0
	for _, o := range r.Obls {
		if o.Status == Discharged {
			nOK++
		}
	}
	fmt.Printf("%s tier=%s obligations=%d discharged=%d violations=%d known=%d wall=%.1fs\n", r.Property, r.Tier, r.countObl(), nOK, len(viol), len(knownHits), time.Since(r.Start).Seconds())
	if len(viol) > 0 {
		return 1
	}
	return 0
}

func (r *Report) countObl() int {
	n := 0
	for _, o := range r.Obls {
		if o.Status != Info {
			n++
		}
	}
	return n
}

func (r *Report) writeEvidence(path string, seed int64, checkerCmd string, nviol int, knownHits []KnownFinding) {
	obl, dis, nontriv := 0, 0, 0
	distinct := map[string]bool{}
	for _, o := range r.Obls {
		if o.Status == Info {
			continue
		}
		obl++
		if o.Status == Discharged || o.Known {
			// a known finding is an obligation that was decided (as violated and listed)
		}
		if o.Status == Discharged {
			dis++
		}
		if o.Nontrivial && !distinct[baseKey(o.Key)] {
			distinct[baseKey(o.Key)] = true
			nontriv++
		}
	}
	// samples: a few discharged obligations, every violated/known one
	var samples []any
	perRule := map[string]int{}
	for _, o := range r.Obls {
		if o.Status == Discharged && o.Nontrivial && perRule[o.Rule] < 2 && len(samples) < 24 {
			perRule[o.Rule]++
			samples = append(samples, o)
		}
	}
	for _, o := range r.Obls {
		if o.Status == Violated || o.Status == Undecided {
			samples = append(samples, o)
		}
	}
	if len(samples) == 0 {
		for _, o := range r.Obls {
			samples = append(samples, o)
			if len(samples) >= 5 {
				break
			}
		}
	}
	sort.SliceStable(r.Obls, func(i, j int) bool { return r.Obls[i].Key < r.Obls[j].Key })
	cov := map[string]any{
		"evaluations":         obl,
		"distinct_nontrivial": nontriv,
		"rule":                "one evaluation = one static obligation (rule × construct) generated from /repo's current source; it is non-trivial when discharging it needed a derived fact (dominating guard, lock region, data dependence, abstract value ≠ ⊤) and distinct by its key rule:construct",
		"samples":             samples,
		"obligations":         obl,
		"discharged":          dis,
		"checker_cmd":         checkerCmd,
		"trusted_base":        []string{"go/types and go/ssa (x/tools v0.50.0) translate the source faithfully", "the transfer functions / rule tables of coapcheck", "Go memory model for sync primitives"},
		"explanation":         r.Explain,
		"not_decided":         r.NotDecided,
		"rules":               r.Rules,
		"configurations":      r.Configs,
		"all_obligations":     r.Obls,
		"stats":               r.Stats,
		"notes":               r.Notes,
		"warnings":            r.Warnings,
		"known_findings_hit":  knownHits,
		"exhaustive":          false,
	}
	if len(r.Mutants) > 0 {
		cov["mutants"] = r.Mutants
		k, s, bs, ba := 0, 0, 0, 0
		for _, m := range r.Mutants {
			switch m.Status {
			case "killed":
				k++
			case "survived":
				s++
			case "silent":
				bs++
			case "false-alarm":
				ba++
			}
		}
		cov["mutants_killed"] = k
		cov["mutants_survived"] = s
		cov["refactors_silent"] = bs
		cov["refactors_false_alarm"] = ba
	}
	ev := map[string]any{
		"property_id": r.Property,
		"tier":        r.Tier,
		"seed":        seed,
		"level":       r.Level,
		"coverage":    cov,
		"assumptions": r.Assume,
		"wall_s":      time.Since(r.Start).Seconds(),
		"violations":  nviol,
	}
	b, err := json.MarshalIndent(ev, "", " ")
	if err != nil {
		fmt.Fprintln(os.Stderr, "evidence marshal:", err)
		return
	}
	_ = os.MkdirAll(filepath.Dir(path), 0o755)
	if err := os.WriteFile(path, b, 0o644); err != nil {
		fmt.Fprintln(os.Stderr, "evidence write:", err)
	}
}

// CurConfig is the configuration obligations are currently recorded for.
func (r *Report) CurConfig() string { return r.curConfig }

// Borrow re-records the obligations rule fromRule produced in another report under asRule (a rule shared between properties:
// the same construct is a necessary condition of both).
func (r *Report) Borrow(from *Report, fromRule, asRule string) int {
	n := 0
	for _, o := range from.Obls {
		if o.Rule != fromRule || o.Status == Info {
			continue
		}
		construct := strings.TrimPrefix(o.Key, fromRule+":")
		if k := strings.Index(construct, "@"); k >= 0 {
			construct = construct[:k]
		}
		if k := strings.LastIndex(construct, "#"); k >= 0 {
			construct = construct[:k]
		}
		if construct == "instance-floor" {
			continue
		}
		r.add(asRule, construct, o.Pos, o.Status, o.Detail, o.Nontrivial)
		n++
	}
	return n
}

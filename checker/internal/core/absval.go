package core

import (
	"fmt"
	"math/big"
	"strings"
)

// ---------------------------------------------------------------------------
// Abstract values: reduced product of interval × known bits with provenance × single-symbol linear form.

// Bit kinds.
const (
	B0 uint8 = iota
	B1
	BSym
	BUnk
)

// Bit is one bit of an abstract integer / an abstract boolean.
type Bit struct {
	K   uint8
	In  string // symbol name for BSym
	Idx int
	Neg bool
}

func (b Bit) String() string {
	switch b.K {
	case B0:
		return "0"
	case B1:
		return "1"
	case BSym:
		n := ""
		if b.Neg {
			n = "!"
		}
		return fmt.Sprintf("%s%s[%d]", n, b.In, b.Idx)
	}
	return "?"
}

func (b Bit) Not() Bit {
	switch b.K {
	case B0:
		return Bit{K: B1}
	case B1:
		return Bit{K: B0}
	case BSym:
		b.Neg = !b.Neg
		return b
	}
	return b
}

func sameSym(a, b Bit) bool { return a.K == BSym && b.K == BSym && a.In == b.In && a.Idx == b.Idx }

func andBit(a, b Bit) Bit {
	switch {
	case a.K == B0 || b.K == B0:
		return Bit{K: B0}
	case a.K == B1:
		return b
	case b.K == B1:
		return a
	case sameSym(a, b):
		if a.Neg == b.Neg {
			return a
		}
		return Bit{K: B0}
	}
	return Bit{K: BUnk}
}

func orBit(a, b Bit) Bit {
	switch {
	case a.K == B1 || b.K == B1:
		return Bit{K: B1}
	case a.K == B0:
		return b
	case b.K == B0:
		return a
	case sameSym(a, b):
		if a.Neg == b.Neg {
			return a
		}
		return Bit{K: B1}
	}
	return Bit{K: BUnk}
}

func xorBit(a, b Bit) Bit {
	switch {
	case a.K == B0:
		return b
	case b.K == B0:
		return a
	case a.K == B1:
		return b.Not()
	case b.K == B1:
		return a.Not()
	case sameSym(a, b):
		if a.Neg == b.Neg {
			return Bit{K: B0}
		}
		return Bit{K: B1}
	}
	return Bit{K: BUnk}
}

// Lin is value = A·Sym + B (Sym == "" ⇒ constant B).
type Lin struct {
	Sym  string
	A, B *big.Int
}

func (l *Lin) String() string {
	if l == nil {
		return "-"
	}
	if l.Sym == "" || l.A.Sign() == 0 {
		return l.B.String()
	}
	s := l.Sym
	if l.A.Cmp(big.NewInt(1)) != 0 {
		s = l.A.String() + "·" + s
	}
	if l.B.Sign() > 0 {
		s += "+" + l.B.String()
	} else if l.B.Sign() < 0 {
		s += l.B.String()
	}
	return s
}

// Kinds of abstract values.
const (
	ATop = iota
	AInt
	ABool
	AErr
	ATuple
	ABytes
	AOpaque
	AUnit
	AStr
)

// AVal is an immutable abstract value.
type AVal struct {
	K      int
	W      int
	S      bool
	Bits   []Bit
	Lo, Hi *big.Int
	Lin    *Lin
	B      Bit
	ErrNil int // 1 nil, 0 non-nil, -1 unknown
	Tag    string
	T      []*AVal
	Arr    int // ABytes: array id in the state; -1 = nil slice
	Off    int
	Len    int
	Cap    int
	Str    string
}

func bi(x int64) *big.Int { return big.NewInt(x) }

func pow2(k int) *big.Int { return new(big.Int).Lsh(big.NewInt(1), uint(k)) }

func typeRange(w int, signed bool) (*big.Int, *big.Int) {
	if signed {
		lo := new(big.Int).Neg(pow2(w - 1))
		hi := new(big.Int).Sub(pow2(w-1), bi(1))
		return lo, hi
	}
	return bi(0), new(big.Int).Sub(pow2(w), bi(1))
}

// TopInt is the unconstrained integer of a type.
func TopInt(w int, signed bool) *AVal {
	lo, hi := typeRange(w, signed)
	v := &AVal{K: AInt, W: w, S: signed, Lo: lo, Hi: hi, Bits: make([]Bit, w)}
	for i := range v.Bits {
		v.Bits[i] = Bit{K: BUnk}
	}
	return v
}

// ConstInt makes a constant of a type (value given mathematically; wrapped into the type).
func ConstAInt(x *big.Int, w int, signed bool) *AVal {
	m := new(big.Int).Mod(x, pow2(w)) // unsigned representation
	v := &AVal{K: AInt, W: w, S: signed, Bits: make([]Bit, w)}
	for i := 0; i < w; i++ {
		if m.Bit(i) == 1 {
			v.Bits[i] = Bit{K: B1}
		} else {
			v.Bits[i] = Bit{K: B0}
		}
	}
	val := new(big.Int).Set(m)
	if signed && m.Bit(w-1) == 1 {
		val.Sub(val, pow2(w))
	}
	v.Lo, v.Hi = val, new(big.Int).Set(val)
	v.Lin = &Lin{A: bi(0), B: new(big.Int).Set(val)}
	return v
}

// SymInt makes a symbolic input: value is the symbol `name`, constrained to [lo,hi]; bits 0..nbits-1 carry provenance
// name[j], higher bits are 0 (requires 0 ≤ lo and hi < 2^nbits) – or unknown if nbits == 0.
func SymInt(name string, w int, signed bool, lo, hi *big.Int, nbits int) *AVal {
	v := &AVal{K: AInt, W: w, S: signed, Lo: lo, Hi: hi, Bits: make([]Bit, w), Lin: &Lin{Sym: name, A: bi(1), B: bi(0)}}
	for i := 0; i < w; i++ {
		switch {
		case nbits == 0:
			v.Bits[i] = Bit{K: BUnk}
		case i < nbits:
			v.Bits[i] = Bit{K: BSym, In: name, Idx: i}
		default:
			v.Bits[i] = Bit{K: B0}
		}
	}
	return v.reduce()
}

// SymBool makes a symbolic boolean input name[0].
func SymBool(name string) *AVal { return &AVal{K: ABool, B: Bit{K: BSym, In: name, Idx: 0}} }

func ConstBoolV(b bool) *AVal {
	if b {
		return &AVal{K: ABool, B: Bit{K: B1}}
	}
	return &AVal{K: ABool, B: Bit{K: B0}}
}

func TopV() *AVal              { return &AVal{K: ATop} }
func OpaqueV(tag string) *AVal { return &AVal{K: AOpaque, Tag: tag} }
func ErrV(tag string) *AVal    { return &AVal{K: AErr, ErrNil: 0, Tag: tag} }
func NilErrV() *AVal           { return &AVal{K: AErr, ErrNil: 1} }
func UnknownErrV() *AVal       { return &AVal{K: AErr, ErrNil: -1} }
func TupleV(t ...*AVal) *AVal  { return &AVal{K: ATuple, T: t} }
func StrV(s string) *AVal      { return &AVal{K: AStr, Str: s} }
func UnknownBool() *AVal       { return &AVal{K: ABool, B: Bit{K: BUnk}} }

// reduce tightens interval from bits and bits from interval.
func (v *AVal) reduce() *AVal {
	if v.K != AInt {
		return v
	}
	// interval from bits (unsigned view; for signed only when the sign bit is known 0)
	signKnown0 := !v.S || v.Bits[v.W-1].K == B0
	if signKnown0 {
		lo, hi := new(big.Int), new(big.Int)
		for i := 0; i < v.W; i++ {
			switch v.Bits[i].K {
			case B1:
				lo.SetBit(lo, i, 1)
				hi.SetBit(hi, i, 1)
			case B0:
			default:
				hi.SetBit(hi, i, 1)
			}
		}
		if v.Lo == nil || lo.Cmp(v.Lo) > 0 {
			v.Lo = lo
		}
		if v.Hi == nil || hi.Cmp(v.Hi) < 0 {
			v.Hi = hi
		}
	}
	if v.Lo == nil || v.Hi == nil {
		v.Lo, v.Hi = typeRange(v.W, v.S)
	}
	// bits from interval: if 0 ≤ lo and hi < 2^k then bits ≥ k are 0
	if v.Lo.Sign() >= 0 && v.Hi.Sign() >= 0 {
		k := v.Hi.BitLen()
		for i := k; i < v.W; i++ {
			if v.Bits[i].K != B0 {
				v.Bits[i] = Bit{K: B0}
			}
		}
	}
	// bits from interval: the bits above the highest position in which lo and hi differ are common to every value in between
	if v.Lo.Sign() >= 0 && v.Hi.Sign() >= 0 && v.Hi.BitLen() <= v.W {
		p := new(big.Int).Xor(v.Lo, v.Hi).BitLen()
		for i := p; i < v.W; i++ {
			if v.Bits[i].K == BUnk {
				if v.Lo.Bit(i) == 1 {
					v.Bits[i] = Bit{K: B1}
				} else {
					v.Bits[i] = Bit{K: B0}
				}
			}
		}
	}
	// a value whose low k bits are 0 is a multiple of 2^k: tighten the interval to multiples
	if v.Lo.Sign() >= 0 && v.Hi.Sign() >= 0 {
		k := 0
		for k < v.W && v.Bits[k].K == B0 {
			k++
		}
		if k > 0 && k < v.W {
			m := pow2(k)
			lo := new(big.Int).Add(v.Lo, new(big.Int).Sub(m, bi(1)))
			lo.Quo(lo, m).Mul(lo, m)
			hi := new(big.Int).Quo(v.Hi, m)
			hi.Mul(hi, m)
			if lo.Cmp(hi) <= 0 {
				v.Lo, v.Hi = lo, hi
			}
		}
	}
	if v.Lo.Cmp(v.Hi) == 0 {
		c := ConstAInt(v.Lo, v.W, v.S)
		v.Bits = c.Bits
		if v.Lin == nil {
			v.Lin = c.Lin
		}
	}
	return v
}

// IsConst reports the constant value.
func (v *AVal) IsConst() (*big.Int, bool) {
	if v != nil && v.K == AInt && v.Lo != nil && v.Lo.Cmp(v.Hi) == 0 {
		return v.Lo, true
	}
	return nil, false
}

// Empty reports an empty interval (infeasible).
func (v *AVal) Empty() bool { return v.K == AInt && v.Lo.Cmp(v.Hi) > 0 }

func (v *AVal) fits(w int, signed bool) bool {
	lo, hi := typeRange(w, signed)
	return v.Lo.Cmp(lo) >= 0 && v.Hi.Cmp(hi) <= 0
}

func (v *AVal) String() string {
	if v == nil {
		return "<nil>"
	}
	switch v.K {
	case ATop:
		return "⊤"
	case AInt:
		s := fmt.Sprintf("int%d[%s,%s]", v.W, v.Lo, v.Hi)
		if v.Lin != nil {
			s += " =" + v.Lin.String()
		}
		s += " bits=" + v.BitString()
		return s
	case ABool:
		return "bool:" + v.B.String()
	case AErr:
		switch v.ErrNil {
		case 1:
			return "err:nil"
		case 0:
			return "err:non-nil(" + v.Tag + ")"
		}
		return "err:?"
	case ATuple:
		var ss []string
		for _, t := range v.T {
			ss = append(ss, t.String())
		}
		return "(" + strings.Join(ss, ", ") + ")"
	case ABytes:
		if v.Arr < 0 {
			return "bytes:nil"
		}
		return fmt.Sprintf("bytes#%d[%d:%d]", v.Arr, v.Off, v.Off+v.Len)
	case AOpaque:
		return "opaque:" + v.Tag
	case AStr:
		return fmt.Sprintf("%q", v.Str)
	case AUnit:
		return "()"
	}
	return "?"
}

// BitString renders bits LSB-first, compressing runs: "szx[0..2] more[0] num[0..19] 0×8".
func (v *AVal) BitString() string {
	if v.K != AInt {
		return ""
	}
	var parts []string
	i := 0
	for i < v.W {
		b := v.Bits[i]
		j := i + 1
		switch b.K {
		case BSym:
			for j < v.W && v.Bits[j].K == BSym && v.Bits[j].In == b.In && v.Bits[j].Neg == b.Neg && v.Bits[j].Idx == b.Idx+(j-i) {
				j++
			}
			n := ""
			if b.Neg {
				n = "!"
			}
			if j-i == 1 {
				parts = append(parts, fmt.Sprintf("%s%s[%d]", n, b.In, b.Idx))
			} else {
				parts = append(parts, fmt.Sprintf("%s%s[%d..%d]", n, b.In, b.Idx, b.Idx+(j-i)-1))
			}
		default:
			for j < v.W && v.Bits[j].K == b.K {
				j++
			}
			if j-i == 1 {
				parts = append(parts, b.String())
			} else {
				parts = append(parts, fmt.Sprintf("%s×%d", b.String(), j-i))
			}
		}
		i = j
	}
	return strings.Join(parts, " ")
}

// substitute applies bit assumptions (symbol bit → constant).
func (v *AVal) substitute(assume map[string]bool) *AVal {
	if len(assume) == 0 || v == nil {
		return v
	}
	sub := func(b Bit) (Bit, bool) {
		if b.K != BSym {
			return b, false
		}
		val, ok := assume[fmt.Sprintf("%s[%d]", b.In, b.Idx)]
		if !ok {
			return b, false
		}
		if b.Neg {
			val = !val
		}
		if val {
			return Bit{K: B1}, true
		}
		return Bit{K: B0}, true
	}
	switch v.K {
	case ABool:
		if nb, ch := sub(v.B); ch {
			return &AVal{K: ABool, B: nb}
		}
	case AInt:
		changed := false
		var nb []Bit
		for i, b := range v.Bits {
			if x, ch := sub(b); ch {
				if !changed {
					nb = append([]Bit{}, v.Bits...)
					changed = true
				}
				nb[i] = x
			}
		}
		if changed {
			c := *v
			c.Bits = nb
			c.Lo, c.Hi = new(big.Int).Set(v.Lo), new(big.Int).Set(v.Hi)
			return (&c).reduce()
		}
	case ATuple:
		var nt []*AVal
		ch := false
		for _, t := range v.T {
			s := t.substitute(assume)
			if s != t {
				ch = true
			}
			nt = append(nt, s)
		}
		if ch {
			return &AVal{K: ATuple, T: nt}
		}
	}
	return v
}

// ---------------------------------------------------------------------------
// integer transfer functions (result type w/signed given by the SSA instruction)

func linAdd(a, b *Lin, sub bool) *Lin {
	if a == nil || b == nil {
		return nil
	}
	bb, ba := b.B, b.A
	if sub {
		bb, ba = new(big.Int).Neg(b.B), new(big.Int).Neg(b.A)
	}
	switch {
	case a.Sym == "" || a.A.Sign() == 0:
		return &Lin{Sym: b.Sym, A: ba, B: new(big.Int).Add(a.B, bb)}
	case b.Sym == "" || b.A.Sign() == 0:
		return &Lin{Sym: a.Sym, A: a.A, B: new(big.Int).Add(a.B, bb)}
	case a.Sym == b.Sym:
		return &Lin{Sym: a.Sym, A: new(big.Int).Add(a.A, ba), B: new(big.Int).Add(a.B, bb)}
	}
	return nil
}

func linMulConst(a *Lin, c *big.Int) *Lin {
	if a == nil {
		return nil
	}
	return &Lin{Sym: a.Sym, A: new(big.Int).Mul(a.A, c), B: new(big.Int).Mul(a.B, c)}
}

// wrapResult builds the result of an arithmetic op whose mathematical interval is [lo,hi]; reports whether it may wrap.
func wrapResult(lo, hi *big.Int, lin *Lin, bits []Bit, w int, signed bool) (*AVal, bool) {
	tlo, thi := typeRange(w, signed)
	v := &AVal{K: AInt, W: w, S: signed}
	if bits != nil {
		v.Bits = bits
	} else {
		v.Bits = make([]Bit, w)
		for i := range v.Bits {
			v.Bits[i] = Bit{K: BUnk}
		}
	}
	if lo.Cmp(tlo) >= 0 && hi.Cmp(thi) <= 0 {
		v.Lo, v.Hi, v.Lin = lo, hi, lin
		return v.reduce(), false
	}
	v.Lo, v.Hi = tlo, thi
	return v.reduce(), true
}

func disjointBits(a, b *AVal) bool {
	for i := 0; i < a.W && i < b.W; i++ {
		if a.Bits[i].K != B0 && b.Bits[i].K != B0 {
			return false
		}
	}
	return true
}

func addV(a, b *AVal, w int, signed bool) (*AVal, bool) {
	lo := new(big.Int).Add(a.Lo, b.Lo)
	hi := new(big.Int).Add(a.Hi, b.Hi)
	var bits []Bit
	if a.W == w && b.W == w && disjointBits(a, b) {
		bits = make([]Bit, w)
		for i := 0; i < w; i++ {
			bits[i] = orBit(a.Bits[i], b.Bits[i])
		}
	}
	return wrapResult(lo, hi, linAdd(a.Lin, b.Lin, false), bits, w, signed)
}

func subV(a, b *AVal, w int, signed bool) (*AVal, bool) {
	lo := new(big.Int).Sub(a.Lo, b.Hi)
	hi := new(big.Int).Sub(a.Hi, b.Lo)
	lin := linAdd(a.Lin, b.Lin, true)
	// same symbol, exact difference
	if lin != nil && (lin.Sym == "" || lin.A.Sign() == 0) {
		lo, hi = new(big.Int).Set(lin.B), new(big.Int).Set(lin.B)
	}
	// b's possibly-set bits are bits of a itself (x - x%2^k, x - (x & mask)): no borrow, those bits are cleared
	var bits []Bit
	if a.W == w && b.W == w && a.Lo.Sign() >= 0 && b.Lo.Sign() >= 0 {
		sub := true
		for i := 0; i < w; i++ {
			if b.Bits[i].K != B0 && !sameSym(a.Bits[i], b.Bits[i]) {
				sub = false
			}
		}
		if sub {
			bits = make([]Bit, w)
			for i := 0; i < w; i++ {
				if b.Bits[i].K == B0 {
					bits[i] = a.Bits[i]
				} else {
					bits[i] = Bit{K: B0}
				}
			}
			if lo.Sign() < 0 {
				lo = bi(0)
			}
		}
	}
	return wrapResult(lo, hi, lin, bits, w, signed)
}

func mulV(a, b *AVal, w int, signed bool) (*AVal, bool) {
	// multiplication by a constant power of two is a shift (keeps bit provenance)
	for _, pr := range [][2]*AVal{{a, b}, {b, a}} {
		if k, ok := pr[1].IsConst(); ok && k.Sign() > 0 && k.BitLen() < 64 && new(big.Int).And(k, new(big.Int).Sub(k, bi(1))).Sign() == 0 && pr[0].W == w {
			return shlV(pr[0], k.BitLen()-1, w, signed)
		}
	}
	c := []*big.Int{new(big.Int).Mul(a.Lo, b.Lo), new(big.Int).Mul(a.Lo, b.Hi), new(big.Int).Mul(a.Hi, b.Lo), new(big.Int).Mul(a.Hi, b.Hi)}
	lo, hi := c[0], c[0]
	for _, x := range c[1:] {
		if x.Cmp(lo) < 0 {
			lo = x
		}
		if x.Cmp(hi) > 0 {
			hi = x
		}
	}
	var lin *Lin
	if k, ok := b.IsConst(); ok {
		lin = linMulConst(a.Lin, k)
	} else if k, ok := a.IsConst(); ok {
		lin = linMulConst(b.Lin, k)
	}
	return wrapResult(lo, hi, lin, nil, w, signed)
}

func quoV(a, b *AVal, w int, signed bool) *AVal {
	if k, ok := b.IsConst(); ok && k.Sign() > 0 && a.Lo.Sign() >= 0 {
		v := &AVal{K: AInt, W: w, S: signed, Lo: new(big.Int).Quo(a.Lo, k), Hi: new(big.Int).Quo(a.Hi, k), Bits: TopInt(w, signed).Bits}
		return v.reduce()
	}
	return TopInt(w, signed)
}

func remV(a, b *AVal, w int, signed bool) *AVal {
	if k, ok := b.IsConst(); ok && k.Sign() > 0 && a.Lo.Sign() >= 0 {
		v := &AVal{K: AInt, W: w, S: signed, Lo: bi(0), Hi: new(big.Int).Sub(k, bi(1)), Bits: TopInt(w, signed).Bits}
		if a.Hi.Cmp(k) < 0 {
			return a
		}
		// modulo a power of two keeps the low bits (with their provenance)
		if new(big.Int).And(k, new(big.Int).Sub(k, bi(1))).Sign() == 0 && a.W == w {
			j := k.BitLen() - 1
			for i := 0; i < w; i++ {
				if i < j {
					v.Bits[i] = a.Bits[i]
				} else {
					v.Bits[i] = Bit{K: B0}
				}
			}
		}
		return v.reduce()
	}
	return TopInt(w, signed)
}

func bitwiseV(a, b *AVal, w int, signed bool, f func(Bit, Bit) Bit) *AVal {
	v := &AVal{K: AInt, W: w, S: signed, Bits: make([]Bit, w)}
	for i := 0; i < w; i++ {
		var x, y Bit
		if i < a.W {
			x = a.Bits[i]
		}
		if i < b.W {
			y = b.Bits[i]
		}
		v.Bits[i] = f(x, y)
	}
	return v.reduce()
}

func shlV(a *AVal, k int, w int, signed bool) (*AVal, bool) {
	bits := make([]Bit, w)
	lost := false
	for i := 0; i < w; i++ {
		if i-k >= 0 && i-k < a.W {
			bits[i] = a.Bits[i-k]
		} else {
			bits[i] = Bit{K: B0}
		}
	}
	for i := w - k; i < a.W; i++ {
		if i >= 0 && a.Bits[i].K != B0 {
			lost = true
		}
	}
	lo := new(big.Int).Lsh(a.Lo, uint(k))
	hi := new(big.Int).Lsh(a.Hi, uint(k))
	if a.Lo.Sign() < 0 {
		lo = new(big.Int).Mul(a.Lo, pow2(k))
	}
	v, wrapped := wrapResult(lo, hi, linMulConst(a.Lin, pow2(k)), bits, w, signed)
	return v, wrapped || lost
}

func shrV(a *AVal, k int, w int, signed bool) *AVal {
	bits := make([]Bit, w)
	for i := 0; i < w; i++ {
		switch {
		case i+k < a.W:
			bits[i] = a.Bits[i+k]
		case a.S:
			bits[i] = a.Bits[a.W-1] // arithmetic shift replicates the sign bit
		default:
			bits[i] = Bit{K: B0}
		}
	}
	v := &AVal{K: AInt, W: w, S: signed, Bits: bits}
	if a.Lo.Sign() >= 0 {
		v.Lo = new(big.Int).Rsh(a.Lo, uint(k))
		v.Hi = new(big.Int).Rsh(a.Hi, uint(k))
	}
	return v.reduce()
}

// convertV converts between integer types; reports whether information may be lost (value does not fit the target).
func convertV(a *AVal, w int, signed bool) (*AVal, bool) {
	bits := make([]Bit, w)
	for i := 0; i < w; i++ {
		switch {
		case i < a.W:
			bits[i] = a.Bits[i]
		case a.S:
			bits[i] = a.Bits[a.W-1]
		default:
			bits[i] = Bit{K: B0}
		}
	}
	v := &AVal{K: AInt, W: w, S: signed, Bits: bits}
	if a.fits(w, signed) {
		v.Lo, v.Hi, v.Lin = new(big.Int).Set(a.Lo), new(big.Int).Set(a.Hi), a.Lin
		return v.reduce(), false
	}
	// a wholly negative signed range converted to an unsigned type of at least its width: the two's-complement image, exactly
	// (`uint64(n) > max` as the refusal of negative n)
	if !signed && a.S && w >= a.W && a.Lo != nil && a.Hi != nil && a.Hi.Sign() < 0 {
		v.Lo, v.Hi = new(big.Int).Add(a.Lo, pow2(w)), new(big.Int).Add(a.Hi, pow2(w))
		return v.reduce(), true
	}
	return v.reduce(), true
}

// cmpV evaluates a comparison; returns an ABool (possibly unknown or a symbolic bit).
func cmpV(op string, a, b *AVal) *AVal {
	if a.K != AInt || b.K != AInt {
		return UnknownBool()
	}
	// exact via linear forms on the same symbol with equal coefficient
	if a.Lin != nil && b.Lin != nil && a.Lin.Sym == b.Lin.Sym && a.Lin.Sym != "" && a.Lin.A.Cmp(b.Lin.A) == 0 {
		d := new(big.Int).Sub(a.Lin.B, b.Lin.B).Sign()
		switch op {
		case "<":
			return ConstBoolV(d < 0)
		case "<=":
			return ConstBoolV(d <= 0)
		case ">":
			return ConstBoolV(d > 0)
		case ">=":
			return ConstBoolV(d >= 0)
		case "==":
			return ConstBoolV(d == 0)
		case "!=":
			return ConstBoolV(d != 0)
		}
	}
	lt := a.Hi.Cmp(b.Lo) < 0  // always a<b
	le := a.Hi.Cmp(b.Lo) <= 0 // always a<=b
	gt := a.Lo.Cmp(b.Hi) > 0
	ge := a.Lo.Cmp(b.Hi) >= 0
	switch op {
	case "<":
		if lt {
			return ConstBoolV(true)
		}
		if ge {
			return ConstBoolV(false)
		}
	case "<=":
		if le {
			return ConstBoolV(true)
		}
		if gt {
			return ConstBoolV(false)
		}
	case ">":
		if gt {
			return ConstBoolV(true)
		}
		if le {
			return ConstBoolV(false)
		}
	case ">=":
		if ge {
			return ConstBoolV(true)
		}
		if lt {
			return ConstBoolV(false)
		}
	case "==", "!=":
		eq := op == "=="
		if lt || gt {
			return ConstBoolV(!eq)
		}
		ca, oka := a.IsConst()
		cb, okb := b.IsConst()
		if oka && okb {
			return ConstBoolV((ca.Cmp(cb) == 0) == eq)
		}
		// x ==/!= 0 where x has exactly one possibly-set bit that is symbolic
		var x *AVal
		if okb && cb.Sign() == 0 {
			x = a
		} else if oka && ca.Sign() == 0 {
			x = b
		}
		if x != nil {
			n, idx := 0, -1
			for i, bt := range x.Bits {
				if bt.K != B0 {
					n++
					idx = i
				}
			}
			if n == 1 && x.Bits[idx].K == BSym {
				r := x.Bits[idx] // x != 0 ⇔ bit
				if eq {
					r = r.Not()
				}
				return &AVal{K: ABool, B: r}
			}
		}
		// x ==/!= c where the two agree on every known bit and differ in knowledge at exactly one position: a symbolic bit of x
		// against a known bit of c (`v&mask == mask`)
		if a.W == b.W {
			n, idx, agree := 0, -1, true
			var sym, known Bit
			for i := 0; i < a.W; i++ {
				ba, bb := a.Bits[i], b.Bits[i]
				ka, kb := ba.K == B0 || ba.K == B1, bb.K == B0 || bb.K == B1
				switch {
				case ka && kb:
					if ba.K != bb.K {
						agree = false
					}
				case ba.K == BSym && kb:
					n, idx, sym, known = n+1, i, ba, bb
				case bb.K == BSym && ka:
					n, idx, sym, known = n+1, i, bb, ba
				default:
					n += 2
				}
			}
			if agree && n == 1 && idx >= 0 {
				r := sym // equal ⇔ the symbolic bit has the known bit's value
				if known.K == B0 {
					r = r.Not()
				}
				if !eq {
					r = r.Not()
				}
				return &AVal{K: ABool, B: r}
			}
		}
		// bitwise disagreement on a known bit
		for i := 0; i < a.W && i < b.W; i++ {
			if (a.Bits[i].K == B0 && b.Bits[i].K == B1) || (a.Bits[i].K == B1 && b.Bits[i].K == B0) {
				return ConstBoolV(!eq)
			}
		}
	}
	// x > 0 / x >= 1 with one symbolic bit
	if (op == ">" || op == ">=") && a.Lo.Sign() >= 0 {
		if k, ok := b.IsConst(); ok && ((op == ">" && k.Sign() == 0) || (op == ">=" && k.Cmp(bi(1)) == 0)) {
			return cmpV("!=", a, ConstAInt(bi(0), a.W, a.S))
		}
	}
	return UnknownBool()
}

// Reduce re-normalises a hand-built abstract integer (interval ↔ bits).
func Reduce(v *AVal) *AVal { return v.reduce() }

// AddConst returns v + k in v's type (for building relational input cells such as s and s+d).
func AddConst(v *AVal, k int64) (*AVal, bool) {
	return addV(v, ConstAInt(bi(k), v.W, v.S), v.W, v.S)
}

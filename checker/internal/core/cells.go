package core

import (
	"go/token"

	"golang.org/x/tools/go/ssa"
)

// go/ssa spills every local variable that is captured by a closure (or has its address taken) into a
// heap cell: `t0 = new T (x); *t0 = x`, closures capture t0 as a FreeVar and read `*x`.
// The helpers below see through such cells so that rules can speak about "the parameter value".

// CellOf returns the Alloc that addr denotes: addr is the Alloc itself or a FreeVar bound (transitively) to one.
func CellOf(addr ssa.Value) *ssa.Alloc {
	for i := 0; i < 8; i++ {
		switch x := addr.(type) {
		case *ssa.Alloc:
			return x
		case *ssa.FreeVar:
			b := BindingOf(x)
			if b == nil {
				return nil
			}
			addr = b
		default:
			return nil
		}
	}
	return nil
}

// BindingOf returns the value bound to a free variable at the MakeClosure site of its function.
func BindingOf(fv *ssa.FreeVar) ssa.Value {
	anon := fv.Parent()
	if anon == nil {
		return nil
	}
	_, bind := ClosureBindings(anon)
	return bind[fv]
}

// StoresToCell lists every Store whose address is the cell: in the defining function and in all closures capturing it.
func StoresToCell(a *ssa.Alloc) []*ssa.Store {
	var out []*ssa.Store
	var visit func(addr ssa.Value, depth int)
	visit = func(addr ssa.Value, depth int) {
		if depth > 6 {
			return
		}
		for _, r := range Referrers(addr) {
			switch u := r.(type) {
			case *ssa.Store:
				if u.Addr == addr {
					out = append(out, u)
				}
			case *ssa.MakeClosure:
				fn, ok := u.Fn.(*ssa.Function)
				if !ok {
					continue
				}
				for i, b := range u.Bindings {
					if b == addr && i < len(fn.FreeVars) {
						visit(fn.FreeVars[i], depth+1)
					}
				}
			}
		}
	}
	visit(a, 0)
	return out
}

// CellEscapes reports whether the cell's address is used other than by load/store/closure capture/debug
// (e.g. passed to a call), in which case its content cannot be tracked.
func CellEscapes(a *ssa.Alloc) bool {
	esc := false
	var visit func(addr ssa.Value, depth int)
	visit = func(addr ssa.Value, depth int) {
		if depth > 6 {
			esc = true
			return
		}
		for _, r := range Referrers(addr) {
			switch u := r.(type) {
			case *ssa.Store:
				if u.Val == addr {
					esc = true
				}
			case *ssa.UnOp, *ssa.DebugRef:
			case *ssa.MakeClosure:
				fn, ok := u.Fn.(*ssa.Function)
				if !ok {
					esc = true
					continue
				}
				for i, b := range u.Bindings {
					if b == addr && i < len(fn.FreeVars) {
						visit(fn.FreeVars[i], depth+1)
					}
				}
			case *ssa.FieldAddr, *ssa.IndexAddr:
				// struct-typed local: not a scalar cell
				esc = true
			default:
				esc = true
			}
		}
	}
	visit(a, 0)
	return esc
}

// Resolve canonicalises a value: conversions are stripped, a free variable captured by value is replaced by its
// binding, and a load from a single-assignment cell is replaced by the stored value (in the defining function's frame).
func Resolve(v ssa.Value) ssa.Value {
	for i := 0; i < 12; i++ {
		v = Unwrap(v)
		switch x := v.(type) {
		case *ssa.FreeVar:
			// captured by value (non-pointer capture of an SSA value) – only when the binding is not an Alloc cell address
			b := BindingOf(x)
			if b == nil {
				return v
			}
			if _, isAlloc := b.(*ssa.Alloc); isAlloc {
				return v // address of a cell: leave (callers load from it)
			}
			if _, isFV := b.(*ssa.FreeVar); isFV {
				v = b
				continue
			}
			v = b
			continue
		case *ssa.Parameter:
			// parameter of an absorbed helper with a single call site: the argument of that call (absorb.go)
			g := x.Parent()
			sites := SitesOf(g)
			if len(sites) != 1 || sites[0].Common().IsInvoke() {
				return v
			}
			idx := -1
			for k, q := range g.Params {
				if q == x {
					idx = k
				}
			}
			if idx < 0 || idx >= len(sites[0].Common().Args) {
				return v
			}
			v = sites[0].Common().Args[idx]
			continue
		case *ssa.Extract:
			if c, ok := x.Tuple.(*ssa.Call); ok {
				if h := AbsorbedCallee(c); h != nil {
					if rv := uniqueResult(h, x.Index); rv != nil {
						v = rv
						continue
					}
				}
			}
			return v
		case *ssa.Call:
			if h := AbsorbedCallee(x); h != nil && h.Signature.Results().Len() == 1 {
				if rv := uniqueResult(h, 0); rv != nil {
					v = rv
					continue
				}
			}
			return v
		case *ssa.UnOp:
			if x.Op != token.MUL {
				return v
			}
			a := CellOf(x.X)
			if a == nil {
				if fv := fieldOfHelperStruct(x); fv != nil {
					v = fv
					continue
				}
				return v
			}
			st := StoresToCell(a)
			if len(st) != 1 || CellEscapes(a) {
				return v
			}
			v = st[0].Val
			continue
		}
		return v
	}
	return v
}

// fieldOfHelperStruct: ld reads field f of a struct whose construction the analysis can see – built and returned by a helper
// analysed as part of this function (`res := expand(…); use(res.pattern)`), or the receiver of a method that is a closure in all
// but syntax (`op := loadOp{now: t}; m.Replace(k, op.onReplace)` – inside onReplace, op.now is t): the one value ever stored into
// that field. nil when the field is written more than once or the struct's origin is not visible.
func fieldOfHelperStruct(ld *ssa.UnOp) ssa.Value {
	fa, ok := ld.X.(*ssa.FieldAddr)
	if !ok {
		return nil
	}
	// only for structs that cross a function boundary the analysis looks through; a struct built and read in one function is
	// left to the flow-sensitive ForwardFieldLoad
	if !crossesBoundary(fa.X, ld.Parent(), 0) {
		return nil
	}
	return structFieldValue(fa.X, fa.Field, 0)
}

func crossesBoundary(base ssa.Value, fn *ssa.Function, d int) bool {
	if d > 6 {
		return false
	}
	switch x := unwrapNoPath(base).(type) {
	case *ssa.Parameter:
		return true
	case *ssa.Call, *ssa.Extract:
		return true
	case *ssa.FreeVar:
		return true
	case *ssa.UnOp:
		return x.Op == token.MUL && crossesBoundary(x.X, fn, d+1)
	case *ssa.Alloc:
		if x.Parent() != fn {
			return true
		}
		// a local copy of a by-value receiver / parameter / helper result
		for _, u := range Referrers(x) {
			if st, isSt := u.(*ssa.Store); isSt && st.Addr == ssa.Value(x) {
				if crossesBoundary(st.Val, fn, d+1) {
					return true
				}
			}
		}
	}
	return false
}

// structFieldValue: the single value stored into field #field of the struct `base` denotes (a struct value, a pointer to one, or a
// variable holding one).
func structFieldValue(base ssa.Value, field, d int) ssa.Value {
	if d > 10 || base == nil {
		return nil
	}
	switch x := unwrapNoPath(base).(type) {
	case *ssa.UnOp:
		if x.Op == token.MUL {
			return structFieldValue(x.X, field, d+1)
		}
	case *ssa.FreeVar:
		return structFieldValue(BindingOf(x), field, d+1)
	case *ssa.Parameter:
		g := x.Parent()
		if b := BinderOf(g); b != nil && len(g.Params) > 0 && g.Params[0] == x {
			// the receiver of a method used only as one method value: the value bound there
			var bound ssa.Value
			n := 0
			InstrsOwn(b, func(in ssa.Instruction) {
				if mk, isMk := in.(*ssa.MakeClosure); isMk && len(mk.Bindings) == 1 {
					if w, isF := mk.Fn.(*ssa.Function); isF {
						if t, shift := MethodBehind(w); shift == 1 && t == bodyOf(g) {
							bound = mk.Bindings[0]
							n++
						}
					}
				}
			})
			if n == 1 {
				return structFieldValue(bound, field, d+1)
			}
			return nil
		}
		sites := SitesOf(g)
		if len(sites) == 1 && !sites[0].Common().IsInvoke() {
			for k, q := range g.Params {
				if q == x && k < len(sites[0].Common().Args) {
					return structFieldValue(sites[0].Common().Args[k], field, d+1)
				}
			}
		}
	case *ssa.Call:
		if h := AbsorbedCallee(x); h != nil && h.Signature.Results().Len() == 1 {
			return structFieldValue(uniqueResult(h, 0), field, d+1)
		}
	case *ssa.Extract:
		if c, ok := x.Tuple.(*ssa.Call); ok {
			if h := AbsorbedCallee(c); h != nil {
				return structFieldValue(uniqueResult(h, x.Index), field, d+1)
			}
		}
	case *ssa.Alloc:
		var val ssa.Value
		n := 0
		for _, u := range Referrers(x) {
			switch r := u.(type) {
			case *ssa.FieldAddr:
				if r.Field != field {
					continue
				}
				for _, uu := range Referrers(r) {
					if st, isSt := uu.(*ssa.Store); isSt && st.Addr == ssa.Value(r) {
						n++
						val = st.Val
					}
				}
			case *ssa.Store:
				if r.Addr == ssa.Value(x) {
					// assigned as a whole: the field of what is assigned
					if v := structFieldValue(r.Val, field, d+1); v != nil {
						n++
						val = v
					} else {
						n += 2
					}
				}
			}
		}
		if n == 1 {
			return val
		}
	}
	return nil
}

// CellName returns the source name of the variable a cell address denotes ("" if unknown).
func CellName(addr ssa.Value) string {
	if a := CellOf(addr); a != nil {
		return a.Comment
	}
	return ""
}

// RetVal returns the value a Return yields for result i, looking through go/ssa's spilling of results:
// functions with defers store each result into a local cell, run the defers and return loads of those cells.
// The last store into the cell in the returning block is the value.
func RetVal(ret *ssa.Return, i int) ssa.Value {
	return onActivePath(retVal(ret, i))
}

func retVal(ret *ssa.Return, i int) ssa.Value {
	if i >= len(ret.Results) {
		return nil
	}
	v := ret.Results[i]
	ld, ok := v.(*ssa.UnOp)
	if !ok || ld.Op != token.MUL {
		return v
	}
	a, ok := ld.X.(*ssa.Alloc)
	if !ok || ld.Block() != ret.Block() {
		return v
	}
	var last ssa.Value
	for _, in := range ret.Block().Instrs {
		if in == ssa.Instruction(ld) {
			break
		}
		if st, ok := in.(*ssa.Store); ok && st.Addr == ssa.Value(a) {
			last = st.Val
		}
	}
	if last != nil {
		return last
	}
	return v
}

// RetVals returns all result values of a Return (see RetVal).
func RetVals(ret *ssa.Return) []ssa.Value {
	out := make([]ssa.Value, len(ret.Results))
	for i := range ret.Results {
		out[i] = RetVal(ret, i)
	}
	return out
}

// uniqueResult: the one value result idx of helper h can carry besides the zero value (nil / false / 0 on early error
// returns): the caller only uses the result on the path where it is meaningful.
func uniqueResult(h *ssa.Function, idx int) ssa.Value {
	var out ssa.Value
	for _, r := range ReturnsOf(h) {
		if idx >= len(r.Results) {
			return nil
		}
		rv := RetVal(r, idx)
		if c, ok := Unwrap(rv).(*ssa.Const); ok {
			if c.Value == nil || c.IsNil() {
				continue
			}
			if k, isK := ConstInt(c); isK && k == 0 {
				continue
			}
			if b, isB := ConstBool(c); isB && !b {
				continue
			}
		}
		if out != nil && out != rv {
			return nil
		}
		out = rv
	}
	return out
}

// ResolveAll is Resolve for values that may stand for several caller values: a parameter of an absorbed helper with more than
// one call site resolves to the argument of each site. A property "v is X" must then hold for every element.
func ResolveAll(v ssa.Value) []ssa.Value {
	return resolveAllD(v, 0)
}

func resolveAllD(v ssa.Value, d int) []ssa.Value {
	r := Resolve(v)
	p, ok := r.(*ssa.Parameter)
	if !ok || d > absorbDepth {
		return []ssa.Value{r}
	}
	g := p.Parent()
	sites := SitesOf(g)
	if len(sites) < 2 {
		return []ssa.Value{r}
	}
	idx := -1
	for k, q := range g.Params {
		if q == p {
			idx = k
		}
	}
	var out []ssa.Value
	for _, s := range sites {
		if s.Common().IsInvoke() || idx < 0 || idx >= len(s.Common().Args) {
			return []ssa.Value{r}
		}
		out = append(out, resolveAllD(s.Common().Args[idx], d+1)...)
	}
	return out
}

// ResolveIn is ResolveAll restricted to the call sites that lie in root's region (root itself, its closures, and the helpers
// absorbed into them): what the value can be when the code runs as part of root.
func ResolveIn(root *ssa.Function, v ssa.Value) []ssa.Value {
	return resolveInD(root, v, 0)
}

func inRegion(root, f *ssa.Function) bool {
	for f != nil {
		if f == root || len(CallChains(root, f)) > 0 {
			return true
		}
		for _, a := range WithAnon(root) {
			if a == f || len(CallChains(a, f)) > 0 {
				return true
			}
		}
		f = f.Parent()
	}
	return false
}

func resolveInD(root *ssa.Function, v ssa.Value, d int) []ssa.Value {
	r := Resolve(v)
	p, ok := r.(*ssa.Parameter)
	if !ok || d > absorbDepth {
		return []ssa.Value{r}
	}
	g := p.Parent()
	sites := SitesOf(g)
	if len(sites) < 2 {
		return []ssa.Value{r}
	}
	idx := -1
	for k, q := range g.Params {
		if q == p {
			idx = k
		}
	}
	var out []ssa.Value
	for _, s := range sites {
		if !inRegion(root, s.Parent()) {
			continue
		}
		if s.Common().IsInvoke() || idx < 0 || idx >= len(s.Common().Args) {
			return []ssa.Value{r}
		}
		out = append(out, resolveInD(root, s.Common().Args[idx], d+1)...)
	}
	if len(out) == 0 {
		return []ssa.Value{r}
	}
	return out
}

// ForwardFieldLoad: for a load of a struct field, the value of the last store to that same field (same access path) that
// dominates the load in the same function, provided no other store to the field lies between them on a dominating chain.
// Used where a value is published into a field and read back in the same critical section (x.f = v; use(x.f)).
func ForwardFieldLoad(v ssa.Value) ssa.Value {
	ld, ok := Unwrap(v).(*ssa.UnOp)
	if !ok || ld.Op != token.MUL {
		return v
	}
	fa, ok := ld.X.(*ssa.FieldAddr)
	if !ok {
		return v
	}
	path := AccessPath(fa)
	var best *ssa.Store
	InstrsOwn(ld.Parent(), func(in ssa.Instruction) {
		st, isSt := in.(*ssa.Store)
		if !isSt {
			return
		}
		sfa, isFA := st.Addr.(*ssa.FieldAddr)
		if !isFA || sfa.Field != fa.Field || AccessPath(sfa) != path {
			return
		}
		if !Dominates(st, ld) {
			return
		}
		if best == nil || Dominates(best, st) {
			best = st
		}
	})
	if best == nil {
		return v
	}
	return best.Val
}

// ReceiverBinding: for the receiver parameter of a method that is a closure in all but syntax (its only use is one method value),
// the value bound as receiver where that method value is created; nil for anything else.
func ReceiverBinding(v ssa.Value) ssa.Value {
	x, ok := unwrapNoPath(v).(*ssa.Parameter)
	if !ok {
		return nil
	}
	g := x.Parent()
	b := BinderOf(g)
	if b == nil || len(g.Params) == 0 || g.Params[0] != x {
		return nil
	}
	var bound ssa.Value
	n := 0
	InstrsOwn(b, func(in ssa.Instruction) {
		if mk, isMk := in.(*ssa.MakeClosure); isMk && len(mk.Bindings) == 1 {
			if w, isF := mk.Fn.(*ssa.Function); isF {
				if t, shift := MethodBehind(w); shift == 1 && t == bodyOf(g) {
					bound = mk.Bindings[0]
					n++
				}
			}
		}
	})
	if n == 1 {
		return bound
	}
	return nil
}

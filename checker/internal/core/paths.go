package core

import (
	"fmt"
	"go/token"
	"go/types"
	"strings"

	"golang.org/x/tools/go/ssa"
)

// PathQuery searches a function's CFG for a path that reaches a target instruction
// without executing a stop instruction. Deferred calls are modelled: a Defer instruction
// for which DeferStop is true "arms" the path, and the next RunDefers then counts as a stop.
type PathQuery struct {
	Fn        *ssa.Function
	From      ssa.Instruction // search starts after this instruction; nil = function entry
	Stop      func(ssa.Instruction) bool
	Target    func(ssa.Instruction) bool
	DeferStop func(*ssa.Defer) bool
	// EdgeOK, if set, is consulted for every conditional edge (If instruction, branch taken);
	// returning false prunes the edge (used to follow only the err==nil / err!=nil side).
	EdgeOK func(i *ssa.If, branch bool) bool
	// Track lists variable cells (Alloc or captured FreeVar addresses) whose last stored value along the path is remembered;
	// Target/Stop may ask for it with Tracked (a result variable assigned in branches and returned once at the end).
	Track []ssa.Value
	cur   []cellFact
}

type cellFact struct {
	addr ssa.Value
	val  ssa.Value
}

// Tracked returns the value last stored into the tracked cell on the path being examined (nil: no store yet on this path).
func (q *PathQuery) Tracked(addr ssa.Value) ssa.Value {
	for _, c := range q.cur {
		if c.addr == addr {
			return c.val
		}
	}
	return nil
}

// pframe is one activation on the search stack: the next instruction to run is fn-block b, index i.
type pframe struct {
	b     *ssa.BasicBlock
	prevB *ssa.BasicBlock // the block this one was entered from (selects φ edges)
	i     int
	armed bool                // a deferred stop is pending in this activation
	defs  []*ssa.Defer        // deferred calls of absorbed helpers passed so far (run at RunDefers)
	call  ssa.CallInstruction // the instruction of the caller that created this activation (nil for the root)
}

type pnode struct {
	stack []pframe // innermost last
	binds []retBind
	conds []condFact // branch conditions already decided on this path (an SSA value keeps its value until it is re-evaluated)
	cells []cellFact // tracked variable cells: last store on this path
	prev  *pnode
	at    ssa.Instruction
}

type condFact struct {
	v   ssa.Value
	val bool
}

// retBind records which Return a finished helper activation came back through: the caller's tests of the call's results are
// decided with the constants that Return carries.
type retBind struct {
	call ssa.CallInstruction
	ret  *ssa.Return
	vals []ssa.Value // the returned values, with a φ of the returning block replaced by the edge the path came in on
}

func (n *pnode) key() string {
	var sb strings.Builder
	for _, f := range n.stack {
		fmt.Fprintf(&sb, "%p<%p:%d:%v:%d|", f.b, f.prevB, f.i, f.armed, len(f.defs))
		for _, d := range f.defs {
			fmt.Fprintf(&sb, "%p,", d)
		}
	}
	for _, b := range n.binds {
		fmt.Fprintf(&sb, "#%p=%p", b.call, b.ret)
	}
	for _, c := range n.conds {
		fmt.Fprintf(&sb, "?%p=%v", c.v, c.val)
	}
	for _, c := range n.cells {
		fmt.Fprintf(&sb, "$%p=%p", c.addr, c.val)
	}
	return sb.String()
}

// Find returns a witness path (instructions of interest: the block-entry instructions and the target) or nil.
// The search runs over the function and the helpers absorbed into it (absorb.go): a call of such a helper continues at the
// helper's entry and comes back after the call; deferred helpers run at RunDefers.
func (q *PathQuery) Find() []ssa.Instruction {
	fn := q.Fn
	if len(fn.Blocks) == 0 {
		return nil
	}
	var starts []*pnode
	if q.From == nil {
		starts = []*pnode{{stack: []pframe{{b: fn.Blocks[0]}}}}
	} else {
		// From may lie in an absorbed helper: rebuild each calling context
		chains := CallChains(fn, q.From.Parent())
		if q.From.Parent() == fn {
			chains = [][]ssa.CallInstruction{nil}
		}
		for _, ch := range chains {
			var st []pframe
			okc := true
			for _, c := range ch {
				ci := c.(ssa.Instruction)
				if _, isDefer := ci.(*ssa.Defer); isDefer {
					okc = false // a deferred helper runs at function exit: continue from the end of the caller instead
					break
				}
				st = append(st, pframe{b: ci.Block(), i: IndexIn(ci) + 1, armed: q.armedBefore(ci)})
			}
			if !okc {
				continue
			}
			// frames were built as "resume points" of the callers; fix up the call links
			for k := range st {
				if k > 0 {
					st[k].call = ch[k-1]
				}
			}
			fr := pframe{b: q.From.Block(), i: IndexIn(q.From) + 1, armed: q.armedBefore(q.From)}
			if len(ch) > 0 {
				fr.call = ch[len(ch)-1]
			}
			st = append(st, fr)
			starts = append(starts, &pnode{stack: st, at: q.From})
		}
		if len(starts) == 0 {
			return nil
		}
	}
	seen := map[string]bool{}
	var queue []*pnode
	for _, n := range starts {
		seen[n.key()] = true
		queue = append(queue, n)
	}
	build := func(n *pnode, last ssa.Instruction) []ssa.Instruction {
		var rev []ssa.Instruction
		rev = append(rev, last)
		for x := n; x != nil; x = x.prev {
			if x.at != nil {
				rev = append(rev, x.at)
			}
		}
		for i, j := 0, len(rev)-1; i < j; i, j = i+1, j-1 {
			rev[i], rev[j] = rev[j], rev[i]
		}
		return rev
	}
	var curConds []condFact
	var curCells []cellFact
	push := func(parent *pnode, st []pframe, binds []retBind, at ssa.Instruction) {
		n := &pnode{stack: st, binds: binds, conds: curConds, cells: curCells, prev: parent, at: at}
		k := n.key()
		if seen[k] {
			return
		}
		seen[k] = true
		queue = append(queue, n)
	}
	steps := 0
	for len(queue) > 0 {
		n := queue[0]
		queue = queue[1:]
		steps++
		if steps > 200000 {
			return nil
		}
		// run the innermost pframe to the end of its block (or until it calls / returns)
		curConds = n.conds
		curCells = n.cells
		q.cur = curCells
		st := append([]pframe{}, n.stack...)
		top := &st[len(st)-1]
		b := top.b
		stopped := false
		moved := false
		for ; top.i < len(b.Instrs); top.i++ {
			in := b.Instrs[top.i]
			if v, isV := in.(ssa.Value); isV && len(curConds) > 0 {
				curConds = dropCond(curConds, v) // the value is computed anew (loop iteration): forget what was decided about it
			}
			if stc, isSt := in.(*ssa.Store); isSt && len(q.Track) > 0 {
				for _, ta := range q.Track {
					if stc.Addr == ta {
						nc := []cellFact{{ta, stc.Val}}
						for _, c := range curCells {
							if c.addr != ta {
								nc = append(nc, c)
							}
						}
						curCells = nc
						q.cur = curCells
					}
				}
			}
			if d, ok := in.(*ssa.Defer); ok {
				activeFrames, activeBinds = st, n.binds
				if q.DeferStop != nil && q.DeferStop(d) {
					top.armed = true
				}
				activeFrames, activeBinds = nil, nil
				if AbsorbedCallee(d) != nil && len(st) <= absorbDepth {
					top.defs = append(append([]*ssa.Defer{}, top.defs...), d)
				}
			}
			if _, ok := in.(*ssa.RunDefers); ok {
				if top.armed {
					stopped = true
					break
				}
				if len(top.defs) > 0 {
					// run the deferred helpers (last first), then resume after RunDefers
					defs := top.defs
					top.defs = nil
					top.i++
					ns := append([]pframe{}, st...)
					for _, d := range defs { // pushed first = runs last
						h := AbsorbedCallee(d)
						ns = append(ns, pframe{b: h.Blocks[0], call: d})
					}
					push(n, ns, n.binds, nil)
					moved = true
					break
				}
			}
			_, isRet := in.(*ssa.Return)
			inner := isRet && len(st) > 1 // a helper's own return is not a return of the function under analysis
			activeFrames, activeBinds = st, n.binds
			if !inner && q.Stop != nil && q.Stop(in) {
				activeFrames, activeBinds = nil, nil
				stopped = true
				break
			}
			if !inner && q.Target(in) {
				activeFrames, activeBinds = nil, nil
				return build(n, in)
			}
			activeFrames, activeBinds = nil, nil
			if c, ok := in.(*ssa.Call); ok && len(st) <= absorbDepth {
				if h := AbsorbedCallee(c); h != nil && !onStack(st, h) {
					top.i++
					ns := append(append([]pframe{}, st...), pframe{b: h.Blocks[0], call: c})
					push(n, ns, n.binds, h.Blocks[0].Instrs[0])
					moved = true
					break
				}
			}
			if r, ok := in.(*ssa.Return); ok && len(st) > 1 {
				// back to the caller
				ns := append([]pframe{}, st[:len(st)-1]...)
				binds := n.binds
				if top.call != nil {
					vals := RetVals(r)
					for vi, v := range vals {
						if phi, isPhi := v.(*ssa.Phi); isPhi && phi.Block() == b && top.prevB != nil {
							for pk, pb := range b.Preds {
								if pb == top.prevB {
									vals[vi] = phi.Edges[pk]
								}
							}
						}
					}
					binds = append(append([]retBind{}, dropBind(binds, top.call)...), retBind{top.call, r, vals})
				}
				push(n, ns, binds, nil)
				moved = true
				break
			}
		}
		if stopped || moved {
			continue
		}
		// end of block: follow the successors
		last := b.Instrs[len(b.Instrs)-1]
		ifi, isIf := last.(*ssa.If)
		for k, s := range b.Succs {
			if isIf {
				if q.EdgeOK != nil {
					activeFrames, activeBinds = st, n.binds
					okEdge := q.EdgeOK(ifi, k == 0)
					activeFrames, activeBinds = nil, nil
					if !okEdge {
						continue
					}
				}
				if v, known := condUnder(ifi.Cond, n.binds); known && v != (k == 0) {
					continue // the helper's return decides this test
				}
			}
			saved := curConds
			if isIf {
				base, neg := StripNot(ifi.Cond)
				want := (k == 0) != neg
				if prevVal, seen := lookupCond(curConds, base); seen {
					if prevVal != want {
						continue // the same value was already tested the other way on this path
					}
				} else if _, isConst := base.(*ssa.Const); !isConst {
					curConds = append(append([]condFact{}, curConds...), condFact{base, want})
				}
			}
			ns := append([]pframe{}, st...)
			ns[len(ns)-1].prevB = b
			ns[len(ns)-1].b = s
			ns[len(ns)-1].i = 0
			var at ssa.Instruction
			if len(s.Instrs) > 0 {
				at = s.Instrs[0]
			}
			push(n, ns, n.binds, at)
			curConds = saved
		}
	}
	return nil
}

func lookupCond(cs []condFact, v ssa.Value) (bool, bool) {
	for _, c := range cs {
		if c.v == v {
			return c.val, true
		}
	}
	return false, false
}

func dropCond(cs []condFact, v ssa.Value) []condFact {
	found := false
	for _, c := range cs {
		if c.v == v {
			found = true
		}
	}
	if !found {
		return cs
	}
	var out []condFact
	for _, c := range cs {
		if c.v != v {
			out = append(out, c)
		}
	}
	return out
}

func onStack(st []pframe, h *ssa.Function) bool {
	for _, f := range st {
		if f.b.Parent() == h {
			return true
		}
	}
	return false
}

func dropBind(bs []retBind, c ssa.CallInstruction) []retBind {
	var out []retBind
	for _, b := range bs {
		if b.call != c {
			out = append(out, b)
		}
	}
	return out
}

// armedBefore: a deferred stop armed by a Defer that dominates `at` in its own function.
func (q *PathQuery) armedBefore(at ssa.Instruction) bool {
	if q.DeferStop == nil || at == nil {
		return false
	}
	armed := false
	InstrsOwn(at.Parent(), func(in ssa.Instruction) {
		if d, ok := in.(*ssa.Defer); ok && q.DeferStop(d) && (d == at || (d.Block() == at.Block() && IndexIn(d) < IndexIn(at)) || (d.Block() != at.Block() && d.Block().Dominates(at.Block()))) {
			armed = true
		}
	})
	return armed
}

// condUnder evaluates a branch condition that tests a result of an absorbed helper call, given the Return each such call
// came back through. known=false when the condition does not depend on a bound call or the returned value is not a constant.
func condUnder(cond ssa.Value, binds []retBind) (val bool, known bool) {
	if len(binds) == 0 {
		return false, false
	}
	c, neg := StripNot(cond)
	var resOf func(v ssa.Value) (ssa.Value, *ssa.Return, bool)
	resOf = func(v ssa.Value) (ssa.Value, *ssa.Return, bool) {
		v = Unwrap(v)
		switch x := v.(type) {
		case *ssa.UnOp:
			// a variable kept in a cell (captured by a deferred closure): the value stored last before this load in its block
			if x.Op == token.MUL && CellOf(x.X) != nil {
				var last ssa.Value
				for _, in := range x.Block().Instrs {
					if in == ssa.Instruction(x) {
						break
					}
					if st, ok := in.(*ssa.Store); ok && st.Addr == x.X {
						last = st.Val
					}
				}
				if last != nil {
					return resOf(last)
				}
			}
		case *ssa.Extract:
			if call, ok := x.Tuple.(*ssa.Call); ok {
				for _, b := range binds {
					if b.call == ssa.CallInstruction(call) && x.Index < len(b.vals) {
						return b.vals[x.Index], b.ret, true
					}
				}
			}
		case *ssa.Call:
			for _, b := range binds {
				if b.call == ssa.CallInstruction(x) && len(b.vals) == 1 {
					return b.vals[0], b.ret, true
				}
			}
		}
		return nil, nil, false
	}
	if rv, _, ok := resOf(c); ok {
		if b, isC := ConstBool(rv); isC {
			return b != neg, true
		}
		return false, false
	}
	if bin, ok := c.(*ssa.BinOp); ok && (bin.Op == token.EQL || bin.Op == token.NEQ) {
		var other ssa.Value
		rv, ret, ok := resOf(bin.X)
		other = bin.Y
		if !ok {
			rv, ret, ok = resOf(bin.Y)
			other = bin.X
		}
		if !ok {
			return false, false
		}
		if IsNilConst(other) {
			isNil, decided := false, false
			if IsNilConst(rv) {
				isNil, decided = true, true
			} else if IsErrorType(rv.Type()) && nonNilErr(rv, ret, map[ssa.Value]bool{}) {
				isNil, decided = false, true
			} else if _, isAlloc := Unwrap(rv).(*ssa.Alloc); isAlloc {
				isNil, decided = false, true
			} else if _, isMk := Unwrap(rv).(*ssa.MakeClosure); isMk {
				isNil, decided = false, true
			} else if ret != nil && usedAsReceiverBefore(Unwrap(rv), ret) {
				isNil, decided = false, true // a method was already called on it (or a field read) on the way to this return
			}
			if !decided {
				return false, false
			}
			r := isNil
			if bin.Op == token.NEQ {
				r = !r
			}
			return r != neg, true
		}
		if k1, ok1 := ConstInt(rv); ok1 {
			if k2, ok2 := ConstInt(other); ok2 {
				r := k1 == k2
				if bin.Op == token.NEQ {
					r = !r
				}
				return r != neg, true
			}
		}
	}
	return false, false
}

// IsReturn is a Target predicate for normal returns.
func IsReturn(in ssa.Instruction) bool { _, ok := in.(*ssa.Return); return ok }

// CallPred builds a Stop/Target predicate matching calls (not go/defer) to any of the role names.
func CallPred(names ...string) func(ssa.Instruction) bool {
	set := map[string]bool{}
	for _, n := range names {
		set[n] = true
	}
	return func(in ssa.Instruction) bool {
		c, ok := in.(*ssa.Call)
		return ok && set[CalleeName(c)]
	}
}

// DeferPred builds a DeferStop predicate: the deferred call is to one of names, or is a closure whose
// body (incl. nested closures) contains a call to one of names.
func DeferPred(names ...string) func(*ssa.Defer) bool {
	set := map[string]bool{}
	for _, n := range names {
		set[n] = true
	}
	return func(d *ssa.Defer) bool {
		if set[CalleeName(d)] {
			return true
		}
		if f := StaticFn(d); f != nil && f.Parent() != nil {
			return len(CallsNamedDeep(f, names...)) > 0
		}
		return false
	}
}

// OnlyViaEdge reports whether every path from the function entry to instruction x
// passes through the edge (i.Block → successor[branch]) where branch=true is the "then" edge.
// The If and x may lie in different functions of one region (a function and the helpers absorbed into it).
func OnlyViaEdge(i *ssa.If, branch bool, x ssa.Instruction) bool {
	fi, fx := i.Parent(), x.Parent()
	if i.Block().Succs[0] == i.Block().Succs[1] {
		return false
	}
	if fi == fx && len(AbsorbedInto(fi)) == 0 && !hasRepeatedCond(fi) {
		return onlyViaEdgeLocal(i, branch, x)
	}
	if fi == fx && onlyViaEdgeLocal(i, branch, x) {
		return true
	}
	root := OuterOf(fi, fx)
	if root == nil {
		return false
	}
	// is x reachable from the root's entry when the edge is removed?
	q := &PathQuery{Fn: root, Target: func(in ssa.Instruction) bool { return in == x },
		EdgeOK: func(j *ssa.If, br bool) bool { return !(j == i && br == branch) }}
	if fx != root {
		// x inside a helper: a helper's own Return is never offered to Target, but any other instruction is
		if _, isRet := x.(*ssa.Return); isRet {
			return false
		}
	}
	return q.Find() == nil && reachableInRegion(root, x)
}

// reachableInRegion: x is reachable at all (guards against vacuous truth for dead code).
func reachableInRegion(root *ssa.Function, x ssa.Instruction) bool {
	q := &PathQuery{Fn: root, Target: func(in ssa.Instruction) bool { return in == x }}
	return q.Find() != nil
}

func onlyViaEdgeLocal(i *ssa.If, branch bool, x ssa.Instruction) bool {
	fn := i.Parent()
	if x.Parent() != fn {
		return false
	}
	from := i.Block()
	k := 1
	if branch {
		k = 0
	}
	to := from.Succs[k]
	if from.Succs[0] == from.Succs[1] {
		return false
	}
	seen := map[*ssa.BasicBlock]bool{}
	var stack []*ssa.BasicBlock
	stack = append(stack, fn.Blocks[0])
	seen[fn.Blocks[0]] = true
	target := x.Block()
	for len(stack) > 0 {
		b := stack[len(stack)-1]
		stack = stack[:len(stack)-1]
		if b == target {
			// reaching the target block without the edge; if x is in the If's own block it precedes the If
			return false
		}
		for si, s := range b.Succs {
			if b == from && si == k && s == to {
				continue
			}
			if !seen[s] {
				seen[s] = true
				stack = append(stack, s)
			}
		}
	}
	return true
}

// CondMatch describes what a guard predicate found in an If condition.
type CondMatch struct {
	Match  bool
	Branch bool // the branch on which the wanted fact holds
}

// GuardedBy reports whether x executes only after some If whose condition is recognised by pred, on the branch pred names.
// Negations (!c) are normalised away before pred sees the condition.
func GuardedBy(x ssa.Instruction, pred func(cond ssa.Value) CondMatch) (*ssa.If, bool) {
	var found *ssa.If
	var cands []ssa.Instruction
	for _, r := range RootsOf(x.Parent()) {
		Instrs(r, func(in ssa.Instruction) { cands = append(cands, in) })
	}
	if len(cands) == 0 {
		Instrs(x.Parent(), func(in ssa.Instruction) { cands = append(cands, in) })
	}
	each := func(f func(ssa.Instruction)) {
		for _, in := range cands {
			f(in)
		}
	}
	each(func(in ssa.Instruction) {
		if found != nil {
			return
		}
		i, ok := in.(*ssa.If)
		if !ok {
			return
		}
		cond, neg := StripNot(i.Cond)
		// a test delegated to a helper analysed as part of this function (`if !m.expired(now)`) is the helper's returned condition
		if r := Resolve(cond); r != cond {
			if _, isBool := r.Type().Underlying().(*types.Basic); isBool {
				c2, n2 := StripNot(r)
				cond = c2
				if n2 {
					neg = !neg
				}
			}
		}
		m := pred(cond)
		if !m.Match {
			return
		}
		br := m.Branch
		if neg {
			br = !br
		}
		if OnlyViaEdge(i, br, x) {
			found = i
		}
	})
	return found, found != nil
}

// StripNot removes leading boolean negations and reports whether their number was odd.
func StripNot(v ssa.Value) (ssa.Value, bool) {
	neg := false
	for d := 0; ; d++ {
		u, ok := v.(*ssa.UnOp)
		if !ok || u.Op != token.NOT {
			// inside a path-search callback: a test of the boolean result of a predicate helper analysed as part of this
			// function is a test of the expression the helper returned on the path being examined
			if d < 8 && len(activeBinds) > 0 {
				if w := boolOnActivePath(v); w != nil {
					v = w
					continue
				}
			}
			return v, neg
		}
		neg = !neg
		v = u.X
	}
}

// boolOnActivePath: v is the (boolean) result of a finished helper activation of the path being examined and the helper returned
// a non-constant expression: that expression (nil otherwise).
func boolOnActivePath(v ssa.Value) ssa.Value {
	if !isBoolT(v.Type()) {
		return nil
	}
	var call ssa.Value
	idx := 0
	switch x := v.(type) {
	case *ssa.Call:
		call = x
	case *ssa.Extract:
		call, idx = x.Tuple, x.Index
	default:
		return nil
	}
	for k := len(activeBinds) - 1; k >= 0; k-- {
		b := activeBinds[k]
		if c, isC := b.call.(*ssa.Call); isC && ssa.Value(c) == call && idx < len(b.vals) && b.vals[idx] != nil {
			if _, isConst := b.vals[idx].(*ssa.Const); isConst {
				return nil
			}
			if b.vals[idx] == v {
				return nil
			}
			return b.vals[idx]
		}
	}
	return nil
}

// MustCallOnAllReturns reports whether every path from `from` (nil = entry) to a normal return executes a call
// (direct, deferred, or inside a deferred closure) to one of names. It returns a witness path otherwise.
func MustCallOnAllReturns(fn *ssa.Function, from ssa.Instruction, names ...string) (bool, []ssa.Instruction) {
	q := &PathQuery{Fn: fn, From: from, Stop: CallPred(names...), Target: IsReturn, DeferStop: DeferPred(names...)}
	w := q.Find()
	return w == nil, w
}

// ErrNilEdge classifies an If condition as a comparison of an error-typed value with nil.
// ok=false if it is not such a comparison; nilBranch is the branch on which the error IS nil.
func ErrNilEdge(i *ssa.If) (errVal ssa.Value, nilBranch bool, ok bool) {
	cond, neg := StripNot(i.Cond)
	b, isBin := cond.(*ssa.BinOp)
	if !isBin || (b.Op != token.EQL && b.Op != token.NEQ) {
		return nil, false, false
	}
	var v ssa.Value
	switch {
	case IsNilConst(b.Y) && IsErrorType(b.X.Type()):
		v = b.X
	case IsNilConst(b.X) && IsErrorType(b.Y.Type()):
		v = b.Y
	default:
		return nil, false, false
	}
	nb := b.Op == token.EQL
	if neg {
		nb = !nb
	}
	return v, nb, true
}

// ReturnsNonNilError reports whether the return instruction's last result (of type error) is definitely non-nil
// by construction: a call to fmt.Errorf/errors.New, a load of a package-level error sentinel, or an error value that is
// known non-nil because the return is only reachable through an err != nil edge on that same value.
func ReturnsNonNilError(r *ssa.Return) bool {
	if len(r.Results) == 0 {
		return false
	}
	v := RetVal(r, len(r.Results)-1)
	if !IsErrorType(v.Type()) {
		return false
	}
	return nonNilErr(v, r, map[ssa.Value]bool{})
}

func nonNilErr(v ssa.Value, at ssa.Instruction, seen map[ssa.Value]bool) bool {
	if seen[v] {
		return false
	}
	seen[v] = true
	switch x := v.(type) {
	case *ssa.Const:
		return false
	case *ssa.MakeInterface:
		return true // boxing a concrete value gives a non-nil interface
	case *ssa.Call:
		switch CalleeName(x) {
		case "fmt.Errorf", "errors.New", "errors.Join":
			return true
		}
	case *ssa.UnOp:
		if x.Op == token.MUL {
			if _, ok := x.X.(*ssa.Global); ok {
				return true // package-level sentinel (who-may-write is checked separately where it matters)
			}
			// load of a local error variable: the last store in the same block decides
			if a := CellOf(x.X); a != nil {
				var last ssa.Value
				for _, in := range x.Block().Instrs {
					if in == ssa.Instruction(x) {
						break
					}
					if st, ok := in.(*ssa.Store); ok && CellOf(st.Addr) == a {
						last = st.Val
					}
				}
				if last != nil && nonNilErr(last, at, seen) {
					return true
				}
			}
		}
	case *ssa.Phi:
		all := true
		for _, e := range x.Edges {
			if !nonNilErr(e, at, seen) {
				all = false
			}
		}
		if all {
			return true
		}
	}
	// guarded by err != nil on the same value?
	_, ok := GuardedBy(at, func(cond ssa.Value) CondMatch {
		b, isBin := cond.(*ssa.BinOp)
		if !isBin {
			return CondMatch{}
		}
		if (b.X == v && IsNilConst(b.Y)) || (b.Y == v && IsNilConst(b.X)) {
			return CondMatch{Match: true, Branch: b.Op == token.NEQ}
		}
		return CondMatch{}
	})
	return ok
}

var repeatedCondCache = map[*ssa.Function]bool{}

// hasRepeatedCond: some SSA value is the condition of two branch instructions of fn (then a path can be infeasible although
// the flow graph allows it, and the correlating search is worth its cost).
func hasRepeatedCond(fn *ssa.Function) bool {
	if v, ok := repeatedCondCache[fn]; ok {
		return v
	}
	seen := map[ssa.Value]bool{}
	rep := false
	for _, b := range fn.Blocks {
		if len(b.Instrs) == 0 {
			continue
		}
		if i, ok := b.Instrs[len(b.Instrs)-1].(*ssa.If); ok {
			base, _ := StripNot(i.Cond)
			if _, isConst := base.(*ssa.Const); isConst {
				continue
			}
			if seen[base] {
				rep = true
			}
			seen[base] = true
		}
	}
	repeatedCondCache[fn] = rep
	return rep
}

// activeFrames is the activation stack of the path search while one of its callbacks (EdgeOK, Stop, Target, DeferStop) runs: inside
// a helper that is analysed as part of several callers a parameter has no unique argument, but on the path being examined it
// has: the argument at the call that created the activation. Unwrap (and with it Resolve, Arg, …) consults it, so a rule that asks
// "is this test on the request type?" gets the caller's value although the test was moved into a shared predicate helper.
var activeFrames []pframe

// boundOnActivePath returns the argument bound to parameter p on the path being examined (nil outside a path-search callback or
// when p's function is not an activation of the path).
func boundOnActivePath(p *ssa.Parameter) ssa.Value {
	for k := len(activeFrames) - 1; k >= 1; k-- {
		fr := activeFrames[k]
		if fr.b == nil || fr.b.Parent() != p.Parent() || fr.call == nil {
			continue
		}
		cc := fr.call.Common()
		if cc.IsInvoke() {
			return nil
		}
		for i, q := range p.Parent().Params {
			if q == p && i < len(cc.Args) {
				return cc.Args[i]
			}
		}
		return nil
	}
	// the activation already returned: the arguments of the call it was made by (when all finished activations of the helper on
	// this path were given the same value)
	var out ssa.Value
	for _, b := range activeBinds {
		cc := b.call.Common()
		if cc.IsInvoke() || cc.StaticCallee() != p.Parent() {
			continue
		}
		for i, q := range p.Parent().Params {
			if q == p && i < len(cc.Args) {
				a := cc.Args[i]
				if out != nil && unwrapNoPath(out) != unwrapNoPath(a) {
					return nil
				}
				out = a
			}
		}
	}
	return out
}

// activeBinds: on the path being examined, which Return each finished helper activation came back through (see activeFrames).
var activeBinds []retBind

// onActivePath replaces a result of a helper call by the value the helper returned on the path being examined (inside a
// path-search callback; the identity elsewhere): `return helper(…)` then yields the helper's own error value, e.g. a constant nil
// or an fmt.Errorf, instead of an opaque extract.
func onActivePath(v ssa.Value) ssa.Value {
	if v == nil || len(activeBinds) == 0 {
		return v
	}
	for d := 0; d < 4; d++ {
		ex, ok := v.(*ssa.Extract)
		if !ok {
			return v
		}
		found := false
		for k := len(activeBinds) - 1; k >= 0; k-- {
			b := activeBinds[k]
			if c, isC := b.call.(*ssa.Call); isC && ssa.Value(c) == ex.Tuple && ex.Index < len(b.vals) && b.vals[ex.Index] != nil {
				v, found = b.vals[ex.Index], true
				break
			}
		}
		if !found {
			return v
		}
	}
	return v
}

// usedAsReceiverBefore: v (a pointer) is dereferenced – receiver of a static method call, field access – by an instruction that
// dominates the return: on every path to that return it was not nil.
func usedAsReceiverBefore(v ssa.Value, ret *ssa.Return) bool {
	if _, isPtr := v.Type().Underlying().(*types.Pointer); !isPtr {
		return false
	}
	for _, u := range Referrers(v) {
		if u.Parent() != ret.Parent() {
			continue
		}
		deref := false
		switch x := u.(type) {
		case *ssa.Call:
			if !x.Call.IsInvoke() && len(x.Call.Args) > 0 && x.Call.Args[0] == v {
				if g := x.Call.StaticCallee(); g != nil && g.Signature.Recv() != nil {
					deref = true
				}
			}
		case *ssa.FieldAddr:
			deref = x.X == v
		case *ssa.UnOp:
			deref = x.Op == token.MUL && x.X == v
		}
		if deref && (u.Block() == ret.Block() && IndexIn(u) < IndexIn(ret) || u.Block() != ret.Block() && u.Block().Dominates(ret.Block())) {
			return true
		}
	}
	return false
}

// OnActivePath is onActivePath for rules: inside a Stop/Target/EdgeOK callback, the value a helper's result has on the path being
// examined.
func OnActivePath(v ssa.Value) ssa.Value { return onActivePath(v) }

// unwrapNoPath strips conversions only (no path-dependent binding).
func unwrapNoPath(v ssa.Value) ssa.Value {
	for {
		switch x := v.(type) {
		case *ssa.ChangeType:
			v = x.X
		case *ssa.Convert:
			v = x.X
		default:
			return v
		}
	}
}

// StripNotValue is StripNot without the polarity.
func StripNotValue(v ssa.Value) ssa.Value {
	w, _ := StripNot(v)
	return w
}

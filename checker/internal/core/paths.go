package core

import (
	"go/token"

	"golang.org/x/tools/go/ssa"
)

// PathQuery searches a function's CFG for a path that reaches a target instruction
// without executing a stop instruction. Deferred calls are modelled: a Defer instruction
// for which DeferStop is true "arms" the path, and the next RunDefers then counts as a stop.
type PathQuery struct {
	Fn        *ssa.Function
	From      ssa.Instruction // search starts after this instruction; nil = function entry
	Stop      func(ssa.Instruction) bool
	Target    func(ssa.Instruction) bool
	DeferStop func(*ssa.Defer) bool
	// EdgeOK, if set, is consulted for every conditional edge (If instruction, branch taken);
	// returning false prunes the edge (used to follow only the err==nil / err!=nil side).
	EdgeOK func(i *ssa.If, branch bool) bool
}

type pstate struct {
	b     *ssa.BasicBlock
	armed bool
}

// Find returns a witness path (instructions of interest: the block-entry instructions and the target) or nil.
func (q *PathQuery) Find() []ssa.Instruction {
	fn := q.Fn
	if len(fn.Blocks) == 0 {
		return nil
	}
	armed0 := false
	if q.DeferStop != nil && q.From != nil {
		Instrs(fn, func(in ssa.Instruction) {
			if d, ok := in.(*ssa.Defer); ok && q.DeferStop(d) && (Dominates(d, q.From) || d == q.From) {
				armed0 = true
			}
		})
	}
	type node struct {
		st   pstate
		prev *node
		at   ssa.Instruction
	}
	seen := map[pstate]bool{}
	var queue []*node
	// scan runs the instructions of block b from index i; returns (hitTarget, stopped, armedAfter)
	scan := func(b *ssa.BasicBlock, i int, armed bool) (ssa.Instruction, bool, bool) {
		for ; i < len(b.Instrs); i++ {
			in := b.Instrs[i]
			if d, ok := in.(*ssa.Defer); ok && q.DeferStop != nil && q.DeferStop(d) {
				armed = true
			}
			if _, ok := in.(*ssa.RunDefers); ok && armed {
				return nil, true, armed
			}
			if q.Stop != nil && q.Stop(in) {
				return nil, true, armed
			}
			if q.Target(in) {
				return in, false, armed
			}
		}
		return nil, false, armed
	}
	build := func(n *node, last ssa.Instruction) []ssa.Instruction {
		var rev []ssa.Instruction
		rev = append(rev, last)
		for x := n; x != nil; x = x.prev {
			if x.at != nil {
				rev = append(rev, x.at)
			}
		}
		for i, j := 0, len(rev)-1; i < j; i, j = i+1, j-1 {
			rev[i], rev[j] = rev[j], rev[i]
		}
		return rev
	}
	expand := func(n *node, b *ssa.BasicBlock, armed bool) {
		last := b.Instrs[len(b.Instrs)-1]
		ifi, isIf := last.(*ssa.If)
		for k, s := range b.Succs {
			if isIf && q.EdgeOK != nil && !q.EdgeOK(ifi, k == 0) {
				continue
			}
			st := pstate{s, armed}
			if seen[st] {
				continue
			}
			seen[st] = true
			var at ssa.Instruction
			if len(s.Instrs) > 0 {
				at = s.Instrs[0]
			}
			queue = append(queue, &node{st: st, prev: n, at: at})
		}
	}
	// first partial block
	var startBlock *ssa.BasicBlock
	startIdx := 0
	if q.From != nil {
		startBlock = q.From.Block()
		startIdx = IndexIn(q.From) + 1
	} else {
		startBlock = fn.Blocks[0]
	}
	root := &node{st: pstate{startBlock, armed0}, at: q.From}
	if hit, stopped, armed := scan(startBlock, startIdx, armed0); hit != nil {
		return build(root, hit)
	} else if !stopped {
		expand(root, startBlock, armed)
	}
	for len(queue) > 0 {
		n := queue[0]
		queue = queue[1:]
		hit, stopped, armed := scan(n.st.b, 0, n.st.armed)
		if hit != nil {
			return build(n, hit)
		}
		if stopped {
			continue
		}
		expand(n, n.st.b, armed)
	}
	return nil
}

// IsReturn is a Target predicate for normal returns.
func IsReturn(in ssa.Instruction) bool { _, ok := in.(*ssa.Return); return ok }

// CallPred builds a Stop/Target predicate matching calls (not go/defer) to any of the role names.
func CallPred(names ...string) func(ssa.Instruction) bool {
	set := map[string]bool{}
	for _, n := range names {
		set[n] = true
	}
	return func(in ssa.Instruction) bool {
		c, ok := in.(*ssa.Call)
		return ok && set[CalleeName(c)]
	}
}

// DeferPred builds a DeferStop predicate: the deferred call is to one of names, or is a closure whose
// body (incl. nested closures) contains a call to one of names.
func DeferPred(names ...string) func(*ssa.Defer) bool {
	set := map[string]bool{}
	for _, n := range names {
		set[n] = true
	}
	return func(d *ssa.Defer) bool {
		if set[CalleeName(d)] {
			return true
		}
		if f := StaticFn(d); f != nil && f.Parent() != nil {
			return len(CallsNamedDeep(f, names...)) > 0
		}
		return false
	}
}

// OnlyViaEdge reports whether every path from the function entry to instruction x
// passes through the edge (i.Block → successor[branch]) where branch=true is the "then" edge.
func OnlyViaEdge(i *ssa.If, branch bool, x ssa.Instruction) bool {
	fn := i.Parent()
	if x.Parent() != fn {
		return false
	}
	from := i.Block()
	k := 1
	if branch {
		k = 0
	}
	to := from.Succs[k]
	if from.Succs[0] == from.Succs[1] {
		return false
	}
	seen := map[*ssa.BasicBlock]bool{}
	var stack []*ssa.BasicBlock
	stack = append(stack, fn.Blocks[0])
	seen[fn.Blocks[0]] = true
	target := x.Block()
	for len(stack) > 0 {
		b := stack[len(stack)-1]
		stack = stack[:len(stack)-1]
		if b == target {
			// reaching the target block without the edge; if x is in the If's own block it precedes the If
			return false
		}
		for si, s := range b.Succs {
			if b == from && si == k && s == to {
				continue
			}
			if !seen[s] {
				seen[s] = true
				stack = append(stack, s)
			}
		}
	}
	return true
}

// CondMatch describes what a guard predicate found in an If condition.
type CondMatch struct {
	Match  bool
	Branch bool // the branch on which the wanted fact holds
}

// GuardedBy reports whether x executes only after some If whose condition is recognised by pred, on the branch pred names.
// Negations (!c) are normalised away before pred sees the condition.
func GuardedBy(x ssa.Instruction, pred func(cond ssa.Value) CondMatch) (*ssa.If, bool) {
	var found *ssa.If
	Instrs(x.Parent(), func(in ssa.Instruction) {
		if found != nil {
			return
		}
		i, ok := in.(*ssa.If)
		if !ok {
			return
		}
		cond, neg := StripNot(i.Cond)
		m := pred(cond)
		if !m.Match {
			return
		}
		br := m.Branch
		if neg {
			br = !br
		}
		if OnlyViaEdge(i, br, x) {
			found = i
		}
	})
	return found, found != nil
}

// StripNot removes leading boolean negations and reports whether their number was odd.
func StripNot(v ssa.Value) (ssa.Value, bool) {
	neg := false
	for {
		u, ok := v.(*ssa.UnOp)
		if !ok || u.Op != token.NOT {
			return v, neg
		}
		neg = !neg
		v = u.X
	}
}

// MustCallOnAllReturns reports whether every path from `from` (nil = entry) to a normal return executes a call
// (direct, deferred, or inside a deferred closure) to one of names. It returns a witness path otherwise.
func MustCallOnAllReturns(fn *ssa.Function, from ssa.Instruction, names ...string) (bool, []ssa.Instruction) {
	q := &PathQuery{Fn: fn, From: from, Stop: CallPred(names...), Target: IsReturn, DeferStop: DeferPred(names...)}
	w := q.Find()
	return w == nil, w
}

// ErrNilEdge classifies an If condition as a comparison of an error-typed value with nil.
// ok=false if it is not such a comparison; nilBranch is the branch on which the error IS nil.
func ErrNilEdge(i *ssa.If) (errVal ssa.Value, nilBranch bool, ok bool) {
	cond, neg := StripNot(i.Cond)
	b, isBin := cond.(*ssa.BinOp)
	if !isBin || (b.Op != token.EQL && b.Op != token.NEQ) {
		return nil, false, false
	}
	var v ssa.Value
	switch {
	case IsNilConst(b.Y) && IsErrorType(b.X.Type()):
		v = b.X
	case IsNilConst(b.X) && IsErrorType(b.Y.Type()):
		v = b.Y
	default:
		return nil, false, false
	}
	nb := b.Op == token.EQL
	if neg {
		nb = !nb
	}
	return v, nb, true
}

// ReturnsNonNilError reports whether the return instruction's last result (of type error) is definitely non-nil
// by construction: a call to fmt.Errorf/errors.New, a load of a package-level error sentinel, or an error value that is
// known non-nil because the return is only reachable through an err != nil edge on that same value.
func ReturnsNonNilError(r *ssa.Return) bool {
	if len(r.Results) == 0 {
		return false
	}
	v := RetVal(r, len(r.Results)-1)
	if !IsErrorType(v.Type()) {
		return false
	}
	return nonNilErr(v, r, map[ssa.Value]bool{})
}

func nonNilErr(v ssa.Value, at ssa.Instruction, seen map[ssa.Value]bool) bool {
	if seen[v] {
		return false
	}
	seen[v] = true
	switch x := v.(type) {
	case *ssa.Const:
		return false
	case *ssa.MakeInterface:
		return true // boxing a concrete value gives a non-nil interface
	case *ssa.Call:
		switch CalleeName(x) {
		case "fmt.Errorf", "errors.New", "errors.Join":
			return true
		}
	case *ssa.UnOp:
		if x.Op == token.MUL {
			if _, ok := x.X.(*ssa.Global); ok {
				return true // package-level sentinel (who-may-write is checked separately where it matters)
			}
			// load of a local error variable: the last store in the same block decides
			if a := CellOf(x.X); a != nil {
				var last ssa.Value
				for _, in := range x.Block().Instrs {
					if in == ssa.Instruction(x) {
						break
					}
					if st, ok := in.(*ssa.Store); ok && CellOf(st.Addr) == a {
						last = st.Val
					}
				}
				if last != nil && nonNilErr(last, at, seen) {
					return true
				}
			}
		}
	case *ssa.Phi:
		all := true
		for _, e := range x.Edges {
			if !nonNilErr(e, at, seen) {
				all = false
			}
		}
		if all {
			return true
		}
	}
	// guarded by err != nil on the same value?
	_, ok := GuardedBy(at, func(cond ssa.Value) CondMatch {
		b, isBin := cond.(*ssa.BinOp)
		if !isBin {
			return CondMatch{}
		}
		if (b.X == v && IsNilConst(b.Y)) || (b.Y == v && IsNilConst(b.X)) {
			return CondMatch{Match: true, Branch: b.Op == token.NEQ}
		}
		return CondMatch{}
	})
	return ok
}

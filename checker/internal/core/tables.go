package core

import (
	"go/ast"
	"go/constant"
	"go/token"
	"go/types"

	"golang.org/x/tools/go/packages"
)

// Engine G: constants and literal tables evaluated through go/types (constant folding by the type checker).

// ConstValue returns the integer value of a package-level constant.
func (p *Prog) ConstValue(pkgRel, name string) (int64, token.Pos, bool) {
	pk := p.Pkg(pkgRel)
	if pk == nil {
		return 0, token.NoPos, false
	}
	c, ok := pk.Types.Scope().Lookup(name).(*types.Const)
	if !ok {
		return 0, token.NoPos, false
	}
	if c.Val().Kind() != constant.Int {
		return 0, c.Pos(), false
	}
	v, exact := constant.Int64Val(c.Val())
	return v, c.Pos(), exact
}

// VarLiteral finds the composite literal initialising a package-level variable.
func VarLiteral(pk *packages.Package, name string) (*ast.CompositeLit, token.Pos) {
	for _, f := range pk.Syntax {
		for _, d := range f.Decls {
			gd, ok := d.(*ast.GenDecl)
			if !ok || gd.Tok != token.VAR {
				continue
			}
			for _, sp := range gd.Specs {
				vs := sp.(*ast.ValueSpec)
				for i, nm := range vs.Names {
					if nm.Name == name && i < len(vs.Values) {
						if cl, ok := vs.Values[i].(*ast.CompositeLit); ok {
							return cl, nm.Pos()
						}
					}
				}
			}
		}
	}
	return nil, token.NoPos
}

// EvalStructMap evaluates `map[K]S{ k: {Field: const, …}, … }` into key → field → value.
// ok=false if any key or field value is not a compile-time integer constant.
func EvalStructMap(pk *packages.Package, lit *ast.CompositeLit) (map[int64]map[string]int64, bool) {
	out := map[int64]map[string]int64{}
	ok := true
	for _, el := range lit.Elts {
		kv, isKV := el.(*ast.KeyValueExpr)
		if !isKV {
			return nil, false
		}
		kc := pk.TypesInfo.Types[kv.Key].Value
		if kc == nil {
			return nil, false
		}
		k, _ := constant.Int64Val(kc)
		inner, isLit := kv.Value.(*ast.CompositeLit)
		if !isLit {
			return nil, false
		}
		fields := map[string]int64{}
		for _, fe := range inner.Elts {
			fkv, isF := fe.(*ast.KeyValueExpr)
			if !isF {
				ok = false
				continue
			}
			id, isID := fkv.Key.(*ast.Ident)
			vc := pk.TypesInfo.Types[fkv.Value].Value
			if !isID || vc == nil {
				ok = false
				continue
			}
			v, _ := constant.Int64Val(vc)
			fields[id.Name] = v
		}
		if _, dup := out[k]; dup {
			ok = false
		}
		out[k] = fields
	}
	return out, ok
}

// EvalIntSlice evaluates `[]T{c1, c2, …}` of integer constants.
func EvalIntSlice(pk *packages.Package, lit *ast.CompositeLit) ([]int64, bool) {
	var out []int64
	for _, el := range lit.Elts {
		vc := pk.TypesInfo.Types[el].Value
		if vc == nil {
			return nil, false
		}
		v, _ := constant.Int64Val(vc)
		out = append(out, v)
	}
	return out, true
}

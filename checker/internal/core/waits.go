package core

import (
	"fmt"
	"go/token"
	"go/types"
	"sort"
	"strings"

	"golang.org/x/tools/go/ssa"
)

// Engine E: inventory of blocking operations.

// WaitCase is one case of a select (or the single channel of a bare operation).
type WaitCase struct {
	Chan  ssa.Value // the channel operand
	Dir   types.ChanDir
	Class string // req-ctx | conn-ctx | ctx | result | timer | done | queue | other
	Desc  string
}

// Wait is one potentially blocking operation.
type Wait struct {
	Instr    ssa.Instruction
	Fn       *ssa.Function
	Kind     string // select | recv | send | range-chan | sem-acquire | wg-wait | sleep | cond-wait
	Blocking bool   // false for select with default
	Cases    []WaitCase

	HasReqCtx, HasConnCtx, HasAnyCtx, HasParamChan, HasTimer, HasResult bool
}

func (w Wait) String() string {
	var cs []string
	for _, c := range w.Cases {
		d := "<-"
		if c.Dir == types.SendOnly {
			d = "->"
		}
		cs = append(cs, d+c.Class)
	}
	sort.Strings(cs)
	b := "blocking"
	if !w.Blocking {
		b = "non-blocking"
	}
	return fmt.Sprintf("%s(%s){%s}", w.Kind, b, strings.Join(cs, ","))
}

// Signature is a stable description used as the table key: kind + sorted case classes.
func (w Wait) Signature() string { return w.String() }

func isContextType(t types.Type) bool {
	return TypeName(t) == "context.Context"
}

// classifyCtx classifies the context value a Done()/Acquire receives.
func classifyCtx(fn *ssa.Function, v ssa.Value) string {
	v = Resolve(v)
	switch x := v.(type) {
	case *ssa.Parameter:
		if isContextType(x.Type()) {
			return "req-ctx" // the caller's context
		}
	case *ssa.Call:
		n := CalleeName(x)
		switch {
		case n == "message/pool.Message.Context":
			return "req-ctx"
		case strings.HasSuffix(n, ".Context") && NArgs(x) >= 1:
			// cc.Context(), cc.session.Context(), h.cc.Context(), s.Context(): rooted at the receiver ⇒ the connection's / server's context
			root := Resolve(Arg(x, 0))
			if _, isMsg := root.Type().(*types.Pointer); isMsg && IsNamed(root.Type(), "message/pool.Message") {
				return "req-ctx"
			}
			return "conn-ctx"
		case n == "context.WithTimeout" || n == "context.WithCancel" || n == "context.WithDeadline":
			return classifyCtx(fn, Arg(x, 0))
		}
	case *ssa.Extract:
		if c, ok := x.Tuple.(*ssa.Call); ok {
			n := CalleeName(c)
			if n == "context.WithTimeout" || n == "context.WithCancel" || n == "context.WithDeadline" {
				return classifyCtx(fn, Arg(c, 0))
			}
		}
	case *ssa.UnOp:
		if x.Op == token.MUL {
			if _, fl, ok := FieldOf(x.X); ok && (fl == "ctx" || fl == "doneCtx" || strings.HasSuffix(strings.ToLower(fl), "ctx")) {
				return "conn-ctx"
			}
			// atomic pointer load of a session context: *s.ctx.Load()
			if c, ok := x.X.(*ssa.Call); ok && strings.HasSuffix(CalleeName(c), ".Load") {
				return "conn-ctx"
			}
		}
	}
	return "ctx"
}

func classifyChan(fn *ssa.Function, ch ssa.Value) WaitCase {
	c := classifyChan0(fn, ch)
	c.Chan = ch
	return c
}

func classifyChan0(fn *ssa.Function, ch ssa.Value) WaitCase {
	v := Resolve(ch)
	switch x := v.(type) {
	case *ssa.Call:
		n := CalleeName(x)
		switch {
		case n == "context.Context.Done":
			return WaitCase{Class: classifyCtx(fn, Arg(x, 0)), Desc: "ctx.Done()"}
		case n == "time.After":
			return WaitCase{Class: "timer", Desc: "time.After"}
		case strings.HasSuffix(n, ".Done"):
			return WaitCase{Class: "done", Desc: shortName(n) + "()"}
		case strings.HasSuffix(n, "ReceivedMessageReader.C"):
			return WaitCase{Class: "queue", Desc: "receive queue"}
		}
		return WaitCase{Class: "other", Desc: n}
	case *ssa.MakeChan:
		return WaitCase{Class: "result", Desc: "local channel"}
	case *ssa.Parameter:
		return WaitCase{Class: "result", Desc: "channel parameter " + x.Name()}
	case *ssa.FreeVar:
		return WaitCase{Class: "result", Desc: "captured channel " + x.Name()}
	case *ssa.UnOp:
		if x.Op == token.MUL {
			if _, fl, ok := FieldOf(x.X); ok {
				switch {
				case fl == "C":
					return WaitCase{Class: "timer", Desc: "timer/ticker channel"}
				case strings.Contains(strings.ToLower(fl), "done") || strings.Contains(strings.ToLower(fl), "stop"):
					return WaitCase{Class: "done", Desc: "field " + fl}
				case strings.Contains(strings.ToLower(fl), "queue"):
					return WaitCase{Class: "queue", Desc: "field " + fl}
				}
				return WaitCase{Class: "result", Desc: "field " + fl}
			}
			if a := CellOf(x.X); a != nil {
				return WaitCase{Class: "result", Desc: "variable " + a.Comment}
			}
		}
	case *ssa.Field:
		_, fl, _ := FieldOf(x)
		if fl == "C" {
			return WaitCase{Class: "timer", Desc: "timer channel"}
		}
		return WaitCase{Class: "result", Desc: "field " + fl}
	case *ssa.Phi:
		return WaitCase{Class: "result", Desc: "merged channel"}
	}
	return WaitCase{Class: "other", Desc: v.String()}
}

// WaitsOf lists the potentially blocking operations of fn (not of nested closures).
func WaitsOf(fn *ssa.Function) []Wait {
	var out []Wait
	finish := func(w *Wait) {
		for _, c := range w.Cases {
			switch c.Class {
			case "req-ctx":
				w.HasReqCtx, w.HasAnyCtx = true, true
			case "conn-ctx":
				w.HasConnCtx, w.HasAnyCtx = true, true
			case "ctx":
				w.HasAnyCtx = true
			case "timer":
				w.HasTimer = true
			case "result":
				w.HasResult = true
				if strings.HasPrefix(c.Desc, "channel parameter") {
					w.HasParamChan = true
				}
			}
		}
		out = append(out, *w)
	}
	Instrs(fn, func(in ssa.Instruction) {
		switch x := in.(type) {
		case *ssa.Select:
			w := &Wait{Instr: in, Fn: fn, Kind: "select", Blocking: x.Blocking}
			for _, st := range x.States {
				c := classifyChan(fn, st.Chan)
				c.Dir = st.Dir
				w.Cases = append(w.Cases, c)
			}
			finish(w)
		case *ssa.UnOp:
			if x.Op == token.ARROW {
				// a receive that is part of a select is an Extract, not a UnOp
				w := &Wait{Instr: in, Fn: fn, Kind: "recv", Blocking: true}
				c := classifyChan(fn, x.X)
				c.Dir = types.RecvOnly
				w.Cases = []WaitCase{c}
				finish(w)
			}
		case *ssa.Send:
			w := &Wait{Instr: in, Fn: fn, Kind: "send", Blocking: true}
			c := classifyChan(fn, x.Chan)
			c.Dir = types.SendOnly
			w.Cases = []WaitCase{c}
			finish(w)
		case *ssa.Range:
			if _, ok := x.X.Type().Underlying().(*types.Chan); ok {
				w := &Wait{Instr: in, Fn: fn, Kind: "range-chan", Blocking: true}
				finish(w)
			}
		case *ssa.Call:
			n := CalleeName(x)
			switch {
			case n == "golang.org/x/sync/semaphore.Weighted.Acquire":
				w := &Wait{Instr: in, Fn: fn, Kind: "sem-acquire", Blocking: true}
				w.Cases = []WaitCase{{Class: classifyCtx(fn, Arg(x, 1)), Desc: "Acquire(ctx)"}}
				finish(w)
			case n == "sync.WaitGroup.Wait":
				finish(&Wait{Instr: in, Fn: fn, Kind: "wg-wait", Blocking: true})
			case n == "time.Sleep":
				finish(&Wait{Instr: in, Fn: fn, Kind: "sleep", Blocking: true})
			case n == "sync.Cond.Wait":
				finish(&Wait{Instr: in, Fn: fn, Kind: "cond-wait", Blocking: true})
			}
		}
	})
	return out
}

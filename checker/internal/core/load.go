// Package core holds the shared machinery of coapcheck: loading and
// type-checking /repo, building go/ssa, resolving anchors by role, and the
// reusable analyses (paths, locks, flows, abstract interpretation, waits,
// ownership) the per-property rules are written in.
package core

import (
	"fmt"
	"go/ast"
	"go/token"
	"go/types"
	"os"
	"path/filepath"
	"sort"
	"strings"
	"time"
	"unicode"

	"golang.org/x/tools/go/callgraph"
	"golang.org/x/tools/go/callgraph/cha"
	"golang.org/x/tools/go/callgraph/vta"
	"golang.org/x/tools/go/packages"
	"golang.org/x/tools/go/ssa"
	"golang.org/x/tools/go/ssa/ssautil"
)

// Module is the import-path prefix of the analysed module.
const Module = "github.com/plgd-dev/go-coap/v3"

// Config describes one build configuration to analyse.
type Config struct {
	Name   string   // e.g. "linux/amd64"
	Env    []string // extra environment (GOOS=…, GOARCH=…)
	Tests  bool
	IntBit int // width of int in this configuration
}

// Prog is a loaded, type-checked program with SSA.
type Prog struct {
	Cfg         Config
	RepoDir     string
	Fset        *token.FileSet
	Pkgs        []*packages.Package // module packages only (sorted by path)
	AllPkgs     []*packages.Package
	SSA         *ssa.Program
	SSAPkg      map[string]*ssa.Package // by import path
	byPath      map[string]*packages.Package
	srcFuncs    []*ssa.Function // every source-level function of the module incl. anonymous ones
	Looked      map[string]bool // role names the rules asked for (anchors)
	quietLookup bool
	LoadSecs    float64

	cgCHA *callgraph.Graph
	cgVTA *callgraph.Graph
}

// Load loads every package of the module under repoDir in the given configuration.
// Any type error, a zero package count or a missing module path is an error
// (the caller turns it into an "undecided" violation).
func Load(repoDir string, cfg Config) (*Prog, error) {
	t0 := time.Now()
	abs, err := filepath.Abs(repoDir)
	if err != nil {
		return nil, err
	}
	env := []string{}
	for _, e := range os.Environ() {
		if strings.HasPrefix(e, "GOWORK=") || strings.HasPrefix(e, "GOFLAGS=") || strings.HasPrefix(e, "GOOS=") || strings.HasPrefix(e, "GOARCH=") {
			continue
		}
		env = append(env, e)
	}
	// packages.Load runs `go list`: the module needs go >= 1.24, the default go of this image is older
	const newGo = "/opt/veriftools/go1.26.8/bin"
	if _, err := os.Stat(newGo + "/go"); err == nil {
		if cur := os.Getenv("PATH"); !strings.HasPrefix(cur, newGo) {
			os.Setenv("PATH", newGo+":"+cur) // exec.LookPath("go") uses the process environment
		}
		for i, e := range env {
			if strings.HasPrefix(e, "PATH=") && !strings.HasPrefix(e, "PATH="+newGo) {
				env[i] = "PATH=" + newGo + ":" + strings.TrimPrefix(e, "PATH=")
			}
		}
	}
	env = append(env, "GOWORK=off", "GOFLAGS=-mod=mod", "GOPROXY=off", "GOSUMDB=off", "GOTOOLCHAIN=local", "CGO_ENABLED=0")
	env = append(env, cfg.Env...)
	pc := &packages.Config{
		Mode:  packages.LoadAllSyntax,
		Dir:   abs,
		Env:   env,
		Tests: cfg.Tests,
	}
	pkgs, err := packages.Load(pc, "./...")
	if err != nil {
		return nil, fmt.Errorf("packages.Load: %w", err)
	}
	if len(pkgs) == 0 {
		return nil, fmt.Errorf("no packages loaded from %s", abs)
	}
	var errs []string
	packages.Visit(pkgs, nil, func(p *packages.Package) {
		for _, e := range p.Errors {
			errs = append(errs, e.Error())
		}
	})
	if len(errs) > 0 {
		sort.Strings(errs)
		if len(errs) > 8 {
			errs = errs[:8]
		}
		return nil, fmt.Errorf("load/type errors (%s): %s", cfg.Name, strings.Join(errs, "; "))
	}
	p := &Prog{Cfg: cfg, RepoDir: abs, SSAPkg: map[string]*ssa.Package{}, byPath: map[string]*packages.Package{}}
	for _, pk := range pkgs {
		if pk.Fset != nil {
			p.Fset = pk.Fset
		}
	}
	prog, _ := ssautil.AllPackages(pkgs, ssa.InstantiateGenerics)
	prog.Build()
	p.SSA = prog
	packages.Visit(pkgs, nil, func(pk *packages.Package) {
		p.AllPkgs = append(p.AllPkgs, pk)
		if sp := prog.Package(pk.Types); sp != nil {
			if _, dup := p.SSAPkg[pk.PkgPath]; !dup || !strings.Contains(pk.ID, "[") {
				p.SSAPkg[pk.PkgPath] = sp
			}
		}
	})
	for _, pk := range pkgs {
		if !strings.HasPrefix(pk.PkgPath, Module) {
			continue
		}
		if strings.HasSuffix(pk.PkgPath, ".test") {
			continue
		}
		// with Tests=true a package appears as "p" and "p [p.test]"; keep the variant with tests for who-may-call rules
		if old, ok := p.byPath[pk.PkgPath]; ok {
			if len(pk.Syntax) <= len(old.Syntax) {
				continue
			}
		}
		p.byPath[pk.PkgPath] = pk
	}
	for _, pk := range p.byPath {
		p.Pkgs = append(p.Pkgs, pk)
	}
	sort.Slice(p.Pkgs, func(i, j int) bool { return p.Pkgs[i].PkgPath < p.Pkgs[j].PkgPath })
	if len(p.Pkgs) < 20 {
		return nil, fmt.Errorf("only %d packages of %s loaded (expected the whole module)", len(p.Pkgs), Module)
	}
	p.collectSrcFuncs()
	p.LoadSecs = time.Since(t0).Seconds()
	return p, nil
}

func (p *Prog) collectSrcFuncs() {
	seen := map[*ssa.Function]bool{}
	var add func(fn *ssa.Function)
	add = func(fn *ssa.Function) {
		if fn == nil || seen[fn] || len(fn.Blocks) == 0 {
			return
		}
		seen[fn] = true
		p.srcFuncs = append(p.srcFuncs, fn)
		for _, a := range fn.AnonFuncs {
			add(a)
		}
	}
	for _, pk := range p.Pkgs {
		sp := p.SSA.Package(pk.Types)
		if sp == nil {
			continue
		}
		var objs []*types.Func
		for _, obj := range pk.TypesInfo.Defs {
			if f, ok := obj.(*types.Func); ok {
				objs = append(objs, f)
			}
		}
		sort.Slice(objs, func(i, j int) bool { return objs[i].Pos() < objs[j].Pos() })
		for _, f := range objs {
			add(p.SSA.FuncValue(f))
		}
		if init := sp.Func("init"); init != nil {
			add(init)
		}
	}
}

// SrcFuncs returns every source-level function (generic origins, not instances) of the module,
// anonymous functions included, excluding files ending in _test.go unless tests is set.
func (p *Prog) SrcFuncs(tests bool) []*ssa.Function {
	var out []*ssa.Function
	for _, fn := range p.srcFuncs {
		if !tests && p.IsTestPos(fn.Pos()) {
			continue
		}
		if IsAbsorbed(fn) {
			continue // analysed as part of its callers (absorb.go): Instrs of each caller visits its body
		}
		out = append(out, fn)
	}
	return out
}

// AllSrcFuncs is SrcFuncs including the helpers that are analysed as part of their callers.
func (p *Prog) AllSrcFuncs(tests bool) []*ssa.Function {
	var out []*ssa.Function
	for _, fn := range p.srcFuncs {
		if !tests && p.IsTestPos(fn.Pos()) {
			continue
		}
		out = append(out, fn)
	}
	return out
}

// IsTestPos reports whether pos lies in a _test.go file (or is unknown: synthetic init).
func (p *Prog) IsTestPos(pos token.Pos) bool {
	if !pos.IsValid() {
		return false
	}
	return strings.HasSuffix(p.Fset.Position(pos).Filename, "_test.go")
}

// Pkg returns the module package with the given path relative to the module ("" = root).
func (p *Prog) Pkg(rel string) *packages.Package {
	path := Module
	if rel != "" {
		path += "/" + rel
	}
	return p.byPath[path]
}

// RelPath strips the module prefix of an import path.
func RelPath(path string) string {
	if path == Module {
		return "."
	}
	return strings.TrimPrefix(path, Module+"/")
}

// Pos renders a position relative to the repository root.
func (p *Prog) Pos(pos token.Pos) string {
	if !pos.IsValid() {
		return "-"
	}
	ps := p.Fset.Position(pos)
	rel, err := filepath.Rel(p.RepoDir, ps.Filename)
	if err != nil {
		rel = ps.Filename
	}
	return fmt.Sprintf("%s:%d", rel, ps.Line)
}

// InstrPos finds the best position for an instruction (falls back to its block's other instructions, then the function).
func (p *Prog) InstrPos(in ssa.Instruction) string {
	if in == nil {
		return "-"
	}
	if in.Pos().IsValid() {
		return p.Pos(in.Pos())
	}
	if v, ok := in.(ssa.Value); ok {
		_ = v
	}
	if b := in.Block(); b != nil {
		for _, o := range b.Instrs {
			if o.Pos().IsValid() {
				return p.Pos(o.Pos()) + "~"
			}
		}
	}
	if in.Parent() != nil {
		return p.Pos(in.Parent().Pos()) + "~"
	}
	return "-"
}

// Func resolves a function or method by role name:
//
//	"net/blockwise.EncodeBlockOption"       package-level function
//	"pkg/sync.Map.LoadOrStore"              method (pointer or value receiver)
//
// The generic origin is returned for generic functions. nil if it does not exist.
// FuncQuiet is Func without recording the name as an anchor: used for the fall-back lookups of a role whose function was merged into
// its caller – the caller must stay what it is (possibly a helper analysed as part of ITS caller).
func (p *Prog) FuncQuiet(q string) *ssa.Function {
	p.quietLookup = true
	defer func() { p.quietLookup = false }()
	return p.Func(q)
}

func (p *Prog) Func(q string) *ssa.Function {
	obj := p.FuncObj(q)
	if obj == nil {
		return nil
	}
	fn := p.SSA.FuncValue(obj)
	if fn == nil || len(fn.Blocks) == 0 {
		return nil
	}
	return fn
}

// FuncObj resolves the types object for a role name (see Func).
func (p *Prog) FuncObj(q string) *types.Func {
	if p.Looked == nil {
		p.Looked = map[string]bool{}
	}
	if !p.quietLookup {
		p.Looked[q] = true
	}
	dot := strings.LastIndex(q, "/")
	rest := q
	dir := ""
	if dot >= 0 {
		dir = q[:dot+1]
		rest = q[dot+1:]
	}
	parts := strings.Split(rest, ".")
	if len(parts) < 2 {
		return nil
	}
	pkgRel := dir + parts[0]
	if pkgRel == "." || pkgRel == "coap" {
		pkgRel = ""
	}
	pk := p.Pkg(pkgRel)
	if pk == nil {
		return nil
	}
	scope := pk.Types.Scope()
	switch len(parts) {
	case 2:
		if f, ok := scope.Lookup(parts[1]).(*types.Func); ok {
			return f
		}
		// an unexported package-level function that became a method (of the type of its first parameter): the unique method of
		// that name in the package keeps the role name
		if nm := parts[1]; nm != "" && !unicode.IsUpper([]rune(nm)[0]) {
			var found *types.Func
			n := 0
			for _, tnm := range scope.Names() {
				tn, ok := scope.Lookup(tnm).(*types.TypeName)
				if !ok {
					continue
				}
				named, ok := tn.Type().(*types.Named)
				if !ok {
					continue
				}
				for i := 0; i < named.NumMethods(); i++ {
					if m := named.Method(i); m.Name() == nm {
						found = m
						n++
					}
				}
			}
			if n == 1 {
				nameAlias[found.Origin()] = q
				return found
			}
		}
	case 3:
		tn, ok := scope.Lookup(parts[1]).(*types.TypeName)
		if !ok {
			return nil
		}
		named, ok := tn.Type().(*types.Named)
		if !ok {
			return nil
		}
		for i := 0; i < named.NumMethods(); i++ {
			if m := named.Method(i); m.Name() == parts[2] {
				return m
			}
		}
		// … or the reverse: an unexported method that became a package-level function
		if nm := parts[2]; nm != "" && !unicode.IsUpper([]rune(nm)[0]) {
			if f, ok := scope.Lookup(nm).(*types.Func); ok {
				nameAlias[f.Origin()] = q
				return f
			}
		}
	}
	return nil
}

// nameAlias: functions found under the role name of their other form (function ↔ method, see FuncObj): every name-based match
// (CalleeName, FnName) then sees the role name.
var nameAlias = map[*types.Func]string{}

// QName gives the role name of a function object: "pkgrel.Recv.Name" / "pkgrel.Name";
// for packages outside the module the full import path is used ("sync.RWMutex.Lock", "context.Context.Done").
func QName(f *types.Func) string {
	if f == nil {
		return ""
	}
	f = f.Origin()
	if a, ok := nameAlias[f]; ok {
		return a
	}
	pkg := ""
	if f.Pkg() != nil {
		pkg = RelPath(f.Pkg().Path())
		if pkg == "." {
			pkg = "coap"
		}
	}
	sig, _ := f.Type().(*types.Signature)
	if sig != nil && sig.Recv() != nil {
		t := sig.Recv().Type()
		if pt, ok := t.(*types.Pointer); ok {
			t = pt.Elem()
		}
		switch tt := t.(type) {
		case *types.Named:
			return pkg + "." + tt.Obj().Name() + "." + f.Name()
		case *types.Alias:
			return pkg + "." + tt.Obj().Name() + "." + f.Name()
		case *types.Interface:
			// method of an anonymous or embedded interface: find the named interface that declares it is not possible; use "iface"
			return pkg + ".interface." + f.Name()
		}
		return pkg + ".?." + f.Name()
	}
	return pkg + "." + f.Name()
}

// FnName gives a readable role name for an SSA function (anonymous functions as parent$N).
func FnName(fn *ssa.Function) string {
	if fn == nil {
		return "?"
	}
	if fn.Parent() != nil {
		return FnName(fn.Parent()) + "$" + strings.TrimPrefix(fn.Name(), fn.Parent().Name()+"$")
	}
	if o := fn.Origin(); o != nil {
		fn = o
	}
	if obj, ok := fn.Object().(*types.Func); ok {
		return QName(obj)
	}
	if fn.Pkg != nil {
		return RelPath(fn.Pkg.Pkg.Path()) + "." + fn.Name()
	}
	return fn.Name()
}

// CalleeObj returns the function object a call resolves to through the type
// information: the static callee (generic origin) or the interface method for
// dynamic dispatch. nil for calls of function values and builtins.
func CalleeObj(c ssa.CallInstruction) *types.Func {
	cc := c.Common()
	if cc.IsInvoke() {
		return cc.Method.Origin()
	}
	if fn := cc.StaticCallee(); fn != nil {
		if o := fn.Origin(); o != nil {
			fn = o
		}
		if obj, ok := fn.Object().(*types.Func); ok {
			return obj.Origin()
		}
	}
	// a method value (`unlock := l.Unlock; defer unlock()`), possibly handed back by a helper: the bound method
	if mk := BoundMethodClosure(c); mk != nil {
		if fn, ok := mk.Fn.(*ssa.Function); ok {
			if obj, ok := fn.Object().(*types.Func); ok {
				return obj.Origin()
			}
		}
	}
	return nil
}

// BoundMethodClosure returns the closure go/ssa builds for a method value (x.M used as a func value) when the call's
// callee resolves to one; its single binding is the receiver.
func BoundMethodClosure(c ssa.CallInstruction) *ssa.MakeClosure {
	cc := c.Common()
	if cc.IsInvoke() {
		return nil
	}
	var v ssa.Value = cc.Value
	if _, isFn := v.(*ssa.Function); isFn {
		return nil
	}
	mk, ok := v.(*ssa.MakeClosure)
	if !ok {
		mk, ok = Resolve(v).(*ssa.MakeClosure)
	}
	if !ok {
		return nil
	}
	fn, isFn := mk.Fn.(*ssa.Function)
	if !isFn || !strings.HasPrefix(fn.Synthetic, "bound method wrapper") || len(mk.Bindings) != 1 {
		return nil
	}
	return mk
}

// CalleeName is QName(CalleeObj(c)); "" when unresolved; "builtin.X" for builtins.
func CalleeName(c ssa.CallInstruction) string {
	if b, ok := c.Common().Value.(*ssa.Builtin); ok {
		return "builtin." + b.Name()
	}
	return QName(CalleeObj(c))
}

// StaticFn returns the callee *ssa.Function with a body (generic origin) for static calls
// and for immediately-called/stored closures (MakeClosure), else nil.
func StaticFn(c ssa.CallInstruction) *ssa.Function {
	cc := c.Common()
	if cc.IsInvoke() {
		return nil
	}
	switch v := cc.Value.(type) {
	case *ssa.Function:
		return bodyOf(v)
	case *ssa.MakeClosure:
		if f, ok := v.Fn.(*ssa.Function); ok {
			return bodyOf(f)
		}
	case *ssa.Extract, *ssa.UnOp, *ssa.Phi, *ssa.FreeVar, *ssa.Parameter:
		// a function value held in a local variable, or handed back by an absorbed helper (clean-up closures)
		switch r := Resolve(v).(type) {
		case *ssa.Function:
			return bodyOf(r)
		case *ssa.MakeClosure:
			if f, ok := r.Fn.(*ssa.Function); ok {
				return bodyOf(f)
			}
		}
	}
	return nil
}

func bodyOf(f *ssa.Function) *ssa.Function {
	// structural analyses work on the generic origin (instantiation wrappers only forward to it)
	if o := f.Origin(); o != nil && len(o.Blocks) > 0 {
		return o
	}
	if len(f.Blocks) > 0 {
		return f
	}
	if o := f.Origin(); o != nil && len(o.Blocks) > 0 {
		return o
	}
	return nil
}

// CHA returns the class-hierarchy call graph (cached).
func (p *Prog) CHA() *callgraph.Graph {
	if p.cgCHA == nil {
		p.cgCHA = cha.CallGraph(p.SSA)
	}
	return p.cgCHA
}

// VTA returns the VTA call graph seeded from CHA (cached).
func (p *Prog) VTA() *callgraph.Graph {
	if p.cgVTA == nil {
		p.cgVTA = vta.CallGraph(ssautil.AllFunctions(p.SSA), p.CHA())
	}
	return p.cgVTA
}

// FileOf returns the *ast.File containing pos (module packages only).
func (p *Prog) FileOf(pos token.Pos) (*packages.Package, *ast.File) {
	for _, pk := range p.Pkgs {
		for _, f := range pk.Syntax {
			if f.FileStart <= pos && pos <= f.FileEnd {
				return pk, f
			}
		}
	}
	return nil, nil
}

// NamedType resolves "pkgrel.Type".
func (p *Prog) NamedType(q string) *types.Named {
	i := strings.LastIndex(q, ".")
	if i < 0 {
		return nil
	}
	pk := p.Pkg(q[:i])
	if q[:i] == "coap" {
		pk = p.Pkg("")
	}
	if pk == nil {
		return nil
	}
	tn, ok := pk.Types.Scope().Lookup(q[i+1:]).(*types.TypeName)
	if !ok {
		return nil
	}
	n, _ := tn.Type().(*types.Named)
	return n
}

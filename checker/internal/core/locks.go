package core

import (
	"go/token"
	"sort"
	"strings"

	"golang.org/x/tools/go/ssa"
)

// Held describes a mutex in the must-hold set.
type Held struct {
	Write bool
	Sites map[ssa.Instruction]bool // acquisition sites that may be the current holder
}

// LockSet maps the access path of a mutex to how it is held.
type LockSet map[string]*Held

func (s LockSet) clone() LockSet {
	o := LockSet{}
	for k, v := range s {
		h := &Held{Write: v.Write, Sites: map[ssa.Instruction]bool{}}
		for x := range v.Sites {
			h.Sites[x] = true
		}
		o[k] = h
	}
	return o
}

// meet = intersection of must-hold sets (union of sites; write only if both write).
func meet(a, b LockSet) LockSet {
	o := LockSet{}
	for k, va := range a {
		if vb, ok := b[k]; ok {
			h := &Held{Write: va.Write && vb.Write, Sites: map[ssa.Instruction]bool{}}
			for x := range va.Sites {
				h.Sites[x] = true
			}
			for x := range vb.Sites {
				h.Sites[x] = true
			}
			o[k] = h
		}
	}
	return o
}

func equalLS(a, b LockSet) bool {
	if len(a) != len(b) {
		return false
	}
	for k, va := range a {
		vb, ok := b[k]
		if !ok || va.Write != vb.Write || len(va.Sites) != len(vb.Sites) {
			return false
		}
		for x := range va.Sites {
			if !vb.Sites[x] {
				return false
			}
		}
	}
	return true
}

// String lists the held paths.
func (s LockSet) String() string {
	var ks []string
	for k, v := range s {
		if v.Write {
			ks = append(ks, k+"(w)")
		} else {
			ks = append(ks, k+"(r)")
		}
	}
	sort.Strings(ks)
	return "{" + strings.Join(ks, ",") + "}"
}

// MutexOp classifies a call instruction as a mutex operation: op ∈ Lock, RLock, Unlock, RUnlock; path = access path of the mutex.
func MutexOp(c ssa.CallInstruction) (op string, path string, ok bool) {
	switch CalleeName(c) {
	case "sync.Mutex.Lock", "sync.RWMutex.Lock":
		op = "Lock"
	case "sync.RWMutex.RLock":
		op = "RLock"
	case "sync.Mutex.Unlock", "sync.RWMutex.Unlock":
		op = "Unlock"
	case "sync.RWMutex.RUnlock":
		op = "RUnlock"
	default:
		return "", "", false
	}
	a := ArgRaw(c, 0)
	if a == nil {
		return "", "", false
	}
	return op, AccessPath(a), true
}

// Locks is the result of the must-hold analysis of one function.
type Locks struct {
	Fn     *ssa.Function
	may    bool // union at merges: the set of mutexes held on SOME path
	depth  int
	entry  LockSet
	subs   map[*ssa.Function]*Locks
	in     map[*ssa.BasicBlock]LockSet
	Sites  []ssa.CallInstruction // every Lock/RLock call (not deferred)
	Unlock []ssa.CallInstruction // every Unlock/RUnlock incl. deferred
	// flags: boolean parameters of an absorbed helper that are constants at the call being analysed (`m.rangeData(f, true)`):
	// a branch on such a parameter has one feasible edge, so `if unlockForCall { unlock }` … `if unlockForCall { lock }` stay paired.
	flags map[*ssa.Parameter]bool
}

// AnalyzeLocks computes, for every point of fn, the set of mutexes that are held on every path reaching it.
// `defer m.Unlock()` keeps the lock held until the function exits.
func AnalyzeLocks(fn *ssa.Function) *Locks { return analyzeLocks(fn, false) }

// AnalyzeLocksMay computes the may-hold sets: a mutex is listed at a point when it is held on at least one path reaching it.
func AnalyzeLocksMay(fn *ssa.Function) *Locks { return analyzeLocks(fn, true) }

func join(a, b LockSet) LockSet {
	o := a.clone()
	for k, vb := range b {
		if va, ok := o[k]; ok {
			va.Write = va.Write || vb.Write
			for x := range vb.Sites {
				va.Sites[x] = true
			}
		} else {
			h := &Held{Write: vb.Write, Sites: map[ssa.Instruction]bool{}}
			for x := range vb.Sites {
				h.Sites[x] = true
			}
			o[k] = h
		}
	}
	return o
}

func analyzeLocks(fn *ssa.Function, may bool) *Locks { return analyzeLocksFrom(fn, may, LockSet{}, 0) }

// exit: the lock set at the function's normal returns (meet, or join for the may-analysis); deferred unlocks applied.
func (l *Locks) exit() LockSet {
	var out LockSet
	first := true
	for _, r := range ReturnsOf(l.Fn) {
		st := l.At(r)
		// deferred unlocks of this function run before it returns
		InstrsOwn(l.Fn, func(in ssa.Instruction) {
			if d, ok := in.(*ssa.Defer); ok {
				if op, path, ok := MutexOp(d); ok && (op == "Unlock" || op == "RUnlock") {
					delete(st, path)
				}
			}
		})
		if first {
			out, first = st, false
		} else if l.may {
			out = join(out, st)
		} else {
			out = meet(out, st)
		}
	}
	if out == nil {
		out = LockSet{}
	}
	return out
}

func analyzeLocksFrom(fn *ssa.Function, may bool, entry LockSet, depth int) *Locks {
	return analyzeLocksFlags(fn, may, entry, depth, nil)
}

// flagsAt: the constant boolean arguments of a call of helper h (given the constants known in the caller).
func flagsAt(h *ssa.Function, c ssa.CallInstruction, outer map[*ssa.Parameter]bool) map[*ssa.Parameter]bool {
	var out map[*ssa.Parameter]bool
	args := c.Common().Args
	if c.Common().IsInvoke() || len(args) != len(h.Params) {
		return nil
	}
	for i, p := range h.Params {
		if !isBoolT(p.Type()) {
			continue
		}
		a := unwrapNoPath(args[i])
		v, known := false, false
		if k, isC := a.(*ssa.Const); isC {
			v, known = ConstBool(k)
		} else if q, isP := a.(*ssa.Parameter); isP {
			v, known = outer[q]
		}
		if known {
			if out == nil {
				out = map[*ssa.Parameter]bool{}
			}
			out[p] = v
		}
	}
	return out
}

func analyzeLocksFlags(fn *ssa.Function, may bool, entry LockSet, depth int, flags map[*ssa.Parameter]bool) *Locks {
	l := &Locks{Fn: fn, may: may, depth: depth, entry: entry, in: map[*ssa.BasicBlock]LockSet{}, flags: flags}
	if len(fn.Blocks) == 0 {
		return l
	}
	Instrs(fn, func(in ssa.Instruction) {
		c, ok := in.(ssa.CallInstruction)
		if !ok {
			return
		}
		op, _, ok := MutexOp(c)
		if !ok {
			return
		}
		if _, isCall := in.(*ssa.Call); isCall && (op == "Lock" || op == "RLock") {
			l.Sites = append(l.Sites, c)
		}
		if op == "Unlock" || op == "RUnlock" {
			l.Unlock = append(l.Unlock, c)
		}
	})
	l.in[fn.Blocks[0]] = entry.clone()
	work := []*ssa.BasicBlock{fn.Blocks[0]}
	for len(work) > 0 {
		b := work[0]
		work = work[1:]
		out := l.transferBlock(b, l.in[b].clone(), nil)
		for k, s := range b.Succs {
			if ifi, isIf := b.Instrs[len(b.Instrs)-1].(*ssa.If); isIf && len(l.flags) > 0 {
				c, neg := stripNotPlain(ifi.Cond)
				if p, isP := c.(*ssa.Parameter); isP {
					if v, known := l.flags[p]; known && (v != neg) != (k == 0) {
						continue // infeasible for this call: the flag is a constant
					}
				}
			}
			old, seen := l.in[s]
			var nw LockSet
			if !seen {
				nw = out.clone()
			} else if l.may {
				nw = join(old, out)
			} else {
				nw = meet(old, out)
			}
			if !seen || !equalLS(old, nw) {
				l.in[s] = nw
				work = append(work, s)
			}
		}
	}
	return l
}

func (l *Locks) transferBlock(b *ssa.BasicBlock, st LockSet, until ssa.Instruction) LockSet {
	for _, in := range b.Instrs {
		if in == until {
			return st
		}
		c, ok := in.(*ssa.Call)
		if !ok {
			continue
		}
		if h := AbsorbedCallee(c); h != nil && l.depth < absorbDepth {
			// the helper's net effect on the lock set: analyse it with the current set at its entry
			sub := analyzeLocksFlags(h, l.may, st, l.depth+1, flagsAt(h, c, l.flags))
			st = sub.exit()
			continue
		}
		op, path, ok := MutexOp(c)
		if !ok {
			continue
		}
		switch op {
		case "Lock":
			st[path] = &Held{Write: true, Sites: map[ssa.Instruction]bool{c: true}}
		case "RLock":
			st[path] = &Held{Write: false, Sites: map[ssa.Instruction]bool{c: true}}
		case "Unlock", "RUnlock":
			delete(st, path)
		}
	}
	return st
}

// At returns the must-hold set immediately before instruction in.
func (l *Locks) At(in ssa.Instruction) LockSet {
	if h := in.Parent(); h != l.Fn && l.depth < absorbDepth {
		// an instruction of an absorbed helper: the helper is analysed starting from the lock set at its call(s) in this region
		if sub := l.subFor(h); sub != nil {
			return sub.At(in)
		}
		return LockSet{}
	}
	b := in.Block()
	st, ok := l.in[b]
	if !ok {
		return LockSet{} // unreachable block
	}
	return l.transferBlock(b, st.clone(), in)
}

// Reachable reports whether the analysis reached instruction in (false: dead code, or a branch that is infeasible for the constant
// flags the enclosing helper is called with).
func (l *Locks) Reachable(in ssa.Instruction) bool {
	if h := in.Parent(); h != l.Fn && l.depth < absorbDepth {
		if sub := l.subFor(h); sub != nil {
			return sub.Reachable(in)
		}
		return true
	}
	_, ok := l.in[in.Block()]
	return ok
}

// FieldAccess is one access to a struct field found in a function.
type FieldAccess struct {
	Instr ssa.Instruction // the FieldAddr/Field instruction
	Base  string          // access path of the struct the field belongs to
	Write bool
	Owner string
	Field string
	Fn    *ssa.Function
}

// FieldAccesses lists the accesses in fn to field `field` of the named struct type owner ("pkgrel.Type" or, for
// anonymous nested structs such as `private struct{…}`, the owner is matched on the enclosing path: see ownerMatch).
// An access is a write when the address is stored to, or when a map/slice loaded from it is updated
// (m.data[k] = v, delete(m.data, k)); taking the address for other purposes counts as a write (conservative).
func FieldAccesses(fn *ssa.Function, match func(owner, field string, fa ssa.Value) bool) []FieldAccess {
	var out []FieldAccess
	Instrs(fn, func(in ssa.Instruction) {
		v, ok := in.(ssa.Value)
		if !ok {
			return
		}
		owner, field, ok := FieldOf(v)
		if !ok || !match(owner, field, v) {
			return
		}
		acc := FieldAccess{Instr: in, Owner: owner, Field: field, Fn: fn}
		switch x := v.(type) {
		case *ssa.FieldAddr:
			acc.Base = AccessPath(x.X)
			acc.Write = addrIsWritten(x, 0)
		case *ssa.Field:
			acc.Base = AccessPath(x.X)
			acc.Write = valueIsMutated(x, 0)
		}
		out = append(out, acc)
	})
	return out
}

func addrIsWritten(addr ssa.Value, depth int) bool {
	if depth > 4 {
		return true
	}
	for _, r := range Referrers(addr) {
		switch u := r.(type) {
		case *ssa.Store:
			if u.Addr == addr {
				return true
			}
			// address stored somewhere: escapes
			return true
		case *ssa.UnOp: // load
			if valueIsMutated(u, depth+1) {
				return true
			}
		case *ssa.FieldAddr, *ssa.IndexAddr:
			if addrIsWritten(u.(ssa.Value), depth+1) {
				return true
			}
		case *ssa.Call, *ssa.Defer, *ssa.Go:
			// &x.f passed to a call: method with pointer receiver (e.g. atomic, mutex) – treated as write unless it is a sync primitive call
			if c, ok := r.(ssa.CallInstruction); ok {
				n := CalleeName(c)
				if strings.HasPrefix(n, "sync.") || strings.HasPrefix(n, "sync/atomic.") || strings.HasPrefix(n, "go.uber.org/atomic.") {
					continue
				}
			}
			return true
		case *ssa.DebugRef:
		default:
			_ = u
		}
	}
	return false
}

// valueIsMutated: a loaded map/slice value that is updated in place.
func valueIsMutated(v ssa.Value, depth int) bool {
	if depth > 4 {
		return true
	}
	for _, r := range Referrers(v) {
		switch u := r.(type) {
		case *ssa.MapUpdate:
			if u.Map == v {
				return true
			}
		case *ssa.Call:
			if b, ok := u.Call.Value.(*ssa.Builtin); ok && (b.Name() == "delete" || b.Name() == "clear") && len(u.Call.Args) > 0 && u.Call.Args[0] == v {
				return true
			}
		case *ssa.IndexAddr:
			if u.X == v && addrIsWritten(u, depth+1) {
				return true
			}
		}
	}
	return false
}

// subFor analyses the absorbed helper h with the lock set that holds at its call sites inside l.Fn's region.
func (l *Locks) subFor(h *ssa.Function) *Locks {
	if l.subs == nil {
		l.subs = map[*ssa.Function]*Locks{}
	}
	if s, ok := l.subs[h]; ok {
		return s
	}
	l.subs[h] = nil // cycle guard
	var entry LockSet
	first := true
	var flags map[*ssa.Parameter]bool
	for _, site := range SitesOf(h) {
		si := site.(ssa.Instruction)
		if len(CallChains(l.Fn, si.Parent())) == 0 {
			continue
		}
		var outer map[*ssa.Parameter]bool
		if si.Parent() == l.Fn {
			outer = l.flags
		}
		fl := flagsAt(h, site, outer)
		if first {
			flags = fl
		} else {
			for p, v := range flags {
				if w, ok := fl[p]; !ok || w != v {
					delete(flags, p)
				}
			}
		}
		st := l.At(si)
		if _, isDefer := si.(*ssa.Defer); isDefer {
			st = l.exitBeforeDefers()
		}
		if first {
			entry, first = st, false
		} else if l.may {
			entry = join(entry, st)
		} else {
			entry = meet(entry, st)
		}
	}
	if first {
		return nil
	}
	sub := analyzeLocksFlags(h, l.may, entry, l.depth+1, flags)
	l.subs[h] = sub
	return sub
}

// exitBeforeDefers: the lock set at the function's returns before any deferred call ran (what a deferred helper starts with).
func (l *Locks) exitBeforeDefers() LockSet {
	var out LockSet
	first := true
	for _, r := range ReturnsOf(l.Fn) {
		st := l.At(r)
		if first {
			out, first = st, false
		} else if l.may {
			out = join(out, st)
		} else {
			out = meet(out, st)
		}
	}
	if out == nil {
		out = LockSet{}
	}
	return out
}

func stripNotPlain(v ssa.Value) (ssa.Value, bool) {
	neg := false
	for {
		u, ok := v.(*ssa.UnOp)
		if !ok || u.Op != token.NOT {
			return v, neg
		}
		neg = !neg
		v = u.X
	}
}

package core

import (
	"fmt"
	"go/token"
	"go/types"
	"sort"

	"golang.org/x/tools/go/ssa"
)

// Truth tables of small predicate functions.
//
// A function whose control flow depends only on a handful of boolean facts (calls such as t.IsZero(), comparisons such as
// n >= max) is executed – on its SSA form, without running it – once for every assignment of those facts. The rule names the facts
// it knows (AtomOf); every other branch condition becomes a free atom of its own, so a specification has to hold for all values
// of the conditions the rule did not anticipate. The result is the complete truth table: the boolean results of the function and
// the set of "events" (instructions the rule asked to observe) executed on the way.

// BoolFn describes the function and the rule's vocabulary.
type BoolFn struct {
	Fn *ssa.Function
	// AtomOf names a boolean-valued SSA value (negations already stripped); neg: the value is the negation of the named atom.
	AtomOf func(v ssa.Value) (name string, neg bool, ok bool)
	// Event names an instruction whose execution is part of the outcome ("" = not observed).
	Event func(in ssa.Instruction) string

	free  map[ssa.Value]string
	names map[string]bool
	depth int // > 0: a predicate helper being evaluated as part of its caller
}

// predicateHelper: v calls a helper analysed as part of this function whose single result is a boolean (an extracted predicate).
func predicateHelper(v ssa.Value) (*ssa.Call, *ssa.Function) {
	c, ok := v.(*ssa.Call)
	if !ok {
		return nil, nil
	}
	h := AbsorbedCallee(c)
	if h == nil || h.Signature.Results().Len() != 1 || !isBoolT(h.Signature.Results().At(0).Type()) || len(h.Blocks) == 0 {
		return nil, nil
	}
	return c, h
}

// inHelper runs f with the helper activation of call c on the (dynamic) activation stack, so that the helper's parameters resolve
// to the arguments of this call (Unwrap, Resolve, Arg – see paths.go activeFrames).
func inHelper(c *ssa.Call, h *ssa.Function, f func()) {
	saved := activeFrames
	st := append([]pframe{}, saved...)
	if len(st) == 0 {
		st = append(st, pframe{b: c.Block()})
	}
	activeFrames = append(st, pframe{b: h.Blocks[0], call: c})
	defer func() { activeFrames = saved }()
	f()
}

// BoolRow is one line of the truth table.
type BoolRow struct {
	Assign  map[string]bool
	Rets    []int       // per result: 1 true, 0 false, -1 not a boolean / unknown
	RetVals []ssa.Value // per result: the SSA value returned on this path (φ-nodes resolved along the path taken)
	Events  map[string]bool
	Unknown string // non-empty: the execution met something the evaluator cannot decide (the row is undecided)
}

func (b *BoolFn) atom(v ssa.Value) (string, bool) {
	v, neg := StripNot(v)
	if p, isP := v.(*ssa.Parameter); isP {
		if a := boundOnActivePath(p); a != nil {
			var n2 bool
			v, n2 = StripNot(a)
			neg = neg != n2
		}
	}
	if b.AtomOf != nil {
		if n, ng, ok := b.AtomOf(v); ok {
			if ng {
				neg = !neg
			}
			b.names[n] = true
			return n, neg
		}
	}
	if n, ok := b.free[v]; ok {
		return n, neg
	}
	n := fmt.Sprintf("free%d", len(b.free)+1)
	b.free[v] = n
	b.names[n] = true
	return n, neg
}

// Atoms lists the atoms of the function: the named ones that occur and one free atom per other branch condition.
func (b *BoolFn) Atoms() []string {
	b.free = map[ssa.Value]string{}
	b.names = map[string]bool{}
	b.collect()
	var out []string
	for n := range b.names {
		out = append(out, n)
	}
	sort.Strings(out)
	return out
}

// collect gathers the atoms of b.Fn (and of the predicate helpers it calls) into b.free / b.names.
func (b *BoolFn) collect() {
	var visit func(v ssa.Value, d int)
	visit = func(v ssa.Value, d int) {
		if d > 6 {
			return
		}
		v, _ = StripNot(v)
		if c, h := predicateHelper(v); h != nil && b.depth < 2 {
			if b.AtomOf != nil {
				if _, _, ok := b.AtomOf(v); ok {
					b.atom(v)
					return
				}
			}
			inHelper(c, h, func() {
				sub := &BoolFn{Fn: h, AtomOf: b.AtomOf, Event: b.Event, free: b.free, names: b.names, depth: b.depth + 1}
				sub.collect()
			})
			return
		}
		switch x := v.(type) {
		case *ssa.Const:
			return
		case *ssa.Phi:
			for _, e := range x.Edges {
				if isBoolT(e.Type()) {
					visit(e, d+1)
				}
			}
			return
		case *ssa.BinOp:
			if isBoolT(x.X.Type()) && isBoolT(x.Y.Type()) && (x.Op == token.EQL || x.Op == token.NEQ || x.Op == token.AND || x.Op == token.OR) {
				if b.AtomOf != nil {
					if _, _, ok := b.AtomOf(v); ok {
						b.atom(v)
						return
					}
				}
				visit(x.X, d+1)
				visit(x.Y, d+1)
				return
			}
		}
		b.atom(v)
	}
	for _, blk := range b.Fn.Blocks {
		for _, in := range blk.Instrs {
			switch x := in.(type) {
			case *ssa.If:
				visit(x.Cond, 0)
			case *ssa.Return:
				for _, r := range x.Results {
					if isBoolT(r.Type()) {
						visit(r, 0)
					}
				}
			}
		}
	}
}

func isBoolT(t types.Type) bool {
	bt, ok := t.Underlying().(*types.Basic)
	return ok && bt.Info()&types.IsBoolean != 0
}

// Table enumerates all assignments (at most 2^12) and executes the function on each.
func (b *BoolFn) Table() ([]BoolRow, error) {
	atoms := b.Atoms()
	if len(atoms) > 12 {
		return nil, fmt.Errorf("%d boolean facts: too many for a truth table", len(atoms))
	}
	var rows []BoolRow
	for m := 0; m < 1<<len(atoms); m++ {
		as := map[string]bool{}
		for k, a := range atoms {
			as[a] = m&(1<<k) != 0
		}
		rows = append(rows, b.run(as))
	}
	return rows, nil
}

func (b *BoolFn) run(as map[string]bool) BoolRow {
	row := BoolRow{Assign: as, Events: map[string]bool{}}
	env := map[ssa.Value]int{}
	chosen := map[*ssa.Phi]ssa.Value{}
	cells := map[ssa.Value]ssa.Value{}  // variable cell → value last stored on this path
	loaded := map[ssa.Value]ssa.Value{} // load instruction → the value it saw
	pick := func(v ssa.Value) ssa.Value {
		for i := 0; i < 4; i++ {
			if p2, isP := v.(*ssa.Phi); isP && chosen[p2] != nil {
				v = chosen[p2]
				continue
			}
			if lv, ok := loaded[v]; ok {
				v = lv
				continue
			}
			break
		}
		return v
	}
	var eval func(v ssa.Value, d int) int
	eval = func(v ssa.Value, d int) int {
		if d > 12 {
			return -1
		}
		if c, ok := v.(*ssa.Const); ok {
			if bv, isB := ConstBool(c); isB {
				if bv {
					return 1
				}
				return 0
			}
			return -1
		}
		if !isBoolT(v.Type()) {
			return -1
		}
		inner, neg := StripNot(v)
		flip := func(x int) int {
			if x < 0 || !neg {
				return x
			}
			return 1 - x
		}
		if p, isP := inner.(*ssa.Parameter); isP {
			if a := boundOnActivePath(p); a != nil {
				return flip(eval(a, d+1))
			}
		}
		if b.AtomOf != nil {
			if n, ng, ok := b.AtomOf(inner); ok {
				r := 0
				if as[n] != ng {
					r = 1
				}
				return flip(r)
			}
		}
		if c, h := predicateHelper(inner); h != nil && b.depth < 2 {
			res := -1
			inHelper(c, h, func() {
				sub := &BoolFn{Fn: h, AtomOf: b.AtomOf, Event: b.Event, free: b.free, names: b.names, depth: b.depth + 1}
				r := sub.run(as)
				if r.Unknown == "" && len(r.Rets) == 1 {
					res = r.Rets[0]
				}
				for ev := range r.Events {
					row.Events[ev] = true
				}
			})
			return flip(res)
		}
		if lv, ok := loaded[inner]; ok && lv != inner {
			return flip(eval(lv, d+1))
		}
		switch x := inner.(type) {
		case *ssa.Phi:
			if r, ok := env[x]; ok {
				return flip(r)
			}
			return -1
		case *ssa.BinOp:
			if isBoolT(x.X.Type()) && isBoolT(x.Y.Type()) {
				l, r := eval(x.X, d+1), eval(x.Y, d+1)
				if l < 0 || r < 0 {
					return -1
				}
				switch x.Op {
				case token.EQL:
					return flip(b2i(l == r))
				case token.NEQ:
					return flip(b2i(l != r))
				case token.AND:
					return flip(b2i(l == 1 && r == 1))
				case token.OR:
					return flip(b2i(l == 1 || r == 1))
				}
			}
		}
		if n, ok := b.free[inner]; ok {
			return flip(b2i(as[n]))
		}
		return -1
	}
	blk := b.Fn.Blocks[0]
	var prev *ssa.BasicBlock
	for steps := 0; steps < 4000; steps++ {
		// phis first
		if prev != nil {
			idx := -1
			for k, p := range blk.Preds {
				if p == prev {
					idx = k
				}
			}
			vals := map[*ssa.Phi]int{}
			for _, in := range blk.Instrs {
				ph, ok := in.(*ssa.Phi)
				if !ok {
					break
				}
				if idx >= 0 && isBoolT(ph.Type()) {
					vals[ph] = eval(ph.Edges[idx], 0)
				}
				if idx >= 0 {
					v := ph.Edges[idx]
					if p2, isP := v.(*ssa.Phi); isP && chosen[p2] != nil {
						v = chosen[p2]
					}
					chosen[ph] = v
				}
			}
			for ph, v := range vals {
				env[ph] = v
			}
		}
		var next *ssa.BasicBlock
		for _, in := range blk.Instrs {
			if b.Event != nil {
				if ev := b.Event(in); ev != "" {
					row.Events[ev] = true
				}
				// a call of a helper analysed as part of this function: the observed instructions it executes on every path
				if h := AbsorbedCallee(in); h != nil {
					for _, hin := range mustInstrs(h, 0) {
						if ev := b.Event(hin); ev != "" {
							row.Events[ev] = true
						}
					}
				}
			}
			switch x := in.(type) {
			case *ssa.Store:
				cells[x.Addr] = pick(x.Val)
			case *ssa.UnOp:
				if x.Op == token.MUL {
					if cv, ok := cells[x.X]; ok {
						loaded[x] = cv
					}
				}
			case *ssa.If:
				c := eval(x.Cond, 0)
				if c < 0 {
					row.Unknown = "undecidable branch condition"
					return row
				}
				if c == 1 {
					next = blk.Succs[0]
				} else {
					next = blk.Succs[1]
				}
			case *ssa.Jump:
				next = blk.Succs[0]
			case *ssa.Return:
				for _, r := range x.Results {
					row.Rets = append(row.Rets, eval(r, 0))
					row.RetVals = append(row.RetVals, pick(r))
				}
				return row
			case *ssa.Panic:
				row.Unknown = "panics"
				return row
			}
		}
		if next == nil {
			row.Unknown = "block without successor"
			return row
		}
		prev, blk = blk, next
	}
	row.Unknown = "does not terminate within the step bound"
	return row
}

func b2i(b bool) int {
	if b {
		return 1
	}
	return 0
}

// AssignString renders an assignment compactly (only the named atoms given).
func AssignString(as map[string]bool) string {
	var ks []string
	for k := range as {
		ks = append(ks, k)
	}
	sort.Strings(ks)
	s := ""
	for _, k := range ks {
		if s != "" {
			s += " "
		}
		if as[k] {
			s += k
		} else {
			s += "¬" + k
		}
	}
	return s
}

// mustInstrs: the instructions of h (and of the helpers it absorbs, two levels) that lie in blocks dominating every return.
func mustInstrs(h *ssa.Function, d int) []ssa.Instruction {
	var rets []*ssa.BasicBlock
	for _, r := range ReturnsOf(h) {
		rets = append(rets, r.Block())
	}
	var out []ssa.Instruction
	for _, blk := range h.Blocks {
		all := len(rets) > 0
		for _, r := range rets {
			if blk != r && !blk.Dominates(r) {
				all = false
			}
		}
		if !all {
			continue
		}
		for _, in := range blk.Instrs {
			out = append(out, in)
			if d < 2 {
				if g := AbsorbedCallee(in); g != nil && g != h {
					out = append(out, mustInstrs(g, d+1)...)
				}
			}
		}
	}
	return out
}

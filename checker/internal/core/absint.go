package core

import (
	"fmt"
	"go/ast"
	"go/constant"
	"go/token"
	"go/types"
	"math/big"
	"sort"
	"strings"

	"golang.org/x/tools/go/packages"
	"golang.org/x/tools/go/ssa"
)

// ---------------------------------------------------------------------------
// Abstract interpreter over go/ssa: path-partitioned (forks at undetermined branches with refinement),
// inlines module callees, models a few stdlib functions, tracks byte buffers of concrete geometry.
// It evaluates ABSTRACT values only (intervals, known/symbolic bits, linear forms); no path condition is solved.

// AState is the mutable part of an abstract execution (cloned at forks).
type AState struct {
	Assume  map[string]bool        // symbolic bit → assumed value on this path
	Cells   map[*ssa.Alloc]*AVal   // scalar local cells
	PCells  map[string]*AVal       // struct-field cells keyed by access path
	Arrays  map[int][]*AVal        // byte arrays
	FV      map[*ssa.FreeVar]*AVal // values captured by closures (by value, or array objects)
	Alias   map[string]*AVal       // alias symbols "@k": a value whose bits were spread over bytes (keeps its interval / linear form)
	nextArr int
	Events  []string // e.g. "wrap:…", "narrow:…"
	Trace   []string // branch decisions
	Steps   int
}

func newState() *AState {
	return &AState{Assume: map[string]bool{}, Cells: map[*ssa.Alloc]*AVal{}, PCells: map[string]*AVal{}, Arrays: map[int][]*AVal{}, FV: map[*ssa.FreeVar]*AVal{}, Alias: map[string]*AVal{}, nextArr: 1}
}

func (s *AState) clone() *AState {
	n := &AState{Assume: map[string]bool{}, Cells: map[*ssa.Alloc]*AVal{}, PCells: map[string]*AVal{}, Arrays: map[int][]*AVal{}, FV: map[*ssa.FreeVar]*AVal{}, Alias: map[string]*AVal{}, nextArr: s.nextArr, Steps: s.Steps}
	for k, v := range s.FV {
		n.FV[k] = v
	}
	for k, v := range s.Alias {
		n.Alias[k] = v
	}
	for k, v := range s.Assume {
		n.Assume[k] = v
	}
	for k, v := range s.Cells {
		n.Cells[k] = v
	}
	for k, v := range s.PCells {
		n.PCells[k] = v
	}
	for k, v := range s.Arrays {
		n.Arrays[k] = append([]*AVal{}, v...)
	}
	n.Events = append([]string{}, s.Events...)
	n.Trace = append([]string{}, s.Trace...)
	return n
}

// NewArray allocates an abstract byte array.
func (s *AState) NewArray(b []*AVal) *AVal {
	id := s.nextArr
	s.nextArr++
	s.Arrays[id] = b
	return &AVal{K: ABytes, Arr: id, Off: 0, Len: len(b), Cap: len(b)}
}

// Bytes returns the current content of a byte-slice value.
func (s *AState) Bytes(v *AVal) []*AVal {
	if v == nil || v.K != ABytes || v.Arr < 0 {
		return nil
	}
	a := s.Arrays[v.Arr]
	if v.Off+v.Len > len(a) {
		return nil
	}
	out := make([]*AVal, v.Len)
	for i := range out {
		out[i] = a[v.Off+i].substitute(s.Assume)
	}
	return out
}

// Outcome is one abstract path through the analysed function.
type Outcome struct {
	Ret   []*AVal
	Panic bool
	Why   string // panic / abort reason
	Abort bool   // analysis gave up on this path (⊤): loop bound, unsupported construct
	St    *AState
}

// Interp configures an abstract run.
type Interp struct {
	P         *Prog
	IntBits   int
	MaxPaths  int
	MaxDepth  int
	MaxUnroll int
	// Inputs by access path for loads through parameters (e.g. "m.Type"); consulted before ⊤.
	PathInputs map[string]*AVal
	// NoInline lists role names that must not be inlined (treated as opaque, result ⊤ / model).
	NoInline map[string]bool
	// Models override calls by role name.
	Models map[string]func(it *Interp, st *AState, args []*AVal) []*AVal
	paths  int
	Notes  []string
}

// NewInterp returns an interpreter with the default limits (quick tier).
func NewInterp(p *Prog) *Interp {
	ib := p.Cfg.IntBit
	if ib == 0 {
		ib = 64
	}
	return &Interp{P: p, IntBits: ib, MaxPaths: 4096, MaxDepth: 6, MaxUnroll: 80, PathInputs: map[string]*AVal{}, NoInline: map[string]bool{}, Models: map[string]func(*Interp, *AState, []*AVal) []*AVal{}}
}

type frame struct {
	fn     *ssa.Function
	env    map[ssa.Value]*AVal
	visits map[*ssa.BasicBlock]int
	depth  int
	defers []*ssa.Defer
}

func (f *frame) clone() *frame {
	n := &frame{fn: f.fn, env: make(map[ssa.Value]*AVal, len(f.env)), visits: map[*ssa.BasicBlock]int{}, depth: f.depth}
	for k, v := range f.env {
		n.env[k] = v
	}
	for k, v := range f.visits {
		n.visits[k] = v
	}
	return n
}

type result struct {
	ret   []*AVal
	st    *AState
	panic bool
	abort bool
	why   string
}

// Run abstractly executes fn on args (one per parameter, receiver first) and returns all path outcomes.
func (it *Interp) Run(fn *ssa.Function, args []*AVal, init func(*AState)) []Outcome {
	st := newState()
	if init != nil {
		init(st)
	}
	it.paths = 1
	rs := it.call(fn, args, st, 0)
	var out []Outcome
	for _, r := range rs {
		o := Outcome{Panic: r.panic, Abort: r.abort, Why: r.why, St: r.st}
		for _, v := range r.ret {
			o.Ret = append(o.Ret, v.substitute(r.st.Assume))
		}
		out = append(out, o)
	}
	return out
}

// RunWith is Run with arguments built against the initial state (to allocate abstract buffers).
func (it *Interp) RunWith(fn *ssa.Function, mk func(*AState) []*AVal) []Outcome {
	st := newState()
	args := mk(st)
	it.paths = 1
	rs := it.call(fn, args, st, 0)
	var out []Outcome
	for _, r := range rs {
		o := Outcome{Panic: r.panic, Abort: r.abort, Why: r.why, St: r.st}
		for _, v := range r.ret {
			o.Ret = append(o.Ret, v.substitute(r.st.Assume))
		}
		out = append(out, o)
	}
	return out
}

func (it *Interp) call(fn *ssa.Function, args []*AVal, st *AState, depth int) []result {
	if len(fn.Blocks) == 0 {
		return []result{{abort: true, why: "no body: " + fn.String(), st: st}}
	}
	fr := &frame{fn: fn, env: map[ssa.Value]*AVal{}, visits: map[*ssa.BasicBlock]int{}, depth: depth}
	for i, p := range fn.Params {
		if i < len(args) && args[i] != nil {
			fr.env[p] = args[i]
		} else {
			fr.env[p] = it.topOf(p.Type())
		}
	}
	return it.runFrom(fr, fn.Blocks[0], 0, nil, st)
}

func (it *Interp) intType(t types.Type) (w int, signed bool, ok bool) {
	b, isB := t.Underlying().(*types.Basic)
	if !isB {
		return 0, false, false
	}
	switch b.Kind() {
	case types.Int8:
		return 8, true, true
	case types.Int16:
		return 16, true, true
	case types.Int32:
		return 32, true, true
	case types.Int64:
		return 64, true, true
	case types.Int:
		return it.IntBits, true, true
	case types.Uint8:
		return 8, false, true
	case types.Uint16:
		return 16, false, true
	case types.Uint32:
		return 32, false, true
	case types.Uint64:
		return 64, false, true
	case types.Uint, types.Uintptr:
		return it.IntBits, false, true
	case types.UntypedInt, types.UntypedRune:
		return 64, true, true
	}
	return 0, false, false
}

func (it *Interp) topOf(t types.Type) *AVal {
	if w, s, ok := it.intType(t); ok {
		return TopInt(w, s)
	}
	if b, ok := t.Underlying().(*types.Basic); ok && b.Info()&types.IsBoolean != 0 {
		return UnknownBool()
	}
	if IsErrorType(t) {
		return UnknownErrV()
	}
	if tup, ok := t.(*types.Tuple); ok {
		var ts []*AVal
		for i := 0; i < tup.Len(); i++ {
			ts = append(ts, it.topOf(tup.At(i).Type()))
		}
		return TupleV(ts...)
	}
	return TopV()
}

func (it *Interp) constOf(c *ssa.Const) *AVal {
	t := c.Type()
	if c.Value == nil {
		if IsErrorType(t) {
			return NilErrV()
		}
		if sl, ok := t.Underlying().(*types.Slice); ok {
			if b, isB := sl.Elem().Underlying().(*types.Basic); isB && b.Kind() == types.Uint8 {
				return &AVal{K: ABytes, Arr: -1}
			}
		}
		if w, s, ok := it.intType(t); ok { // zero value of a type parameter etc.
			return ConstAInt(bi(0), w, s)
		}
		return OpaqueV("nil")
	}
	switch c.Value.Kind() {
	case constant.Bool:
		return ConstBoolV(constant.BoolVal(c.Value))
	case constant.Int:
		w, s, ok := it.intType(t)
		if !ok {
			return TopV()
		}
		x, _ := new(big.Int).SetString(c.Value.ExactString(), 10)
		return ConstAInt(x, w, s)
	case constant.String:
		return StrV(constant.StringVal(c.Value))
	}
	return TopV()
}

func (it *Interp) get(fr *frame, st *AState, v ssa.Value) *AVal {
	switch x := v.(type) {
	case *ssa.Const:
		return it.constOf(x)
	case *ssa.Global:
		return OpaqueV("global:" + x.Pkg.Pkg.Name() + "." + x.Name())
	case *ssa.Function:
		return OpaqueV("func:" + FnName(x))
	case *ssa.Builtin:
		return OpaqueV("builtin:" + x.Name())
	case *ssa.FreeVar:
		if a, ok := st.FV[x]; ok {
			return a.substitute(st.Assume)
		}
	}
	if a, ok := fr.env[v]; ok {
		return a.substitute(st.Assume)
	}
	return it.topOf(v.Type())
}

func opString(op token.Token) string { return op.String() }

func (it *Interp) event(st *AState, kind string, in ssa.Instruction, detail string) {
	st.Events = append(st.Events, fmt.Sprintf("%s@%s: %s", kind, it.P.InstrPos(in), detail))
}

// runFrom executes block b from instruction index i.
func (it *Interp) runFrom(fr *frame, b *ssa.BasicBlock, i int, pred *ssa.BasicBlock, st *AState) []result {
	if i == 0 {
		fr.visits[b]++
		if fr.visits[b] > it.MaxUnroll {
			return []result{{abort: true, why: fmt.Sprintf("loop bound %d exceeded in %s", it.MaxUnroll, FnName(fr.fn)), st: st}}
		}
		// phis are evaluated simultaneously on entry
		vals := map[*ssa.Phi]*AVal{}
		for _, in := range b.Instrs {
			phi, ok := in.(*ssa.Phi)
			if !ok {
				break
			}
			for k, p := range b.Preds {
				if p == pred {
					vals[phi] = it.get(fr, st, phi.Edges[k])
				}
			}
		}
		for phi, v := range vals {
			fr.env[phi] = v
		}
	}
	for ; i < len(b.Instrs); i++ {
		st.Steps++
		if st.Steps > 200000 {
			return []result{{abort: true, why: "step bound exceeded", st: st}}
		}
		in := b.Instrs[i]
		switch x := in.(type) {
		case *ssa.Phi, *ssa.DebugRef:
		case *ssa.BinOp:
			fr.env[x] = it.binop(fr, st, x)
		case *ssa.UnOp:
			fr.env[x] = it.unop(fr, st, x)
		case *ssa.Convert:
			fr.env[x] = it.convert(fr, st, x)
		case *ssa.ChangeType:
			fr.env[x] = it.get(fr, st, x.X)
		case *ssa.ChangeInterface:
			fr.env[x] = it.get(fr, st, x.X)
		case *ssa.MakeInterface:
			if IsErrorType(x.Type()) {
				fr.env[x] = ErrV("boxed:" + TypeName(x.X.Type()))
			} else {
				fr.env[x] = it.get(fr, st, x.X)
			}
		case *ssa.Extract:
			t := it.get(fr, st, x.Tuple)
			if t.K == ATuple && x.Index < len(t.T) {
				fr.env[x] = t.T[x.Index]
			} else {
				fr.env[x] = it.topOf(x.Type())
			}
		case *ssa.Alloc:
			it.alloc(fr, st, x)
		case *ssa.Store:
			it.store(fr, st, x)
		case *ssa.Field:
			p := it.pathOf(fr, x)
			if v, ok := st.PCells[p]; ok {
				fr.env[x] = v
			} else if v, ok := it.PathInputs[p]; ok {
				fr.env[x] = v
			} else {
				fr.env[x] = it.topOf(x.Type())
			}
		case *ssa.FieldAddr, *ssa.IndexAddr:
			// addresses are interpreted at the load/store
		case *ssa.Slice:
			if outs, forked := it.sliceSplit(fr, st, b, i, pred, x); forked {
				return outs
			}
			fr.env[x] = it.slice(fr, st, x)
		case *ssa.MakeSlice:
			fr.env[x] = it.makeSlice(fr, st, x)
		case *ssa.Index:
			fr.env[x] = it.topOf(x.Type())
		case *ssa.MakeClosure:
			if fn, ok := x.Fn.(*ssa.Function); ok {
				for k, bnd := range x.Bindings {
					if k < len(fn.FreeVars) {
						if _, isCell := st.Cells[allocOf(bnd)]; isCell {
							continue
						}
						st.FV[fn.FreeVars[k]] = it.get(fr, st, bnd)
					}
				}
			}
			fr.env[x] = OpaqueV("closure:" + FnName(fr.fn))
		case *ssa.Lookup:
			if v := it.constMapLookup(fr, st, x); v != nil {
				fr.env[x] = v
			} else {
				fr.env[x] = it.topOf(x.Type())
			}
		case *ssa.TypeAssert, *ssa.MakeMap, *ssa.MakeChan, *ssa.Range, *ssa.Next, *ssa.Select, *ssa.SliceToArrayPointer, *ssa.MultiConvert:
			if v, ok := in.(ssa.Value); ok {
				fr.env[v] = it.topOf(v.Type())
			}
		case *ssa.MapUpdate, *ssa.Send, *ssa.Go:
		case *ssa.Defer:
			fr.defers = append(fr.defers, x)
		case *ssa.RunDefers:
			// deferred calls of analysed (pure) functions do not affect results we inspect
		case *ssa.Call:
			rs := it.doCall(fr, st, x)
			if rs == nil {
				continue
			}
			if len(rs) == 1 && !rs[0].panic && !rs[0].abort {
				st = rs[0].st
				fr.env[x] = packRet(rs[0].ret)
				continue
			}
			var out []result
			for k, r := range rs {
				if r.panic || r.abort {
					out = append(out, r)
					continue
				}
				f2 := fr
				if k < len(rs)-1 {
					f2 = fr.clone()
				}
				f2.env[x] = packRet(r.ret)
				out = append(out, it.runFrom(f2, b, i+1, pred, r.st)...)
			}
			return out
		case *ssa.Return:
			var ret []*AVal
			for _, r := range x.Results {
				ret = append(ret, it.get(fr, st, r))
			}
			return []result{{ret: ret, st: st}}
		case *ssa.Panic:
			return []result{{panic: true, why: "explicit panic at " + it.P.InstrPos(x), st: st}}
		case *ssa.Jump:
			return it.runFrom(fr, b.Succs[0], 0, b, st)
		case *ssa.If:
			return it.branch(fr, st, b, x)
		default:
			if v, ok := in.(ssa.Value); ok {
				fr.env[v] = it.topOf(v.Type())
			}
		}
	}
	return []result{{abort: true, why: "fell off block", st: st}}
}

func allocOf(v ssa.Value) *ssa.Alloc {
	a, _ := v.(*ssa.Alloc)
	return a
}

func packRet(ret []*AVal) *AVal {
	switch len(ret) {
	case 0:
		return &AVal{K: AUnit}
	case 1:
		return ret[0]
	}
	return TupleV(ret...)
}

func (it *Interp) branch(fr *frame, st *AState, b *ssa.BasicBlock, x *ssa.If) []result {
	c := it.get(fr, st, x.Cond)
	pos := it.P.InstrPos(x)
	if c.K == ABool {
		switch c.B.K {
		case B1:
			st.Trace = append(st.Trace, pos+":T")
			return it.runFrom(fr, b.Succs[0], 0, b, st)
		case B0:
			st.Trace = append(st.Trace, pos+":F")
			return it.runFrom(fr, b.Succs[1], 0, b, st)
		}
	}
	it.paths++
	if it.paths > it.MaxPaths {
		return []result{{abort: true, why: "path bound exceeded", st: st}}
	}
	var out []result
	for k := 0; k < 2; k++ {
		taken := k == 0
		f2, s2 := fr.clone(), st.clone()
		feasible := true
		if c.K == ABool && c.B.K == BSym {
			val := taken
			if c.B.Neg {
				val = !val
			}
			s2.Assume[fmt.Sprintf("%s[%d]", c.B.In, c.B.Idx)] = val
		} else {
			feasible = it.refine(f2, s2, x.Cond, taken)
		}
		if !feasible {
			continue
		}
		if taken {
			s2.Trace = append(s2.Trace, pos+":t")
		} else {
			s2.Trace = append(s2.Trace, pos+":f")
		}
		out = append(out, it.runFrom(f2, b.Succs[k], 0, b, s2)...)
	}
	return out
}

// refine narrows the operands of a comparison on the taken edge; false = edge infeasible.
func (it *Interp) refine(fr *frame, st *AState, cond ssa.Value, taken bool) bool {
	cond, neg := StripNot(cond)
	if neg {
		taken = !taken
	}
	cmp, ok := AsCmp(cond)
	if !ok {
		return true
	}
	op := cmp.Op
	if !taken {
		op = NegOp(op)
	}
	a, b := it.get(fr, st, cmp.X), it.get(fr, st, cmp.Y)
	if a.K == AErr || b.K == AErr {
		// err ==/!= nil on an unknown error: record nil-ness
		var ev ssa.Value
		var other *AVal
		if a.K == AErr && a.ErrNil == -1 {
			ev, other = cmp.X, b
		} else if b.K == AErr && b.ErrNil == -1 {
			ev, other = cmp.Y, a
		}
		if ev != nil && other.K == AErr && other.ErrNil == 1 {
			if op == token.EQL {
				fr.env[ev] = NilErrV()
			} else {
				fr.env[ev] = ErrV("non-nil")
			}
		}
		return true
	}
	if a.K != AInt || b.K != AInt {
		return true
	}
	na, nb, feasible := refineInts(a, b, op)
	if !feasible {
		return false
	}
	if _, isConst := cmp.X.(*ssa.Const); !isConst {
		fr.env[cmp.X] = na
		it.backProp(fr, cmp.X, na)
	}
	if _, isConst := cmp.Y.(*ssa.Const); !isConst {
		fr.env[cmp.Y] = nb
		it.backProp(fr, cmp.Y, nb)
	}
	return true
}

// backProp pushes an interval refinement through a lossless widening conversion (int(x) refined ⇒ x refined).
func (it *Interp) backProp(fr *frame, v ssa.Value, nv *AVal) {
	cv, ok := v.(*ssa.Convert)
	if !ok {
		return
	}
	src, ok := fr.env[cv.X]
	if !ok || src.K != AInt {
		return
	}
	if !src.fits(nv.W, nv.S) {
		return
	}
	c := *src
	c.Lo, c.Hi = src.Lo, src.Hi
	if nv.Lo.Cmp(c.Lo) > 0 {
		c.Lo = nv.Lo
	}
	if nv.Hi.Cmp(c.Hi) < 0 {
		c.Hi = nv.Hi
	}
	c.Bits = append([]Bit{}, src.Bits...)
	fr.env[cv.X] = (&c).reduce()
}

func refineInts(a, b *AVal, op token.Token) (*AVal, *AVal, bool) {
	ca, cb := *a, *b
	ca.Bits, cb.Bits = append([]Bit{}, a.Bits...), append([]Bit{}, b.Bits...)
	lo := func(x, y *big.Int) *big.Int {
		if x.Cmp(y) > 0 {
			return x
		}
		return y
	}
	hi := func(x, y *big.Int) *big.Int {
		if x.Cmp(y) < 0 {
			return x
		}
		return y
	}
	one := bi(1)
	switch op {
	case token.LSS: // a < b
		ca.Hi = hi(a.Hi, new(big.Int).Sub(b.Hi, one))
		cb.Lo = lo(b.Lo, new(big.Int).Add(a.Lo, one))
	case token.LEQ:
		ca.Hi = hi(a.Hi, b.Hi)
		cb.Lo = lo(b.Lo, a.Lo)
	case token.GTR:
		ca.Lo = lo(a.Lo, new(big.Int).Add(b.Lo, one))
		cb.Hi = hi(b.Hi, new(big.Int).Sub(a.Hi, one))
	case token.GEQ:
		ca.Lo = lo(a.Lo, b.Lo)
		cb.Hi = hi(b.Hi, a.Hi)
	case token.EQL:
		ca.Lo, ca.Hi = lo(a.Lo, b.Lo), hi(a.Hi, b.Hi)
		cb.Lo, cb.Hi = ca.Lo, ca.Hi
	case token.NEQ:
		if k, ok := b.IsConst(); ok {
			if a.Lo.Cmp(k) == 0 {
				ca.Lo = new(big.Int).Add(a.Lo, one)
			}
			if a.Hi.Cmp(k) == 0 {
				ca.Hi = new(big.Int).Sub(a.Hi, one)
			}
		}
	}
	if ca.Lo.Cmp(ca.Hi) > 0 || cb.Lo.Cmp(cb.Hi) > 0 {
		return nil, nil, false
	}
	return (&ca).reduce(), (&cb).reduce(), true
}

func (it *Interp) binop(fr *frame, st *AState, x *ssa.BinOp) *AVal {
	a, b := it.get(fr, st, x.X), it.get(fr, st, x.Y)
	switch x.Op {
	case token.EQL, token.NEQ, token.LSS, token.LEQ, token.GTR, token.GEQ:
		if a.K == AInt && b.K == AInt {
			return cmpV(opString(x.Op), a, b)
		}
		if a.K == ABool && b.K == ABool && (x.Op == token.EQL || x.Op == token.NEQ) {
			r := xorBit(a.B, b.B)
			if x.Op == token.EQL {
				r = r.Not()
			}
			return &AVal{K: ABool, B: r}
		}
		if a.K == AErr && b.K == AErr && (x.Op == token.EQL || x.Op == token.NEQ) {
			eq := x.Op == token.EQL
			switch {
			case a.ErrNil == 1 && b.ErrNil == 1:
				return ConstBoolV(eq)
			case (a.ErrNil == 1 && b.ErrNil == 0) || (a.ErrNil == 0 && b.ErrNil == 1):
				return ConstBoolV(!eq)
			case a.ErrNil == 0 && b.ErrNil == 0 && a.Tag != "" && b.Tag != "" && strings.HasPrefix(a.Tag, "global:") && strings.HasPrefix(b.Tag, "global:"):
				return ConstBoolV((a.Tag == b.Tag) == eq)
			}
			return UnknownBool()
		}
		if a.K == ABytes && b.K == AOpaque && b.Tag == "nil" || (b.K == ABytes && b.Arr < 0) && a.K == ABytes {
			isNil := a.Arr < 0
			return ConstBoolV(isNil == (x.Op == token.EQL))
		}
		if b.K == ABytes && a.K == AOpaque && a.Tag == "nil" {
			isNil := b.Arr < 0
			return ConstBoolV(isNil == (x.Op == token.EQL))
		}
		return UnknownBool()
	}
	w, s, ok := it.intType(x.Type())
	if !ok {
		if a.K == ABool && b.K == ABool {
			switch x.Op {
			case token.AND, token.LAND:
				return &AVal{K: ABool, B: andBit(a.B, b.B)}
			case token.OR, token.LOR:
				return &AVal{K: ABool, B: orBit(a.B, b.B)}
			}
		}
		return it.topOf(x.Type())
	}
	if a.K != AInt || b.K != AInt {
		return TopInt(w, s)
	}
	var r *AVal
	wrapped := false
	switch x.Op {
	case token.ADD:
		r, wrapped = addV(a, b, w, s)
	case token.SUB:
		r, wrapped = subV(a, b, w, s)
	case token.MUL:
		r, wrapped = mulV(a, b, w, s)
	case token.QUO:
		r = quoV(a, b, w, s)
	case token.REM:
		r = remV(a, b, w, s)
	case token.AND:
		r = bitwiseV(a, b, w, s, andBit)
	case token.OR:
		r = bitwiseV(a, b, w, s, orBit)
	case token.XOR:
		r = bitwiseV(a, b, w, s, xorBit)
	case token.AND_NOT:
		r = bitwiseV(a, b, w, s, func(p, q Bit) Bit { return andBit(p, q.Not()) })
		// clearing the low k bits (mask 2^k − 1) rounds down to a multiple of 2^k: monotone, so the interval maps end to end
		if m, isK := b.IsConst(); isK && m.Sign() > 0 && a.Lo != nil && a.Lo.Sign() >= 0 {
			if mp := new(big.Int).Add(m, big.NewInt(1)); mp.BitLen() > 0 && new(big.Int).And(mp, m).Sign() == 0 {
				lo := new(big.Int).AndNot(a.Lo, m)
				hi := new(big.Int).AndNot(a.Hi, m)
				if r.Lo == nil || lo.Cmp(r.Lo) > 0 {
					r.Lo = lo
				}
				if r.Hi == nil || hi.Cmp(r.Hi) < 0 {
					r.Hi = hi
				}
			}
		}
	case token.SHL, token.SHR:
		k, ok := b.IsConst()
		if !ok || !k.IsInt64() || k.Int64() < 0 || k.Int64() > 64 {
			return TopInt(w, s)
		}
		if x.Op == token.SHL {
			r, wrapped = shlV(a, int(k.Int64()), w, s)
		} else {
			r = shrV(a, int(k.Int64()), w, s)
		}
	default:
		return TopInt(w, s)
	}
	if wrapped {
		it.event(st, "wrap", x, fmt.Sprintf("%s %s %s may leave the range of %s", a, x.Op, b, x.Type()))
	}
	return r
}

func (it *Interp) unop(fr *frame, st *AState, x *ssa.UnOp) *AVal {
	switch x.Op {
	case token.NOT:
		a := it.get(fr, st, x.X)
		if a.K == ABool {
			return &AVal{K: ABool, B: a.B.Not()}
		}
		return UnknownBool()
	case token.SUB:
		a := it.get(fr, st, x.X)
		w, s, ok := it.intType(x.Type())
		if ok && a.K == AInt {
			r, _ := subV(ConstAInt(bi(0), w, s), a, w, s)
			return r
		}
	case token.XOR:
		a := it.get(fr, st, x.X)
		w, s, ok := it.intType(x.Type())
		if ok && a.K == AInt {
			return bitwiseV(a, a, w, s, func(p, _ Bit) Bit { return p.Not() })
		}
	case token.MUL:
		return it.load(fr, st, x)
	}
	return it.topOf(x.Type())
}

func (it *Interp) convert(fr *frame, st *AState, x *ssa.Convert) *AVal {
	a := it.get(fr, st, x.X)
	w, s, ok := it.intType(x.Type())
	if ok && a.K == AInt {
		r, lossy := convertV(a, w, s)
		if lossy {
			it.event(st, "narrow", x, fmt.Sprintf("conversion of %s to %s may lose information", a, x.Type()))
		}
		return r
	}
	if a.K == ABytes || a.K == AStr {
		return a
	}
	return it.topOf(x.Type())
}

// ---- memory

// ByteArrayLen reports the length of a [N]byte (or *[N]byte) type.
func ByteArrayLen(t types.Type) (int64, bool) {
	n, ok := isByteArray(t)
	return int64(n), ok
}

func isByteArray(t types.Type) (int, bool) {
	if p, ok := t.Underlying().(*types.Pointer); ok {
		t = p.Elem()
	}
	a, ok := t.Underlying().(*types.Array)
	if !ok {
		return 0, false
	}
	b, ok := a.Elem().Underlying().(*types.Basic)
	if !ok || b.Kind() != types.Uint8 {
		return 0, false
	}
	return int(a.Len()), true
}

func (it *Interp) alloc(fr *frame, st *AState, x *ssa.Alloc) {
	if n, ok := isByteArray(x.Type()); ok {
		zero := make([]*AVal, n)
		for i := range zero {
			zero[i] = ConstAInt(bi(0), 8, false)
		}
		fr.env[x] = st.NewArray(zero)
		return
	}
	elem := x.Type().Underlying().(*types.Pointer).Elem()
	st.Cells[x] = it.zeroOf(elem)
}

func (it *Interp) zeroOf(t types.Type) *AVal {
	if w, s, ok := it.intType(t); ok {
		return ConstAInt(bi(0), w, s)
	}
	if b, ok := t.Underlying().(*types.Basic); ok && b.Info()&types.IsBoolean != 0 {
		return ConstBoolV(false)
	}
	if IsErrorType(t) {
		return NilErrV()
	}
	if sl, ok := t.Underlying().(*types.Slice); ok {
		if b, isB := sl.Elem().Underlying().(*types.Basic); isB && b.Kind() == types.Uint8 {
			return &AVal{K: ABytes, Arr: -1}
		}
	}
	return TopV()
}

// addrIndex resolves an IndexAddr into (array id, absolute index).
func (it *Interp) addrIndex(fr *frame, st *AState, ia *ssa.IndexAddr) (int, int, bool) {
	base := it.get(fr, st, ia.X)
	idx := it.get(fr, st, ia.Index)
	k, ok := idx.IsConst()
	if base.K != ABytes || base.Arr < 0 || !ok || !k.IsInt64() {
		return 0, 0, false
	}
	i := int(k.Int64())
	if i < 0 || i >= base.Len {
		return base.Arr, -1, true // out of range: reported by caller
	}
	return base.Arr, base.Off + i, true
}

func (it *Interp) load(fr *frame, st *AState, x *ssa.UnOp) *AVal {
	switch a := x.X.(type) {
	case *ssa.Alloc:
		if v, ok := st.Cells[a]; ok {
			return v.substitute(st.Assume)
		}
		if v, ok := fr.env[a]; ok && v.K == ABytes { // *[N]byte loaded as array value: unsupported
			return TopV()
		}
	case *ssa.FreeVar:
		if c := CellOf(a); c != nil {
			if v, ok := st.Cells[c]; ok {
				return v.substitute(st.Assume)
			}
		}
	case *ssa.Global:
		if IsErrorType(x.Type()) {
			return ErrV("global:" + a.Pkg.Pkg.Name() + "." + a.Name())
		}
		return OpaqueV("global:" + a.Pkg.Pkg.Name() + "." + a.Name())
	case *ssa.IndexAddr:
		arr, i, ok := it.addrIndex(fr, st, a)
		if ok {
			if i < 0 {
				it.event(st, "oob", x, "index out of range of the abstract buffer")
				return TopInt(8, false)
			}
			return st.Arrays[arr][i].substitute(st.Assume)
		}
	case *ssa.FieldAddr:
		p := it.pathOf(fr, a)
		if v, ok := st.PCells[p]; ok {
			return v.substitute(st.Assume)
		}
		if v, ok := it.PathInputs[p]; ok {
			return v
		}
	}
	return it.topOf(x.Type())
}

// pathOf renders an access path for struct-field cells, using the frame's parameter names.
func (it *Interp) pathOf(fr *frame, v ssa.Value) string {
	switch x := v.(type) {
	case *ssa.FieldAddr:
		return it.pathOf(fr, x.X) + "." + fieldName(x.X.Type(), x.Field)
	case *ssa.Parameter:
		if a, ok := fr.env[x]; ok && a.K == AOpaque && strings.HasPrefix(a.Tag, "obj:") {
			return strings.TrimPrefix(a.Tag, "obj:")
		}
		return x.Name()
	case *ssa.Alloc:
		// a by-value struct parameter spilled to a local: the path is the parameter's
		if sts := StoresToCell(x); len(sts) == 1 {
			if p, ok := sts[0].Val.(*ssa.Parameter); ok {
				return it.pathOf(fr, p)
			}
		}
		return fmt.Sprintf("alloc@%d:%s", fr.depth, x.Comment)
	case *ssa.UnOp:
		if x.Op == token.MUL {
			return it.pathOf(fr, x.X)
		}
	case *ssa.Field:
		return it.pathOf(fr, x.X) + "." + fieldName(x.X.Type(), x.Field)
	}
	return "?"
}

// RunIn abstractly executes fn starting from an existing state (e.g. the outcome of a previous run), so that
// an encoder's output buffer can be handed to the decoder.
func (it *Interp) RunIn(st *AState, fn *ssa.Function, mk func(*AState) []*AVal) []Outcome {
	st = st.clone()
	args := mk(st)
	it.paths = 1
	rs := it.call(fn, args, st, 0)
	var out []Outcome
	for _, r := range rs {
		o := Outcome{Panic: r.panic, Abort: r.abort, Why: r.why, St: r.st}
		for _, v := range r.ret {
			o.Ret = append(o.Ret, v.substitute(r.st.Assume))
		}
		out = append(out, o)
	}
	return out
}

func (it *Interp) store(fr *frame, st *AState, x *ssa.Store) {
	val := it.get(fr, st, x.Val)
	switch a := x.Addr.(type) {
	case *ssa.Alloc:
		st.Cells[a] = val
	case *ssa.FreeVar:
		if c := CellOf(a); c != nil {
			st.Cells[c] = val
		}
	case *ssa.IndexAddr:
		arr, i, ok := it.addrIndex(fr, st, a)
		if ok {
			if i < 0 {
				it.event(st, "oob", x, "store out of range of the abstract buffer")
				return
			}
			st.Arrays[arr][i] = val
		}
	case *ssa.FieldAddr:
		st.PCells[it.pathOf(fr, a)] = val
	}
}

func (it *Interp) slice(fr *frame, st *AState, x *ssa.Slice) *AVal {
	base := it.get(fr, st, x.X)
	if base.K == AStr {
		lo, hi := 0, len(base.Str)
		if x.Low != nil {
			k, ok := it.get(fr, st, x.Low).IsConst()
			if !ok {
				return TopV()
			}
			lo = int(k.Int64())
		}
		if x.High != nil {
			k, ok := it.get(fr, st, x.High).IsConst()
			if !ok {
				return TopV()
			}
			hi = int(k.Int64())
		}
		if lo < 0 || hi > len(base.Str) || lo > hi {
			it.event(st, "oob", x, "string slice out of range")
			return TopV()
		}
		return StrV(base.Str[lo:hi])
	}
	if base.K != ABytes {
		return TopV()
	}
	if base.Arr < 0 {
		return base
	}
	lo, hi := 0, base.Len
	if x.Low != nil {
		k, ok := it.get(fr, st, x.Low).IsConst()
		if !ok {
			return TopV()
		}
		lo = int(k.Int64())
	}
	if x.High != nil {
		k, ok := it.get(fr, st, x.High).IsConst()
		if !ok {
			return TopV()
		}
		hi = int(k.Int64())
	}
	if lo < 0 || hi > base.Cap || lo > hi {
		it.event(st, "oob", x, fmt.Sprintf("slice bounds [%d:%d] outside capacity %d", lo, hi, base.Cap))
		return TopV()
	}
	return &AVal{K: ABytes, Arr: base.Arr, Off: base.Off + lo, Len: hi - lo, Cap: base.Cap - lo}
}

func (it *Interp) makeSlice(fr *frame, st *AState, x *ssa.MakeSlice) *AVal {
	sl, ok := x.Type().Underlying().(*types.Slice)
	if !ok {
		return TopV()
	}
	b, isB := sl.Elem().Underlying().(*types.Basic)
	k, isC := it.get(fr, st, x.Len).IsConst()
	if !isB || b.Kind() != types.Uint8 || !isC || !k.IsInt64() || k.Int64() > 1<<16 {
		return TopV()
	}
	zero := make([]*AVal, int(k.Int64()))
	for i := range zero {
		zero[i] = ConstAInt(bi(0), 8, false)
	}
	return st.NewArray(zero)
}

// ---- calls

func (it *Interp) doCall(fr *frame, st *AState, c *ssa.Call) []result {
	var args []*AVal
	for i := 0; i < NArgs(c); i++ {
		args = append(args, it.get(fr, st, ArgRaw(c, i)))
	}
	if b, ok := c.Call.Value.(*ssa.Builtin); ok {
		return []result{{ret: []*AVal{it.builtin(st, c, b.Name(), args)}, st: st}}
	}
	name := CalleeName(c)
	if m, ok := it.Models[name]; ok {
		return []result{{ret: m(it, st, args), st: st}}
	}
	if r, ok := it.stdModel(st, c, name, args); ok {
		return []result{{ret: r, st: st}}
	}
	callee := c.Call.StaticCallee()
	if callee != nil && len(callee.Blocks) == 0 {
		if o := callee.Origin(); o != nil && len(o.Blocks) > 0 && o.TypeParams().Len() == 0 {
			callee = o
		}
	}
	inModule := callee != nil && callee.Pkg != nil && strings.HasPrefix(callee.Pkg.Pkg.Path(), Module)
	if callee != nil && callee.Pkg == nil { // instantiated generic: package of the origin
		if o := callee.Origin(); o != nil && o.Pkg != nil && strings.HasPrefix(o.Pkg.Pkg.Path(), Module) {
			inModule = true
		}
	}
	if callee != nil && callee.Parent() != nil {
		inModule = true // closure defined in the analysed code
	}
	if callee == nil || !inModule || len(callee.Blocks) == 0 || it.NoInline[name] || fr.depth >= it.MaxDepth {
		return []result{{ret: unpack(it.topOf(c.Type())), st: st}}
	}
	// closures read their captured cells through FreeVars → cells map is shared in the state; by-value captures are bound here
	rs := it.call(callee, args, st, fr.depth+1)
	if mc, ok := c.Call.Value.(*ssa.MakeClosure); ok {
		_ = mc
	}
	return rs
}

func unpack(v *AVal) []*AVal {
	if v.K == ATuple {
		return v.T
	}
	if v.K == AUnit {
		return nil
	}
	return []*AVal{v}
}

func (it *Interp) builtin(st *AState, c *ssa.Call, name string, args []*AVal) *AVal {
	switch name {
	case "len", "cap":
		if len(args) == 1 {
			switch args[0].K {
			case ABytes:
				n := args[0].Len
				if name == "cap" {
					n = args[0].Cap
				}
				if args[0].Arr < 0 {
					n = 0
				}
				return ConstAInt(bi(int64(n)), it.IntBits, true)
			case AStr:
				return ConstAInt(bi(int64(len(args[0].Str))), it.IntBits, true)
			case AInt: // symbolic length supplied by the rule for an opaque slice
				return args[0]
			}
		}
		v := TopInt(it.IntBits, true)
		v.Lo = bi(0)
		return v.reduce()
	case "copy":
		if len(args) == 2 && args[0].K == ABytes && args[1].K == ABytes {
			n := args[0].Len
			if args[0].Arr < 0 {
				n = 0
			}
			m := args[1].Len
			if args[1].Arr < 0 {
				m = 0
			}
			if m < n {
				n = m
			}
			src := st.Bytes(&AVal{K: ABytes, Arr: args[1].Arr, Off: args[1].Off, Len: n})
			for i := 0; i < n; i++ {
				st.Arrays[args[0].Arr][args[0].Off+i] = src[i]
			}
			return ConstAInt(bi(int64(n)), it.IntBits, true)
		}
		v := TopInt(it.IntBits, true)
		v.Lo = bi(0)
		return v.reduce()
	case "append":
		// append(dst []byte, src []byte...): in place while the capacity suffices, otherwise into a fresh array (contents kept)
		if len(args) == 2 && args[0].K == ABytes && args[1].K == ABytes {
			return it.appendBytes(st, args[0], st.Bytes(&AVal{K: ABytes, Arr: args[1].Arr, Off: args[1].Off, Len: lenOf(args[1])}))
		}
		return TopV()
	case "min", "max":
		if len(args) == 2 && args[0].K == AInt && args[1].K == AInt {
			a, b := args[0], args[1]
			lt := cmpV("<=", a, b)
			if lt.B.K == B1 {
				if name == "min" {
					return a
				}
				return b
			}
			if lt.B.K == B0 {
				if name == "min" {
					return b
				}
				return a
			}
			r := &AVal{K: AInt, W: a.W, S: a.S, Bits: TopInt(a.W, a.S).Bits}
			pick := func(x, y *big.Int, wantMin bool) *big.Int {
				if (x.Cmp(y) < 0) == wantMin {
					return x
				}
				return y
			}
			r.Lo, r.Hi = pick(a.Lo, b.Lo, name == "min"), pick(a.Hi, b.Hi, name == "min")
			return r.reduce()
		}
	}
	return it.topOf(c.Type())
}

func combineBE(st *AState, bs []*AVal, w int) *AVal {
	v := &AVal{K: AInt, W: w, S: false, Bits: make([]Bit, w)}
	n := len(bs)
	for i, b := range bs { // bs[0] most significant
		if b == nil || b.K != AInt {
			return TopInt(w, false)
		}
		sh := (n - 1 - i) * 8
		for j := 0; j < 8; j++ {
			v.Bits[sh+j] = b.Bits[j]
		}
	}
	// recover a linear form when the bits are exactly sym[0..k) (identity provenance)
	v = v.reduce()
	if id, k := identitySym(v); id != "" {
		if al, ok := st.Alias[id]; ok {
			if k <= al.W {
				r, _ := convertV(al.substitute(st.Assume), w, false)
				return r
			}
			return v
		}
		v.Lin = &Lin{Sym: id, A: bi(1), B: bi(0)}
	}
	return v
}

// identitySym: bits i<k are sym[i] of one symbol and all others are 0 ⇒ the value equals the symbol.
func identitySym(v *AVal) (string, int) {
	sym := ""
	k := 0
	for i, b := range v.Bits {
		switch b.K {
		case BSym:
			if b.Neg || b.Idx != i || (sym != "" && b.In != sym) {
				return "", 0
			}
			sym = b.In
			k = i + 1
		case B0:
		default:
			return "", 0
		}
	}
	return sym, k
}

func splitBE(st *AState, v *AVal, nbytes int) []*AVal {
	// a value without bit provenance is given an alias symbol so that re-assembling the bytes recovers it exactly
	unknown := false
	for _, b := range v.Bits {
		if b.K == BUnk {
			unknown = true
		}
	}
	if unknown && v.W <= nbytes*8 {
		name := fmt.Sprintf("@%d", len(st.Alias))
		st.Alias[name] = v
		c := *v
		c.Bits = make([]Bit, v.W)
		for i := range c.Bits {
			if v.Bits[i].K == BUnk {
				c.Bits[i] = Bit{K: BSym, In: name, Idx: i}
			} else {
				c.Bits[i] = v.Bits[i]
			}
		}
		// the alias stands for the whole value only if every bit carries its own index
		full := true
		for i := range c.Bits {
			if !(c.Bits[i].K == BSym && c.Bits[i].In == name) && c.Bits[i].K != B0 {
				full = false
			}
		}
		if full {
			for i := range c.Bits {
				if c.Bits[i].K == B0 && v.Hi.Bit(i) == 1 {
					// keep zeros that are known; nothing to do
				}
			}
			v = &c
		}
	}
	out := make([]*AVal, nbytes)
	for i := 0; i < nbytes; i++ {
		sh := (nbytes - 1 - i) * 8
		b := &AVal{K: AInt, W: 8, S: false, Bits: make([]Bit, 8)}
		for j := 0; j < 8; j++ {
			if sh+j < v.W {
				b.Bits[j] = v.Bits[sh+j]
			} else {
				b.Bits[j] = Bit{K: B0}
			}
		}
		out[i] = b.reduce()
	}
	return out
}

// stdModel: the few stdlib functions the codecs use.
func (it *Interp) stdModel(st *AState, c *ssa.Call, name string, args []*AVal) ([]*AVal, bool) {
	switch name {
	case "encoding/binary.bigEndian.Uint16", "encoding/binary.bigEndian.Uint32":
		n := 2
		if strings.HasSuffix(name, "32") {
			n = 4
		}
		if len(args) == 2 && args[1].K == ABytes && args[1].Arr >= 0 {
			if args[1].Len < n {
				it.event(st, "oob", c, fmt.Sprintf("%s on a buffer of %d bytes", shortName(name), args[1].Len))
				return []*AVal{TopInt(n*8, false)}, true
			}
			bs := st.Bytes(&AVal{K: ABytes, Arr: args[1].Arr, Off: args[1].Off, Len: n})
			return []*AVal{combineBE(st, bs, n*8)}, true
		}
		return []*AVal{TopInt(n*8, false)}, true
	case "encoding/binary.bigEndian.PutUint16", "encoding/binary.bigEndian.PutUint32":
		n := 2
		if strings.HasSuffix(name, "32") {
			n = 4
		}
		if len(args) == 3 && args[1].K == ABytes && args[1].Arr >= 0 && args[2].K == AInt {
			if args[1].Len < n {
				it.event(st, "oob", c, fmt.Sprintf("%s on a buffer of %d bytes", shortName(name), args[1].Len))
				return nil, true
			}
			for i, b := range splitBE(st, args[2], n) {
				st.Arrays[args[1].Arr][args[1].Off+i] = b
			}
		}
		return nil, true
	case "encoding/binary.bigEndian.AppendUint16", "encoding/binary.bigEndian.AppendUint32":
		n := 2
		if strings.HasSuffix(name, "32") {
			n = 4
		}
		if len(args) == 3 && args[1].K == ABytes && args[2].K == AInt {
			return []*AVal{it.appendBytes(st, args[1], splitBE(st, args[2], n))}, true
		}
		return []*AVal{TopV()}, true
	case "errors.Is":
		if len(args) == 2 && args[0].K == AErr && args[1].K == AErr {
			switch {
			case args[0].ErrNil == 1:
				return []*AVal{ConstBoolV(false)}, true
			case args[0].ErrNil == 0 && strings.HasPrefix(args[0].Tag, "global:") && strings.HasPrefix(args[1].Tag, "global:"):
				return []*AVal{ConstBoolV(args[0].Tag == args[1].Tag)}, true
			}
		}
		return []*AVal{UnknownBool()}, true
	case "fmt.Errorf", "errors.New":
		return []*AVal{ErrV("new")}, true
	}
	return nil, false
}

// ---------------------------------------------------------------------------
// helpers for rules

// SummarizeOutcomes renders outcomes compactly for evidence/diagnostics.
func SummarizeOutcomes(os []Outcome) string {
	var ss []string
	for _, o := range os {
		switch {
		case o.Abort:
			ss = append(ss, "⊤("+o.Why+")")
		case o.Panic:
			ss = append(ss, "panic("+o.Why+")")
		default:
			var rs []string
			for _, r := range o.Ret {
				rs = append(rs, r.String())
			}
			as := assumeString(o.St.Assume)
			ss = append(ss, "{"+as+"} → "+strings.Join(rs, ", "))
		}
	}
	return strings.Join(ss, " ; ")
}

func assumeString(a map[string]bool) string {
	var ks []string
	for k, v := range a {
		if v {
			ks = append(ks, k+"=1")
		} else {
			ks = append(ks, k+"=0")
		}
	}
	sort.Strings(ks)
	return strings.Join(ks, ",")
}

// ExpectBits builds an expected bit pattern: fields are placed LSB-first.
type BitField struct {
	Sym   string // "" = constant zeros/ones per Const
	From  int    // first symbol bit
	N     int
	Const int // for Sym=="" : 0 or 1 repeated
}

// MatchBits compares v's bits with the expected fields under the path's assumptions; returns "" or a description of the mismatch.
func MatchBits(v *AVal, assume map[string]bool, fields ...BitField) string {
	if v == nil || v.K != AInt {
		return "not an integer: " + v.String()
	}
	pos := 0
	for _, f := range fields {
		for j := 0; j < f.N; j++ {
			if pos >= v.W {
				return fmt.Sprintf("pattern longer than the %d-bit value", v.W)
			}
			var want Bit
			if f.Sym == "" {
				want = Bit{K: uint8(f.Const)}
			} else {
				want = Bit{K: BSym, In: f.Sym, Idx: f.From + j}
				if val, ok := assume[fmt.Sprintf("%s[%d]", f.Sym, f.From+j)]; ok {
					if val {
						want = Bit{K: B1}
					} else {
						want = Bit{K: B0}
					}
				}
			}
			got := v.Bits[pos]
			if got.K != want.K || (got.K == BSym && (got.In != want.In || got.Idx != want.Idx || got.Neg != want.Neg)) {
				return fmt.Sprintf("bit %d is %s, expected %s (value bits: %s)", pos, got, want, v.BitString())
			}
			pos++
		}
	}
	for ; pos < v.W; pos++ {
		if v.Bits[pos].K != B0 {
			return fmt.Sprintf("bit %d is %s, expected 0 (value bits: %s)", pos, v.Bits[pos], v.BitString())
		}
	}
	return ""
}

// MatchBool compares an abstract boolean with the expected symbolic bit under assumptions.
func MatchBool(v *AVal, assume map[string]bool, sym string, idx int) string {
	if v == nil || v.K != ABool {
		return "not a boolean: " + v.String()
	}
	want := Bit{K: BSym, In: sym, Idx: idx}
	if val, ok := assume[fmt.Sprintf("%s[%d]", sym, idx)]; ok {
		if val {
			want = Bit{K: B1}
		} else {
			want = Bit{K: B0}
		}
	}
	if v.B.K != want.K || (v.B.K == BSym && (v.B.In != want.In || v.B.Idx != want.Idx || v.B.Neg != want.Neg)) {
		return fmt.Sprintf("is %s, expected %s", v.B, want)
	}
	return ""
}

// constMapLookup evaluates `table[k]` / `v, ok := table[k]` on a package-level map of integer constants that is initialised by a
// literal and never updated (a lookup table standing in for a switch): exact when the key's range contains no key of the table
// (the zero value, ok=false) or is a single key of it. nil = not such a lookup or not exact.
func (it *Interp) constMapLookup(fr *frame, st *AState, x *ssa.Lookup) *AVal {
	ld, ok := x.X.(*ssa.UnOp)
	if !ok || ld.Op != token.MUL {
		return nil
	}
	g, ok := ld.X.(*ssa.Global)
	if !ok {
		return nil
	}
	tbl, ok := it.constIntMap(g)
	if !ok {
		return nil
	}
	mt, ok := g.Type().Underlying().(*types.Pointer).Elem().Underlying().(*types.Map)
	if !ok {
		return nil
	}
	w, signed, ok := it.intType(mt.Elem())
	if !ok {
		return nil
	}
	key := it.get(fr, st, x.Index)
	if key == nil || key.K != AInt || key.Lo == nil || key.Hi == nil {
		return nil
	}
	n := 0
	var hit int64
	for k, v := range tbl {
		kb := bi(k)
		if kb.Cmp(key.Lo) >= 0 && kb.Cmp(key.Hi) <= 0 {
			n++
			hit = v
		}
	}
	var val, okv *AVal
	switch {
	case n == 0:
		val, okv = ConstAInt(bi(0), w, signed), ConstBoolV(false)
	case n == 1 && key.Lo.Cmp(key.Hi) == 0:
		val, okv = ConstAInt(bi(hit), w, signed), ConstBoolV(true)
	default:
		return nil
	}
	if x.CommaOk {
		return TupleV(val, okv)
	}
	return val
}

var constIntMapCache = map[*ssa.Global]map[int64]int64{}

func (it *Interp) constIntMap(g *ssa.Global) (map[int64]int64, bool) {
	if m, seen := constIntMapCache[g]; seen {
		return m, m != nil
	}
	constIntMapCache[g] = nil
	if g.Pkg == nil {
		return nil, false
	}
	var pk *packages.Package
	for _, q := range it.P.Pkgs {
		if q.Types == g.Pkg.Pkg {
			pk = q
		}
	}
	if pk == nil {
		return nil, false
	}
	lit, _ := VarLiteral(pk, g.Name())
	if lit == nil {
		return nil, false
	}
	out := map[int64]int64{}
	for _, el := range lit.Elts {
		kv, isKV := el.(*ast.KeyValueExpr)
		if !isKV {
			return nil, false
		}
		kc, vc := pk.TypesInfo.Types[kv.Key].Value, pk.TypesInfo.Types[kv.Value].Value
		if kc == nil || vc == nil {
			return nil, false
		}
		k, okK := constant.Int64Val(constant.ToInt(kc))
		v, okV := constant.Int64Val(constant.ToInt(vc))
		if !okK || !okV {
			return nil, false
		}
		if _, dup := out[k]; dup {
			return nil, false
		}
		out[k] = v
	}
	// never updated outside its initialiser
	mutated := false
	for _, m := range g.Pkg.Members {
		check := func(f *ssa.Function) {
			if f == nil || f.Name() == "init" {
				return
			}
			for _, fn := range withAnonPlain(f) {
				for _, b := range fn.Blocks {
					for _, in := range b.Instrs {
						for _, op := range in.Operands(nil) {
							if *op != ssa.Value(g) {
								continue
							}
							// the only allowed use of the global is a load whose value is looked up (or measured / ranged over)
							ld, isLd := in.(*ssa.UnOp)
							if !isLd {
								mutated = true
								continue
							}
							for _, u := range Referrers(ld) {
								switch u.(type) {
								case *ssa.Lookup, *ssa.Range, *ssa.DebugRef:
								default:
									if c, isC := u.(*ssa.Call); isC {
										if bt, isB := c.Call.Value.(*ssa.Builtin); isB && bt.Name() == "len" {
											continue
										}
									}
									mutated = true
								}
							}
						}
					}
				}
			}
		}
		switch x := m.(type) {
		case *ssa.Function:
			check(x)
		case *ssa.Type:
			for _, t := range []types.Type{x.Type(), types.NewPointer(x.Type())} {
				ms := it.P.SSA.MethodSets.MethodSet(t)
				for i := 0; i < ms.Len(); i++ {
					check(it.P.SSA.MethodValue(ms.At(i)))
				}
			}
		}
	}
	if mutated {
		return nil, false
	}
	constIntMapCache[g] = out
	return out, true
}

// sliceSplit: a slice of a byte buffer whose low or high bound is not a constant but ranges over at most 17 values (a token length
// 0…8, an extension size 0/1/2/4) is executed once per value: the buffer geometry stays concrete on each path (`rest = rest[tkl:]`
// followed by `len(data) - len(rest)`). Values outside the buffer are left to the ordinary slice (which records the event).
func (it *Interp) sliceSplit(fr *frame, st *AState, b *ssa.BasicBlock, i int, pred *ssa.BasicBlock, x *ssa.Slice) ([]result, bool) {
	base := it.get(fr, st, x.X)
	if base.K != ABytes || base.Arr < 0 {
		return nil, false
	}
	var which ssa.Value
	for _, bnd := range []ssa.Value{x.Low, x.High} {
		if bnd == nil {
			continue
		}
		v := it.get(fr, st, bnd)
		if _, isC := v.IsConst(); isC {
			continue
		}
		if which != nil {
			return nil, false // two open bounds: not split
		}
		which = bnd
	}
	if which == nil {
		return nil, false
	}
	v := it.get(fr, st, which)
	if v.K != AInt || v.Lo == nil || v.Hi == nil || v.Lo.Sign() < 0 {
		return nil, false
	}
	span := new(big.Int).Sub(v.Hi, v.Lo)
	if !span.IsInt64() || span.Int64() > 16 {
		return nil, false
	}
	var out []result
	for k := v.Lo.Int64(); k <= v.Hi.Int64(); k++ {
		it.paths++
		if it.paths > it.MaxPaths {
			return []result{{abort: true, why: "path bound exceeded", st: st}}, true
		}
		f2, s2 := fr.clone(), st.clone()
		c := ConstAInt(bi(k), v.W, v.S)
		f2.env[which] = c
		it.backProp(f2, which, c)
		f2.env[x] = it.slice(f2, s2, x)
		out = append(out, it.runFrom(f2, b, i+1, pred, s2)...)
	}
	return out, true
}

func lenOf(v *AVal) int {
	if v.K != ABytes || v.Arr < 0 {
		return 0
	}
	return v.Len
}

// appendBytes models append(dst, bs...) on abstract byte buffers.
func (it *Interp) appendBytes(st *AState, dst *AVal, bs []*AVal) *AVal {
	n := lenOf(dst)
	if dst.Arr >= 0 && n+len(bs) <= dst.Cap {
		for i, b := range bs {
			st.Arrays[dst.Arr][dst.Off+n+i] = b
		}
		return &AVal{K: ABytes, Arr: dst.Arr, Off: dst.Off, Len: n + len(bs), Cap: dst.Cap}
	}
	var all []*AVal
	if dst.Arr >= 0 {
		all = append(all, st.Bytes(&AVal{K: ABytes, Arr: dst.Arr, Off: dst.Off, Len: n})...)
	}
	all = append(all, bs...)
	return st.NewArray(all)
}

package core

import (
	"strings"
	"unicode"

	"golang.org/x/tools/go/ssa"
)

// Absorption ("virtual inlining").
//
// The rules anchor on functions by role name and then look for constructs (calls, guards, stores) in the anchored function.
// A maintainer who extracts part of such a function into a new unexported helper, or turns a deferred closure into a named
// clean-up method, has not changed behaviour – but the construct is now in another *ssa.Function. To stay exact under such
// edits, a helper that (a) lives in the same package, (b) is unexported and top-level, (c) is not itself an anchor of a rule,
// (d) is only ever used as the callee of a static call or defer, is analysed as part of every function that calls it:
//   - Instrs/Calls/IfsOf visit its body right after the call instruction,
//   - PathQuery continues into it and back (with the returned values correlated to the caller's tests of them),
//   - Dominates / OnlyViaEdge / GuardedBy reason over caller + helper,
//   - Resolve maps its parameters to the arguments of its (single) call site and its results to its (single) return,
//   - the lock sets at its instructions start from the lock set at the call.
// Nothing is assumed about the helper: its body is analysed, not summarised.

const absorbDepth = 3

type absorbIndex struct {
	sites map[*ssa.Function][]ssa.CallInstruction // absorbable helper (generic origin) → its static call/defer sites
	// adopted: function → the unexported methods whose only use in the program is one method value (`x.m` handed over as a
	// callback) created in that function: a function literal that was given a name and a receiver struct for its captured
	// variables. They are members of the function's closure family (WithAnon).
	adopted map[*ssa.Function][]*ssa.Function
	binder  map[*ssa.Function]*ssa.Function // adopted method → the function that creates its method value
}

var absorb = &absorbIndex{sites: map[*ssa.Function][]ssa.CallInstruction{}, adopted: map[*ssa.Function][]*ssa.Function{}, binder: map[*ssa.Function]*ssa.Function{}}

// AbsorptionEnabled switches the whole mechanism (off during the anchor-recording dry run).
var AbsorptionEnabled = true

// BuildAbsorption computes the set of absorbable helpers. isAnchor tells whether a role name is looked up by some rule.
func (p *Prog) BuildAbsorption(isAnchor func(name string) bool) {
	absorb = &absorbIndex{sites: map[*ssa.Function][]ssa.CallInstruction{}, adopted: map[*ssa.Function][]*ssa.Function{}, binder: map[*ssa.Function]*ssa.Function{}}
	boundIn := map[*ssa.Function][]*ssa.Function{} // method → the functions that create a method value of it
	type use struct {
		calls []ssa.CallInstruction
		other bool
	}
	uses := map[*ssa.Function]*use{}
	get := func(f *ssa.Function) *use {
		u := uses[f]
		if u == nil {
			u = &use{}
			uses[f] = u
		}
		return u
	}
	for _, fn := range p.AllSrcFuncs(false) {
		for _, b := range fn.Blocks {
			for _, in := range b.Instrs {
				var calleeVal ssa.Value
				if c, ok := in.(ssa.CallInstruction); ok && !c.Common().IsInvoke() {
					calleeVal = c.Common().Value
					if g := StaticFn(c); g != nil && g.Parent() == nil {
						if _, isGo := in.(*ssa.Go); isGo {
							get(g).other = true
						} else if _, isMk := c.Common().Value.(*ssa.MakeClosure); !isMk {
							get(g).calls = append(get(g).calls, c)
						}
					}
				}
				if mk, isMk := in.(*ssa.MakeClosure); isMk {
					if w, isF := mk.Fn.(*ssa.Function); isF {
						if target, shift := MethodBehind(w); shift == 1 {
							boundIn[bodyOf(target)] = append(boundIn[bodyOf(target)], fn)
						}
					}
				}
				for _, op := range in.Operands(nil) {
					if *op == nil || *op == calleeVal {
						continue
					}
					if g, ok := (*op).(*ssa.Function); ok && g.Parent() == nil {
						get(bodyOf(g)).other = true // used as a function value (callback, method value, go statement)
					}
				}
			}
		}
	}
	for m, fns := range boundIn {
		if len(fns) != 1 || m == nil || len(m.Blocks) == 0 || m.Pkg == nil || m.Pkg != fns[0].Pkg {
			continue
		}
		if u := uses[m]; u != nil && (u.other || len(u.calls) > 0) {
			continue
		}
		name := m.Name()
		if name == "" || unicode.IsUpper([]rune(name)[0]) || p.IsTestPos(m.Pos()) || isAnchor(FnName(m)) {
			continue
		}
		root := fns[0]
		for root.Parent() != nil {
			root = root.Parent()
		}
		absorb.adopted[root] = append(absorb.adopted[root], m)
		absorb.binder[m] = fns[0]
	}
	// functions referenced from test files keep their status (tests are not part of the analysed program)
	for g, u := range uses {
		if u.other || len(u.calls) == 0 || g == nil || len(g.Blocks) == 0 {
			continue
		}
		name := g.Name()
		if name == "" || unicode.IsUpper([]rune(name)[0]) || name == "init" || strings.HasPrefix(name, "init#") {
			continue
		}
		if p.IsTestPos(g.Pos()) || g.Pkg == nil {
			continue
		}
		rn := FnName(g)
		if strings.HasPrefix(rn, "examples/") || isAnchor(rn) {
			continue
		}
		samePkg := true
		for _, c := range u.calls {
			if c.Parent().Pkg != g.Pkg {
				samePkg = false
			}
		}
		if !samePkg {
			continue
		}
		absorb.sites[g] = u.calls
	}
}

// AbsorbedHelpers lists the role names of the absorbable helpers (evidence).
func AbsorbedHelpers() []string {
	var out []string
	for g := range absorb.sites {
		out = append(out, FnName(g))
	}
	return out
}

// IsAbsorbed reports whether g is analysed as part of its callers.
func IsAbsorbed(g *ssa.Function) bool {
	if !AbsorptionEnabled || g == nil {
		return false
	}
	_, ok := absorb.sites[bodyOf(g)]
	return ok
}

// AbsorbedCallee returns the helper a call or defer instruction statically invokes, if that helper is absorbed.
func AbsorbedCallee(in ssa.Instruction) *ssa.Function {
	if !AbsorptionEnabled {
		return nil
	}
	c, ok := in.(ssa.CallInstruction)
	if !ok {
		return nil
	}
	if _, isGo := in.(*ssa.Go); isGo {
		return nil
	}
	g := StaticFn(c)
	if g == nil || g.Parent() != nil {
		return nil
	}
	if _, ok := absorb.sites[g]; !ok {
		return nil
	}
	return g
}

// SitesOf returns the static call/defer sites of an absorbed helper.
func SitesOf(g *ssa.Function) []ssa.CallInstruction {
	if !AbsorptionEnabled || g == nil {
		return nil
	}
	return absorb.sites[bodyOf(g)]
}

// AbsorbedInto lists the helpers absorbed (transitively) into fn, in call order, without duplicates.
func AbsorbedInto(fn *ssa.Function) []*ssa.Function {
	var out []*ssa.Function
	seen := map[*ssa.Function]bool{fn: true}
	var walk func(f *ssa.Function, d int)
	walk = func(f *ssa.Function, d int) {
		if d >= absorbDepth {
			return
		}
		for _, b := range f.Blocks {
			for _, in := range b.Instrs {
				if g := AbsorbedCallee(in); g != nil && !seen[g] {
					seen[g] = true
					out = append(out, g)
					walk(g, d+1)
				}
			}
		}
	}
	walk(fn, 0)
	return out
}

// CallChains returns the chains of call sites that lead from root into the absorbed helper g (each chain starts with an
// instruction of root and ends with a call of g). Empty if g is not absorbed into root.
func CallChains(root, g *ssa.Function) [][]ssa.CallInstruction {
	if root == g {
		return [][]ssa.CallInstruction{nil}
	}
	var out [][]ssa.CallInstruction
	var walk func(f *ssa.Function, chain []ssa.CallInstruction, d int)
	walk = func(f *ssa.Function, chain []ssa.CallInstruction, d int) {
		if d >= absorbDepth {
			return
		}
		for _, b := range f.Blocks {
			for _, in := range b.Instrs {
				h := AbsorbedCallee(in)
				if h == nil {
					continue
				}
				c := in.(ssa.CallInstruction)
				nc := append(append([]ssa.CallInstruction{}, chain...), c)
				if h == bodyOf(g) {
					out = append(out, nc)
					continue
				}
				onChain := false
				for _, x := range chain {
					if StaticFn(x) == h {
						onChain = true
					}
				}
				if !onChain {
					walk(h, nc, d+1)
				}
			}
		}
	}
	walk(root, nil, 0)
	return out
}

// OuterOf returns whichever of the two functions (transitively) absorbs the other, or nil. Equal functions return that function.
func OuterOf(a, b *ssa.Function) *ssa.Function {
	if a == b {
		return a
	}
	if len(CallChains(a, b)) > 0 {
		return a
	}
	if len(CallChains(b, a)) > 0 {
		return b
	}
	// two helpers analysed as part of the same function (siblings): that function, when it is the only one
	var common []*ssa.Function
	for _, ra := range RootsOf(a) {
		for _, rb := range RootsOf(b) {
			if ra == rb {
				common = append(common, ra)
			}
		}
	}
	if len(common) == 1 && (IsAbsorbed(a) || a == common[0]) && (IsAbsorbed(b) || b == common[0]) {
		return common[0]
	}
	return nil
}

// RootsOf lists the non-absorbed functions that (transitively) absorb g; g itself if it is not absorbed.
func RootsOf(g *ssa.Function) []*ssa.Function {
	if !IsAbsorbed(g) {
		return []*ssa.Function{g}
	}
	var out []*ssa.Function
	seen := map[*ssa.Function]bool{}
	var up func(f *ssa.Function, d int)
	up = func(f *ssa.Function, d int) {
		if d > absorbDepth || seen[f] {
			return
		}
		seen[f] = true
		if !IsAbsorbed(f) {
			out = append(out, f)
			return
		}
		for _, s := range SitesOf(f) {
			p := s.Parent()
			for p.Parent() != nil && false {
				p = p.Parent()
			}
			up(p, d+1)
		}
	}
	up(g, 0)
	return out
}

// AdoptedBy lists the methods that are closures of fn in all but syntax (see absorbIndex.adopted).
func AdoptedBy(fn *ssa.Function) []*ssa.Function {
	if !AbsorptionEnabled || fn == nil {
		return nil
	}
	return absorb.adopted[fn]
}

// BinderOf: the function that creates the (only) method value of an adopted method; nil for any other function.
func BinderOf(m *ssa.Function) *ssa.Function {
	if !AbsorptionEnabled || m == nil {
		return nil
	}
	return absorb.binder[bodyOf(m)]
}

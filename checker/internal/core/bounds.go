package core

import (
	"fmt"
	"go/token"
	"go/types"
	"strings"

	"golang.org/x/tools/go/ssa"
)

// ---------------------------------------------------------------------------
// Engine B: in-range obligations for index / slice expressions, discharged from facts that hold on every path:
// dominating guards on the SAME SSA value (len(x) < k false-edge ⇒ len(x) ≥ k), slice arithmetic
// (len(x[a:]) = len(x) − a), type ranges, and verified callee summaries ("result 0 ≤ len(arg) when err == nil").

// Term is V + K (V == nil: the constant K).
type Term struct {
	V ssa.Value
	K int64
}

func (t Term) String() string {
	if t.V == nil {
		return fmt.Sprint(t.K)
	}
	if t.K == 0 {
		return t.V.Name()
	}
	return fmt.Sprintf("%s%+d", t.V.Name(), t.K)
}

// Summary says: on every return of Fn whose error result may be nil, result Ret satisfies 0 ≤ result ≤ len(parameter Param).
type Summary struct {
	Fn    string
	Ret   int
	Param int // index counting the receiver as 0
}

// Bounds analyses one function.
type Bounds struct {
	P         *Prog
	Fn        *ssa.Function
	Summaries map[string]Summary // by callee role name
	// AssumeNonNeg: values assumed ≥ 0 (parameters, when verifying a conditional non-negativity summary)
	AssumeNonNeg map[ssa.Value]bool
	depth        int
	ifs          []*ssa.If
	subs         map[*ssa.Function]*Bounds
}

func NewBounds(p *Prog, fn *ssa.Function, sums map[string]Summary) *Bounds {
	return &Bounds{P: p, Fn: fn, Summaries: sums, ifs: IfsOf(fn)}
}

// Obl is one in-range obligation.
type BoundObl struct {
	Instr ssa.Instruction
	Kind  string // index | slice-low | slice-high | call-needs-len
	Desc  string
	OK    bool
	Why   string
}

func isLenCall(v ssa.Value) (ssa.Value, bool) {
	c, ok := v.(*ssa.Call)
	if !ok {
		return nil, false
	}
	if CalleeName(c) == "bytes.Buffer.Len" {
		// len(buf.Bytes()) == buf.Len(): the buffer pointer stands for its unread bytes (assumes no buffer mutation in between)
		return ArgRaw(c, 0), true
	}
	b, ok := c.Call.Value.(*ssa.Builtin)
	if !ok || b.Name() != "len" || len(c.Call.Args) != 1 {
		return nil, false
	}
	return c.Call.Args[0], true
}

func bufIdent(v ssa.Value) ssa.Value {
	if c, ok := v.(*ssa.Call); ok && CalleeName(c) == "bytes.Buffer.Bytes" {
		return Resolve(ArgRaw(c, 0))
	}
	return v
}

func sameSlice(a, b ssa.Value) bool {
	if a == b {
		return true
	}
	if ia, ib := bufIdent(a), bufIdent(b); (ia != a || ib != b) && Resolve(ia) == Resolve(ib) {
		return true
	}
	ua, ub := Unwrap(a), Unwrap(b)
	if ua == ub {
		return true
	}
	// two loads of the same single-assignment cell
	ra, rb := Resolve(a), Resolve(b)
	return ra == rb && ra != nil
}

// termOf decodes an integer value into Term form (strips widening conversions and +const).
func termOf(v ssa.Value) Term {
	k := int64(0)
	for i := 0; i < 6; i++ {
		if c, ok := ConstInt(v); ok {
			return Term{nil, c + k}
		}
		switch x := v.(type) {
		case *ssa.BinOp:
			if x.Op == token.ADD {
				if c, ok := ConstInt(x.Y); ok {
					k += c
					v = x.X
					continue
				}
				if c, ok := ConstInt(x.X); ok {
					k += c
					v = x.Y
					continue
				}
			}
			if x.Op == token.SUB {
				if c, ok := ConstInt(x.Y); ok {
					k -= c
					v = x.X
					continue
				}
			}
		}
		break
	}
	return Term{v, k}
}

// sameInt: the two values are the same integer modulo lossless widening conversions.
func sameInt(a, b ssa.Value) bool {
	if a == b {
		return true
	}
	sa, sb := stripWiden(a), stripWiden(b)
	if sa == sb {
		return true
	}
	if la, ok := isLenCall(sa); ok {
		if lb, ok := isLenCall(sb); ok && sameSlice(la, lb) {
			return true // len of the same immutable slice value
		}
	}
	return sameFieldLoad(sa, sb)
}

// sameFieldLoad: two loads of the same struct field of a local object with no store to that field in the function
// (the field is written only by a callee that received the object's address before both loads).
func sameFieldLoad(a, b ssa.Value) bool {
	la, ok1 := a.(*ssa.UnOp)
	lb, ok2 := b.(*ssa.UnOp)
	if !ok1 || !ok2 || la.Op != token.MUL || lb.Op != token.MUL {
		return false
	}
	fa, ok1 := la.X.(*ssa.FieldAddr)
	fb, ok2 := lb.X.(*ssa.FieldAddr)
	if !ok1 || !ok2 || fa.Field != fb.Field || fa.X != fb.X {
		return false
	}
	obj, isAlloc := fa.X.(*ssa.Alloc)
	if !isAlloc {
		return false
	}
	fn := la.Parent()
	ok := true
	InstrsOwn(fn, func(in ssa.Instruction) {
		switch x := in.(type) {
		case *ssa.Store:
			if f, isF := x.Addr.(*ssa.FieldAddr); isF && f.X == ssa.Value(obj) && f.Field == fa.Field {
				ok = false
			}
		case *ssa.Call:
			for _, arg := range x.Call.Args {
				if arg == ssa.Value(obj) && !(Dominates(x, la) && Dominates(x, lb)) {
					ok = false
				}
			}
		}
	})
	return ok
}

// stripCasts removes integer conversions (also lossy ones) and calls of the module's CastTo helper.
func stripCasts(v ssa.Value) ssa.Value {
	for i := 0; i < 6; i++ {
		switch x := v.(type) {
		case *ssa.Convert:
			v = x.X
			continue
		case *ssa.Call:
			if CalleeName(x) == "pkg/math.CastTo" && len(x.Call.Args) == 1 {
				v = x.Call.Args[0]
				continue
			}
		}
		break
	}
	return v
}

func stripWiden(v ssa.Value) ssa.Value {
	for {
		c, ok := v.(*ssa.Convert)
		if !ok {
			return v
		}
		from, ok1 := c.X.Type().Underlying().(*types.Basic)
		to, ok2 := c.Type().Underlying().(*types.Basic)
		if !ok1 || !ok2 {
			return v
		}
		if from.Info()&types.IsInteger == 0 || to.Info()&types.IsInteger == 0 {
			return v
		}
		if sizeofBasic(to) < sizeofBasic(from) {
			return v
		}
		// unsigned → wider (signed or unsigned) and signed → wider signed are lossless
		if from.Info()&types.IsUnsigned == 0 && to.Info()&types.IsUnsigned != 0 {
			return v
		}
		if sizeofBasic(to) == sizeofBasic(from) && (from.Info()&types.IsUnsigned != to.Info()&types.IsUnsigned) {
			return v
		}
		v = c.X
	}
}

func sizeofBasic(b *types.Basic) int {
	switch b.Kind() {
	case types.Int8, types.Uint8:
		return 1
	case types.Int16, types.Uint16:
		return 2
	case types.Int32, types.Uint32:
		return 4
	case types.Int64, types.Uint64:
		return 8
	case types.Int, types.Uint, types.Uintptr:
		return 4 // conservative (32-bit int)
	}
	return 8
}

// guardFacts returns, for every If edge through which `at` is only reachable, the comparison that holds.
func (b *Bounds) guardFacts(at ssa.Instruction) []Cmp {
	var out []Cmp
	for _, i := range b.ifs {
		for _, br := range []bool{true, false} {
			c, ok := EdgeFacts(i, br)
			if !ok {
				continue
			}
			if OnlyViaEdge(i, br, at) {
				out = append(out, c)
			}
		}
	}
	return out
}

// LenAtLeast: is len(x) ≥ t known at instruction `at`?
func (b *Bounds) LenAtLeast(x ssa.Value, at ssa.Instruction, t Term) bool {
	if t.V == nil && t.K <= 0 {
		return true
	}
	b.depth++
	defer func() { b.depth-- }()
	if b.depth > 12 {
		return false
	}
	// t itself is len(x)+k with k ≤ 0
	if t.V != nil {
		if lx, ok := isLenCall(stripWiden(t.V)); ok && sameSlice(lx, x) && t.K <= 0 {
			return true
		}
	}
	// t is a φ (a size chosen per branch, e.g. 0/1/2/4 extension bytes): decide per incoming edge, where that branch's guard holds.
	// Sound because x is an SSA value (its length does not change) that is defined before every predecessor.
	if t.V != nil {
		if phi, ok := stripWiden(t.V).(*ssa.Phi); ok && definedBefore(x, phi) {
			all := len(phi.Edges) > 0
			for k, ev := range phi.Edges {
				pred := phi.Block().Preds[k]
				et := termOf(ev)
				if !b.LenAtLeast(x, pred.Instrs[len(pred.Instrs)-1], Term{et.V, et.K + t.K}) {
					all = false
					break
				}
			}
			if all {
				return true
			}
		}
	}
	// t is a count returned by a callee with a verified summary "count ≤ len(arg)" and arg is x re-sliced from a constant
	// offset d ≥ t.K: count + t.K ≤ len(arg) + d ≤ len(x)
	if t.V != nil && t.K > 0 {
		if ex, ok := stripWiden(t.V).(*ssa.Extract); ok {
			if c, ok := ex.Tuple.(*ssa.Call); ok {
				if s, ok := b.Summaries[CalleeName(c)]; ok && s.Ret == ex.Index && b.onNilErrEdge(c, at) {
					if d, ok := b.lenSlack(ArgRaw(c, s.Param), x); ok && d >= t.K {
						return true
					}
				}
			}
		}
	}
	// t is off + count where count was returned by a callee with a verified summary "count ≤ len(arg)" and arg is x[off:]:
	// off + count ≤ off + len(x[off:]) = len(x) (the slice expression x[off:] was evaluated, so off ≤ len(x))
	if t.V != nil && t.K <= 0 {
		if add, ok := stripWiden(t.V).(*ssa.BinOp); ok && add.Op == token.ADD {
			for _, pr := range [][2]ssa.Value{{add.X, add.Y}, {add.Y, add.X}} {
				off, cnt := pr[0], pr[1]
				ex, isEx := stripWiden(cnt).(*ssa.Extract)
				if !isEx {
					continue
				}
				c, isC := ex.Tuple.(*ssa.Call)
				if !isC {
					continue
				}
				sm, has := b.Summaries[CalleeName(c)]
				if !has || sm.Ret != ex.Index || !b.onNilErrEdge(c, at) {
					continue
				}
				if sl, isSl := ArgRaw(c, sm.Param).(*ssa.Slice); isSl && sl.High == nil && sl.Low != nil && sameSlice(sl.X, x) && sameInt(sl.Low, off) {
					return true
				}
			}
		}
	}
	// t is a count returned by a callee with a verified summary "count ≤ len(arg)" and arg is x or a sub-slice of x
	if t.V != nil && t.K <= 0 {
		if ex, ok := stripWiden(t.V).(*ssa.Extract); ok {
			if c, ok := ex.Tuple.(*ssa.Call); ok {
				if s, ok := b.Summaries[CalleeName(c)]; ok && s.Ret == ex.Index && b.lenLE(ArgRaw(c, s.Param), x) && b.onNilErrEdge(c, at) {
					return true
				}
			}
		}
		if b.fieldSummary(stripWiden(t.V), x, at) {
			return true
		}
		// the count comes from a helper analysed as part of this function: infer "count ≤ len(argument)" from the helper's body
		if ex, ok := stripWiden(t.V).(*ssa.Extract); ok {
			if c, ok := ex.Tuple.(*ssa.Call); ok {
				if h := AbsorbedCallee(c); h != nil && b.onNilErrEdge(c, at) {
					for j := range h.Params {
						if j >= len(c.Call.Args) || !isByteSlice(h.Params[j].Type()) || !b.lenLE(c.Call.Args[j], x) {
							continue
						}
						if b.inferredSummary(h, ex.Index, j) {
							return true
						}
						// or: at every return of the helper that is consistent with what the caller tested since (nil error,
						// `complete` flag, …) the helper itself established len(parameter) ≥ returned count
						if rs := b.consistentReturns(h, c, at); len(rs) > 0 {
							hb := b.sub(h)
							all := true
							for _, r := range rs {
								rt := termOf(RetVal(r, ex.Index))
								if ex.Index >= len(r.Results) || !hb.LenAtLeast(h.Params[j], r, Term{rt.V, rt.K + t.K}) {
									all = false
									break
								}
							}
							if all {
								return true
							}
						}
					}
				}
			}
		}
	}
	// x is a parameter of a helper analysed as part of its caller(s) and the bound is a constant: every call site must establish it
	if p, ok := x.(*ssa.Parameter); ok && p.Parent() == b.Fn && t.V == nil {
		if b.fromCallSites(p, func(cb *Bounds, arg ssa.Value, site ssa.Instruction) bool { return cb.LenAtLeast(arg, site, t) }) {
			return true
		}
	}
	// guards
	for _, c := range b.guardFacts(at) {
		// normalise to len(X) OP T'
		var lenSide, other ssa.Value
		op := c.Op
		// for lower bounds a narrowing unsigned cast of the length is sound: narrow(len) ≥ T ⇒ len ≥ T (len ≥ 0)
		if lx, ok := isLenCall(stripCasts(c.X)); ok && sameSlice(lx, x) {
			lenSide, other = c.X, c.Y
		} else if ly, ok := isLenCall(stripCasts(c.Y)); ok && sameSlice(ly, x) {
			lenSide, other = c.Y, c.X
			op = SwapOp(op)
		}
		if lenSide != nil && stripCasts(lenSide) != stripWiden(lenSide) && op != token.GEQ && op != token.GTR {
			continue
		}
		if lenSide == nil {
			continue
		}
		ot := termOf(other)
		var lb Term
		switch op {
		case token.GEQ:
			lb = ot
		case token.GTR:
			lb = Term{ot.V, ot.K + 1}
		case token.EQL:
			lb = ot
		case token.NEQ:
			if ot.V == nil && ot.K == 0 {
				lb = Term{nil, 1} // len != 0 ⇒ len ≥ 1
			} else {
				continue
			}
		default:
			continue
		}
		if b.termGE(lb, t, at) {
			return true
		}
	}
	// structure of x
	if ld, ok := x.(*ssa.UnOp); ok && ld.Op == token.MUL && t.V != nil && t.K <= 0 {
		if fa, ok := ld.X.(*ssa.FieldAddr); ok && b.growIdiom(fa, t.V, at) {
			return true
		}
	}
	switch s := x.(type) {
	case *ssa.Slice:
		base := s.X
		if s.High == nil {
			// len(x) = len(base) − low
			if s.Low == nil {
				return b.LenAtLeast(base, at, t)
			}
			lo := termOf(s.Low)
			switch {
			case lo.V == nil:
				return b.LenAtLeast(base, at, Term{t.V, t.K + lo.K})
			case t.V == nil:
				return b.LenAtLeast(base, at, Term{lo.V, lo.K + t.K})
			}
			return false
		}
		hi := termOf(s.High)
		lo := Term{nil, 0}
		if s.Low != nil {
			lo = termOf(s.Low)
		}
		if lo.V == nil {
			// len = hi − lo.K ≥ t  ⇔ hi ≥ t + lo.K
			return b.termGE(hi, Term{t.V, t.K + lo.K}, at)
		}
		return false
	case *ssa.MakeSlice:
		return b.termGE(termOf(s.Len), t, at)
	case *ssa.Alloc:
		if n, ok := isByteArray(s.Type()); ok {
			return b.termGE(Term{nil, int64(n)}, t, at)
		}
		if p, ok := s.Type().Underlying().(*types.Pointer); ok {
			if a, ok := p.Elem().Underlying().(*types.Array); ok {
				return b.termGE(Term{nil, a.Len()}, t, at)
			}
		}
	case *ssa.Const:
		if s.Value != nil && s.Value.Kind().String() == "String" {
			return false
		}
	case *ssa.Phi:
		for k, e := range s.Edges {
			pred := s.Block().Preds[k]
			if !b.LenAtLeast(e, pred.Instrs[len(pred.Instrs)-1], t) {
				return false
			}
		}
		return len(s.Edges) > 0
	case *ssa.ChangeType:
		return b.LenAtLeast(s.X, at, t)
	case *ssa.Convert:
		return b.LenAtLeast(s.X, at, t)
	}
	return false
}

// NonNegSummary says: result Ret of the callee is ≥ 0 on nil-error returns whenever argument IfParam is ≥ 0.
type NonNegSummary struct{ Ret, IfParam int }

// NonNegSummaries by callee role name (verified in the callee with the parameter assumed non-negative).
var NonNegSummaries = map[string]NonNegSummary{}

// FieldSummary says: after a nil-error call of Fn, the field Field of the struct passed (by address) as argument StructArg
// holds a value ≤ len(argument Param).
type FieldSummary struct {
	Field     string
	StructArg int
	Param     int
}

// FieldSummaries by callee role name (verified by the lock-step analysis of the callee's store into that field).
var FieldSummaries = map[string]FieldSummary{}

func (b *Bounds) fieldSummary(v ssa.Value, x ssa.Value, at ssa.Instruction) bool {
	ld, ok := v.(*ssa.UnOp)
	if !ok || ld.Op != token.MUL {
		return false
	}
	fa, ok := ld.X.(*ssa.FieldAddr)
	if !ok {
		return false
	}
	_, fl, _ := FieldOf(fa)
	found := false
	InstrsOwn(b.Fn, func(in ssa.Instruction) {
		c, ok := in.(*ssa.Call)
		if !ok {
			return
		}
		fs, ok := FieldSummaries[CalleeName(c)]
		if !ok || fs.Field != fl || fs.StructArg >= NArgs(c) {
			return
		}
		if ArgRaw(c, fs.StructArg) != fa.X || !b.lenLE(x, ArgRaw(c, fs.Param)) && !sameSlice(x, ArgRaw(c, fs.Param)) {
			return
		}
		if Dominates(c, at) && b.onNilErrEdge(c, at) && sameFieldLoad(v, v) {
			found = true
		}
	})
	return found
}

// growIdiom recognises
//
//	if len(o.f) < n { o.f = append(o.f, make([]T, n-len(o.f))...) }
//
// dominating `at`, with no other store to o.f before `at`: afterwards len(o.f) ≥ n.
func (b *Bounds) growIdiom(fa *ssa.FieldAddr, n ssa.Value, at ssa.Instruction) bool {
	path := AccessPath(fa)
	if strings.Contains(path, "?") {
		return false
	}
	samePath := func(v ssa.Value) bool {
		ld, ok := v.(*ssa.UnOp)
		if !ok || ld.Op != token.MUL {
			return false
		}
		f2, ok := ld.X.(*ssa.FieldAddr)
		return ok && AccessPath(f2) == path
	}
	for _, i := range b.ifs {
		if !i.Block().Dominates(at.Block()) || i.Block() == at.Block() {
			continue
		}
		c, ok := EdgeFacts(i, true)
		if !ok {
			continue
		}
		// the test "len(o.f) < n" in any of its spellings: len(f) < n, n > len(f), (n − len(f)) > 0, (n − len(f)) ≥ 1
		var missing ssa.Value // the difference n − len(o.f) when the test is written on it
		isDiff := func(v ssa.Value) bool {
			d, isD := v.(*ssa.BinOp)
			if !isD || d.Op != token.SUB || !sameInt(d.X, n) {
				return false
			}
			l2, isLen2 := isLenCall(d.Y)
			return isLen2 && samePath(l2)
		}
		isK := func(v ssa.Value, k int64) bool { x, okK := ConstInt(v); return okK && x == k }
		matched := false
		switch {
		case c.Op == token.LSS:
			if lx, isLen := isLenCall(c.X); isLen && samePath(lx) && sameInt(c.Y, n) {
				matched = true
			} else if isK(c.X, 0) && isDiff(c.Y) {
				matched, missing = true, c.Y
			}
		case c.Op == token.GTR:
			if ly, isLen := isLenCall(c.Y); isLen && samePath(ly) && sameInt(c.X, n) {
				matched = true
			} else if isK(c.Y, 0) && isDiff(c.X) {
				matched, missing = true, c.X
			}
		case c.Op == token.GEQ:
			if isK(c.Y, 1) && isDiff(c.X) {
				matched, missing = true, c.X
			}
		}
		if !matched {
			continue
		}
		then := i.Block().Succs[0]
		grown := false
		var growStore *ssa.Store
		for _, in := range then.Instrs {
			st, ok := in.(*ssa.Store)
			if !ok {
				continue
			}
			f2, ok := st.Addr.(*ssa.FieldAddr)
			if !ok || AccessPath(f2) != path {
				continue
			}
			ap, ok := st.Val.(*ssa.Call)
			if !ok {
				continue
			}
			bi, ok := ap.Call.Value.(*ssa.Builtin)
			if !ok || bi.Name() != "append" || len(ap.Call.Args) != 2 || !samePath(ap.Call.Args[0]) {
				continue
			}
			ms, ok := ap.Call.Args[1].(*ssa.MakeSlice)
			if !ok {
				continue
			}
			if (missing != nil && ms.Len == missing) || isDiff(ms.Len) {
				grown, growStore = true, st
			}
		}
		if !grown || len(then.Succs) != 1 || then.Succs[0] != i.Block().Succs[1] {
			continue
		}
		// no other store to the field that could run before `at`
		clean := true
		InstrsOwn(b.Fn, func(in ssa.Instruction) {
			st, ok := in.(*ssa.Store)
			if !ok || st == growStore {
				return
			}
			if f2, ok := st.Addr.(*ssa.FieldAddr); ok && AccessPath(f2) == path && !Dominates(at, st) && st != at {
				if sv, isV := at.(ssa.Value); isV && st.Val == sv {
					return
				}
				clean = false
			}
		})
		if clean {
			return true
		}
	}
	return false
}

// termGE: a ≥ t known at `at`?
func (b *Bounds) termGE(a, t Term, at ssa.Instruction) bool {
	switch {
	case a.V == nil && t.V == nil:
		return a.K >= t.K
	case a.V != nil && t.V != nil && sameInt(a.V, t.V):
		return a.K >= t.K
	case t.V == nil:
		return b.ValueAtLeast(a.V, t.K-a.K, at)
	case a.V == nil:
		// const ≥ v+k  ⇔ v ≤ a.K − k
		return b.ValueAtMost(t.V, Term{nil, a.K - t.K}, at)
	}
	// a.V ≥ t.V + d ?
	return b.ValueAtMost(t.V, Term{a.V, a.K - t.K}, at)
}

// ValueAtLeast: v ≥ k known at `at`?
func (b *Bounds) ValueAtLeast(v ssa.Value, k int64, at ssa.Instruction) bool {
	b.depth++
	defer func() { b.depth-- }()
	if b.depth > 12 {
		return false
	}
	if c, ok := ConstInt(v); ok {
		return c >= k
	}
	if k <= 0 && b.AssumeNonNeg[v] {
		return true
	}
	if bt, ok := v.Type().Underlying().(*types.Basic); ok && bt.Info()&types.IsUnsigned != 0 && k <= 0 {
		return true
	}
	if sv := stripWiden(v); sv != v {
		if b.ValueAtLeast(sv, k, at) {
			return true
		}
	}
	if lx, ok := isLenCall(v); ok {
		if k <= 0 {
			return true
		}
		return b.LenAtLeast(lx, at, Term{nil, k})
	}
	switch x := v.(type) {
	case *ssa.BinOp:
		switch x.Op {
		case token.ADD:
			if c, ok := ConstInt(x.Y); ok {
				return b.ValueAtLeast(x.X, k-c, at)
			}
			if c, ok := ConstInt(x.X); ok {
				return b.ValueAtLeast(x.Y, k-c, at)
			}
			if k <= 0 && b.ValueAtLeast(x.X, 0, at) && b.ValueAtLeast(x.Y, 0, at) {
				return true
			}
			if k > 0 && ((b.ValueAtLeast(x.X, k, at) && b.ValueAtLeast(x.Y, 0, at)) || (b.ValueAtLeast(x.X, 0, at) && b.ValueAtLeast(x.Y, k, at))) {
				return true
			}
		case token.SUB:
			if c, ok := ConstInt(x.Y); ok {
				return b.ValueAtLeast(x.X, k+c, at)
			}
			// x − y ≥ k ⇐ x ≥ y + k
			return b.termGE(termOf(x.X), Term{x.Y, k}, at)
		case token.AND, token.SHR, token.REM, token.QUO:
			if k <= 0 && b.ValueAtLeast(x.X, 0, at) {
				return true
			}
		case token.MUL:
			if k <= 0 && b.ValueAtLeast(x.X, 0, at) && b.ValueAtLeast(x.Y, 0, at) {
				return true
			}
		}
	case *ssa.Phi:
		for i, e := range x.Edges {
			pred := x.Block().Preds[i]
			if e == ssa.Value(x) {
				continue
			}
			// loop-carried increments: e = phi + c with c ≥ 0 keeps a lower bound
			if bo, ok := e.(*ssa.BinOp); ok && bo.Op == token.ADD && (bo.X == ssa.Value(x) || bo.Y == ssa.Value(x)) {
				other := bo.Y
				if bo.Y == ssa.Value(x) {
					other = bo.X
				}
				if b.ValueAtLeast(other, 0, pred.Instrs[len(pred.Instrs)-1]) {
					continue
				}
			}
			if !b.ValueAtLeast(e, k, pred.Instrs[len(pred.Instrs)-1]) {
				return b.valueGuards(v, k, at) // not on every incoming edge: a guard on the φ itself may still decide (switch on the size)
			}
		}
		if len(x.Edges) > 0 {
			return true
		}
	case *ssa.Extract:
		if c, ok := x.Tuple.(*ssa.Call); ok {
			// a result of a helper analysed as part of this function: decided at the helper's own nil-error returns
			if h := AbsorbedCallee(c); h != nil && b.onNilErrEdge(c, at) {
				if rs := nilErrReturns(h); len(rs) > 0 {
					hb := b.sub(h)
					all := true
					for _, r := range rs {
						if x.Index >= len(r.Results) || !hb.ValueAtLeast(RetVal(r, x.Index), k, r) {
							all = false
							break
						}
					}
					if all {
						return true
					}
				}
			}
			if s, ok := b.Summaries[CalleeName(c)]; ok && s.Ret == x.Index && k <= 0 && b.onNilErrEdge(c, at) {
				return true
			}
			if ns, ok := NonNegSummaries[CalleeName(c)]; ok && ns.Ret == x.Index && k <= 0 && b.onNilErrEdge(c, at) && b.ValueAtLeast(ArgRaw(c, ns.IfParam), 0, c) {
				return true
			}
		}
	case *ssa.Call:
		if s, ok := b.Summaries[CalleeName(x)]; ok && s.Ret == 0 && k <= 0 {
			return true
		}
	}
	// a parameter of a helper analysed as part of its caller(s): what every call site establishes for the argument
	if p, ok := v.(*ssa.Parameter); ok && p.Parent() == b.Fn {
		if b.fromCallSites(p, func(cb *Bounds, arg ssa.Value, site ssa.Instruction) bool { return cb.ValueAtLeast(arg, k, site) }) {
			return true
		}
	}
	return b.valueGuards(v, k, at)
}

// valueGuards: v ≥ k follows from a dominating guard v ≥ T / v > T / v == T with constant T.
func (b *Bounds) valueGuards(v ssa.Value, k int64, at ssa.Instruction) bool {
	for _, c := range b.guardFacts(at) {
		var other ssa.Value
		op := c.Op
		if sameInt(c.X, v) {
			other = c.Y
		} else if sameInt(c.Y, v) {
			other = c.X
			op = SwapOp(op)
		} else {
			continue
		}
		ot := termOf(other)
		if ot.V != nil {
			continue
		}
		switch op {
		case token.GEQ, token.EQL:
			if ot.K >= k {
				return true
			}
		case token.GTR:
			if ot.K+1 >= k {
				return true
			}
		}
	}
	return false
}

// ValueAtMost: v ≤ t known at `at`?
func (b *Bounds) ValueAtMost(v ssa.Value, t Term, at ssa.Instruction) bool {
	b.depth++
	defer func() { b.depth-- }()
	if b.depth > 12 {
		return false
	}
	if c, ok := ConstInt(v); ok {
		if t.V == nil {
			return c <= t.K
		}
		return b.ValueAtLeast(t.V, c-t.K, at)
	}
	if t.V != nil && sameInt(v, t.V) && t.K >= 0 {
		return true
	}
	if sv := stripWiden(v); sv != v && b.ValueAtMost(sv, t, at) {
		return true
	}
	// type range
	if t.V == nil {
		if bt, ok := stripWiden(v).Type().Underlying().(*types.Basic); ok && bt.Info()&types.IsUnsigned != 0 {
			switch bt.Kind() {
			case types.Uint8:
				if t.K >= 255 {
					return true
				}
			case types.Uint16:
				if t.K >= 65535 {
					return true
				}
			}
		}
	}
	// t is len(X)+k: v ≤ len(X)+k ⇔ len(X) ≥ v−k
	if t.V != nil {
		if lx, ok := isLenCall(stripWiden(t.V)); ok {
			if b.LenAtLeast(lx, at, Term{v, -t.K}) {
				return true
			}
		}
	}
	switch x := stripWiden(v).(type) {
	case *ssa.BinOp:
		switch x.Op {
		case token.AND:
			if t.V == nil {
				if c, ok := ConstInt(x.Y); ok && c >= 0 && c <= t.K {
					return true
				}
				if c, ok := ConstInt(x.X); ok && c >= 0 && c <= t.K {
					return true
				}
			}
		case token.SHR:
			if t.V == nil {
				if c, ok := ConstInt(x.Y); ok {
					if bt, ok := x.X.Type().Underlying().(*types.Basic); ok {
						max := int64(-1)
						switch bt.Kind() {
						case types.Uint8:
							max = 255
						case types.Uint16:
							max = 65535
						}
						if max >= 0 && (max>>uint(c)) <= t.K {
							return true
						}
					}
				}
			}
		case token.ADD:
			if c, ok := ConstInt(x.Y); ok {
				return b.ValueAtMost(x.X, Term{t.V, t.K - c}, at)
			}
			if c, ok := ConstInt(x.X); ok {
				return b.ValueAtMost(x.Y, Term{t.V, t.K - c}, at)
			}
		case token.SUB:
			if c, ok := ConstInt(x.Y); ok {
				return b.ValueAtMost(x.X, Term{t.V, t.K + c}, at)
			}
		}
	case *ssa.Phi:
		for i, e := range x.Edges {
			pred := x.Block().Preds[i]
			if !b.ValueAtMost(e, t, pred.Instrs[len(pred.Instrs)-1]) {
				return false
			}
		}
		return len(x.Edges) > 0
	case *ssa.Extract:
		if c, ok := x.Tuple.(*ssa.Call); ok {
			if s, ok := b.Summaries[CalleeName(c)]; ok && s.Ret == x.Index && t.V != nil && b.onNilErrEdge(c, at) {
				if lx, ok := isLenCall(stripWiden(t.V)); ok && t.K >= 0 && sameSlice(lx, ArgRaw(c, s.Param)) {
					return true
				}
			}
		}
	case *ssa.Call:
		if lx, ok := isLenCall(x); ok && t.V != nil {
			// len(A) ≤ len(B)+k when A is a slice of B without upper bound extension
			if ly, ok := isLenCall(stripWiden(t.V)); ok && t.K >= 0 && b.lenLE(lx, ly) {
				return true
			}
		}
	}
	// guards v < T / v ≤ T / v == T
	for _, c := range b.guardFacts(at) {
		var other ssa.Value
		op := c.Op
		if sameInt(c.X, v) {
			other = c.Y
		} else if sameInt(c.Y, v) {
			other = c.X
			op = SwapOp(op)
		} else {
			continue
		}
		ot := termOf(other)
		var ub Term
		switch op {
		case token.LEQ, token.EQL:
			ub = ot
		case token.LSS:
			ub = Term{ot.V, ot.K - 1}
		default:
			continue
		}
		// ub ≤ t ?
		if b.termGE(t, ub, at) {
			return true
		}
	}
	return false
}

// lenLE: len(a) ≤ len(b) structurally (a is b, or a = b[lo:] / a = b[lo:hi] with hi ≤ len(b) required elsewhere).
// lenSlack: a is bb re-sliced from constant low bounds; returns their sum d, so that len(a) ≤ len(bb) − d.
func (b *Bounds) lenSlack(a, bb ssa.Value) (int64, bool) {
	d := int64(0)
	for i := 0; i < 6; i++ {
		if sameSlice(a, bb) {
			return d, true
		}
		s, ok := a.(*ssa.Slice)
		if !ok {
			return 0, false
		}
		if s.Low != nil {
			if k, isK := ConstInt(s.Low); isK && k >= 0 {
				d += k
			}
		}
		a = s.X
	}
	return 0, false
}

func (b *Bounds) lenLE(a, bb ssa.Value) bool {
	for i := 0; i < 6; i++ {
		if sameSlice(a, bb) {
			return true
		}
		s, ok := a.(*ssa.Slice)
		if !ok {
			return false
		}
		a = s.X
	}
	return false
}

// onNilErrEdge: instruction `at` is only reachable with the error result of call c being nil.
func (b *Bounds) onNilErrEdge(c *ssa.Call, at ssa.Instruction) bool {
	sig := c.Call.Signature()
	n := sig.Results().Len()
	if n == 0 || !IsErrorType(sig.Results().At(n-1).Type()) {
		return true // no error result: the summary holds unconditionally
	}
	for _, i := range b.ifs {
		ev, nilBranch, ok := ErrNilEdge(i)
		if !ok {
			continue
		}
		ex, isEx := ev.(*ssa.Extract)
		if !isEx || ex.Tuple != ssa.Value(c) || ex.Index != n-1 {
			continue
		}
		if OnlyViaEdge(i, nilBranch, at) {
			return true
		}
	}
	return false
}

// Obligations generates and decides every in-range obligation of the function.
func (b *Bounds) Obligations() []BoundObl {
	var out []BoundObl
	InstrsOwn(b.Fn, func(in ssa.Instruction) {
		switch x := in.(type) {
		case *ssa.IndexAddr:
			if _, isMap := x.X.Type().Underlying().(*types.Map); isMap {
				return
			}
			out = append(out, b.indexObl(in, x.X, x.Index))
		case *ssa.Index:
			if _, isStr := x.X.Type().Underlying().(*types.Basic); isStr {
				out = append(out, b.indexObl(in, x.X, x.Index))
			} else if _, isArr := x.X.Type().Underlying().(*types.Array); isArr {
				out = append(out, b.indexObl(in, x.X, x.Index))
			}
		case *ssa.Slice:
			out = append(out, b.sliceObls(x)...)
		case *ssa.Call:
			n := CalleeName(x)
			need := int64(0)
			switch {
			case strings.HasSuffix(n, "bigEndian.Uint16") || strings.HasSuffix(n, "bigEndian.PutUint16"):
				need = 2
			case strings.HasSuffix(n, "bigEndian.Uint32") || strings.HasSuffix(n, "bigEndian.PutUint32"):
				need = 4
			case strings.HasSuffix(n, "bigEndian.Uint64") || strings.HasSuffix(n, "bigEndian.PutUint64"):
				need = 8
			}
			if need > 0 && strings.HasPrefix(n, "encoding/binary.") {
				o := BoundObl{Instr: in, Kind: "call-needs-len", Desc: fmt.Sprintf("%s needs %d bytes", shortName(n), need)}
				o.OK = b.LenAtLeast(ArgRaw(x, 1), in, Term{nil, need})
				if !o.OK {
					o.Why = fmt.Sprintf("no fact len(%s) ≥ %d holds on every path to the call", ArgRaw(x, 1).Name(), need)
				}
				out = append(out, o)
			}
		}
	})
	return out
}

func (b *Bounds) indexObl(in ssa.Instruction, x, idx ssa.Value) BoundObl {
	it := termOf(idx)
	o := BoundObl{Instr: in, Kind: "index", Desc: fmt.Sprintf("%s[%s]", x.Name(), it)}
	nonneg := it.V == nil && it.K >= 0 || it.V != nil && b.ValueAtLeast(it.V, -it.K, in)
	if !nonneg {
		o.Why = "index not provably ≥ 0"
		return o
	}
	if b.LenAtLeast(x, in, Term{it.V, it.K + 1}) {
		o.OK = true
		return o
	}
	o.Why = fmt.Sprintf("no fact len(%s) ≥ %s holds on every path to the access", x.Name(), Term{it.V, it.K + 1})
	return o
}

func (b *Bounds) sliceObls(s *ssa.Slice) []BoundObl {
	var out []BoundObl
	if _, isPtrArr := s.X.Type().Underlying().(*types.Pointer); isPtrArr {
		// slicing an array: bounds relative to the array length
	}
	lo := Term{nil, 0}
	if s.Low != nil {
		lo = termOf(s.Low)
	}
	if s.High == nil {
		if s.Low == nil {
			return nil
		}
		o := BoundObl{Instr: s, Kind: "slice-low", Desc: fmt.Sprintf("%s[%s:]", s.X.Name(), lo)}
		nonneg := lo.V == nil && lo.K >= 0 || lo.V != nil && b.ValueAtLeast(lo.V, -lo.K, s)
		switch {
		case !nonneg:
			o.Why = "low bound not provably ≥ 0"
		case b.LenAtLeast(s.X, s, lo):
			o.OK = true
		default:
			o.Why = fmt.Sprintf("no fact len(%s) ≥ %s holds on every path to the slice expression", s.X.Name(), lo)
		}
		return append(out, o)
	}
	hi := termOf(s.High)
	o := BoundObl{Instr: s, Kind: "slice-high", Desc: fmt.Sprintf("%s[%s:%s]", s.X.Name(), lo, hi)}
	nonneg := lo.V == nil && lo.K >= 0 || lo.V != nil && b.ValueAtLeast(lo.V, -lo.K, s)
	ordered := b.termGE(hi, lo, s)
	switch {
	case !nonneg:
		o.Why = "low bound not provably ≥ 0"
	case !ordered:
		o.Why = fmt.Sprintf("low ≤ high (%s ≤ %s) not provable", lo, hi)
	case b.LenAtLeast(s.X, s, hi) || b.capAtLeast(s.X, s, hi):
		o.OK = true
	default:
		o.Why = fmt.Sprintf("no fact len(%s) ≥ %s holds on every path to the slice expression", s.X.Name(), hi)
	}
	return append(out, o)
}

// capAtLeast: high bound within capacity for freshly made slices / arrays (x[:0] style and make with cap).
func (b *Bounds) capAtLeast(x ssa.Value, at ssa.Instruction, t Term) bool {
	if t.V == nil && t.K == 0 {
		return true
	}
	if ms, ok := x.(*ssa.MakeSlice); ok {
		return b.termGE(termOf(ms.Cap), t, at)
	}
	return false
}

// definedBefore: the value x is available at the end of every predecessor of phi's block (parameter, or defined in a block
// that dominates each predecessor).
func definedBefore(x ssa.Value, phi *ssa.Phi) bool {
	in, ok := x.(ssa.Instruction)
	if !ok {
		_, isParam := x.(*ssa.Parameter)
		return isParam
	}
	if in.Parent() != phi.Parent() {
		return false
	}
	for _, p := range phi.Block().Preds {
		if in.Block() != p && !in.Block().Dominates(p) {
			return false
		}
	}
	return true
}

func isByteSlice(t types.Type) bool {
	sl, ok := t.Underlying().(*types.Slice)
	if !ok {
		return false
	}
	bt, ok := sl.Elem().Underlying().(*types.Basic)
	return ok && bt.Kind() == types.Uint8
}

// nilErrReturns: the returns of h that are not provably error returns (all returns when h has no error result).
func nilErrReturns(h *ssa.Function) []*ssa.Return {
	var out []*ssa.Return
	for _, r := range ReturnsOf(h) {
		if len(r.Results) > 0 && IsErrorType(r.Results[len(r.Results)-1].Type()) && ReturnsNonNilError(r) {
			continue
		}
		out = append(out, r)
	}
	return out
}

// sub: the bounds analysis of an absorbed helper, sharing the summaries.
func (b *Bounds) sub(h *ssa.Function) *Bounds {
	if b.subs == nil {
		b.subs = map[*ssa.Function]*Bounds{}
	}
	if s, ok := b.subs[h]; ok {
		return s
	}
	s := NewBounds(b.P, h, b.Summaries)
	s.depth = b.depth
	b.subs[h] = s
	return s
}

var inferredSums = map[string]bool{}

// inferredSummary: "on every nil-error return, result ret of h is within [0, len(parameter param)]", decided by the lock-step
// analysis of h's own body (nothing is assumed about h).
func (b *Bounds) inferredSummary(h *ssa.Function, ret, param int) bool {
	key := fmt.Sprintf("%p/%d/%d", h, ret, param)
	if v, ok := inferredSums[key]; ok {
		return v
	}
	inferredSums[key] = false // recursion guard
	res := LockStep(b.P, LockStepSpec{Fn: h, CursorParam: param, RetIndex: ret}, b.Summaries)
	ok, n := true, 0
	for _, x := range res {
		if x.Kind == "return" {
			n++
		}
		if !x.OK {
			ok = false
		}
	}
	inferredSums[key] = ok && n > 0
	return ok && n > 0
}

// fromCallSites: a fact about parameter p of an absorbed helper holds when it holds for the argument at every call site
// (each decided in the caller, at the call).
func (b *Bounds) fromCallSites(p *ssa.Parameter, holds func(cb *Bounds, arg ssa.Value, site ssa.Instruction) bool) bool {
	if b.depth > 8 {
		return false
	}
	sites := SitesOf(b.Fn)
	if len(sites) == 0 {
		return false
	}
	idx := -1
	for k, q := range b.Fn.Params {
		if q == p {
			idx = k
		}
	}
	if idx < 0 {
		return false
	}
	for _, s := range sites {
		if s.Common().IsInvoke() || idx >= len(s.Common().Args) {
			return false
		}
		cb := NewBounds(b.P, s.Parent(), b.Summaries)
		cb.depth = b.depth + 1
		if !holds(cb, s.Common().Args[idx], s.(ssa.Instruction)) {
			return false
		}
	}
	return true
}

// consistentReturns: the nil-error returns of helper h (called at c) whose constant boolean results agree with the tests of
// those results that dominate `at` in the caller.
func (b *Bounds) consistentReturns(h *ssa.Function, c *ssa.Call, at ssa.Instruction) []*ssa.Return {
	type need struct {
		idx int
		val bool
	}
	var needs []need
	for _, i := range b.ifs {
		cond, neg := StripNot(i.Cond)
		ex, ok := cond.(*ssa.Extract)
		if !ok || ex.Tuple != ssa.Value(c) {
			continue
		}
		if bt, isB := ex.Type().Underlying().(*types.Basic); !isB || bt.Kind() != types.Bool {
			continue
		}
		switch {
		case OnlyViaEdge(i, true, at):
			needs = append(needs, need{ex.Index, !neg})
		case OnlyViaEdge(i, false, at):
			needs = append(needs, need{ex.Index, neg})
		}
	}
	var out []*ssa.Return
	for _, r := range nilErrReturns(h) {
		ok := true
		for _, n := range needs {
			if n.idx < len(r.Results) {
				if v, isC := ConstBool(RetVal(r, n.idx)); isC && v != n.val {
					ok = false
				}
			}
		}
		if ok {
			out = append(out, r)
		}
	}
	return out
}

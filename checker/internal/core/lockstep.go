package core

import (
	"fmt"
	"go/token"
	"sort"
	"strings"

	"golang.org/x/tools/go/ssa"
)

// Cursor lock-step analysis (part of engine B).
//
// A decoder walks a byte-slice cursor (`data = data[k:]`) and keeps a consumed-bytes counter (`processed += k`).
// The analysis enumerates the acyclic paths of the function (loops are cut at their back edges and treated
// inductively) and tracks, per path, every cursor value as root+offset-multiset and every counter value as
// base+added-multiset. It then checks
//   - at every loop back edge: offset(cursor) == added(counter)            (the invariant counter + len(cursor) = len(input) is inductive)
//   - at every checkpoint (nil-error return of the counter / store of the counter into a named field):
//     added − offset(D) is empty or a residual R with len(D) ≥ R known     (so counter ≤ len(input))
//   - progress: every back edge advances the cursor by at least MinAdvance bytes.

type msTerm struct {
	v ssa.Value // nil = const
}

type multiset struct {
	konst int64
	vals  []ssa.Value // each occurrence listed
}

func (m multiset) add(t Term) multiset {
	n := multiset{konst: m.konst + t.K, vals: append([]ssa.Value{}, m.vals...)}
	if t.V != nil {
		n.vals = append(n.vals, stripSmallCasts(stripWiden(t.V)))
	}
	return n
}

// stripSmallCasts removes integer conversions (incl. math.CastTo) of a value that is a small non-negative constant on every
// path (a φ of byte counts such as 0/1/2/4): no conversion between Go integer types changes such a value.
func stripSmallCasts(v ssa.Value) ssa.Value {
	for i := 0; i < 4; i++ {
		var x ssa.Value
		switch c := v.(type) {
		case *ssa.Convert:
			x = c.X
		case *ssa.Call:
			if CalleeName(c) == "pkg/math.CastTo" && len(c.Call.Args) == 1 {
				x = c.Call.Args[0]
			}
		}
		if x == nil || !smallNonNeg(x, 0) {
			return v
		}
		v = x
	}
	return v
}

func smallNonNeg(v ssa.Value, d int) bool {
	if d > 3 {
		return false
	}
	switch x := v.(type) {
	case *ssa.Const:
		k, ok := ConstInt(x)
		return ok && k >= 0 && k <= 127
	case *ssa.Phi:
		for _, e := range x.Edges {
			if !smallNonNeg(e, d+1) {
				return false
			}
		}
		return len(x.Edges) > 0
	case *ssa.Extract:
		// a byte count handed back by a helper analysed as part of this function: small on every return of the helper
		if c, ok := x.Tuple.(*ssa.Call); ok {
			if h := AbsorbedCallee(c); h != nil {
				rets := ReturnsOf(h)
				for _, r := range rets {
					if x.Index >= len(r.Results) || !smallNonNeg(retVal(r, x.Index), d+1) {
						return false
					}
				}
				return len(rets) > 0
			}
		}
	}
	return false
}

// minus returns m − o if o ⊆ m.
func (m multiset) minus(o multiset) (multiset, bool) {
	r := multiset{konst: m.konst - o.konst, vals: append([]ssa.Value{}, m.vals...)}
	for _, v := range o.vals {
		found := -1
		for i, x := range r.vals {
			if x == v {
				found = i
				break
			}
		}
		if found < 0 {
			return multiset{}, false
		}
		r.vals = append(r.vals[:found], r.vals[found+1:]...)
	}
	return r, r.konst >= 0 || len(r.vals) > 0
}

func (m multiset) String() string {
	var s []string
	for _, v := range m.vals {
		s = append(s, v.Name())
	}
	sort.Strings(s)
	s = append(s, fmt.Sprint(m.konst))
	return "{" + strings.Join(s, "+") + "}"
}

func (m multiset) equal(o multiset) bool {
	d, ok := m.minus(o)
	return ok && d.konst == 0 && len(d.vals) == 0
}

type lsVal struct {
	def    ssa.Instruction // where the value was last extended (facts about immutable SSA values persist from there)
	cursor bool
	root   ssa.Value // cursor: parameter or loop-head phi; counter: nil (absolute) or loop-head phi
	ms     multiset
}

// LockStepSpec configures the analysis of one function.
type LockStepSpec struct {
	Fn          *ssa.Function
	CursorParam int    // parameter index (receiver = 0) of the input slice
	RetIndex    int    // result index holding the consumed counter (-1: none)
	StoreField  string // also check stores of a counter into a field with this name ("" = none)
	MinAdvance  int64  // required constant advance per loop iteration (0 = no progress check)
}

// LockStepResult is one finding/obligation.
type LockStepResult struct {
	At   ssa.Instruction
	Kind string // back-edge | return | store | progress
	OK   bool
	Why  string
}

// LockStep runs the analysis.
func LockStep(p *Prog, spec LockStepSpec, sums map[string]Summary) []LockStepResult {
	fn := spec.Fn
	var res []LockStepResult
	if spec.CursorParam >= len(fn.Params) {
		return []LockStepResult{{Kind: "spec", Why: "cursor parameter missing"}}
	}
	param := fn.Params[spec.CursorParam]
	bnd := NewBounds(p, fn, sums)
	type key struct {
		at   ssa.Instruction
		kind string
	}
	seenRes := map[key]*LockStepResult{}
	record := func(at ssa.Instruction, kind string, ok bool, why string) {
		k := key{at, kind}
		if r, dup := seenRes[k]; dup {
			if !ok && r.OK {
				r.OK, r.Why = false, why
			}
			return
		}
		r := &LockStepResult{At: at, Kind: kind, OK: ok, Why: why}
		seenRes[k] = r
	}
	isBackEdge := func(from, to *ssa.BasicBlock) bool { return to.Dominates(from) }

	type env map[ssa.Value]lsVal
	var walk func(b *ssa.BasicBlock, pred *ssa.BasicBlock, e env, loopHeads map[*ssa.BasicBlock]bool, depth int)
	paths := 0
	walk = func(b *ssa.BasicBlock, pred *ssa.BasicBlock, e env, loopHeads map[*ssa.BasicBlock]bool, depth int) {
		if depth > 400 || paths > 20000 {
			record(b.Instrs[0], "limit", false, "path enumeration limit reached")
			return
		}
		// is b a loop head (has an incoming back edge)?
		head := false
		for _, pr := range b.Preds {
			if isBackEdge(pr, b) {
				head = true
			}
		}
		for _, in := range b.Instrs {
			switch x := in.(type) {
			case *ssa.Phi:
				var inc ssa.Value
				for k, pr := range b.Preds {
					if pr == pred {
						inc = x.Edges[k]
					}
				}
				if head && !loopHeads[b] {
					// first entry into the loop: fresh inductive roots; the entry value must itself be in lock-step (checked through the roots' initial values)
					if v, ok := e[inc]; ok {
						if v.cursor {
							e[x] = lsVal{cursor: true, root: x, ms: multiset{}}
							// remember what the root stands for at entry
							e[phiEntry{x}] = v
						} else {
							e[x] = lsVal{root: x, ms: multiset{}}
							e[phiEntry{x}] = v
						}
					} else if c, isC := ConstInt(inc); isC && isIntValue(x) {
						e[x] = lsVal{root: x, ms: multiset{}}
						e[phiEntry{x}] = lsVal{ms: multiset{konst: c}}
					}
					continue
				}
				if v, ok := e[inc]; ok {
					e[x] = v
				} else if c, isC := ConstInt(inc); isC && isIntValue(x) {
					e[x] = lsVal{ms: multiset{konst: c}}
				}
			case *ssa.Slice:
				if v, ok := e[x.X]; ok && v.cursor && x.High == nil {
					lo := Term{nil, 0}
					if x.Low != nil {
						lo = termOf(x.Low)
					}
					e[x] = lsVal{cursor: true, root: v.root, ms: v.ms.add(lo)}
				}
			case *ssa.BinOp:
				if x.Op == token.ADD {
					if v, ok := e[x.X]; ok && !v.cursor {
						e[x] = lsVal{def: x, root: v.root, ms: v.ms.add(termOf(x.Y))}
					} else if v, ok := e[x.Y]; ok && !v.cursor {
						e[x] = lsVal{def: x, root: v.root, ms: v.ms.add(termOf(x.X))}
					} else if c, isC := ConstInt(x.X); isC && isIntValue(x) {
						e[x] = lsVal{def: x, ms: multiset{konst: c}.add(termOf(x.Y))}
					}
				}
				if x.Op == token.SUB {
					// len(input) − len(cursor): by definition the number of bytes the cursor has moved over
					if lx, okx := isLenCall(x.X); okx {
						if ly, oky := isLenCall(x.Y); oky {
							if vx, hx := e[lx]; hx && vx.cursor {
								if vy, hy := e[ly]; hy && vy.cursor && vx.root == vy.root {
									if d, sub := vy.ms.minus(vx.ms); sub {
										var root ssa.Value // absolute counter unless the cursors are a loop's inductive ones
										if _, isPhi := vy.root.(*ssa.Phi); isPhi {
											root = vy.root
										}
										e[x] = lsVal{def: x, root: root, ms: d}
									}
								}
							}
						}
					}
				}
			case *ssa.Call:
				// the module's generic cast helper is a conversion
				if CalleeName(x) == "pkg/math.CastTo" && len(x.Call.Args) == 1 {
					if v, ok := e[x.Call.Args[0]]; ok && !v.cursor {
						e[x] = v
					}
				}
			case *ssa.Convert:
				if v, ok := e[x.X]; ok && !v.cursor {
					e[x] = v
				}
			case *ssa.ChangeType:
				if v, ok := e[x.X]; ok {
					e[x] = v
				}
			case *ssa.Store:
				if spec.StoreField != "" {
					if _, fl, ok := FieldOf(x.Addr); ok && fl == spec.StoreField {
						if v, ok := e[x.Val]; ok && !v.cursor {
							okc, why := checkCounter(bnd, e, v, x, param)
							record(x, "store", okc, why)
						} else {
							record(x, "store", false, "value stored into ."+spec.StoreField+" is not derived from the consumed-bytes counter")
						}
					}
				}
			case *ssa.Return:
				if spec.RetIndex >= 0 && spec.RetIndex < len(x.Results) && !ReturnsNonNilError(x) {
					rv := RetVal(x, spec.RetIndex)
					if c, isC := ConstInt(rv); isC && c < 0 {
						continue // error sentinel result
					}
					if v, ok := e[rv]; ok && !v.cursor {
						okc, why := checkCounter(bnd, e, v, x, param)
						record(x, "return", okc, why)
					} else if c, isC := ConstInt(rv); isC {
						okc, why := checkCounter(bnd, e, lsVal{ms: multiset{konst: c}}, x, param)
						record(x, "return", okc, why)
					} else if lx, isLen := isLenCall(rv); isLen && bnd.lenLE(lx, param) {
						record(x, "return", true, "")
					} else if helperReturnsLenOfInput(bnd, rv, param) {
						record(x, "return", true, "")
					} else if _, isField := loadOfField(rv, spec.StoreField); isField && spec.StoreField != "" {
						record(x, "return", true, "") // returns the field whose store is a checkpoint
					} else {
						record(x, "return", false, "returned count is not derived from the consumed-bytes counter: "+rv.Name())
					}
				}
			}
		}
		last := b.Instrs[len(b.Instrs)-1]
		for _, s := range b.Succs {
			if isBackEdge(b, s) {
				// inductive step: compare the phi inputs on this edge
				var dOff, cAdd *multiset
				for _, in := range s.Instrs {
					phi, ok := in.(*ssa.Phi)
					if !ok {
						break
					}
					var inc ssa.Value
					for k, pr := range s.Preds {
						if pr == b {
							inc = phi.Edges[k]
						}
					}
					v, ok := e[inc]
					if !ok {
						continue
					}
					if v.root != ssa.Value(phi) {
						continue
					}
					m := v.ms
					if v.cursor {
						dOff = &m
					} else if _, tracked := e[phiEntry{phi}]; tracked {
						cAdd = &m
					}
				}
				if dOff != nil && cAdd != nil {
					record(last, "back-edge", dOff.equal(*cAdd), fmt.Sprintf("cursor advanced by %s but the counter by %s in one iteration", dOff, cAdd))
				} else if dOff != nil && spec.RetIndex >= 0 {
					record(last, "back-edge", false, "no consumed-bytes counter advances together with the cursor")
				}
				if dOff != nil && spec.MinAdvance > 0 {
					// constant part plus the symbolic parts that are known to be ≥ 1 (e.g. the count of a header helper); all parts ≥ 0
					lower, nonneg := dOff.konst, true
					for _, v := range dOff.vals {
						switch {
						case bnd.ValueAtLeast(v, 1, last):
							lower++
						case !bnd.ValueAtLeast(v, 0, last):
							nonneg = false
						}
					}
					record(last, "progress", nonneg && lower >= spec.MinAdvance, fmt.Sprintf("an iteration may consume fewer than %d byte(s): advance %s", spec.MinAdvance, dOff))
				}
				continue
			}
			paths++
			e2 := env{}
			for k, v := range e {
				e2[k] = v
			}
			lh := loopHeads
			if head {
				lh = map[*ssa.BasicBlock]bool{}
				for k := range loopHeads {
					lh[k] = true
				}
				lh[b] = true
			}
			walk(s, b, e2, lh, depth+1)
		}
	}
	e0 := env{param: lsVal{cursor: true, root: param, ms: multiset{}}}
	walk(fn.Blocks[0], nil, e0, map[*ssa.BasicBlock]bool{}, 0)
	for _, r := range seenRes {
		res = append(res, *r)
	}
	sort.Slice(res, func(i, j int) bool {
		if res[i].At.Pos() != res[j].At.Pos() {
			return res[i].At.Pos() < res[j].At.Pos()
		}
		return res[i].Kind < res[j].Kind
	})
	return res
}

// phiEntry keys the entry value of a loop-head phi in the env (never a real ssa.Value in the program).
type phiEntry struct{ *ssa.Phi }

func isIntValue(v ssa.Value) bool {
	_, ok := ConstInt(v)
	if ok {
		return true
	}
	return strings.Contains(v.Type().Underlying().String(), "int")
}

func loadOfField(v ssa.Value, field string) (ssa.Value, bool) {
	v = stripWiden(v)
	if c, ok := v.(*ssa.Convert); ok {
		v = c.X
	}
	ld, ok := v.(*ssa.UnOp)
	if !ok || ld.Op != token.MUL {
		return nil, false
	}
	_, fl, ok := FieldOf(ld.X)
	return ld.X, ok && fl == field
}

// checkCounter: counter value v (base + added) is ≤ len(input) at `at`.
func checkCounter(bnd *Bounds, e map[ssa.Value]lsVal, v lsVal, at ssa.Instruction, param ssa.Value) (bool, string) {
	// the counter's base: absolute (root nil) must pair with cursors rooted at the parameter; inductive root pairs with the loop's cursor phi
	best := ""
	for val, c := range e {
		if !c.cursor {
			continue
		}
		if _, isEntry := val.(phiEntry); isEntry {
			continue
		}
		sv := val
		if v.root == nil && c.root != param {
			continue
		}
		if v.root != nil {
			// same loop: cursor root must be a phi of the same block
			cp, ok1 := c.root.(*ssa.Phi)
			vp, ok2 := v.root.(*ssa.Phi)
			if !ok1 || !ok2 || cp.Block() != vp.Block() {
				continue
			}
		}
		resid, ok := v.ms.minus(c.ms)
		if !ok {
			continue
		}
		if in, isIn := sv.(ssa.Instruction); isIn && in.Block() != nil && !Dominates(in, at) && sv != param {
			if _, isPhi := sv.(*ssa.Phi); !isPhi {
				continue
			}
		}
		ats := []ssa.Instruction{at}
		if v.def != nil {
			ats = append(ats, v.def)
		}
		switch {
		case resid.konst == 0 && len(resid.vals) == 0:
			return true, ""
		case len(resid.vals) == 0:
			for _, a := range ats {
				if bnd.LenAtLeast(sv, a, Term{nil, resid.konst}) {
					return true, ""
				}
			}
			best = fmt.Sprintf("counter exceeds the cursor offset by %d but len(%s) ≥ %d is not known here", resid.konst, sv.Name(), resid.konst)
		case len(resid.vals) == 1:
			for _, a := range ats {
				if bnd.LenAtLeast(sv, a, Term{resid.vals[0], resid.konst}) {
					return true, ""
				}
			}
			best = fmt.Sprintf("counter exceeds the cursor offset by %s but len(%s) ≥ that is not known here", resid, sv.Name())
		}
	}
	if best == "" {
		best = "counter " + v.ms.String() + " does not match any cursor offset on this path"
	}
	return false, best
}

// helperReturnsLenOfInput: the returned count is the result of a helper analysed as part of this function whose every return
// yields len(p) for a parameter p that, at every call site, is (a tail of) the input.
func helperReturnsLenOfInput(bnd *Bounds, rv, param ssa.Value) bool {
	var call *ssa.Call
	idx := 0
	switch x := rv.(type) {
	case *ssa.Call:
		call = x
	case *ssa.Extract:
		c, ok := x.Tuple.(*ssa.Call)
		if !ok {
			return false
		}
		call, idx = c, x.Index
	default:
		return false
	}
	h := AbsorbedCallee(call)
	if h == nil {
		return false
	}
	n := 0
	for _, r := range ReturnsOf(h) {
		if idx >= len(r.Results) {
			return false
		}
		if ReturnsNonNilError(r) {
			continue
		}
		v := retVal(r, idx)
		if c, isC := ConstInt(v); isC && c <= 0 {
			continue
		}
		lx, isLen := isLenCall(v)
		if !isLen {
			return false
		}
		p, isP := lx.(*ssa.Parameter)
		if !isP || p.Parent() != h {
			return false
		}
		for k, q := range h.Params {
			if q == p {
				if k >= len(call.Call.Args) || !bnd.lenLE(call.Call.Args[k], param) {
					return false
				}
			}
		}
		n++
	}
	return n > 0
}

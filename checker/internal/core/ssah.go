package core

import (
	"fmt"
	"go/constant"
	"go/token"
	"go/types"
	"strings"

	"golang.org/x/tools/go/ssa"
)

// InstrsOwn calls f for every instruction of fn itself (not of nested anonymous functions, not of absorbed helpers).
func InstrsOwn(fn *ssa.Function, f func(ssa.Instruction)) {
	for _, b := range fn.Blocks {
		for _, in := range b.Instrs {
			f(in)
		}
	}
}

// Instrs calls f for every instruction of fn (not of nested anonymous functions) and, right after a call of an absorbed
// helper (see absorb.go), for the helper's instructions; each helper body is visited once.
func Instrs(fn *ssa.Function, f func(ssa.Instruction)) {
	seen := map[*ssa.Function]bool{fn: true}
	var walk func(g *ssa.Function, d int)
	walk = func(g *ssa.Function, d int) {
		for _, b := range g.Blocks {
			for _, in := range b.Instrs {
				f(in)
				if d < absorbDepth {
					if h := AbsorbedCallee(in); h != nil && !seen[h] {
						seen[h] = true
						walk(h, d+1)
					}
				}
			}
		}
	}
	walk(fn, 0)
}

// WithAnon returns fn and all anonymous functions nested in it (transitively).
func WithAnon(fn *ssa.Function) []*ssa.Function {
	// the closure family of fn: its function literals (transitively), the literals created inside helpers that are analysed as part
	// of a member, and the methods whose only use is a method value created in a member (named closures) – to a fixpoint.
	// Helpers themselves are not members: Instrs/Calls of a member already visit their bodies.
	out := []*ssa.Function{fn}
	seen := map[*ssa.Function]bool{fn: true}
	add := func(g *ssa.Function) {
		if g != nil && !seen[g] {
			seen[g] = true
			out = append(out, g)
		}
	}
	for k := 0; k < len(out) && k < 400; k++ {
		g := out[k]
		for _, a := range g.AnonFuncs {
			add(a)
		}
		for _, m := range AdoptedBy(g) {
			add(m)
		}
		for _, h := range AbsorbedInto(g) {
			for _, a := range h.AnonFuncs {
				add(a)
			}
			for _, m := range AdoptedBy(h) {
				add(m)
			}
		}
	}
	return out
}

func withAnonPlain(fn *ssa.Function) []*ssa.Function {
	out := []*ssa.Function{fn}
	for _, a := range fn.AnonFuncs {
		out = append(out, withAnonPlain(a)...)
	}
	return out
}

// Calls returns the call instructions (call, go, defer) of fn whose resolved callee name satisfies pred.
func Calls(fn *ssa.Function, pred func(name string, c ssa.CallInstruction) bool) []ssa.CallInstruction {
	var out []ssa.CallInstruction
	Instrs(fn, func(in ssa.Instruction) {
		if c, ok := in.(ssa.CallInstruction); ok {
			if pred(CalleeName(c), c) {
				out = append(out, c)
			}
		}
	})
	return out
}

// CallsNamed returns the calls of fn to any of the given role names.
func CallsNamed(fn *ssa.Function, names ...string) []ssa.CallInstruction {
	return Calls(fn, func(n string, _ ssa.CallInstruction) bool {
		for _, x := range names {
			if n == x {
				return true
			}
		}
		return false
	})
}

// CallsNamedDeep is CallsNamed over fn and its nested anonymous functions.
func CallsNamedDeep(fn *ssa.Function, names ...string) []ssa.CallInstruction {
	var out []ssa.CallInstruction
	for _, f := range WithAnon(fn) {
		out = append(out, CallsNamed(f, names...)...)
	}
	return out
}

// Arg returns the i-th argument of a call counting the receiver as argument 0 for method calls
// (both static method calls and interface invokes).
func Arg(c ssa.CallInstruction, i int) ssa.Value {
	cc := c.Common()
	if cc.IsInvoke() {
		if i == 0 {
			return cc.Value
		}
		i--
	} else if mk := BoundMethodClosure(c); mk != nil {
		// a call through a method value: the bound receiver is argument 0
		if i == 0 {
			return mk.Bindings[0]
		}
		i--
	}
	if i < len(cc.Args) {
		return ThroughHelpers(cc.Args[i])
	}
	return nil
}

// ArgRaw is Arg without looking through helper boundaries: the operand as it stands in the calling function (what the engines
// that keep per-function state – interpreter frames, bounds facts, lock sets – must use).
func ArgRaw(c ssa.CallInstruction, i int) ssa.Value {
	cc := c.Common()
	if cc.IsInvoke() {
		if i == 0 {
			return cc.Value
		}
		i--
	} else if mk := BoundMethodClosure(c); mk != nil {
		if i == 0 {
			return mk.Bindings[0]
		}
		i--
	}
	if i < len(cc.Args) {
		return cc.Args[i]
	}
	return nil
}

// ThroughHelpers looks through the boundaries of helpers that are analysed as part of their callers: a parameter of such a helper
// (with one call site) is the argument of that call, a result of such a helper (unique up to zero values on its error returns) is
// the value it returns. Variable cells and closure captures are left alone (that is Resolve's job).
func ThroughHelpers(v ssa.Value) ssa.Value {
	for i := 0; i < 8 && v != nil; i++ {
		switch x := v.(type) {
		case *ssa.Parameter:
			g := x.Parent()
			if !IsAbsorbed(g) {
				return v
			}
			sites := SitesOf(g)
			if len(sites) != 1 || sites[0].Common().IsInvoke() {
				return v
			}
			idx := -1
			for k, q := range g.Params {
				if q == x {
					idx = k
				}
			}
			if idx < 0 || idx >= len(sites[0].Common().Args) {
				return v
			}
			v = sites[0].Common().Args[idx]
		case *ssa.Extract:
			c, ok := x.Tuple.(*ssa.Call)
			if !ok {
				return v
			}
			h := AbsorbedCallee(c)
			if h == nil {
				return v
			}
			rv := uniqueResult(h, x.Index)
			if rv == nil {
				return v
			}
			v = rv
		default:
			return v
		}
	}
	return v
}

// NArgs counts arguments incl. the receiver.
func NArgs(c ssa.CallInstruction) int {
	cc := c.Common()
	if cc.IsInvoke() || BoundMethodClosure(c) != nil {
		return len(cc.Args) + 1
	}
	return len(cc.Args)
}

// Unwrap strips conversions, interface boxing and type changes.
func Unwrap(v ssa.Value) ssa.Value {
	for {
		switch x := v.(type) {
		case *ssa.ChangeType:
			v = x.X
		case *ssa.Convert:
			v = x.X
		case *ssa.MakeInterface:
			v = x.X
		case *ssa.ChangeInterface:
			v = x.X
		case *ssa.Parameter:
			if b := boundOnActivePath(x); b != nil {
				v = b // inside a path-search callback: the argument of the activation on the path (paths.go)
				continue
			}
			return v
		case *ssa.Call:
			// the module's generic cast helper is a conversion: math.CastTo[T](x) ≡ T(x)
			if len(x.Call.Args) == 1 && !x.Call.IsInvoke() {
				if g := x.Call.StaticCallee(); g != nil && g.Name() == "CastTo" {
					o := g
					if g.Origin() != nil {
						o = g.Origin()
					}
					if o.Pkg != nil && strings.HasSuffix(o.Pkg.Pkg.Path(), "/pkg/math") {
						v = x.Call.Args[0]
						continue
					}
				}
			}
			return v
		default:
			return v
		}
	}
}

// ConstInt returns the integer value of an SSA constant.
func ConstInt(v ssa.Value) (int64, bool) {
	c, ok := Unwrap(v).(*ssa.Const)
	if !ok || c.Value == nil {
		return 0, false
	}
	if c.Value.Kind() != constant.Int {
		return 0, false
	}
	if i, ok := constant.Int64Val(c.Value); ok {
		return i, true
	}
	if u, ok := constant.Uint64Val(c.Value); ok {
		return int64(u), true
	}
	return 0, false
}

// ConstBool returns the value of a boolean SSA constant.
func ConstBool(v ssa.Value) (bool, bool) {
	c, ok := v.(*ssa.Const)
	if !ok || c.Value == nil || c.Value.Kind() != constant.Bool {
		return false, false
	}
	return constant.BoolVal(c.Value), true
}

// IsNilConst reports whether v is the nil constant.
func IsNilConst(v ssa.Value) bool {
	c, ok := v.(*ssa.Const)
	return ok && c.Value == nil
}

// AccessPath renders a stable access path for an address or value rooted at a parameter,
// free variable, global or local allocation: "m.mutex", "s.private.mutex", "global:pkg.X", "alloc:name".
// Pointer loads are transparent (p.f and (*p).f coincide). Unknown roots give "?".
func AccessPath(v ssa.Value) string {
	switch x := v.(type) {
	case *ssa.Parameter:
		if r := Resolve(x); r != ssa.Value(x) {
			return AccessPath(r) // parameter of an absorbed single-site helper: name the caller's object
		}
		return x.Name()
	case *ssa.FreeVar:
		if b := BindingOf(x); b != nil {
			if _, isCell := b.(*ssa.Alloc); !isCell {
				return AccessPath(b)
			}
		}
		return x.Name()
	case *ssa.Global:
		return "global:" + x.Pkg.Pkg.Name() + "." + x.Name()
	case *ssa.Alloc:
		if x.Comment != "" {
			return "alloc:" + x.Comment
		}
		return "alloc:" + x.Name()
	case *ssa.FieldAddr:
		return AccessPath(x.X) + "." + fieldName(x.X.Type(), x.Field)
	case *ssa.Field:
		return AccessPath(x.X) + "." + fieldName(x.X.Type(), x.Field)
	case *ssa.UnOp:
		if x.Op == token.MUL {
			if r := Resolve(x); r != ssa.Value(x) {
				return AccessPath(r)
			}
			if a := CellOf(x.X); a != nil {
				return "var:" + a.Comment
			}
			return AccessPath(x.X)
		}
	case *ssa.ChangeType:
		return AccessPath(x.X)
	case *ssa.MakeInterface:
		return AccessPath(x.X)
	case *ssa.Call:
		if n := CalleeName(x); n != "" && NArgs(x) >= 1 {
			return AccessPath(Arg(x, 0)) + "." + shortName(n) + "()"
		}
	}
	return "?"
}

func shortName(q string) string {
	if i := strings.LastIndex(q, "."); i >= 0 {
		return q[i+1:]
	}
	return q
}

func fieldName(t types.Type, i int) string {
	if p, ok := t.Underlying().(*types.Pointer); ok {
		t = p.Elem()
	}
	if s, ok := t.Underlying().(*types.Struct); ok && i < s.NumFields() {
		return s.Field(i).Name()
	}
	return fmt.Sprintf("f%d", i)
}

// FieldOf describes the field selected by a FieldAddr/Field instruction: owning named struct type (or "" for anonymous) and field name.
func FieldOf(v ssa.Value) (owner string, field string, ok bool) {
	var xt types.Type
	var idx int
	switch x := v.(type) {
	case *ssa.FieldAddr:
		xt, idx = x.X.Type(), x.Field
	case *ssa.Field:
		xt, idx = x.X.Type(), x.Field
	default:
		return "", "", false
	}
	if p, isp := xt.Underlying().(*types.Pointer); isp {
		xt = p.Elem()
	}
	st, isS := xt.Underlying().(*types.Struct)
	if !isS || idx >= st.NumFields() {
		return "", "", false
	}
	return TypeName(xt), st.Field(idx).Name(), true
}

// TypeName renders a named type as "pkgrel.Name" (type arguments dropped); pointers as "*pkgrel.Name"; else the type string.
func TypeName(t types.Type) string {
	switch x := t.(type) {
	case *types.Pointer:
		return "*" + TypeName(x.Elem())
	case *types.Named:
		if x.Obj().Pkg() == nil {
			return x.Obj().Name()
		}
		return RelPath(x.Obj().Pkg().Path()) + "." + x.Obj().Name()
	case *types.Alias:
		return TypeName(types.Unalias(x))
	}
	return types.TypeString(t, func(p *types.Package) string { return RelPath(p.Path()) })
}

// IsNamed reports whether t (through pointers) is the named type q ("pkgrel.Name").
func IsNamed(t types.Type, q string) bool {
	for {
		if p, ok := t.(*types.Pointer); ok {
			t = p.Elem()
			continue
		}
		break
	}
	return TypeName(t) == q
}

// Referrers returns the referrers of v (nil-safe).
func Referrers(v ssa.Value) []ssa.Instruction {
	r := v.Referrers()
	if r == nil {
		return nil
	}
	return *r
}

// ClosureBindings maps each free variable of an anonymous function to the value bound at its (unique) MakeClosure site.
func ClosureBindings(anon *ssa.Function) (mk *ssa.MakeClosure, bind map[*ssa.FreeVar]ssa.Value) {
	parent := anon.Parent()
	if parent == nil {
		return nil, nil
	}
	InstrsOwn(parent, func(in ssa.Instruction) {
		if m, ok := in.(*ssa.MakeClosure); ok && m.Fn == anon {
			mk = m
		}
	})
	if mk == nil {
		return nil, nil
	}
	bind = map[*ssa.FreeVar]ssa.Value{}
	for i, fv := range anon.FreeVars {
		if i < len(mk.Bindings) {
			bind[fv] = mk.Bindings[i]
		}
	}
	return mk, bind
}

// FuncArgClosure returns the anonymous function passed (as a closure or plain func) in argument v, if statically known.
func FuncArgClosure(v ssa.Value) *ssa.Function {
	if f := funcArgClosure(v); f != nil {
		return f
	}
	// a closure held in a local variable or built by a helper analysed as part of the caller
	return funcArgClosure(Resolve(v))
}

func funcArgClosure(v ssa.Value) *ssa.Function {
	switch x := Unwrap(v).(type) {
	case *ssa.MakeClosure:
		if f, ok := x.Fn.(*ssa.Function); ok {
			return f
		}
	case *ssa.Function:
		return bodyOf(x)
	}
	return nil
}

// ReturnsOf lists the Return instructions of fn.
func ReturnsOf(fn *ssa.Function) []*ssa.Return {
	var out []*ssa.Return
	InstrsOwn(fn, func(in ssa.Instruction) {
		if r, ok := in.(*ssa.Return); ok {
			out = append(out, r)
		}
	})
	return out
}

// IndexIn returns the index of in within its block.
func IndexIn(in ssa.Instruction) int {
	for i, x := range in.Block().Instrs {
		if x == in {
			return i
		}
	}
	return -1
}

// Dominates reports whether instruction a is executed before b on every path reaching b (same function).
func Dominates(a, b ssa.Instruction) bool {
	return dominatesD(a, b, 0)
}

func dominatesD(a, b ssa.Instruction, d int) bool {
	fa, fb := a.Parent(), b.Parent()
	if fa == fb {
		if a.Block() == b.Block() {
			return IndexIn(a) < IndexIn(b)
		}
		if a.Block().Dominates(b.Block()) {
			return true
		}
		// not a dominator of the flow graph – but maybe of its feasible paths: `if c {a}; …; if c {b}` (the same SSA value
		// tested twice) or a helper whose result decides the way. Decided by the path search.
		if d > 0 || !reachesBlock(a.Block(), b.Block()) {
			return false
		}
		q := &PathQuery{Fn: fa, Stop: func(in ssa.Instruction) bool { return in == a }, Target: func(in ssa.Instruction) bool { return in == b }}
		return q.Find() == nil && reachableInRegion(fa, b)
	}
	if d > absorbDepth {
		return false
	}
	// different functions of one region (a function and the helpers analysed as part of it): a dominates b when no path from
	// the region's entry reaches b without executing a. The search correlates a helper's returned constants with the caller's
	// tests of them, so "the caller only goes on when the helper reported success" is understood.
	root := OuterOf(fa, fb)
	if root == nil {
		return false
	}
	q := &PathQuery{Fn: root, Stop: func(in ssa.Instruction) bool { return in == a }, Target: func(in ssa.Instruction) bool { return in == b }}
	if q.Find() != nil {
		return false
	}
	return reachableInRegion(root, b)
}

// mustExecute: every path from the entry of a's function to one of its returns passes through a.
func mustExecute(a ssa.Instruction) bool {
	fn := a.Parent()
	for _, r := range ReturnsOf(fn) {
		if r == a {
			continue
		}
		if !(a.Block() == r.Block() && IndexIn(a) < IndexIn(r)) && !a.Block().Dominates(r.Block()) {
			return false
		}
	}
	return true
}

// ErrorType is the predeclared error type.
var ErrorType = types.Universe.Lookup("error").Type()

// IsErrorType reports whether t is the error interface.
func IsErrorType(t types.Type) bool { return types.Identical(t, ErrorType) }

// SameFunc compares two functions modulo generic instantiation.
func SameFunc(a, b *ssa.Function) bool {
	if a == nil || b == nil {
		return false
	}
	oa, ob := a, b
	if o := a.Origin(); o != nil {
		oa = o
	}
	if o := b.Origin(); o != nil {
		ob = o
	}
	return oa == ob
}

// FuncValueUses lists the instructions of the parent function that use an anonymous function as an operand
// (as a closure or, when it captures nothing, as a plain function value).
func FuncValueUses(anon *ssa.Function) []ssa.Instruction {
	parent := anon.Parent()
	bound := false
	if parent == nil {
		// a method whose only use is one method value (a named closure): the uses of that value
		if parent = BinderOf(anon); parent == nil {
			return nil
		}
		bound = true
	}
	var out []ssa.Instruction
	InstrsOwn(parent, func(in ssa.Instruction) {
		for _, op := range in.Operands(nil) {
			if *op == nil {
				continue
			}
			switch v := (*op).(type) {
			case *ssa.Function:
				if v == anon {
					out = append(out, in)
				}
			case *ssa.MakeClosure:
				if v.Fn == anon {
					out = append(out, in)
				} else if w, isF := v.Fn.(*ssa.Function); bound && isF {
					if t, shift := MethodBehind(w); shift == 1 && t == anon {
						out = append(out, in)
					}
				}
			}
		}
	})
	return out
}

func reachesBlock(from, to *ssa.BasicBlock) bool {
	seen := map[*ssa.BasicBlock]bool{}
	stack := []*ssa.BasicBlock{from}
	for len(stack) > 0 {
		b := stack[len(stack)-1]
		stack = stack[:len(stack)-1]
		if b == to {
			return true
		}
		if seen[b] {
			continue
		}
		seen[b] = true
		stack = append(stack, b.Succs...)
	}
	return false
}

// MethodBehind: for the synthetic wrapper of a method value (`x.m` used as a function value) the method itself and 1 (its
// parameters are shifted by the receiver); any other function and 0.
func MethodBehind(fn *ssa.Function) (*ssa.Function, int) {
	if fn == nil || !strings.HasPrefix(fn.Synthetic, "bound method wrapper") {
		return fn, 0
	}
	var target *ssa.Function
	InstrsOwn(fn, func(in ssa.Instruction) {
		if c, ok := in.(ssa.CallInstruction); ok {
			if g := c.Common().StaticCallee(); g != nil {
				if b := bodyOf(g); b != nil { // the generic origin behind an instantiation wrapper
					target = b
				}
			}
		}
	})
	if target == nil {
		return fn, 0
	}
	return target, 1
}

// ConstString returns the value of a string constant.
func ConstString(v ssa.Value) (string, bool) {
	c, ok := Unwrap(v).(*ssa.Const)
	if !ok || c.Value == nil || c.Value.Kind() != constant.String {
		return "", false
	}
	return constant.StringVal(c.Value), true
}

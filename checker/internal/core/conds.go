package core

import (
	"go/token"

	"golang.org/x/tools/go/ssa"
)

// IfsOf lists the If instructions of fn.
func IfsOf(fn *ssa.Function) []*ssa.If {
	var out []*ssa.If
	Instrs(fn, func(in ssa.Instruction) {
		if i, ok := in.(*ssa.If); ok {
			out = append(out, i)
		}
	})
	return out
}

// CondCall reports whether cond (negations stripped by the caller) is the boolean result of a call to one of names.
func CondCall(cond ssa.Value, names ...string) (*ssa.Call, bool) {
	c, ok := cond.(*ssa.Call)
	if !ok {
		// the boolean among several results (`v, ok := f(x)`; `if ok`)
		if ex, isEx := cond.(*ssa.Extract); isEx && isBoolT(ex.Type()) {
			c, ok = ex.Tuple.(*ssa.Call)
		}
	}
	if !ok {
		return nil, false
	}
	n := CalleeName(c)
	for _, x := range names {
		if n == x {
			return c, true
		}
	}
	return nil, false
}

// Cmp is a normalised integer/pointer comparison a OP b.
type Cmp struct {
	Op   token.Token
	X, Y ssa.Value
}

// AsCmp decodes a comparison BinOp.
func AsCmp(v ssa.Value) (Cmp, bool) {
	b, ok := v.(*ssa.BinOp)
	if !ok {
		return Cmp{}, false
	}
	switch b.Op {
	case token.EQL, token.NEQ, token.LSS, token.LEQ, token.GTR, token.GEQ:
		return Cmp{b.Op, b.X, b.Y}, true
	}
	return Cmp{}, false
}

// NegOp returns the comparison that holds on the false edge.
func NegOp(op token.Token) token.Token {
	switch op {
	case token.EQL:
		return token.NEQ
	case token.NEQ:
		return token.EQL
	case token.LSS:
		return token.GEQ
	case token.LEQ:
		return token.GTR
	case token.GTR:
		return token.LEQ
	case token.GEQ:
		return token.LSS
	}
	return op
}

// SwapOp mirrors a comparison (a OP b ⇔ b SwapOp a).
func SwapOp(op token.Token) token.Token {
	switch op {
	case token.LSS:
		return token.GTR
	case token.LEQ:
		return token.GEQ
	case token.GTR:
		return token.LSS
	case token.GEQ:
		return token.LEQ
	}
	return op
}

// EdgeFacts returns, for the edge of an If, the comparison known to hold on it (normalised for negation), if the condition is a comparison.
func EdgeFacts(i *ssa.If, branch bool) (Cmp, bool) {
	cond, neg := StripNot(i.Cond)
	c, ok := AsCmp(cond)
	if !ok {
		return Cmp{}, false
	}
	holds := branch
	if neg {
		holds = !holds
	}
	if !holds {
		c.Op = NegOp(c.Op)
	}
	return c, true
}

// ForcedEdges builds an EdgeOK function for PathQuery from a classifier: for every If the classifier may
// return (+1: only the true edge may be taken, -1: only the false edge, 0: both).
func ForcedEdges(classify func(i *ssa.If) int) func(*ssa.If, bool) bool {
	return func(i *ssa.If, branch bool) bool {
		switch classify(i) {
		case 1:
			return branch
		case -1:
			return !branch
		case 2, -2:
			return false // neither side is followed: the paths through this test are outside the rule's scope
		}
		return true
	}
}

// SameValue compares two SSA values modulo conversions and loads of the same address.
func SameValue(a, b ssa.Value) bool {
	a, b = Unwrap(a), Unwrap(b)
	if a == b {
		return true
	}
	ua, ok1 := a.(*ssa.UnOp)
	ub, ok2 := b.(*ssa.UnOp)
	if ok1 && ok2 && ua.Op == token.MUL && ub.Op == token.MUL {
		if ua.X == ub.X {
			return true
		}
		pa, pb := AccessPath(ua.X), AccessPath(ub.X)
		return pa == pb && pa != "?" && !containsUnknown(pa)
	}
	return false
}

func containsUnknown(p string) bool {
	for i := 0; i < len(p); i++ {
		if p[i] == '?' {
			return true
		}
	}
	return false
}

// TimeAfter normalises the two spellings of "later is after earlier": later.After(earlier) and earlier.Before(later).
func TimeAfter(c ssa.CallInstruction) (later, earlier ssa.Value, ok bool) {
	switch CalleeName(c) {
	case "time.Time.After":
		return Arg(c, 0), Arg(c, 1), true
	case "time.Time.Before":
		return Arg(c, 1), Arg(c, 0), true
	}
	return nil, nil, false
}

// CondTimeAfter: the condition is later.After(earlier) / earlier.Before(later).
func CondTimeAfter(cond ssa.Value) (call *ssa.Call, later, earlier ssa.Value, ok bool) {
	c, is := CondCall(cond, "time.Time.After", "time.Time.Before")
	if !is {
		return nil, nil, nil, false
	}
	l, e, _ := TimeAfter(c)
	return c, l, e, true
}

// coapcheck decides structural necessary conditions of the go-coap properties C01…C20
// by static analysis of /repo's current working tree (go/types + go/ssa; nothing is executed).
package main

import (
	"flag"
	"fmt"
	"os"
	"path/filepath"
	"runtime/debug"
	"sort"
	"strconv"
	"strings"

	"coapcheck/internal/core"
	"coapcheck/rules"
)

func main() {
	prop := flag.String("property", "", "property id (C01…C20)")
	tier := flag.String("tier", os.Getenv("VERIF_TIER"), "quick|thorough")
	repo := flag.String("repo", "/repo", "repository to analyse")
	verif := flag.String("verif", "/verif", "verification directory (known findings, mutants)")
	out := flag.String("out", "", "directory that receives evidence/ (default: -verif)")
	only := flag.String("only", "", "run only rules whose id has this prefix (replay)")
	verbose := flag.Bool("v", false, "print every obligation")
	list := flag.Bool("list", false, "list properties")
	noMut := flag.Bool("no-mutants", false, "thorough tier without the sensitivity self-test")
	flag.Parse()
	if *list {
		var ids []string
		for id := range rules.Registry {
			ids = append(ids, id)
		}
		sort.Strings(ids)
		for _, id := range ids {
			fmt.Println(id, rules.Registry[id].Level, "-", rules.Registry[id].Title)
		}
		return
	}
	if *tier == "" {
		*tier = "quick"
	}
	if *tier != "quick" && *tier != "thorough" {
		fmt.Fprintln(os.Stderr, "bad -tier")
		os.Exit(2)
	}
	pr, ok := rules.Registry[*prop]
	if !ok {
		fmt.Fprintf(os.Stderr, "unknown property %q\n", *prop)
		os.Exit(2)
	}
	if *out == "" {
		*out = *verif
	}
	seed, _ := strconv.ParseInt(os.Getenv("VERIF_SEED"), 10, 64)
	rep := core.NewReport(pr.ID, *tier, pr.Level)
	rep.Explain = pr.Explain
	rep.NotDecided = pr.NotDecided
	rep.Assume = append([]string{
		"go/types and go/ssa (golang.org/x/tools v0.50.0) represent the program faithfully; reflection, unsafe and code outside the module (pion/dtls, x/net, stdlib) are opaque",
		"call resolution: static callees for must-rules, CHA/VTA (over-approximate) for may-reach rules; aliasing by SSA value / access path",
		"no go-coap code is executed, concretely or symbolically; verdicts are statements about all paths of the analysed functions",
	}, pr.Assume...)
	known, err := core.LoadKnown(filepath.Join(*verif, "known_findings.json"))
	if err != nil {
		rep.Undecided("framework", "known_findings.json", "-", err.Error())
	}
	for _, k := range known {
		knownKeys = append(knownKeys, k.Key)
	}
	cmd := fmt.Sprintf("/verif/bin/coapcheck -property %s -tier %s", pr.ID, *tier)

	configs := []core.Config{{Name: "linux/amd64", IntBit: 64}}
	if *tier == "thorough" {
		configs = append(configs,
			core.Config{Name: "linux/386", Env: []string{"GOOS=linux", "GOARCH=386"}, IntBit: 32},
			core.Config{Name: "windows/amd64", Env: []string{"GOOS=windows", "GOARCH=amd64"}, IntBit: 64},
			core.Config{Name: "linux/amd64+tests", Tests: true, IntBit: 64},
		)
	}
	for _, cfg := range configs {
		runConfig(rep, pr, *repo, cfg, *tier, *only, *verbose)
	}
	if *tier == "thorough" && !*noMut && *only == "" {
		rules.RunMutants(rep, pr, *repo, *verif)
	}
	if *verbose {
		for _, o := range rep.Obls {
			fmt.Printf("  [%s] %s @ %s — %s\n", o.Status, o.Key, o.Pos, o.Detail)
		}
	}
	os.Exit(rep.Finish(*out, known, seed, cmd))
}

var knownKeys []string

func runConfig(rep *core.Report, pr *rules.Property, repo string, cfg core.Config, tier, only string, verbose bool) {
	rep.SetConfig(cfg.Name)
	defer func() {
		if x := recover(); x != nil {
			st := string(debug.Stack())
			if len(st) > 1500 {
				st = st[:1500]
			}
			rep.Undecided("framework", "panic", "-", fmt.Sprintf("analyser panicked: %v\n%s", x, st))
		}
	}()
	p, err := core.Load(repo, cfg)
	if err != nil {
		rep.Undecided("framework", "load", "-", err.Error())
		return
	}
	rep.Stats["packages@"+cfg.Name] = len(p.Pkgs)
	rep.Stats["source_functions@"+cfg.Name] = len(p.SrcFuncs(cfg.Tests))
	rep.Stats["load_s@"+cfg.Name] = p.LoadSecs
	// anchors: every role name a rule mentions (embedded rule sources) plus every name this property's rules look up (dry run
	// without absorption, report discarded); everything else that is an unexported single-package helper is analysed as part of its callers
	core.AbsorptionEnabled = false
	func() {
		defer func() { _ = recover() }()
		dry := core.NewReport(pr.ID, tier, pr.Level)
		dry.SetConfig(cfg.Name)
		denv := &rules.Env{P: p, R: dry, Tier: tier, Only: only, Primary: cfg.Name == "linux/amd64"}
		if !denv.Primary && pr.RunExtra != nil {
			pr.RunExtra(denv)
		} else {
			pr.Run(denv)
		}
	}()
	looked := p.Looked
	p.BuildAbsorption(func(n string) bool {
		if looked[n] || rules.IsAnchorName(n) {
			if verbose && os.Getenv("COAPCHECK_WHY") != "" && strings.Contains(n, os.Getenv("COAPCHECK_WHY")) {
				fmt.Println("anchor:", n, "looked:", looked[n], "named-in-rules:", rules.IsAnchorName(n))
			}
			return true
		}
		for _, k := range knownKeys {
			if strings.Contains(k, ":"+n+":") {
				return true // a recorded finding is keyed by this function
			}
		}
		return false
	})
	core.AbsorptionEnabled = true
	hs := core.AbsorbedHelpers()
	sort.Strings(hs)
	rep.Stats["absorbed_helpers@"+cfg.Name] = len(hs)
	if verbose {
		fmt.Println("absorbed helpers:", strings.Join(hs, " "))
	}
	env := &rules.Env{P: p, R: rep, Tier: tier, Only: only, Primary: cfg.Name == "linux/amd64"}
	defer rules.Round7(env, pr.ID)
	defer rules.Round8(env, pr.ID)
	defer rules.Round6(env, pr.ID)
	defer rules.Round5(env, pr.ID)
	defer rules.Round4(env, pr.ID)
	defer rules.ErrDiscipline(env, pr.ID) // generic contradiction rule over the functions the property's rules looked up
	if !env.Primary && pr.RunExtra == nil {
		// default for extra configurations: rerun every rule (keys carry the configuration suffix)
		pr.Run(env)
		return
	}
	if !env.Primary {
		pr.RunExtra(env)
		return
	}
	pr.Run(env)
	_ = strings.TrimSpace
}

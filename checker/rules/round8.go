package rules

import (
	"fmt"
	"go/token"
	"go/types"
	"sort"
	"strings"

	"coapcheck/internal/core"

	"golang.org/x/tools/go/ssa"
)

// Rules added after the eighth round of independently seeded changes: arithmetic / type / unit mistakes and "sibling divergence"
// (one of several parallel implementations of the same step stops agreeing with the others).

// Round8 is called for every configuration after the property's own rules (main.go).
func Round8(e *Env, id string) {
	r := e.R
	reg := func(rule, engine, text string, min int, run func(rule string)) {
		r.Rule(rule, engine, text, min)
		if e.want(rule) {
			run(rule)
		}
	}
	applier := func(rule string, min int, what string, fields ...string) {
		reg(rule, "siblings", "the option appliers of every transport agree: each …Apply method of an option copies "+what+" from the option into the endpoint's configuration unchanged, and every sibling writes the same fields", min, func(rule string) { appliersAgree(e, rule, fields...) })
	}
	switch id {
	case "C19":
		applier("C19.J1", 5, "the block-size exponent", "BlockwiseSZX")
		reg("C19.J7", "shared", "the clamp of a received exponent compares exponents, and returns the smaller one (= C04.R5: SZX 6 and BERT both stand for 1024 bytes, a comparison of sizes lets BERT through a 1024 limit)", 4, func(rule string) { borrow(e, "C04", "C04.R5", rule) })
	case "C04":
		reg("C04.J3", "shared", "a block is counted in the unit its exponent announces (= C19.P7: BERT is 1024 bytes) and a duplicated datagram of a block is answered from the reply cache, never handed to the transfer again (= C05.R3)", 3, func(rule string) {
			borrow(e, "C19", "C19.P7", rule)
			borrow(e, "C05", "C05.R3", rule)
		})
		applier("C04.J1", 15, "the block-wise settings (enable, exponent, transfer timeout)", "BlockwiseEnable", "BlockwiseSZX", "BlockwiseTransferTimeout")
	case "C06":
		reg("C06.J2", "flows", "the run-time setters of the transmission parameters store their argument unchanged (no rounding of ACK_TIMEOUT to seconds)", 3, func(rule string) {
			storesParameterUnchanged(e, rule, "udp/client.Transmission.SetTransmissionNStart", "udp/client.Transmission.SetTransmissionAcknowledgeTimeout", "udp/client.Transmission.SetTransmissionMaxRetransmit")
		})
		reg("C06.J3", "siblings", "every session writes a message under that message's context (UDP, DTLS and TCP alike): a retransmission whose caller was cancelled is not written", 3, func(rule string) { writesUnderMessageContext(e, rule) })
		applier("C06.J1", 9, "the transmission parameters (NSTART, retransmit count, acknowledge timeout)", "TransmissionNStart", "TransmissionMaxRetransmit", "TransmissionAcknowledgeTimeout")
	case "C02":
		reg("C02.J14", "shared", "the re-encoding of an accepted message is the canonical encoding: the option header writer places the delta extension and the length extension one after the other and reports what it wrote (= C01.R3)", 4, func(rule string) { borrow(e, "C01", "C01.R3", rule) })
		applier("C02.J1", 5, "the maximal message size", "MaxMessageSize")
	case "C07":
		reg("C07.J4", "paths+siblings", "a connection that ends with an error reports it: between Run and the Errors callback stands only err != nil, in the client entry points as in the servers", 5, func(rule string) {
			runErrorReported(e, rule, "tcp.Client", "tcp/server.Server.serveConnection", "udp.Client", "dtls.Client", "dtls/server.Server.serveConnection")
		})
		applier("C07.J1", 5, "the maximal message size", "MaxMessageSize")
	case "C09":
		reg("C09.J3", "siblings", "every session writes a message under that message's context (UDP, DTLS and TCP alike)", 3, func(rule string) { writesUnderMessageContext(e, rule) })
		reg("C09.J15", "shared", "the read loop of a stream connection always comes back to its context: the pooled decoder's grow-and-retry loop makes progress on every turn (= C02.R2: the new option capacity is larger than the old one for every old capacity, so Close is not left waiting for a spinning reader)", 1, func(rule string) {
			borrowMatching(e, "C02", "C02.R2", rule, "retry-grows")
		})
		applier("C09.J1", 5, "the context", "Ctx")
	case "C12":
		reg("C12.J16", "shared", "a received message is handed to one receiver: after the pending request's continuation took it, no second hand-over is reachable (= C11.R10)", 3, func(rule string) {
			forwardsAtMostOnce(e, rule)
		})
		applier("C12.J1", 5, "the message pool", "MessagePool")
	case "C14":
		reg("C14.J2", "locks", "no operation of the map or the cache re-enters its own lock: a method that holds the receiver's mutex never calls another method of the same receiver that acquires it again (a queued writer between the two acquisitions blocks every later operation)", 5, func(rule string) { noReentrantLock(e, rule, "pkg/sync.", "pkg/cache.") })
		reg("C14.J3", "flows", "an element's deadline is the one it was created with: NewElement stores its validUntil argument unchanged", 1, func(rule string) { storesParameterUnchanged(e, rule, "pkg/cache.NewElement") })
	case "C17":
		reg("C17.J2", "locks+paths", "no router method re-enters the router's lock; every named group of a matched route is stored as a variable (the loop over the names has no skipping branch)", 3, func(rule string) {
			noReentrantLock(e, rule, "mux.")
			everyNamedGroupStored(e, rule)
		})
	case "C20":
		reg("C20.J2", "shared", "the option number a request carries is the number the decoder reports (= C01.R1: the extension classes 0-12 / 13-268 / 269-65804 of the option delta decode to the value that was encoded, without wrap-around – No-Response is option 258 and travels as an extended delta)", 3, func(rule string) { c01OptionClasses(e, rule) })
	case "C05":
		reg("C05.J4", "who-may-call", "the reply cache of a connection is replaced by users only: the library's own clients and servers (UDP and DTLS alike) keep the default cache, they never call WithResponseMessageCache", 1, func(rule string) {
			whoMayCallNone(e, rule, "udp/client.WithResponseMessageCache", "a connection created by the library runs with a replaced reply cache: duplicates on it are not answered from the cache its siblings use")
		})
	case "C18":
		reg("C18.J5", "flows+paths", "the silent period is measured from time.Now() at the last activity (the monitor never stores a time in the future); a received Pong completes its ping whatever the options of the connection", 2, func(rule string) {
			lastActivityIsNow(e, rule)
			pongAlwaysDispatched(e, rule)
		})
	case "C13":
		reg("C13.J6", "shared", "a finished block-wise response leaves the sending table with its last block, whatever its code (= C03.H9)", 1, func(rule string) { finishedResponseLeavesTable(e, rule) })
		applier("C13.J1", 5, "the transfer timeout", "BlockwiseTransferTimeout")
	case "C11":
		reg("C11.J7", "shared", "a pong completes its ping on the reading goroutine (= C13.R6: the continuation is taken out of the token table by the pong itself, so a ping issued by a handler is answered); a duplicate is looked up by the message ID alone, injectively rendered (= C05.R4: distinct message IDs never share a reply-cache key, so a fresh request is never taken for a duplicate)", 3, func(rule string) {
			pongTakesContinuation(e, rule)
			borrow(e, "C05", "C05.R4", rule)
		})
		applier("C11.J1", 5, "the receive-queue size", "ReceivedMessageQueueSize")
	case "C10":
		reg("C10.J8", "shared", "the read loop shared by all peers never blocks on a closed peer's queue (= C09.R1: the hand-over to a connection's queue selects on the connection's context); the key of the token tables is a checksum of the whole token, length included (= C03.R3: a foreign token never reaches another exchange's receiver)", 2, func(rule string) {
			borrowMatching(e, "C09", "C09.R1", rule, "udp/client.Conn.Process")
			borrow(e, "C03", "C03.R3", rule)
		})
	case "C01":
		reg("C01.J9", "flows", "a decoder's error keeps its identity: the coders wrap the errors of the option decoder with %w (message.ErrOptionsTooSmall makes the pooled decoder grow its option slice and retry – a well-formed message with many options round-trips)", 2, func(rule string) {
			errorfKeepsIdentity(e, rule, "udp/coder.Coder.Decode", "tcp/coder.Coder.Decode")
		})
	case "C15":
		reg("C15.J10", "paths+flows", "a refused typed setter leaves the option list as it was (the refusal is decided before the first edit); the single-value getters report the first occurrence of an option; Clone's retry buffer holds what the first attempt asked for", 7, func(rule string) {
			refusedSetterLeavesMessage(e, rule, "message/pool.Message.SetPath", "message/pool.Message.AddETag", "message/pool.Message.SetETag")
			getterReturnsFirstOccurrence(e, rule)
			retryBufferCoversNeed(e, rule)
		})
	case "C08":
		reg("C08.J11", "flows", "the sequence number compared is the one received: the Observe getter returns the option's value unchanged (all 24 bits) and reads the first occurrence of the option", 4, func(rule string) {
			typedGetterPassesValue(e, rule, "message/pool.Message.Observe")
			getterReturnsFirstOccurrence(e, rule)
		})
	case "C16":
		reg("C16.J12", "types+flows", "every request entry point of a connection is the limited one (promoted from the embedded client, no shadowing method on the connection type); the waiter queue loses its head only together with handing that head its slot", 3, func(rule string) {
			limitedEntryPointsArePromoted(e, rule)
			headDropHandsTheHead(e, rule)
		})
		applier("C16.J1", 10, "the parallel-request limits", "LimitClientParallelRequests", "LimitClientEndpointParallelRequests")
	case "C03":
		reg("C03.J13", "shared", "a late duplicate of a response is recognised for the whole exchange lifetime (= C05.R5: a reply-cache entry expires at now + EXCHANGE_LIFETIME); the response released after a handler is the writer's current message, read after the handler ran (= C12.H16)", 3, func(rule string) {
			borrow(e, "C05", "C05.R5", rule)
			releaseWritersCurrentMessage(e, rule)
		})
		applier("C03.J1", 5, "the token generator", "GetToken")
	}
}

// appliersAgree: for every option type of package options whose …Apply methods write one of the given configuration fields:
// the value written is the option's own field, unchanged, and it is the same field in every sibling; and all siblings of one
// option type write the same set of configuration fields.
func appliersAgree(e *Env, rule string, fields ...string) {
	want := map[string]bool{}
	for _, f := range fields {
		want[f] = true
	}
	type write struct {
		fn    *ssa.Function
		src   string
		where ssa.Instruction
	}
	byType := map[string]map[string][]write{}     // option type → config field → writes
	fieldSets := map[string]map[string][]string{} // option type → applier → sorted fields written
	fnOf := map[string]*ssa.Function{}
	for _, f := range e.P.AllSrcFuncs(false) {
		name := core.FnName(f)
		if !strings.HasPrefix(name, "options.") || !strings.HasSuffix(name, "Apply") || f.Signature.Recv() == nil || len(f.Params) != 2 {
			continue
		}
		recv, cfg := f.Params[0], f.Params[1]
		tn := strings.TrimPrefix(name[:strings.LastIndex(name, ".")], "options.")
		var written []string
		core.InstrsOwn(f, func(in ssa.Instruction) {
			st, ok := in.(*ssa.Store)
			if !ok {
				return
			}
			fa, ok := st.Addr.(*ssa.FieldAddr)
			if !ok {
				return
			}
			base := fa.X // through embedded structs (cfg.Common.X)
			for {
				inner, isFA := base.(*ssa.FieldAddr)
				if !isFA {
					break
				}
				base = inner.X
			}
			if core.Unwrap(base) != ssa.Value(cfg) {
				return
			}
			_, fl, isF := core.FieldOf(fa)
			if !isF {
				return
			}
			written = append(written, fl)
			if !want[fl] {
				return
			}
			if byType[tn] == nil {
				byType[tn] = map[string][]write{}
			}
			byType[tn][fl] = append(byType[tn][fl], write{f, applierSource(st.Val, recv), in})
		})
		sort.Strings(written)
		if fieldSets[tn] == nil {
			fieldSets[tn] = map[string][]string{}
		}
		fieldSets[tn][name] = written
		fnOf[name] = f
	}
	var tns []string
	for tn := range byType {
		tns = append(tns, tn)
	}
	sort.Strings(tns)
	for _, tn := range tns {
		var fls []string
		for fl := range byType[tn] {
			fls = append(fls, fl)
		}
		sort.Strings(fls)
		for _, fl := range fls {
			ws := byType[tn][fl]
			ref := ""
			for _, w := range ws {
				if strings.HasPrefix(w.src, "option.") {
					ref = w.src
					break
				}
			}
			for _, w := range ws {
				bad := ""
				switch {
				case !strings.HasPrefix(w.src, "option."):
					bad = "the value written to " + fl + " is not the option's own field (it is " + w.src + "): this endpoint kind is configured differently from what the user asked for and from its siblings"
				case w.src != ref:
					bad = "writes " + w.src + " to " + fl + " where the sibling appliers write " + ref
				}
				e.R.Check(bad == "", rule, core.FnName(w.fn)+":"+fl+"-copied", e.pos(w.where), fl+" = "+w.src+", as in the "+fmt.Sprint(len(ws)-1)+" sibling appliers", bad)
			}
		}
		// every sibling writes the same fields
		var names []string
		for n := range fieldSets[tn] {
			names = append(names, n)
		}
		sort.Strings(names)
		counts := map[string]int{}
		for _, n := range names {
			counts[strings.Join(fieldSets[tn][n], ",")]++
		}
		major, mc := "", 0
		for k, c := range counts {
			if c > mc || (c == mc && k > major) {
				major, mc = k, c
			}
		}
		for _, n := range names {
			got := strings.Join(fieldSets[tn][n], ",")
			// a sibling may write MORE (transport-specific extras) but not less than the fields of interest the others write
			missing := ""
			for _, fl := range strings.Split(major, ",") {
				if want[fl] && !strings.Contains(","+got+",", ","+fl+",") {
					missing = fl
				}
			}
			e.R.Check(missing == "", rule, n+":writes-sibling-fields", e.fpos(fnOf[n]), "writes {"+got+"}", "does not write "+missing+", which its sibling appliers write ({"+major+"}): the setting is silently ignored for this endpoint kind")
		}
	}
}

// applierSource: a canonical description of the value an applier writes: "option.<field>" for a plain copy of a field of the
// receiver (through conversions of identical underlying type), "const …" for a constant, otherwise the operation.
func applierSource(v ssa.Value, recv *ssa.Parameter) string {
	for i := 0; i < 6; i++ {
		switch x := v.(type) {
		case *ssa.ChangeType:
			v = x.X
			continue
		case *ssa.ChangeInterface:
			v = x.X
			continue
		case *ssa.MakeInterface:
			v = x.X
			continue
		case *ssa.Field:
			if x.X == ssa.Value(recv) {
				if st, ok := x.X.Type().Underlying().(*types.Struct); ok {
					return "option." + st.Field(x.Field).Name()
				}
			}
			return "a field of another value"
		case *ssa.UnOp:
			if x.Op == token.MUL {
				if fa, ok := x.X.(*ssa.FieldAddr); ok {
					root := fa.X
					if ld, isLd := root.(*ssa.UnOp); isLd && ld.Op == token.MUL {
						root = ld.X
					}
					if root == ssa.Value(recv) || isSpillOf(root, recv) {
						if _, fl, isF := core.FieldOf(fa); isF {
							return "option." + fl
						}
					}
				}
			}
			return "the result of " + x.Op.String()
		case *ssa.Const:
			return "const " + x.String()
		case *ssa.Call:
			return "the result of a call of " + core.CalleeName(x)
		case *ssa.BinOp:
			return "the result of " + x.Op.String()
		case *ssa.Phi:
			return "one of several values (a conditional)"
		case *ssa.Convert:
			return "a converted value"
		}
		break
	}
	return "a computed value"
}

// isSpillOf: a is the Alloc a value parameter was spilled into (its address is taken in the body).
func isSpillOf(a ssa.Value, p *ssa.Parameter) bool {
	al, ok := a.(*ssa.Alloc)
	if !ok {
		return false
	}
	for _, st := range core.StoresToCell(al) {
		if st.Val == ssa.Value(p) {
			return true
		}
	}
	return false
}

// noReentrantLock (C14 and users): a method that holds a mutex of its receiver does not call another method of the same
// receiver that takes the same mutex again. sync.RWMutex is not re-entrant: Lock after (R)Lock blocks at once, and a second
// RLock blocks for ever as soon as a writer queues up between the two – every later operation on the object then hangs.
func noReentrantLock(e *Env, rule string, pkgs ...string) {
	inScope := func(name string) bool {
		for _, p := range pkgs {
			if strings.HasPrefix(name, p) {
				return true
			}
		}
		return false
	}
	rel := func(path string) string {
		if i := strings.Index(path, "."); i >= 0 {
			return path[i:]
		}
		return ""
	}
	takes := map[*ssa.Function]map[string]bool{} // relative mutex paths a method acquires on its own receiver
	takesOf := func(g *ssa.Function) map[string]bool {
		if t, ok := takes[g]; ok {
			return t
		}
		t := map[string]bool{}
		takes[g] = t
		if len(g.Blocks) == 0 || g.Signature.Recv() == nil || len(g.Params) == 0 {
			return t
		}
		recvName := g.Params[0].Name()
		// a helper that is entered with the lock held and releases it first (call the callback unlocked, lock again) does not re-enter
		var releases []ssa.Instruction
		relPath := map[ssa.Instruction]string{}
		core.InstrsOwn(g, func(in ssa.Instruction) {
			if _, isDefer := in.(*ssa.Defer); isDefer {
				return
			}
			if c, ok := in.(ssa.CallInstruction); ok {
				if op, path, isM := core.MutexOp(c); isM && (op == "Unlock" || op == "RUnlock") {
					releases = append(releases, in)
					relPath[in] = path
				}
			}
		})
		core.Instrs(g, func(in ssa.Instruction) {
			c, ok := in.(ssa.CallInstruction)
			if !ok {
				return
			}
			if _, isDefer := in.(*ssa.Defer); isDefer {
				return
			}
			op, path, isM := core.MutexOp(c)
			if !isM || (op != "Lock" && op != "RLock") {
				return
			}
			if strings.HasPrefix(path, recvName+".") && in.Parent() == g {
				for _, u := range releases {
					if relPath[u] == path && core.Dominates(u, in) {
						return
					}
				}
				t[rel(path)] = true
			}
		})
		return t
	}
	nf, nc := 0, 0
	for _, f := range e.P.AllSrcFuncs(false) {
		name := core.FnName(f)
		if !inScope(name) || f.Signature.Recv() == nil || len(f.Params) == 0 || len(f.Blocks) == 0 {
			continue
		}
		var locks *core.Locks
		recv := f.Params[0]
		bad := ""
		sawLock := false
		core.Instrs(f, func(in ssa.Instruction) { // a lock taken through a small lock helper counts
			if c, ok := in.(ssa.CallInstruction); ok {
				if _, _, isM := core.MutexOp(c); isM {
					sawLock = true
				}
			}
		})
		core.InstrsOwn(f, func(in ssa.Instruction) {
			c, ok := in.(*ssa.Call)
			if !ok {
				return
			}
			if _, _, isM := core.MutexOp(c); isM {
				return
			}
			g := c.Call.StaticCallee()
			if g == nil || g.Signature.Recv() == nil || len(c.Call.Args) == 0 || core.Resolve(c.Call.Args[0]) != ssa.Value(recv) {
				return
			}
			if g.Origin() != nil {
				g = g.Origin()
			}
			t := takesOf(g)
			if len(t) == 0 {
				return
			}
			if locks == nil {
				locks = core.AnalyzeLocksMay(f)
			}
			nc++
			for path := range locks.At(in) {
				if strings.HasPrefix(path, recv.Name()+".") && t[rel(path)] {
					bad = fmt.Sprintf("%s is called at %s with %s held, and takes it again: sync.RWMutex is not re-entrant (a writer queued between the two acquisitions blocks both for ever)", shortType(core.FnName(g)), e.pos(in), path)
				}
			}
		})
		if !sawLock && bad == "" {
			continue
		}
		nf++
		e.R.Check(bad == "", rule, name+":no-reentrant-lock", e.fpos(f), "no method of the receiver that takes the receiver's mutex is called while it is held", bad)
	}
	_ = nc
}

// paramUnchanged: v is the parameter p itself (through loads of its spill cell), not a value computed from it.
func paramUnchanged(v ssa.Value, p *ssa.Parameter) bool {
	v = core.Unwrap(v)
	if v == ssa.Value(p) {
		return true
	}
	if ld, ok := v.(*ssa.UnOp); ok && ld.Op == token.MUL {
		if a, isA := ld.X.(*ssa.Alloc); isA {
			sts := core.StoresToCell(a)
			return len(sts) == 1 && core.Unwrap(sts[0].Val) == ssa.Value(p)
		}
	}
	return false
}

// storesParameterUnchanged: every atomic / field store of the named functions that takes a value of a parameter's type stores
// the parameter itself: a setter or constructor does not re-scale, round or re-base what it was given.
func storesParameterUnchanged(e *Env, rule string, fns ...string) {
	for _, q := range fns {
		f := e.fn(rule, q)
		if f == nil {
			continue
		}
		n, bad := 0, ""
		core.Instrs(f, func(in ssa.Instruction) {
			c, ok := in.(*ssa.Call)
			if !ok || !strings.HasSuffix(core.CalleeName(c), ".Store") || len(c.Call.Args) < 2 {
				return
			}
			val := c.Call.Args[len(c.Call.Args)-1]
			// a value-preserving change of representation (time.Duration ↔ int64: same underlying type) is not a computation
			for i := 0; i < 3; i++ {
				if ct, isCT := val.(*ssa.ChangeType); isCT && types.Identical(ct.X.Type().Underlying(), ct.Type().Underlying()) {
					val = ct.X
					continue
				}
				if cv, isCV := val.(*ssa.Convert); isCV && types.Identical(cv.X.Type().Underlying(), cv.Type().Underlying()) {
					val = cv.X
					continue
				}
				break
			}
			var cand *ssa.Parameter
			for _, p := range f.Params {
				if types.Identical(p.Type(), val.Type()) {
					cand = p
				}
			}
			if cand == nil {
				return
			}
			n++
			if !paramUnchanged(val, cand) && !paramUnchanged(core.Resolve(val), cand) {
				bad = "the value stored at " + e.pos(in) + " is computed from, not equal to, the argument " + cand.Name() + ": the caller's value is rounded, re-scaled or re-based on the way in"
			}
		})
		e.R.Check(bad == "" && n > 0, rule, q+":stores-argument", e.fpos(f), fmt.Sprintf("%d store(s) of the argument, unchanged", n), bad)
	}
}

// writesUnderMessageContext: every Session.Write…Message hands the connection write the context of the message being written
// (req.Context()): a copy whose caller has gone is not written, on every transport alike.
func writesUnderMessageContext(e *Env, rule string) {
	writers := map[string]int{"WriteWithContext": 1, "WriteMulticast": 1, "WithContext": 0} // index of the context argument (receiver = 0)
	n := 0
	for _, f := range e.P.AllSrcFuncs(false) {
		name := core.FnName(f)
		if !strings.Contains(name, ".Session.Write") || !strings.HasSuffix(name, "Message") || len(f.Params) < 2 {
			continue
		}
		req := f.Params[1]
		bad, k := "", 0
		core.Instrs(f, func(in ssa.Instruction) {
			c, ok := in.(ssa.CallInstruction)
			if !ok {
				return
			}
			cn := core.CalleeName(c)
			short := cn[strings.LastIndex(cn, ".")+1:]
			idx, isW := writers[short]
			if !isW || !strings.HasPrefix(cn, "net.") {
				return
			}
			k++
			ctx := core.Resolve(core.Arg(c, idx))
			cc, isCall := ctx.(*ssa.Call)
			if !isCall || core.CalleeName(cc) != "message/pool.Message.Context" || core.Resolve(core.Arg(cc, 0)) != ssa.Value(req) {
				bad = "the write at " + e.pos(in) + " does not run under the context of the message being written (" + req.Name() + ".Context()): a cancelled caller's copy still goes out on this transport"
			}
		})
		if k == 0 {
			continue
		}
		n++
		e.R.Check(bad == "", rule, name+":message-context", e.fpos(f), fmt.Sprintf("%d connection write(s), each under %s.Context()", k, req.Name()), bad)
	}
}

// runErrorReported: the goroutine / function that runs a connection reports every error Run returns through the configured
// Errors callback: the only condition between Run and the report is err != nil (client and server flavours alike).
func runErrorReported(e *Env, rule string, hosts ...string) {
	for _, q := range hosts {
		host := e.fn(rule, q)
		if host == nil {
			continue
		}
		n, bad := 0, ""
		for _, f := range core.WithAnon(host) {
			core.InstrsOwn(f, func(in ssa.Instruction) {
				c, ok := in.(*ssa.Call)
				if !ok || !strings.HasSuffix(core.CalleeName(c), "client.Conn.Run") {
					return
				}
				n++
				isReport := func(x ssa.Instruction) bool {
					ci, isC := x.(ssa.CallInstruction)
					if !isC || ci.Common().IsInvoke() || ci.Common().StaticCallee() != nil {
						return false
					}
					return fieldNameOf(ci.Common().Value) == "Errors"
				}
				w := (&core.PathQuery{Fn: f, From: c,
					EdgeOK: func(i *ssa.If, br bool) bool {
						ev, nilBranch, isErr := core.ErrNilEdge(i)
						if isErr && core.Resolve(ev) == ssa.Value(c) {
							return br != nilBranch // Run failed
						}
						return true
					},
					Stop: isReport,
					Target: func(x ssa.Instruction) bool {
						_, isRet := x.(*ssa.Return)
						return isRet
					}}).Find()
				if w != nil {
					bad = "an error returned by Run at " + e.pos(in) + " can go unreported (a further condition guards the Errors callback): " + e.trace(w)
				}
			})
		}
		e.R.Check(bad == "" && n > 0, rule, q+":run-error-reported", e.fpos(host), fmt.Sprintf("%d Run call(s); a non-nil error always reaches the Errors callback", n), bad)
	}
}

// whoMayCallNone: the named library function is an extension point for users: the library itself never calls it.
func whoMayCallNone(e *Env, rule, callee, why string) {
	var sites []string
	for _, f := range e.P.AllSrcFuncs(false) {
		if strings.HasPrefix(core.FnName(f), "examples/") {
			continue
		}
		core.InstrsOwn(f, func(in ssa.Instruction) {
			if c, ok := in.(ssa.CallInstruction); ok && core.CalleeName(c) == callee {
				sites = append(sites, core.FnName(f)+" at "+e.pos(in))
			}
		})
	}
	pos := "-"
	if f := e.P.FuncQuiet(callee); f != nil {
		pos = e.fpos(f)
	}
	e.R.Check(len(sites) == 0, rule, callee+":not-called-by-the-library", pos, "no call in the library's own code", why+": called by "+strings.Join(sites, ", "))
}

// lastActivityIsNow: every value stored as the time of the last activity is time.Now() itself (never a time in the future:
// the inactivity period is added once, by the check).
func lastActivityIsNow(e *Env, rule string) {
	n, bad := 0, ""
	for _, f := range e.P.AllSrcFuncs(false) {
		if !strings.HasPrefix(core.FnName(f), "net/monitor/inactivity.") {
			continue
		}
		core.InstrsOwn(f, func(in ssa.Instruction) {
			c, ok := in.(*ssa.Call)
			if !ok || !strings.HasSuffix(core.CalleeName(c), ".Store") || len(c.Call.Args) < 2 || fieldNameOf(addrToLoad(c.Call.Args[0])) != "lastActivity" {
				return
			}
			n++
			v := core.Resolve(c.Call.Args[1])
			if mi, isMI := v.(*ssa.MakeInterface); isMI {
				v = core.Resolve(mi.X)
			}
			// other holders of the same instant: a pointer to a local initialised with time.Now(), its UnixNano / UnixMilli
			if al, isAl := v.(*ssa.Alloc); isAl {
				if sts := core.StoresToCell(al); len(sts) == 1 {
					v = core.Resolve(sts[0].Val)
				}
			}
			if cl, isC := v.(*ssa.Call); isC && strings.HasPrefix(core.CalleeName(cl), "time.Time.Unix") && len(cl.Call.Args) == 1 {
				v = core.Resolve(cl.Call.Args[0])
			}
			if cl, isC := v.(*ssa.Call); !isC || core.CalleeName(cl) != "time.Now" {
				bad = "the last-activity time stored at " + e.pos(in) + " is not time.Now(): the silent period is measured from another instant (a connection is closed late or early)"
			}
		})
	}
	e.R.Check(bad == "" && n > 0, rule, "net/monitor/inactivity:last-activity=now", "-", fmt.Sprintf("%d store(s) of the last activity, each time.Now()", n), bad)
}

// addrToLoad: for the address of a field (receiver of an atomic method) a value fieldNameOf understands.
func addrToLoad(v ssa.Value) ssa.Value {
	if fa, ok := v.(*ssa.FieldAddr); ok {
		return &ssa.UnOp{Op: token.MUL, X: fa}
	}
	return v
}

// pongAlwaysDispatched: whatever the options of the connection, a received Pong (7.03) reaches the removal of the ping's
// continuation from the token table: only tests on the message's code select the arm.
func pongAlwaysDispatched(e *Env, rule string) {
	q := "tcp/client.Conn.handleSignals"
	f := e.fn(rule, q)
	if f == nil || len(f.Blocks) == 0 || len(f.Blocks[0].Instrs) == 0 {
		return
	}
	const pong = 227
	isCode := func(v ssa.Value) bool {
		c, ok := core.Resolve(v).(*ssa.Call)
		return ok && core.CalleeName(c) == "message/pool.Message.Code"
	}
	tests := 0
	edge := func(i *ssa.If, br bool) bool {
		c, ok := core.EdgeFacts(i, true)
		if !ok {
			return true
		}
		x, y, op := c.X, c.Y, c.Op
		if k, isK := core.ConstInt(x); isK && isCode(y) {
			// constant on the left: mirror
			x, y = y, x
			switch op {
			case token.LSS:
				op = token.GTR
			case token.GTR:
				op = token.LSS
			case token.LEQ:
				op = token.GEQ
			case token.GEQ:
				op = token.LEQ
			}
			_ = k
		}
		k, isK := core.ConstInt(y)
		if !isK || !isCode(x) {
			return true
		}
		tests++
		var holds bool
		switch op {
		case token.EQL:
			holds = pong == k
		case token.NEQ:
			holds = pong != k
		case token.LSS:
			holds = pong < k
		case token.LEQ:
			holds = pong <= k
		case token.GTR:
			holds = pong > k
		case token.GEQ:
			holds = pong >= k
		default:
			return true
		}
		return br == holds
	}
	w := (&core.PathQuery{Fn: f, From: f.Blocks[0].Instrs[0], EdgeOK: edge,
		Stop: func(in ssa.Instruction) bool {
			cl, isC := in.(*ssa.Call)
			return isC && core.CalleeName(cl) == "pkg/sync.Map.LoadAndDelete" && strings.HasSuffix(tableOf(cl), ".tokenHandlerContainer")
		},
		Target: core.IsReturn}).Find()
	bad := ""
	if w != nil {
		bad = "a received Pong can be consumed without completing the ping it answers (a test that is not on the message's code stands in the way): the keep-alive's fail count is never reset and a responsive peer is closed: " + e.trace(w)
	}
	e.R.Check(bad == "" && tests > 0, rule, q+":pong-always-dispatched", e.fpos(f), "for code 7.03 every path reaches LoadAndDelete on the token table", bad)
}

// limitedEntryPointsArePromoted (C16): the request entry points of a connection (Do, DoObserve and the helpers built on them) are
// the ones promoted from the embedded client, which is wired to the limiter: a method declared on the connection type itself
// under one of these names shadows the limited one for this transport only.
func limitedEntryPointsArePromoted(e *Env, rule string) {
	for _, tn := range []string{"tcp/client.Conn", "udp/client.Conn"} {
		named := e.P.NamedType(tn)
		if named == nil {
			e.R.Undecided(rule, tn+":entry-points-promoted", "-", "type not found")
			continue
		}
		ms := types.NewMethodSet(types.NewPointer(named))
		var own []string
		n := 0
		for _, m := range []string{"Do", "DoObserve", "Get", "Post", "Put", "Delete", "Observe"} {
			for i := 0; i < ms.Len(); i++ {
				sel := ms.At(i)
				if sel.Obj().Name() != m {
					continue
				}
				n++
				if len(sel.Index()) < 2 {
					own = append(own, m)
				}
			}
		}
		sort.Strings(own)
		e.R.Check(len(own) == 0 && n >= 7, rule, tn+":entry-points-promoted", e.P.Pos(named.Obj().Pos()), fmt.Sprintf("%d request entry points, all promoted from the embedded (limited) client", n),
			"declared on the connection type itself, shadowing the limited entry point of the embedded client: "+strings.Join(own, ", ")+" – requests issued through it bypass both limits on this transport")
	}
}

// headDropHandsTheHead (C16): the waiter queue loses its head only together with handing that head its slot: every `q = q[1:]`
// of the queue is paired with a read of q[0] of the same queue state (no second advance without a second hand-over).
func headDropHandsTheHead(e *Env, rule string) {
	const field = "orderedRequest"
	n, bad := 0, ""
	isQueueLoad := func(v ssa.Value) (*ssa.UnOp, bool) {
		ld, ok := v.(*ssa.UnOp)
		if !ok || ld.Op != token.MUL {
			return nil, false
		}
		_, fl, isF := core.FieldOf(ld.X)
		return ld, isF && fl == field
	}
	for _, f := range e.P.AllSrcFuncs(false) {
		if !strings.HasPrefix(core.FnName(f), "net/client/limitParallelRequests.") {
			continue
		}
		for _, g := range core.WithAnon(f) {
			core.InstrsOwn(g, func(in ssa.Instruction) {
				sl, ok := in.(*ssa.Slice)
				if !ok || sl.Low == nil {
					return
				}
				if k, isK := core.ConstInt(sl.Low); !isK || k != 1 || sl.High != nil {
					return
				}
				ld, isQ := isQueueLoad(sl.X)
				if !isQ {
					return
				}
				n++
				// walk back from the load through this block and its single-predecessor chain: q[0] must be read before any store to the field
				b, idx := ld.Block(), -1
				for i, x := range b.Instrs {
					if x == ssa.Instruction(ld) {
						idx = i
					}
				}
				found, decided := false, false
				for hops := 0; hops < 8 && !decided; hops++ {
					for i := idx - 1; i >= 0 && !decided; i-- {
						switch x := b.Instrs[i].(type) {
						case *ssa.Store:
							if _, fl, isF := core.FieldOf(x.Addr); isF && fl == field {
								decided = true // a new queue state starts here: its head was not read
							}
						case *ssa.IndexAddr:
							if k, isK := core.ConstInt(x.Index); isK && k == 0 {
								if _, isQ2 := isQueueLoad(x.X); isQ2 {
									found, decided = true, true
								}
							}
						}
					}
					if decided || len(b.Preds) != 1 {
						break
					}
					b = b.Preds[0]
					idx = len(b.Instrs)
				}
				if !decided {
					found = true // merge point: not decided here, the head is handed on some other shape
				}
				if !found {
					bad = "the queue is advanced at " + e.pos(in) + " without its head having been read since the last update of the queue: a waiter is dropped without getting its slot (it is overtaken, and its eventual release frees a slot it never held)"
				}
			})
		}
	}
	e.R.Check(bad == "" && n > 0, rule, "net/client/limitParallelRequests:head-drop-hands-the-head", "-", fmt.Sprintf("%d queue advance(s), each after reading the head of the same queue state", n), bad)
}

// everyNamedGroupStored (C17): extractVars stores every named capture on every iteration: no test stands between the loop header and
// the map update.
func everyNamedGroupStored(e *Env, rule string) {
	q := "mux.extractVars"
	f := e.P.FuncQuiet(q)
	if f == nil {
		// the loop was inlined into its only caller
		if f = e.fn(rule, "mux.routeRegexp.extractRouteParams"); f == nil {
			return
		}
	}
	n, bad := 0, ""
	var upd *ssa.MapUpdate
	core.Instrs(f, func(in ssa.Instruction) {
		if m, ok := in.(*ssa.MapUpdate); ok {
			upd = m
			n++
		}
	})
	if upd != nil {
		// the loop header: the If that decides whether the body (containing the update) runs again
		for _, i := range core.IfsOf(f) {
			if i.Parent() != upd.Parent() || !loopHeader(i) || !i.Block().Dominates(upd.Block()) {
				continue
			}
			header := i
			for _, succ := range i.Block().Succs {
				if len(succ.Instrs) == 0 {
					continue
				}
				w := (&core.PathQuery{Fn: upd.Parent(), From: succ.Instrs[0],
					Stop:   func(x ssa.Instruction) bool { return x == ssa.Instruction(upd) },
					Target: func(x ssa.Instruction) bool { return x == ssa.Instruction(header) }}).Find()
				if w != nil && succ.Instrs[0] != ssa.Instruction(upd) {
					bad = "an iteration over the named groups can skip the store of its variable: " + e.trace(w)
				}
			}
		}
	}
	e.R.Check(bad == "" && n == 1, rule, q+":every-group-stored", e.fpos(f), "one map update, executed on every iteration of the loop over the names", bad)
}

// loopHeader: the If's block is the target of a back edge (a block it dominates jumps to it).
func loopHeader(i *ssa.If) bool {
	b := i.Block()
	for _, p := range b.Preds {
		if b.Dominates(p) {
			return true
		}
	}
	return false
}

// errorfKeepsIdentity: in the named functions every error built with fmt.Errorf from another error wraps it with %w: the callers
// recognise sentinel errors (ErrOptionsTooSmall → grow and retry, ErrMessageTruncated → read more) with errors.Is.
func errorfKeepsIdentity(e *Env, rule string, fns ...string) {
	errT := types.Universe.Lookup("error").Type().Underlying().(*types.Interface)
	for _, q := range fns {
		f := e.fn(rule, q)
		if f == nil {
			continue
		}
		n, bad := 0, ""
		core.Instrs(f, func(in ssa.Instruction) {
			c, ok := in.(*ssa.Call)
			if !ok || core.CalleeName(c) != "fmt.Errorf" || len(c.Call.Args) != 2 {
				return
			}
			fmtS, isS := core.ConstString(c.Call.Args[0])
			if !isS {
				return
			}
			// the variadic slice: stores into its backing array
			nerr := 0
			if sl, isSl := c.Call.Args[1].(*ssa.Slice); isSl {
				if al, isAl := sl.X.(*ssa.Alloc); isAl {
					for _, u := range *al.Referrers() {
						ia, isIA := u.(*ssa.IndexAddr)
						if !isIA {
							continue
						}
						for _, u2 := range *ia.Referrers() {
							st, isSt := u2.(*ssa.Store)
							if !isSt {
								continue
							}
							v := st.Val
							if mi, isMI := v.(*ssa.MakeInterface); isMI {
								v = mi.X
							}
							if ci, isCI := v.(*ssa.ChangeInterface); isCI {
								v = ci.X
							}
							if types.Implements(v.Type(), errT) {
								nerr++
							}
						}
					}
				}
			}
			if nerr == 0 {
				return
			}
			n++
			if strings.Count(fmtS, "%w") < nerr {
				bad = "the error built at " + e.pos(in) + " formats an error argument without %w: its identity is lost (errors.Is no longer recognises the sentinel the callers react to)"
			}
		})
		e.R.Check(bad == "", rule, q+":errors-wrapped-with-%w", e.fpos(f), fmt.Sprintf("%d fmt.Errorf call(s) with error arguments, all wrapped with %%w", n), bad)
	}
}

// refusedSetterLeavesMessage (C15): a typed setter that can refuse its argument decides before it edits: after the first edit of
// the option list no error is returned.
func refusedSetterLeavesMessage(e *Env, rule string, fns ...string) {
	for _, q := range fns {
		f := e.fn(rule, q)
		if f == nil || len(f.Params) == 0 {
			continue
		}
		recv := f.Params[0]
		isEdit := func(in ssa.Instruction) bool {
			switch x := in.(type) {
			case *ssa.Store:
				_, fl, ok := core.FieldOf(x.Addr)
				return ok && fl == "Options"
			case *ssa.Call:
				g := x.Call.StaticCallee()
				if g == nil || g.Signature.Recv() == nil || len(x.Call.Args) == 0 || core.Resolve(x.Call.Args[0]) != ssa.Value(recv) {
					return false
				}
				nm := g.Name()
				for _, p := range []string{"Remove", "SetOption", "AddOption", "ResetOptions", "Set", "Add"} {
					if strings.HasPrefix(nm, p) {
						return g != f
					}
				}
			}
			return false
		}
		n, bad := 0, ""
		core.Instrs(f, func(in ssa.Instruction) { // including the bookkeeping helpers analysed as part of the setter
			if !isEdit(in) {
				return
			}
			n++
			w := (&core.PathQuery{Fn: f, From: in, Target: func(x ssa.Instruction) bool {
				ret, ok := x.(*ssa.Return)
				return ok && len(ret.Results) > 0 && !core.IsNilConst(core.RetVal(ret, len(ret.Results)-1))
			}}).Find()
			if w != nil {
				bad = "after the edit at " + e.pos(in) + " the setter can still return an error: a refused value leaves the option list changed: " + e.trace(w)
			}
		})
		e.R.Check(bad == "" && n > 0, rule, q+":refusal-before-edit", e.fpos(f), fmt.Sprintf("%d edit(s) of the option list, none followed by an error return", n), bad)
	}
}

// getterReturnsFirstOccurrence (C15, C08): the single-value getters decode the FIRST occurrence of the option (index = first result of
// Find) and the typed getters of the pooled message return the looked-up value unchanged.
func getterReturnsFirstOccurrence(e *Env, rule string) {
	for _, q := range []string{"message.Options.GetUint32", "message.Options.GetString", "message.Options.GetBytes"} {
		f := e.fn(rule, q)
		if f == nil {
			continue
		}
		n, bad := 0, ""
		core.Instrs(f, func(in ssa.Instruction) {
			ia, ok := in.(*ssa.IndexAddr)
			if !ok || in.Parent() != f {
				return
			}
			n++
			ex, isEx := core.Unwrap(ia.Index).(*ssa.Extract)
			if !isEx {
				ex, isEx = core.Resolve(ia.Index).(*ssa.Extract)
			}
			if !isEx || ex.Index != 0 {
				bad = "the option decoded at " + e.pos(in) + " is not options[first index returned by Find]: for a repeated option another occurrence than the first is reported"
				return
			}
			// Find, or the range lookup Find itself is built on: (first index, end index, found / error) of the option list
			c, isC := ex.Tuple.(*ssa.Call)
			isLookup := isC && strings.HasSuffix(core.CalleeName(c), "Options.Find")
			if isC && !isLookup {
				if h := c.Call.StaticCallee(); h != nil && h.Pkg == f.Pkg {
					res := h.Signature.Results()
					if res.Len() == 3 && isIntType(res.At(0).Type()) && isIntType(res.At(1).Type()) && len(c.Call.Args) > 0 && core.Resolve(c.Call.Args[0]) == ssa.Value(f.Params[0]) {
						isLookup = true
					}
				}
			}
			if !isLookup {
				bad = "the index used at " + e.pos(in) + " does not come from Find"
			}
		})
		if n == 0 && bad == "" {
			// accessor delegation: the getter asks a sibling single-value getter (checked by this same rule) for the same option
			for _, c := range core.CallsNamed(f, "message.Options.GetUint32", "message.Options.GetString", "message.Options.GetBytes") {
				if core.CalleeName(c) != q && len(f.Params) >= 2 && core.Resolve(core.Arg(c, 0)) == ssa.Value(f.Params[0]) && core.Resolve(core.Arg(c, 1)) == ssa.Value(f.Params[1]) {
					n++
				}
			}
			if n > 0 {
				e.R.Ok(rule, q+":first-occurrence", e.fpos(f), "delegates to a sibling single-value getter with the same option number")
				continue
			}
		}
		e.R.Check(bad == "" && n > 0, rule, q+":first-occurrence", e.fpos(f), "indexes the option list with the first index returned by Find", bad)
	}
}

// typedGetterPassesValue: the typed getter returns the value of its lookup unchanged.
func typedGetterPassesValue(e *Env, rule string, fns ...string) {
	for _, q := range fns {
		f := e.fn(rule, q)
		if f == nil {
			continue
		}
		n, bad := 0, ""
		for _, ret := range core.ReturnsOf(f) {
			if len(ret.Results) != 2 {
				continue
			}
			n++
			v := core.Unwrap(core.RetVal(ret, 0))
			if ex, ok := v.(*ssa.Extract); ok && ex.Index == 0 {
				if _, isC := ex.Tuple.(*ssa.Call); isC {
					continue
				}
			}
			if _, isK := v.(*ssa.Const); isK {
				continue
			}
			bad = "the value returned at " + e.pos(ret) + " is computed from, not equal to, the looked-up option value (bits are masked or the value is rescaled on the way out)"
		}
		e.R.Check(bad == "" && n > 0, rule, q+":passes-value", e.fpos(f), "returns the lookup's value unchanged", bad)
	}
}

// lin is a*U + b*L + c: a lower bound of an integer expression in terms of U (the size the first attempt asked for) and L (the
// length of the buffer of the first attempt).
type lin struct {
	a, b, c int64
	ok      bool
}

// retryBufferCoversNeed (C15): Options.Clone's second attempt gets a buffer of at least the size the first attempt reported:
// len(buf) + grown ≥ used, shown on a linear lower bound of the growth expression (round-ups are understood, truncating
// divisions are not a lower bound).
func retryBufferCoversNeed(e *Env, rule string) {
	q := "message.Options.Clone"
	f := e.fn(rule, q)
	if f == nil {
		return
	}
	calls := core.CallsNamed(f, "message.Options.ResetOptionsTo")
	if len(calls) < 2 {
		e.R.Check(len(calls) == 1, rule, q+":retry-buffer-covers-need", e.fpos(f), "a single attempt (no retry to size)", "no ResetOptionsTo call found")
		return
	}
	first, _ := calls[0].(*ssa.Call)
	second := calls[len(calls)-1]
	if first == nil {
		return
	}
	buf0 := core.Resolve(core.Arg(first, 1))
	isUsed := func(v ssa.Value) bool {
		ex, ok := core.Resolve(v).(*ssa.Extract)
		return ok && ex.Tuple == ssa.Value(first) && ex.Index == 1
	}
	isLen0 := func(v ssa.Value) bool {
		c, ok := core.Resolve(v).(*ssa.Call)
		if !ok {
			return false
		}
		b, isB := c.Call.Value.(*ssa.Builtin)
		return isB && b.Name() == "len" && core.Resolve(c.Call.Args[0]) == buf0
	}
	var lb func(v ssa.Value, d int) lin
	lb = func(v ssa.Value, d int) lin {
		if d > 8 {
			return lin{}
		}
		if isUsed(v) {
			return lin{a: 1, ok: true}
		}
		if isLen0(v) {
			return lin{b: 1, ok: true}
		}
		if k, isK := core.ConstInt(v); isK {
			return lin{c: k, ok: true}
		}
		switch x := core.Resolve(v).(type) {
		case *ssa.Convert:
			return lb(x.X, d+1)
		case *ssa.BinOp:
			l, r := lb(x.X, d+1), lb(x.Y, d+1)
			switch x.Op {
			case token.ADD:
				if l.ok && r.ok {
					return lin{l.a + r.a, l.b + r.b, l.c + r.c, true}
				}
			case token.SUB:
				// a lower bound of l − r needs an UPPER bound of r: exact for the leaves U, L, constants
				if l.ok && r.ok && exactLeaf(x.Y, isUsed, isLen0) {
					return lin{l.a - r.a, l.b - r.b, l.c - r.c, true}
				}
			case token.MUL:
				if k, isK := core.ConstInt(x.Y); isK && k > 0 {
					// (e + k−1)/k*k ≥ e
					if dv, isD := core.Resolve(x.X).(*ssa.BinOp); isD && dv.Op == token.QUO {
						if k2, isK2 := core.ConstInt(dv.Y); isK2 && k2 == k {
							if ad, isA := core.Resolve(dv.X).(*ssa.BinOp); isA && ad.Op == token.ADD {
								if c1, isC := core.ConstInt(ad.Y); isC && c1 >= k-1 {
									return lb(ad.X, d+1)
								}
							}
						}
					}
					if l.ok && l.a >= 0 && l.b >= 0 && l.c >= 0 {
						return lin{l.a * k, l.b * k, l.c * k, true}
					}
				}
			}
		case *ssa.Call:
			if b, isB := x.Call.Value.(*ssa.Builtin); isB && b.Name() == "max" {
				for _, a := range x.Call.Args {
					if r := lb(a, d+1); r.ok && r.a >= 1 {
						return r
					}
				}
			}
		}
		return lin{}
	}
	// the buffer of the retry: append(buf0, make([]byte, n)...) or make([]byte, n)
	buf1 := core.Resolve(core.Arg(second, 1))
	total := lin{}
	switch x := buf1.(type) {
	case *ssa.Call:
		if b, isB := x.Call.Value.(*ssa.Builtin); isB && b.Name() == "append" && len(x.Call.Args) == 2 && core.Resolve(x.Call.Args[0]) == buf0 {
			if mk, isMk := core.Resolve(x.Call.Args[1]).(*ssa.MakeSlice); isMk {
				if g := lb(mk.Len, 0); g.ok {
					total = lin{g.a, g.b + 1, g.c, true}
				}
			}
		}
	case *ssa.MakeSlice:
		total = lb(x.Len, 0)
	}
	// total ≥ U for all U > L ≥ 0
	ok := total.ok && total.a >= 1 && (total.a-1)+total.b >= 0 && total.c >= 0
	why := "the buffer of the second attempt cannot be shown to hold the size the first attempt asked for (len(buf) + growth ≥ used): a truncating division or another rounding down leaves it short and Clone fails for such option lists"
	e.R.Check(ok, rule, q+":retry-buffer-covers-need", e.fpos(f), fmt.Sprintf("retry buffer length ≥ %d·used %+d·len(buf) %+d ≥ used", total.a, total.b, total.c), why)
}

func exactLeaf(v ssa.Value, isUsed, isLen0 func(ssa.Value) bool) bool {
	if isUsed(v) || isLen0(v) {
		return true
	}
	_, isK := core.ConstInt(v)
	return isK
}

func isIntType(t types.Type) bool {
	b, ok := t.Underlying().(*types.Basic)
	return ok && b.Info()&types.IsInteger != 0
}

package rules

import (
	"fmt"
	"go/token"
	"go/types"
	"strings"

	"coapcheck/internal/core"

	"golang.org/x/tools/go/ssa"
)

func init() {
	register(&Property{
		ID:    "C15",
		Title: "Option list and message builder behave like a sorted multiset model",
		Level: "other",
		Explain: "Decided: (R1) the second result of Options.Find is an exclusive bound in every consumer – compared only as `i < last`, never `≤`, never used as an index – and the two attempts of every grow-and-retry idiom (first try, retry after ErrTooSmall) call the same function with the same non-buffer arguments; " +
			"(R2) failure atomicity: no option editor that can report ErrTooSmall mutates the list before that report (the pooled builder grows its buffer and retries on the same list), with Options.ResetOptionsTo as the one listed exception (its retry recomputes from its input); " +
			"(R3) value ownership in the pooled builder: every option value is a slice of the message's own value buffer into which the caller's bytes were copied, the buffer only advances by what the editor consumed, and nothing appends to or re-slices an existing option's value; " +
			"(R4) the 255-byte segment limit is enforced by the size computation and by both byte setters, and the splitter and the size computation skip empty segments identically.",
		NotDecided: "Equality with the reference multiset model for operation sequences (the index arithmetic of findPosition / Set / Add / Remove needs relational loop invariants out of reach here) and crash-freedom of the query functions beyond R1 are not decided.",
		Run:        runC15,
	})
}

func runC15(e *Env) {
	r := e.R
	r.Rule("C15.R1", "siblings", "Find's upper bound is exclusive everywhere; retry calls agree with first calls", 12)
	r.Rule("C15.R2", "paths", "no mutation before an ErrTooSmall report", 7)
	r.Rule("C15.R3", "flows", "option values live in the message's own, only-advancing value buffer", 8)
	r.Rule("C15.R4", "tables+siblings", "255-byte limit and empty-segment handling agree", 4)
	r.Rule("C15.R5", "absint+bounds", "unsigned option values: minimal-length big-endian classes 0/1/2/3/4 bytes, decoder inverse, every write in range", 5)
	r.Rule("C15.R6", "flows", "the option list grows only through the Find-positioned insertions (Set, Add) and the ascending parser", 4)
	if e.want("C15.R5") {
		uintCodecClasses(e, "C15.R5")
	}
	if e.want("C15.R3") {
		copyIsComplete(e, "C15.R3")
	}
	if e.want("C15.R2") {
		setPathRemovesOldPath(e, "C15.R2")
	}
	if e.want("C15.R6") {
		c15WhoGrows(e)
	}
	if e.want("C15.R1") {
		c15FindBound(e)
		c15RetryAgreement(e)
	}
	if e.want("C15.R2") {
		c15FailureAtomicity(e)
	}
	if e.want("C15.R3") {
		c15ValueBuffer(e)
	}
	if e.want("C15.R4") {
		c15PathLimits(e)
	}
}

func c15FindBound(e *Env) {
	rule := "C15.R1"
	n := 0
	// Find, and the unexported search it forwards to (when Find became a wrapper that only converts the result): which result of
	// each is the exclusive upper bound
	bound := map[*ssa.Function]int{}
	if find := e.fn(rule, "message.Options.Find"); find != nil {
		bound[find] = 1
		for _, ret := range core.ReturnsOf(find) {
			if len(ret.Results) < 2 {
				continue
			}
			if ex, ok := ret.Results[1].(*ssa.Extract); ok {
				if c, isC := ex.Tuple.(*ssa.Call); isC {
					if g := core.StaticFn(c); g != nil && g.Pkg == find.Pkg && g != find {
						bound[g] = ex.Index
					}
				}
			}
		}
	}
	for _, f := range e.P.SrcFuncs(false) {
		if _, isFinder := bound[f]; isFinder && core.FnName(f) == "message.Options.Find" && len(bound) > 1 {
			continue // the wrapper itself only forwards the bound
		}
		for _, c := range core.Calls(f, func(_ string, ci ssa.CallInstruction) bool {
			_, ok := bound[core.StaticFn(ci)]
			return ok
		}) {
			var last *ssa.Extract
			for _, ref := range core.Referrers(c.(ssa.Value)) {
				if ex, ok := ref.(*ssa.Extract); ok && ex.Index == bound[core.StaticFn(c)] {
					last = ex
				}
			}
			if last == nil || len(core.Referrers(last)) == 0 {
				continue
			}
			n++
			bad := ""
			var visit func(v ssa.Value, depth int)
			visit = func(v ssa.Value, depth int) {
				if depth > 3 {
					return
				}
				for _, ref := range core.Referrers(v) {
					switch u := ref.(type) {
					case *ssa.BinOp:
						switch u.Op {
						case token.LSS:
							if u.Y != v {
								bad = fmt.Sprintf("the bound is the left operand of < at %s", e.pos(u))
							}
						case token.GTR:
							if u.X != v {
								bad = fmt.Sprintf("the bound is the right operand of > at %s", e.pos(u))
							}
						case token.LEQ, token.GEQ:
							bad = fmt.Sprintf("the bound is compared inclusively (%s) at %s: the loop reads one option past the requested ID", u.Op, e.pos(u))
						case token.SUB, token.EQL, token.NEQ:
						}
					case *ssa.IndexAddr:
						if u.Index == v && depth == 0 {
							bad = fmt.Sprintf("the exclusive bound is used as an index at %s", e.pos(u))
						}
					}
				}
			}
			visit(last, 0)
			e.R.Check(bad == "", rule, core.FnName(f)+":Find-upper-bound-exclusive", e.pos(c.(ssa.Instruction)), "the second result of Find is only compared as `i < last` (or subtracted)", bad)
		}
	}
	if n < 5 {
		e.R.Undecided(rule, "Find:consumers", "-", fmt.Sprintf("%d consumers of Find's upper bound found, 5 confirmed by hand", n))
	}
}

// c15RetryAgreement: x, err := f(buf, a…); if errors.Is(err, ErrTooSmall) { grow; x, err = f(buf, a…) } – same callee, same non-buffer args.
func c15RetryAgreement(e *Env) {
	rule := "C15.R1"
	n := 0
	for _, f := range e.P.SrcFuncs(false) {
		name := core.FnName(f)
		if !(strings.HasPrefix(name, "message.") || strings.HasPrefix(name, "message/pool.")) || f.Parent() != nil {
			continue
		}
		for _, i := range core.IfsOf(f) {
			cond, neg := core.StripNot(i.Cond)
			ic, ok := core.CondCall(cond, "errors.Is")
			if !ok || neg {
				continue
			}
			if g, isG := targetGlobal(core.Arg(ic, 1)); !isG || g != "ErrTooSmall" {
				continue
			}
			// the call whose error is tested
			ex, isEx := core.Resolve(core.Arg(ic, 0)).(*ssa.Extract)
			var first *ssa.Call
			if isEx {
				first, _ = ex.Tuple.(*ssa.Call)
			} else if ld, isLd := core.Arg(ic, 0).(*ssa.UnOp); isLd {
				// err variable cell: the store in this block before the If
				if a := core.CellOf(ld.X); a != nil {
					for _, st := range core.StoresToCell(a) {
						if st.Block() == i.Block() || core.Dominates(st, i) {
							if ex2, ok := st.Val.(*ssa.Extract); ok {
								if c2, ok := ex2.Tuple.(*ssa.Call); ok && first == nil {
									first = c2
								}
							}
						}
					}
				}
			}
			if first == nil || core.CalleeName(first) == "" {
				continue
			}
			// retry: a call in the true successor region to the same callee
			var retry *ssa.Call
			for _, in := range i.Block().Succs[0].Instrs {
				if c2, ok := in.(*ssa.Call); ok && c2 != first && core.CalleeName(c2) == core.CalleeName(first) {
					retry = c2
				}
			}
			if retry == nil {
				// no repetition of the same call: a call of a sibling with the same signature in the retry arm IS the retry
				// (Set… for Add… or the reverse) and disagrees with the first attempt
				f1 := core.StaticFn(first)
				for _, in := range i.Block().Succs[0].Instrs {
					if c2, ok := in.(*ssa.Call); ok && c2 != first && f1 != nil {
						if f2 := core.StaticFn(c2); f2 != nil && f2.Pkg == f1.Pkg && types.Identical(f1.Signature, f2.Signature) {
							retry = c2
						}
					}
				}
			}
			if retry == nil {
				continue
			}
			n++
			construct := name + ":retry-agrees-with-first-attempt"
			bad := ""
			if core.CalleeName(retry) != core.CalleeName(first) {
				bad = fmt.Sprintf("first attempt calls %s, retry calls %s", core.CalleeName(first), core.CalleeName(retry))
			} else {
				for k := 0; k < core.NArgs(first); k++ {
					x, y := core.Arg(first, k), core.Arg(retry, k)
					if _, isSl := x.Type().Underlying().(*types.Slice); isSl {
						continue // the (grown) buffer / the list being rebuilt
					}
					if !sameArg(x, y) && !exprEq(x, y, 0) {
						bad = fmt.Sprintf("argument %d differs between the first attempt at %s and the retry at %s", k, e.pos(first), e.pos(retry))
					}
				}
			}
			e.R.Check(bad == "", rule, construct, e.pos(retry), "the retry after ErrTooSmall repeats the same call with the same non-buffer arguments", bad)
		}
	}
	if n < 4 { // 8+ on the pinned tree; sites that share one retry helper count once
		e.R.Undecided(rule, "retry-idiom:sites", "-", fmt.Sprintf("%d grow-and-retry sites found, at least 4 expected (8 confirmed by hand on the pinned tree, fewer when sites share a helper)", n))
	}
}

func targetGlobal(v ssa.Value) (string, bool) {
	ld, ok := v.(*ssa.UnOp)
	if !ok {
		return "", false
	}
	g, ok := ld.X.(*ssa.Global)
	if !ok {
		return "", false
	}
	return g.Name(), true
}

func c15FailureAtomicity(e *Env) {
	rule := "C15.R2"
	mutators := map[string]bool{"message.Options.Set": true, "message.Options.Add": true, "message.Options.Remove": true, "message.Options.AddString": true, "message.Options.AddBytes": true, "message.Options.SetBytes": true, "message.Options.SetString": true}
	for _, q := range []string{"message.setPath", "message.Options.SetBytes", "message.Options.AddBytes", "message.Options.SetUint32", "message.Options.AddUint32", "message.Options.SetString", "message.Options.AddString", "message.Options.ResetOptionsTo"} {
		f := e.fn(rule, q)
		if f == nil {
			continue
		}
		construct := q + ":no-mutation-before-ErrTooSmall"
		if q == "message.Options.ResetOptionsTo" {
			e.R.OkTrivial(rule, construct, e.fpos(f), "listed exception: it rebuilds the list from its input, so the retry after growth recomputes everything it had written")
			continue
		}
		bad := ""
		for _, m := range core.Calls(f, func(n string, _ ssa.CallInstruction) bool { return mutators[n] }) {
			// tail calls `return options.SetBytes(...)` forward the callee's own atomicity: only mutators whose result is NOT directly returned matter
			q2 := &core.PathQuery{Fn: f, From: m.(ssa.Instruction), Target: func(in ssa.Instruction) bool {
				ret, ok := in.(*ssa.Return)
				if !ok {
					return false
				}
				ev := core.RetVal(ret, len(ret.Results)-1)
				if g, isG := targetGlobal(core.Resolve(ev)); isG && g == "ErrTooSmall" {
					return true
				}
				// an error forwarded from a later editor call that may be ErrTooSmall
				if ex, isEx := core.Resolve(ev).(*ssa.Extract); isEx {
					if c2, isC := ex.Tuple.(*ssa.Call); isC && c2 != m.(*ssa.Call) && mutators[core.CalleeName(c2)] {
						return false
					}
				}
				return false
			}}
			if w := q2.Find(); w != nil {
				bad = fmt.Sprintf("%s at %s has already modified the list when ErrTooSmall is reported: %s", shortType(core.CalleeName(m)), e.pos(m.(ssa.Instruction)), e.trace(w))
			}
		}
		e.R.Check(bad == "", rule, construct, e.fpos(f), "every ErrTooSmall report precedes the first modification of the list", bad)
	}
}

func c15ValueBuffer(e *Env) {
	rule := "C15.R3"
	editors := map[string]bool{}
	for _, n := range []string{"SetPath", "SetLocationPath", "SetString", "AddString", "SetUint32", "AddUint32", "SetBytes", "AddBytes", "ResetOptionsTo"} {
		editors["message.Options."+n] = true
	}
	for _, f := range methodsOf(e, rule, "message/pool.Message") {
		name := core.FnName(f)
		calls := core.Calls(f, func(n string, _ ssa.CallInstruction) bool { return editors[n] })
		direct := core.Calls(f, func(n string, _ ssa.CallInstruction) bool {
			return n == "message.Options.Set" || n == "message.Options.Add"
		})
		if len(calls) == 0 && len(direct) == 0 {
			// still: nothing may append to / re-slice an option's value
			c15NoValueAppend(e, f)
			continue
		}
		ok, why := true, ""
		for _, c := range calls {
			if !isFieldLoadNamed(core.Arg(c, 1), "valueBuffer") {
				ok, why = false, "an option editor is given a buffer other than the message's value buffer at "+e.pos(c.(ssa.Instruction))
			}
		}
		// direct Set/Add of an Option literal: Value must be valueBuffer[:n] with n = copy(valueBuffer, caller bytes)
		for _, c := range direct {
			opt := core.Arg(c, 1)
			okV := false
			// the literal is built in a local Alloc; find the store to its Value field
			if ld, isLd := opt.(*ssa.UnOp); isLd {
				if a, isA := ld.X.(*ssa.Alloc); isA {
					for _, ref := range core.Referrers(a) {
						if fa, isFA := ref.(*ssa.FieldAddr); isFA {
							if _, fl, _ := core.FieldOf(fa); fl == "Value" {
								for _, r2 := range core.Referrers(fa) {
									if st, isSt := r2.(*ssa.Store); isSt {
										if sl, isSl := core.Resolve(st.Val).(*ssa.Slice); isSl && sl.Low == nil && isFieldLoadNamed(sl.X, "valueBuffer") {
											if cp, isCp := core.Resolve(sl.High).(*ssa.Call); isCp {
												if b, isB := cp.Call.Value.(*ssa.Builtin); isB && b.Name() == "copy" && isFieldLoadNamed(cp.Call.Args[0], "valueBuffer") {
													okV = true
												}
											}
										}
									}
								}
							}
						}
					}
				}
			}
			if !okV {
				ok, why = false, "the option stored at "+e.pos(c.(ssa.Instruction))+" does not take its value from a copy into the message's value buffer"
			}
		}
		// the buffer only advances: every store to valueBuffer is append(valueBuffer, …) (growth) or valueBuffer[k:] (advance), or a reset to origValueBuffer
		core.Instrs(f, func(in ssa.Instruction) {
			st, isSt := in.(*ssa.Store)
			if !isSt {
				return
			}
			if _, fl, isF := core.FieldOf(st.Addr); !isF || fl != "valueBuffer" {
				return
			}
			switch v := st.Val.(type) {
			case *ssa.Slice:
				if !(isFieldLoadNamed(v.X, "valueBuffer") && v.High == nil && v.Low != nil) {
					ok, why = false, "the value buffer is re-sliced other than by advancing its start at "+e.pos(st)
				}
			case *ssa.Call:
				if b, isB := v.Call.Value.(*ssa.Builtin); !isB || b.Name() != "append" || !isFieldLoadNamed(v.Call.Args[0], "valueBuffer") {
					ok, why = false, "the value buffer is replaced at "+e.pos(st)
				}
			case *ssa.UnOp:
				if !isFieldLoadNamed(v, "origValueBuffer") {
					ok, why = false, "the value buffer is replaced at "+e.pos(st)
				}
			default:
				ok, why = false, "the value buffer is replaced at "+e.pos(st)
			}
		})
		e.R.Check(ok, rule, name+":values-in-own-buffer", e.fpos(f), "option values are slices of the message's value buffer, which only grows or advances", why)
		c15NoValueAppend(e, f)
	}
}

// c15NoValueAppend: nothing appends to, or re-slices beyond its length, the Value of an existing option.
func c15NoValueAppend(e *Env, f *ssa.Function) {
	rule := "C15.R3"
	bad := ""
	core.Instrs(f, func(in ssa.Instruction) {
		fromValue := func(v ssa.Value) bool {
			for i := 0; i < 4; i++ {
				switch x := v.(type) {
				case *ssa.Slice:
					v = x.X
					continue
				case *ssa.UnOp:
					if _, fl, ok := core.FieldOf(x.X); ok && fl == "Value" {
						return true
					}
				case *ssa.Field:
					if _, fl, ok := core.FieldOf(x); ok && fl == "Value" {
						return true
					}
				}
				break
			}
			return false
		}
		if c, ok := in.(*ssa.Call); ok {
			if b, isB := c.Call.Value.(*ssa.Builtin); isB && b.Name() == "append" && len(c.Call.Args) > 0 && fromValue(c.Call.Args[0]) {
				bad = "append onto an existing option's value at " + e.pos(c) + ": it overwrites the values stored after it in the shared buffer"
			}
		}
	})
	if bad != "" {
		e.R.Fail(rule, core.FnName(f)+":no-append-to-option-value", e.fpos(f), bad)
	}
}

func c15PathLimits(e *Env) {
	rule := "C15.R4"
	v, pos, ok := e.P.ConstValue("message", "maxPathValue")
	e.R.Check(ok && v == 255, rule, "message.maxPathValue:255", e.P.Pos(pos), "segment limit is 255 bytes", fmt.Sprintf("segment limit is %d", v))
	for _, q := range []string{"message.GetPathBufferSize", "message.Options.SetBytes", "message.Options.AddBytes"} {
		f := e.fn(rule, q)
		if f == nil {
			continue
		}
		okLim := false
		for _, i := range core.IfsOf(f) {
			cmp, is := core.EdgeFacts(i, true)
			if !is {
				// the limit test extracted into a predicate helper (`if isTooLong(seg)`): the comparison the helper returns
				if c, isCall := core.StripNotValue(i.Cond).(*ssa.Call); isCall {
					if h := core.AbsorbedCallee(c); h != nil && h.Signature.Results().Len() == 1 {
						rets := core.ReturnsOf(h)
						if len(rets) == 1 {
							if hc, isCmp := core.AsCmp(core.RetVal(rets[0], 0)); isCmp {
								if _, neg := core.StripNot(i.Cond); !neg {
									cmp, is = hc, true
								}
							}
						}
					}
				}
			}
			if !is || cmp.Op != token.GTR {
				continue
			}
			if k, isK := core.ConstInt(cmp.Y); isK && k == 255 {
				blk := i.Block().Succs[0]
				if ret, isRet := blk.Instrs[len(blk.Instrs)-1].(*ssa.Return); isRet && core.ReturnsNonNilError(ret) {
					okLim = true
				}
			}
		}
		e.R.Check(okLim, rule, q+":refuses>255", e.fpos(f), "a segment / URI-Path value longer than 255 bytes is refused with an error", "a path segment longer than 255 bytes is not refused here")
	}
	// empty segments skipped identically: both loops test strings.Index(...) == 0 and advance by one
	for _, q := range []string{"message.GetPathBufferSize", "message.setPath"} {
		f := e.fn(rule, q)
		if f == nil {
			continue
		}
		okSkip := false
		// a test `segment length == 0` where the length comes from strings.Index (directly or through a helper that computes it)
		core.Instrs(f, func(in ssa.Instruction) {
			b, isB := in.(*ssa.BinOp)
			if !isB || (b.Op != token.EQL && b.Op != token.NEQ) || b.Parent() != f {
				return
			}
			if k, isK := core.ConstInt(b.Y); !isK || k != 0 {
				return
			}
			for _, l := range valueLeaves(b.X) {
				if c, isC := l.(*ssa.Call); isC && core.CalleeName(c) == "strings.Index" {
					okSkip = true
				}
			}
		})
		e.R.Check(okSkip, rule, q+":skips-empty-segments", e.fpos(f), "an empty segment (separator at position 0) is skipped", "empty segments are not skipped here, unlike in the sibling function")
	}
}

// uintCodecClasses: EncodeUint32 writes v in exactly 0/1/2/3/4 bytes for v = 0, ≤0xff, ≤0xffff, ≤0xffffff, larger; the bytes
// are v's big-endian bytes (bit provenance); DecodeUint32 on those bytes returns v; every write of the encoder is in range
// when the buffer has exactly the length its own guard asks for. Run under C15 (typed setters) and C19 (Block option values
// are 0–3 bytes on the wire).
func uintCodecClasses(e *Env, rule string) {
	enc := e.fn(rule, "message.EncodeUint32")
	dec := e.fn(rule, "message.DecodeUint32")
	if enc == nil || dec == nil {
		return
	}
	type cell struct {
		name   string
		lo, hi int64
		n      int
	}
	cells := []cell{{"0", 0, 0, 0}, {"1..0xff", 1, 0xff, 1}, {"0x100..0xffff", 0x100, 0xffff, 2}, {"0x10000..0xffffff", 0x10000, 0xffffff, 3}, {"0x1000000..", 0x1000000, 0xffffffff, 4}}
	allClassesOK := true
	for _, c := range cells {
		construct := "message.EncodeUint32↔DecodeUint32:class " + c.name
		// the destination has exactly c.n bytes: the encoder's own length guard must make that sufficient
		it := core.NewInterp(e.P)
		var buf *core.AVal
		v := core.SymInt("v", 32, false, bigI(c.lo), bigI(c.hi), 32)
		outs := it.RunWith(enc, func(st *core.AState) []*core.AVal {
			zero := make([]*core.AVal, c.n)
			for i := range zero {
				zero[i] = core.ConstAInt(bigI(0), 8, false)
			}
			buf = st.NewArray(zero)
			return []*core.AVal{buf, v}
		})
		ok, why := len(outs) >= 1, "no outcome"
		for _, o := range outs {
			if o.Abort || o.Panic || len(o.Ret) != 2 || o.Ret[1].ErrNil != 1 {
				ok, why = false, "with a destination of exactly "+fmt.Sprint(c.n)+" byte(s) the encoder fails, panics or is undecided: "+core.SummarizeOutcomes([]core.Outcome{o})
				continue
			}
			if k, isC := o.Ret[0].IsConst(); !isC || k.Int64() != int64(c.n) {
				ok, why = false, fmt.Sprintf("values of the class are written in %s byte(s), not %d (not the minimal-length form: the parser drops over-long Block options, longer forms change the wire size)", o.Ret[0], c.n)
				continue
			}
			for _, ev := range o.St.Events {
				if strings.HasPrefix(ev, "narrow@") && strings.Contains(ev, " to byte ") {
					continue // taking the low byte of a shifted value is how bytes are extracted; the content of every byte is checked below
				}
				ok, why = false, "out-of-range write / wrap: "+ev
			}
			bs := o.St.Bytes(buf)
			for i := 0; i < c.n && i < len(bs); i++ {
				if m := core.MatchBits(bs[i], o.St.Assume, core.BitField{Sym: "v", From: 8 * (c.n - 1 - i), N: 8}); m != "" {
					ok, why = false, fmt.Sprintf("byte %d is not v[%d..%d]: %s", i, 8*(c.n-1-i), 8*(c.n-1-i)+7, m)
				}
			}
			if !ok {
				continue
			}
			// decoder on the written bytes
			itd := core.NewInterp(e.P)
			od := itd.RunIn(o.St, dec, func(st *core.AState) []*core.AVal { return []*core.AVal{buf} })
			if len(od) == 0 {
				ok, why = false, "decoder has no outcome"
			}
			for _, d := range od {
				if d.Abort || d.Panic || len(d.Ret) != 3 || d.Ret[2].ErrNil != 1 {
					ok, why = false, "decoder fails or is undecided: "+core.SummarizeOutcomes([]core.Outcome{d})
					continue
				}
				if m := core.MatchBits(d.Ret[0], d.St.Assume, core.BitField{Sym: "v", From: 0, N: 8 * c.n}); m != "" && c.n > 0 {
					ok, why = false, "decoded value is not v: "+m
				}
				if k, isC := d.Ret[1].IsConst(); !isC || k.Int64() != int64(c.n) {
					ok, why = false, "decoder does not report "+fmt.Sprint(c.n)+" consumed byte(s)"
				}
			}
		}
		e.R.Check(ok, rule, construct, e.fpos(enc), fmt.Sprintf("%d byte(s), big-endian bytes of v, decoder returns v", c.n), why)
		if !ok {
			allClassesOK = false
		}
		// with less room than the class needs the encoder refuses and reports the size it needs (callers grow by it and retry)
		for _, room := range []int{c.n - 1, 0} {
			if room < 0 || (room == 0 && c.n <= 1 && room != c.n-1) {
				continue
			}
			if room == 0 && c.n-1 == 0 {
				if room != c.n-1 {
					continue
				}
			}
			it2 := core.NewInterp(e.P)
			outs2 := it2.RunWith(enc, func(st *core.AState) []*core.AVal {
				zero := make([]*core.AVal, room)
				for i := range zero {
					zero[i] = core.ConstAInt(bigI(0), 8, false)
				}
				return []*core.AVal{st.NewArray(zero), core.SymInt("v", 32, false, bigI(c.lo), bigI(c.hi), 32)}
			})
			ok2, why2 := len(outs2) >= 1, "no outcome"
			for _, o := range outs2 {
				if o.Abort || o.Panic || len(o.Ret) != 2 {
					ok2, why2 = false, fmt.Sprintf("with room for %d byte(s) the encoder panics or is undecided: %s", room, core.SummarizeOutcomes([]core.Outcome{o}))
					continue
				}
				if o.Ret[1].ErrNil != 0 {
					ok2, why2 = false, fmt.Sprintf("with room for only %d byte(s) a value that needs %d is not refused (it is written truncated)", room, c.n)
					continue
				}
				if k, isC := o.Ret[0].IsConst(); !isC || k.Int64() != int64(c.n) {
					ok2, why2 = false, fmt.Sprintf("the refusal reports %s needed byte(s), not %d", o.Ret[0], c.n)
				}
			}
			e.R.Check(ok2, rule, fmt.Sprintf("%s:refused-with-room-%d", construct, room), e.fpos(enc), fmt.Sprintf("refused with ErrTooSmall and the needed size %d", c.n), why2)
			if room == 0 {
				break
			}
		}
	}
	// in-range obligations of the encoder for every buffer length (dominating guards)
	for _, f := range []*ssa.Function{enc} {
		b := core.NewBounds(e.P, f, nil)
		for _, o := range b.Obligations() {
			construct := fmt.Sprintf("%s:%s %s", core.FnName(f), o.Kind, o.Desc)
			if !o.OK && allClassesOK {
				// the guard is not of a shape the bounds engine reads (e.g. one hoisted `needed > len(buf)` test), but every class was
				// interpreted with a destination of exactly the needed length, of one byte less and of none without any out-of-range
				// event; the accesses are at fixed indices, so more room cannot take them out of range
				e.R.OkTrivial(rule, construct, e.pos(o.Instr), "in range: shown by the abstract interpretation of every class with exact, insufficient and no room")
				continue
			}
			e.R.Check(o.OK, rule, construct, e.pos(o.Instr), "in range on every path", "a typed setter can index out of range (panic) when the value buffer has just the length the guard asked for: "+o.Why)
		}
	}
}

// c15WhoGrows: an `append` producing a message.Options value appears only in the insertion primitives. Anything else that
// appends options bypasses Find's positioning and can leave the list unsorted.
func c15WhoGrows(e *Env) {
	rule := "C15.R6"
	allowed := map[string]string{
		"message.Options.Set":       "grows by one slot, then shifts to the position Find returned",
		"message.Options.Add":       "grows by one slot, then shifts to the position Find returned",
		"message.Options.Unmarshal": "parser: option numbers are accumulated deltas, ascending by construction",
	}
	seen := map[string]bool{}
	for _, f := range e.P.SrcFuncs(false) {
		name := core.FnName(f)
		if strings.HasPrefix(name, "examples/") {
			continue
		}
		core.Instrs(f, func(in ssa.Instruction) {
			c, ok := in.(*ssa.Call)
			if !ok {
				return
			}
			b, isB := c.Call.Value.(*ssa.Builtin)
			if !isB || b.Name() != "append" || core.TypeName(c.Type()) != "message.Options" {
				return
			}
			root := name
			if p := f.Parent(); p != nil {
				root = core.FnName(p)
			}
			if why, ok := allowed[root]; ok {
				if !seen[root] {
					seen[root] = true
					e.R.Ok(rule, root+":append", e.pos(c), "listed insertion primitive: "+why)
				}
				return
			}
			e.R.Fail(rule, root+":append", e.pos(c), "the option list is extended with append outside Set/Add/Unmarshal: the new option is not positioned by Find, so the list can stop being ascending by option number (binary search then misses present options)")
		})
	}
	for a := range allowed {
		if !seen[a] {
			e.R.Undecided(rule, a+":append", "-", "listed insertion primitive no longer appends; update the table")
		}
	}
	e.R.Ok(rule, "module:no-other-append", "-", "no other function of the module appends to a message.Options value")
}

package rules

import (
	"fmt"
	"go/token"
	"go/types"
	"sort"
	"strings"

	"coapcheck/internal/core"

	"golang.org/x/tools/go/ssa"
)

// Rules added after the sixth round of independently seeded changes: mistakes of timing, order and sharing (a scratch buffer hoisted
// to package level, a lock scope shortened so that check and act fall into different critical sections, a guarded map handed out)
// and data mistakes in rarely taken branches.

// Round6 is called for every configuration after the property's own rules (main.go).
func Round6(e *Env, id string) {
	r := e.R
	reg := func(rule, engine, text string, min int, run func(rule string)) {
		r.Rule(rule, engine, text, min)
		if e.want(rule) {
			run(rule)
		}
	}
	codecPkgs := []string{"message", "message/codes", "message/noresponse", "udp/coder", "tcp/coder"}
	switch id {
	case "C01":
		reg("C01.G14", "paths", "a message without a body is marshalled without a payload: ReadBody yields nothing when no body reader is attached", 1, func(rule string) { readBodyNilWithoutBody(e, rule) })
		reg("C01.G1", "who-may-write", "the codecs are re-entrant: no function of the codec packages writes a package-level variable (the shared DefaultCoder is used by every session goroutine)", 20, func(rule string) { noSharedScratch(e, rule, codecPkgs) })
	case "C02":
		reg("C02.G11", "flows", "the pooled message's scratch buffers are separate allocations (growing one never overwrites another)", 3, func(rule string) { scratchBuffersDisjoint(e, rule) })
		reg("C02.G1", "who-may-write", "the decoders are re-entrant: no function of the codec packages writes a package-level variable", 20, func(rule string) { noSharedScratch(e, rule, codecPkgs) })
	case "C07":
		reg("C07.G17", "shared+paths", "a replacement reader loop gets a stop channel and a reading flag of its own (= C11.R4); the consumed frame is skipped by exactly its size: the skip loop ends on `skipped == size` with skipped accumulating what the buffer gave (or one Next(size))", 5, func(rule string) {
			borrow(e, "C11", "C11.R4", rule)
			skipsExactlyFrameSize(e, rule)
		})
	case "C08":
		reg("C08.G9", "shared", "the running option number accumulates over skipped options too: Observe is decoded as Observe whatever precedes it (= C02.R4)", 3, func(rule string) { borrow(e, "C02", "C02.R4", rule) })
		reg("C08.G1", "who-may-write", "the Observe sequence number is decoded without shared state: no function of the codec packages writes a package-level variable", 20, func(rule string) { noSharedScratch(e, rule, codecPkgs) })
	case "C15":
		reg("C15.G6", "who-may-write+flows", "the value buffer is rewound to its origin only by Reset (the values of the current options live in it); a typed getter fails only when the lookup of its option fails", 7, func(rule string) {
			valueBufferRewoundOnlyByReset(e, rule)
			getterErrorsComeFromLookup(e, rule)
		})
		reg("C15.G1", "who-may-write", "option encoders/decoders are re-entrant: no function of the codec packages writes a package-level variable", 20, func(rule string) { noSharedScratch(e, rule, codecPkgs) })
	case "C19":
		reg("C19.G9", "shared", "a Block option longer than its registry entry allows is dropped, not truncated (= C02.R6)", 1, func(rule string) { borrow(e, "C02", "C02.R6", rule) })
		reg("C19.G1", "who-may-write", "the Block option codec is re-entrant: no function of the codec packages (and of net/blockwise's codec functions) writes a package-level variable", 20, func(rule string) { noSharedScratch(e, rule, append(append([]string{}, codecPkgs...), "net/blockwise")) })
	case "C20":
		reg("C20.G10", "who-may-write", "the mux adapter keeps no per-request state in variables shared between requests: the handler closure does not write captured objects", 1, func(rule string) { handlerWritesNoCapturedState(e, rule, "mux.ToHandler") })
		reg("C20.G6", "flows", "a typed getter fails only when the lookup of its option fails (a repeated No-Response option is read by its first occurrence, RFC 7252 5.4.5)", 6, func(rule string) { getterErrorsComeFromLookup(e, rule) })
		reg("C20.G1", "who-may-write", "the No-Response decision uses no shared state: no function of the codec packages writes a package-level variable", 20, func(rule string) { noSharedScratch(e, rule, codecPkgs) })
	case "C14":
		reg("C14.G5", "flows", "LoadOrStore reports loaded exactly when it hands back an element other than the one offered (an expired entry that was replaced is not 'loaded')", 1, func(rule string) { loadOrStoreLoadedMeansOther(e, rule) })
		reg("C14.G2", "locks", "a map loaded from the guarded field is used only while the lock it was loaded under is still held, and is never handed out – unless the field was given fresh storage in the same critical section", 10, func(rule string) {
			for _, f := range methodsOf(e, rule, "pkg/sync.Map") {
				guardedRefUses(e, rule, f, "pkg/sync.Map", "data", "mutex")
			}
		})
	case "C10":
		reg("C10.G2", "locks", "the connection table loaded under connsMutex is used only while that lock is held (or after it was swapped for fresh storage, as closeSessions does): the periodic check never iterates the live table while the read loop inserts", 3, func(rule string) {
			for _, f := range methodsOf(e, rule, "udp/server.Server") {
				guardedRefUses(e, rule, f, "udp/server.Server", "conns", "connsMutex")
			}
		})
	case "C03":
		reg("C03.G16", "paths", "a message that carries a registered token reaches that request whatever its code: the token-table lookup of the receive path is not control-dependent on a test of the message's code", 2, func(rule string) { tokenDispatchIndependentOfCode(e, rule) })
	case "C04":
		reg("C04.R17", "shared+locks", "a retransmitted block never re-enters the block-wise layer while the first copy is still being handled: lookup, dispatch and store of the reply are one critical section of the per-message-ID lock (= C05.R1, C05.R2); the block-wise tables are keyed by an injective token hash (= C03.R3); the next block is built from the kept message inside the cache's locked callback", 7, func(rule string) {
			borrow(e, "C05", "C05.R1", rule)
			borrow(e, "C05", "C05.R2", rule)
			borrow(e, "C03", "C03.R3", rule)
			keptMessageReadUnderCacheLock(e, rule)
		})
	case "C09":
		reg("C09.G13", "truth-table", "an accept error that is context.DeadlineExceeded or context.Canceled ends Serve once the server's context is done", 4, func(rule string) { acceptErrorClassification(e, rule) })
		reg("C09.G4", "shared", "a waiter whose context ends decides 'still queued or already admitted' under the queue's lock (= C16.R5): a slot handed over in that instant is given back, not leaked", 3, func(rule string) { borrow(e, "C16", "C16.R5", rule) })
	case "C13":
		reg("C13.G12", "flows", "a registration is reported as not supported exactly when the first response lacks the Observe option (the entry is then removed)", 1, func(rule string) { notSupportedIffNoObserve(e, rule) })
		reg("C13.G4", "shared", "a waiter whose context ends decides 'still queued or already admitted' under the queue's lock (= C16.R5): no limiter entry survives a cancelled exchange", 3, func(rule string) { borrow(e, "C16", "C16.R5", rule) })
	case "C12":
		reg("C12.G5", "flows+locks", "LoadOrStore reports loaded exactly when it hands back an element other than the one offered (the caller releases its message only then); the kept sending message is read inside the cache's locked callback", 2, func(rule string) {
			loadOrStoreLoadedMeansOther(e, rule)
			keptMessageReadUnderCacheLock(e, rule)
		})
	case "C18":
		reg("C18.G7", "flows", "an option constructor stores the number or duration it was given, unchanged (0 = 'off' stays 0; no default is applied to a value the user configured)", 8, func(rule string) { optionCtorStoresArgument(e, rule) })
		reg("C18.G3", "paths", "looking a peer's connection up and registering a new one are one critical section of connsMutex: a peer never gets two connections (the unregistered one would never be checked for inactivity)", 1, func(rule string) {
			lookupAndStoreOneSection(e, rule, "udp/server.Server.getOrCreateConn", "udp/server.Server", "conns")
		})
	case "C16":
		reg("C16.G8", "shared+flows", "the queue's callbacks run under the map's write lock (= C14.R3); a connection's configuration starts from the package default, so the limits a server does not set stay 1 and 1", 4, func(rule string) {
			borrowMatching(e, "C14", "C14.R3", rule, "LoadOrStoreWithFunc")
			connConfigStartsFromDefault(e, rule)
		})
	case "C05":
		reg("C05.G9", "shared+paths", "the peer's connection – and the reply cache it owns – lives for the full inactivity period (= C18.R8, Notify records every arrival); an arriving datagram is matched to its exact (remote, local) connection before the wildcard-local fallback", 2, func(rule string) {
			notifyStoresAlways(e, rule)
			exactKeyBeforeWildcard(e, rule)
		})
	case "C06":
		reg("C06.G9", "shared", "an acknowledgement is routed to the connection that sent the request: the connection key does not distinguish two spellings of one address (= C10.R3)", 2, func(rule string) { borrow(e, "C10", "C10.R3", rule) })
	case "C11":
		reg("C11.G15", "truth-table", "only an empty acknowledgement is swallowed as a message-layer reply; a Reset reaches the handler", 1, func(rule string) { separateMessagePredicate(e, rule) })
	case "C17":
		reg("C17.G9", "shared", "the request path the router matches on is joined from every Uri-Path segment, empty ones included (= C15.R8)", 1, func(rule string) { joinWritesEverySegment(e, rule) })
		reg("C17.G2", "locks", "the route table loaded under the router's lock is used only while that lock is held and is never handed out (GetRoutes returns a copy)", 3, func(rule string) {
			for _, f := range methodsOf(e, rule, "mux.Router") {
				guardedRefUses(e, rule, f, "mux.Router", "z", "m")
			}
		})
	}
}

// noSharedScratch: every package-level variable of the listed packages is written by package initialisers only. A write is a store
// to the variable, to an element/field of it, an update of the map/slice it holds, or its address leaving the function (slice of an
// array variable, address passed to a call). Exempt, by name and with the reason: the message-ID generator state.
func noSharedScratch(e *Env, rule string, pkgs []string) {
	exempt := map[string]string{
		"message.msgID":   "message-ID counter, advanced with atomic.AddUint32 only",
		"message.weakRng": "fallback random source for message IDs / tokens, has its own lock",
	}
	inPkgs := func(rel string) bool {
		for _, p := range pkgs {
			if rel == p {
				return true
			}
		}
		return false
	}
	type gkey struct{ pkg, name string }
	writers := map[gkey][]string{}
	var globals []gkey
	seen := map[gkey]*ssa.Global{}
	for _, pk := range e.P.Pkgs {
		rel := core.RelPath(pk.PkgPath)
		if !inPkgs(rel) {
			continue
		}
		sp := e.P.SSA.Package(pk.Types)
		if sp == nil {
			continue
		}
		for name, m := range sp.Members {
			if g, ok := m.(*ssa.Global); ok && !strings.HasPrefix(name, "init$") && !e.P.IsTestPos(g.Pos()) && g.Pos() != token.NoPos {
				k := gkey{rel, name}
				globals = append(globals, k)
				seen[k] = g
			}
		}
	}
	sort.Slice(globals, func(i, j int) bool {
		if globals[i].pkg != globals[j].pkg {
			return globals[i].pkg < globals[j].pkg
		}
		return globals[i].name < globals[j].name
	})
	byGlobal := map[*ssa.Global]gkey{}
	for k, g := range seen {
		byGlobal[g] = k
	}
	for _, f := range e.P.AllSrcFuncs(false) {
		if f.Name() == "init" || strings.HasPrefix(f.Name(), "init#") || (f.Parent() != nil && strings.HasPrefix(core.FnName(f), "init")) {
			continue
		}
		for _, b := range f.Blocks {
			for _, in := range b.Instrs {
				for _, op := range in.Operands(nil) {
					g, ok := (*op).(*ssa.Global)
					if !ok {
						continue
					}
					k, tracked := byGlobal[g]
					if !tracked {
						continue
					}
					if why := globalUseWrites(in, g); why != "" {
						writers[k] = append(writers[k], core.FnName(f)+" ("+why+" at "+e.pos(in)+")")
					}
				}
			}
		}
	}
	for _, k := range globals {
		q := k.pkg + "." + k.name
		construct := q + ":written-at-init-only"
		if why, ok := exempt[q]; ok {
			e.R.OkTrivial(rule, construct, e.P.Pos(seen[k].Pos()), "exempt: "+why)
			continue
		}
		ws := writers[k]
		sort.Strings(ws)
		e.R.Check(len(ws) == 0, rule, construct, e.P.Pos(seen[k].Pos()), "written by the package initialiser only", "package-level state written at run time – concurrent encoders/decoders share it: "+strings.Join(ws, "; "))
	}
}

// globalUseWrites classifies one use of the address of package-level variable g: "" for a read.
func globalUseWrites(in ssa.Instruction, g *ssa.Global) string {
	addrWritten := func(addr ssa.Value) string {
		for _, u := range core.Referrers(addr) {
			switch x := u.(type) {
			case *ssa.Store:
				if x.Addr == addr {
					return "element/field stored"
				}
				return "address stored elsewhere"
			case *ssa.UnOp, *ssa.DebugRef:
			case *ssa.IndexAddr, *ssa.FieldAddr:
				// one more level: a[i].f = …
				for _, uu := range core.Referrers(u.(ssa.Value)) {
					if st, ok := uu.(*ssa.Store); ok && st.Addr == u.(ssa.Value) {
						return "element/field stored"
					}
				}
			default:
				return "address of an element escapes"
			}
		}
		return ""
	}
	switch x := in.(type) {
	case *ssa.Store:
		if x.Addr == ssa.Value(g) {
			return "assigned"
		}
		return "address stored elsewhere"
	case *ssa.UnOp:
		if x.Op != token.MUL || x.X != ssa.Value(g) {
			return ""
		}
		// the loaded value: a map/slice updated in place
		for _, u := range core.Referrers(x) {
			switch y := u.(type) {
			case *ssa.MapUpdate:
				if y.Map == ssa.Value(x) {
					return "map updated"
				}
			case *ssa.IndexAddr:
				if y.X == ssa.Value(x) {
					if w := addrWritten(y); w != "" {
						return w
					}
				}
			case *ssa.Call:
				if b, ok := y.Call.Value.(*ssa.Builtin); ok {
					switch b.Name() {
					case "delete", "clear":
						return "map/slice cleared"
					case "copy":
						if len(y.Call.Args) > 0 && y.Call.Args[0] == ssa.Value(x) {
							return "copied into"
						}
					}
					continue
				}
				// a shared slice handed to a function that may fill it (binary.BigEndian.PutUint16(scratch, …))
				if _, isSlice := x.Type().Underlying().(*types.Slice); isSlice {
					for _, a := range y.Call.Args {
						if a == ssa.Value(x) {
							return "shared slice handed to " + core.CalleeName(y)
						}
					}
				}
			}
		}
		return ""
	case *ssa.IndexAddr:
		if x.X == ssa.Value(g) {
			return addrWritten(x)
		}
	case *ssa.FieldAddr:
		if x.X == ssa.Value(g) {
			return addrWritten(x)
		}
	case *ssa.Slice:
		if x.X == ssa.Value(g) {
			// a slice over an array variable: shared backing store; a write if the slice is copied into / stored through / handed on
			for _, u := range core.Referrers(x) {
				switch y := u.(type) {
				case *ssa.Call:
					if b, ok := y.Call.Value.(*ssa.Builtin); ok && (b.Name() == "len" || b.Name() == "cap") {
						continue
					}
					if b, ok := y.Call.Value.(*ssa.Builtin); ok && b.Name() == "copy" && len(y.Call.Args) == 2 && y.Call.Args[0] != ssa.Value(x) {
						continue // only read from
					}
					return "slice of it written or handed on"
				case *ssa.IndexAddr:
					if w := addrWritten(y); w != "" {
						return w
					}
				case *ssa.DebugRef:
				default:
					return "slice of it handed on"
				}
			}
			return ""
		}
	case *ssa.DebugRef:
		return ""
	case ssa.CallInstruction:
		return "address passed to a call"
	}
	return "address used"
}

// guardedRefUses: the reference loaded from owner.field (a map) under base.mutexField is used only while that mutex is held and
// does not leave the function – unless the field is given fresh storage while the lock is still held (swap-out).
func guardedRefUses(e *Env, rule string, f *ssa.Function, owner, field, mutexField string) {
	la := core.AnalyzeLocks(f)
	name := core.FnName(f)
	n := 0
	core.Instrs(f, func(in ssa.Instruction) {
		ld, ok := in.(*ssa.UnOp)
		if !ok || ld.Op != token.MUL {
			return
		}
		fa, ok := ld.X.(*ssa.FieldAddr)
		if !ok {
			return
		}
		o, fl, ok := core.FieldOf(fa)
		if !ok || o != owner || fl != field {
			return
		}
		base := core.AccessPath(fa.X)
		if strings.HasPrefix(base, "alloc:") {
			return
		}
		key := base + "." + mutexField
		if _, held := la.At(ld)[key]; !held {
			return // the unguarded load itself is R2's finding
		}
		// swap-out: the field is assigned while the lock taken before the load is still held
		swapped := false
		core.Instrs(f, func(x ssa.Instruction) {
			st, isSt := x.(*ssa.Store)
			if !isSt {
				return
			}
			sfa, isFA := st.Addr.(*ssa.FieldAddr)
			if !isFA || sfa.Field != fa.Field || core.AccessPath(sfa.X) != base {
				return
			}
			if _, held := la.At(st)[key]; held && core.Dominates(ld, st) {
				swapped = true
			}
		})
		n++
		construct := fmt.Sprintf("%s:uses of %s.%s#%d", name, shortType(owner), field, n)
		bad := ""
		var visit func(v ssa.Value, d int)
		visit = func(v ssa.Value, d int) {
			if d > 3 {
				return
			}
			for _, u := range core.Referrers(v) {
				switch x := u.(type) {
				case *ssa.DebugRef:
					continue
				case *ssa.Return:
					if !swapped {
						bad = "the guarded map itself is returned at " + e.pos(x) + ": callers read and write it without the lock"
					}
					continue
				case *ssa.Phi:
					visit(x, d+1)
					continue
				case *ssa.Range:
					for _, uu := range core.Referrers(x) {
						if nx, isNx := uu.(*ssa.Next); isNx {
							if _, held := la.At(nx)[key]; !held && !swapped {
								bad = "iterated at " + e.pos(nx) + " after the lock it was loaded under was released"
							}
						}
					}
					continue
				case *ssa.Store:
					if x.Val == v && !swapped {
						if _, isAlloc := x.Addr.(*ssa.Alloc); isAlloc {
							// kept in a local variable: follow the loads of that variable
							for _, uu := range core.Referrers(x.Addr) {
								if l2, isL := uu.(*ssa.UnOp); isL && l2.Op == token.MUL {
									visit(l2, d+1)
								}
							}
							continue
						}
						bad = "stored into " + core.AccessPath(x.Addr) + " at " + e.pos(x) + ": the guarded map is shared beyond its lock"
					}
					continue
				}
				if _, held := la.At(u)[key]; !held && !swapped {
					bad = "used at " + e.pos(u) + " after the lock it was loaded under was released"
				}
			}
		}
		visit(ld, 0)
		e.R.Check(bad == "", rule, construct, e.pos(ld), "every use of the loaded map happens with "+key+" still held (or after the field was given fresh storage)", "the map read from the guarded field outlives the critical section: "+bad)
	})
}

// lookupAndStoreOneSection: in function q, no explicit Unlock lies on a path between a lookup in the map held in owner.field and an
// insertion into it: "not there, so create and register" is decided and acted on under one acquisition of the lock.
func lookupAndStoreOneSection(e *Env, rule, q, owner, field string) {
	f := e.fn(rule, q)
	if f == nil {
		return
	}
	isTable := func(v ssa.Value) bool {
		ld, ok := core.Resolve(v).(*ssa.UnOp)
		if !ok || ld.Op != token.MUL {
			return false
		}
		o, fl, ok := core.FieldOf(ld.X)
		return ok && o == owner && fl == field
	}
	var lookups, stores, unlocks []ssa.Instruction
	core.Instrs(f, func(in ssa.Instruction) {
		switch x := in.(type) {
		case *ssa.Lookup:
			if isTable(x.X) {
				lookups = append(lookups, x)
			}
		case *ssa.MapUpdate:
			if isTable(x.Map) {
				stores = append(stores, x)
			}
		case *ssa.Call:
			if n := core.CalleeName(x); strings.HasSuffix(n, "Mutex.Unlock") || strings.HasSuffix(n, "Mutex.RUnlock") {
				unlocks = append(unlocks, x)
			}
		}
	})
	construct := q + ":lookup-and-register-one-section"
	if len(lookups) == 0 || len(stores) == 0 {
		e.R.Undecided(rule, construct, e.fpos(f), fmt.Sprintf("%d lookups and %d insertions of %s.%s found in this function", len(lookups), len(stores), shortType(owner), field))
		return
	}
	bad := ""
	for _, u := range unlocks {
		u := u
		reached := false
		for _, l := range lookups {
			if (&core.PathQuery{Fn: f, From: l, Target: func(x ssa.Instruction) bool { return x == u }}).Find() != nil {
				reached = true
			}
		}
		if !reached {
			continue
		}
		for _, st := range stores {
			st := st
			if (&core.PathQuery{Fn: f, From: u, Target: func(x ssa.Instruction) bool { return x == st }}).Find() != nil {
				bad = "the lock is released at " + e.pos(u) + " between the lookup and the registration at " + e.pos(st) + ": two goroutines both find the peer absent and both register a connection, the later one replacing the earlier"
			}
		}
	}
	e.R.Check(bad == "", rule, construct, e.fpos(f), fmt.Sprintf("%d lookup(s) and %d insertion(s) with no release of the lock between them", len(lookups), len(stores)), bad)
}

// keptMessageReadUnderCacheLock (C04/C12): the message kept in sendingMessagesCache is turned into the next block
// (createSendingMessage) only inside a callback the cache runs under its lock – Do's deferred Delete then waits for a reader.
func keptMessageReadUnderCacheLock(e *Env, rule string) {
	q := "net/blockwise.BlockWise.continueSendingMessage"
	f := e.fn(rule, q)
	csm := e.fn(rule, "net/blockwise.BlockWise.createSendingMessage")
	if f == nil || csm == nil {
		return
	}
	n, bad := 0, ""
	for _, g := range core.WithAnon(f) {
		for _, c := range core.Calls(g, func(_ string, ci ssa.CallInstruction) bool { return core.SameFunc(core.StaticFn(ci), csm) }) {
			n++
			host := c.Parent()
			locked := false
			for _, use := range core.FuncValueUses(host) {
				if call, ok := use.(*ssa.Call); ok && core.CalleeName(call) == "pkg/sync.Map.LoadWithFunc" && strings.HasSuffix(tableOf(call), ".sendingMessagesCache") {
					locked = true
				}
			}
			if !locked {
				bad = "the next block is built at " + e.pos(c.(ssa.Instruction)) + " outside the cache's LoadWithFunc callback: the kept message can be deleted and released by its owner while it is being read"
			}
		}
	}
	e.R.Check(n >= 1 && bad == "", rule, q+":kept-message-read-under-cache-lock", e.fpos(f), fmt.Sprintf("%d createSendingMessage call(s) on the kept message, each inside the callback of sendingMessagesCache.LoadWithFunc", n), bad)
}

// loadOrStoreLoadedMeansOther (C14/C12): Cache.LoadOrStore returns (actual, actual != e).
func loadOrStoreLoadedMeansOther(e *Env, rule string) {
	q := "pkg/cache.Cache.LoadOrStore"
	f := e.fn(rule, q)
	if f == nil || len(f.Params) < 3 {
		return
	}
	offered := f.Params[2]
	ok, n := true, 0
	why := ""
	sameVar := func(a, b ssa.Value) bool {
		if a == b {
			return true
		}
		la, isA := a.(*ssa.UnOp)
		lb, isB := b.(*ssa.UnOp)
		if !isA || !isB || la.Op != token.MUL || lb.Op != token.MUL {
			return false
		}
		if la.X == lb.X {
			return true
		}
		// the same field of the same struct variable (go/ssa computes the field address anew for every access)
		fa, isFA := la.X.(*ssa.FieldAddr)
		fb, isFB := lb.X.(*ssa.FieldAddr)
		return isFA && isFB && fa.Field == fb.Field && fa.X == fb.X
	}
	for _, ret := range core.ReturnsOf(f) {
		if len(ret.Results) != 2 {
			continue
		}
		n++
		actual, loaded := core.RetVal(ret, 0), core.RetVal(ret, 1)
		cmp, isCmp := core.Resolve(loaded).(*ssa.BinOp)
		if !isCmp {
			cmp, isCmp = loaded.(*ssa.BinOp)
		}
		if !isCmp || cmp.Op != token.NEQ {
			ok, why = false, "the loaded result at "+e.pos(ret)+" is not `actual != offered element`: for an expired entry that was just replaced the caller is told its element was not stored"
			continue
		}
		x, y := core.Unwrap(cmp.X), core.Unwrap(cmp.Y)
		isOffered := func(v ssa.Value) bool { return v == ssa.Value(offered) || core.Resolve(v) == ssa.Value(offered) }
		if !((isOffered(x) && sameVar(y, actual)) || (isOffered(y) && sameVar(x, actual))) {
			ok, why = false, "the loaded result at "+e.pos(ret)+" does not compare the element handed back with the element offered"
		}
	}
	e.R.Check(ok && n >= 1, rule, q+":loaded-iff-other-element", e.fpos(f), "loaded = (element handed back != element offered)", why)
}

// valueBufferRewoundOnlyByReset (C15): `valueBuffer = origValueBuffer` appears only in Reset and the constructor.
func valueBufferRewoundOnlyByReset(e *Env, rule string) {
	n := 0
	var bad []string
	for _, f := range e.P.AllSrcFuncs(false) {
		if !strings.HasPrefix(core.FnName(f), "message/pool.") {
			continue
		}
		for _, b := range f.Blocks {
			for _, in := range b.Instrs {
				st, ok := in.(*ssa.Store)
				if !ok {
					continue
				}
				if _, fl, isF := core.FieldOf(st.Addr); !isF || fl != "valueBuffer" {
					continue
				}
				ld, isLd := core.Unwrap(st.Val).(*ssa.UnOp)
				if !isLd || ld.Op != token.MUL {
					continue
				}
				if _, fl, isF := core.FieldOf(ld.X); !isF || fl != "origValueBuffer" {
					continue
				}
				n++
				name := core.FnName(f)
				isOwner := func(nm string) bool {
					return nm == "message/pool.Message.Reset" || strings.HasPrefix(nm, "message/pool.NewMessage")
				}
				okSite := isOwner(name)
				if !okSite && core.IsAbsorbed(f) {
					// a step of Reset / NewMessage split out into an unexported helper that nothing else calls
					roots := core.RootsOf(f)
					okSite = len(roots) > 0
					for _, r := range roots {
						if !isOwner(core.FnName(r)) {
							okSite = false
						}
					}
				}
				if !okSite {
					bad = append(bad, name+" at "+e.pos(st))
				}
			}
		}
	}
	sort.Strings(bad)
	e.R.Check(n >= 1 && len(bad) == 0, rule, "message/pool.Message.valueBuffer:rewound-only-by-Reset", "-", fmt.Sprintf("%d rewind(s) of the value buffer, all in Reset", n), "the value buffer is rewound while option values may still live in it (later copies overwrite values not read yet): "+strings.Join(bad, ", "))
}

// getterErrorsComeFromLookup (C15/C20): the single-value getters of message.Options fail only with the error of the lookup
// (Find, or the single-value getter they delegate to): the first occurrence of a present option is always readable.
func getterErrorsComeFromLookup(e *Env, rule string) {
	lookups := map[string]bool{"message.Options.Find": true, "message.Options.GetUint32": true, "message.Options.GetBytes": true, "message.Options.GetString": true, "message.DecodeUint32": true}
	for _, q := range []string{"message.Options.GetUint32", "message.Options.GetBytes", "message.Options.GetString", "message.Options.ContentFormat", "message.Options.Accept", "message.Options.Observe"} {
		f := e.fn(rule, q)
		if f == nil {
			continue
		}
		bad := ""
		for _, ret := range core.ReturnsOf(f) {
			k := len(ret.Results) - 1
			if k < 0 || !core.IsErrorType(ret.Results[k].Type()) {
				continue
			}
			ev := core.RetVal(ret, k)
			if core.IsNilConst(ev) {
				continue
			}
			okSrc := false
			for _, v := range valueLeaves(ev) {
				if ex, isEx := v.(*ssa.Extract); isEx {
					if c, isC := ex.Tuple.(*ssa.Call); isC && lookups[core.CalleeName(c)] && core.CalleeName(c) != q {
						okSrc = true
						continue
					}
				}
				if core.IsNilConst(v) {
					okSrc = true
					continue
				}
				// the "not found" sentinel itself (the lookup reports absence by a flag and the getter names the error)
				if ld, isLd := v.(*ssa.UnOp); isLd && ld.Op == token.MUL {
					if g, isG := ld.X.(*ssa.Global); isG && g.Name() == "ErrOptionNotFound" {
						okSrc = true
						continue
					}
				}
				okSrc = false
				bad = "the error returned at " + e.pos(ret) + " does not come from the option lookup (" + v.String() + "): a present option can be reported as an error"
				break
			}
			if !okSrc && bad == "" {
				bad = "the error returned at " + e.pos(ret) + " does not come from the option lookup"
			}
		}
		e.R.Check(bad == "", rule, q+":fails-only-when-absent", e.fpos(f), "every error this getter returns is the error of the lookup of its option", bad)
	}
}

// optionCtorStoresArgument: in the constructors options.With…, a numeric/duration parameter reaches the option struct unchanged:
// every value stored into a field (or returned as the option) that depends on such a parameter IS that parameter.
func optionCtorStoresArgument(e *Env, rule string) {
	isScalar := func(t types.Type) bool {
		b, ok := t.Underlying().(*types.Basic)
		return ok && b.Info()&(types.IsInteger|types.IsFloat) != 0
	}
	var dependsOn func(v ssa.Value, p *ssa.Parameter, d int) bool
	dependsOn = func(v ssa.Value, p *ssa.Parameter, d int) bool {
		if d > 6 {
			return false
		}
		switch x := v.(type) {
		case *ssa.Parameter:
			return x == p
		case *ssa.Phi:
			for _, ed := range x.Edges {
				if dependsOn(ed, p, d+1) {
					return true
				}
			}
		case *ssa.BinOp:
			return dependsOn(x.X, p, d+1) || dependsOn(x.Y, p, d+1)
		case *ssa.Convert:
			return dependsOn(x.X, p, d+1)
		case *ssa.ChangeType:
			return dependsOn(x.X, p, d+1)
		case *ssa.UnOp:
			if x.Op == token.MUL {
				// a parameter spilled into a cell (assigned to in the body): the stores into the cell
				if a, ok := x.X.(*ssa.Alloc); ok {
					for _, st := range core.StoresToCell(a) {
						if dependsOn(st.Val, p, d+1) {
							return true
						}
					}
				}
				return false
			}
			return dependsOn(x.X, p, d+1)
		case *ssa.Call:
			for _, a := range x.Call.Args {
				if dependsOn(a, p, d+1) {
					return true
				}
			}
		}
		return false
	}
	isParamItself := func(v ssa.Value, p *ssa.Parameter) bool {
		v = core.Unwrap(v)
		if v == ssa.Value(p) {
			return true
		}
		// spilled parameter with its single initial store
		if ld, ok := v.(*ssa.UnOp); ok && ld.Op == token.MUL {
			if a, isA := ld.X.(*ssa.Alloc); isA {
				sts := core.StoresToCell(a)
				return len(sts) == 1 && core.Unwrap(sts[0].Val) == ssa.Value(p)
			}
		}
		return false
	}
	for _, f := range e.P.AllSrcFuncs(false) {
		name := core.FnName(f)
		if f.Parent() != nil || !strings.HasPrefix(name, "options.With") {
			continue
		}
		for _, p := range f.Params {
			if !isScalar(p.Type()) {
				continue
			}
			bad := ""
			n := 0
			core.InstrsOwn(f, func(in ssa.Instruction) {
				st, ok := in.(*ssa.Store)
				if !ok {
					return
				}
				if _, isFA := st.Addr.(*ssa.FieldAddr); !isFA {
					return
				}
				if !dependsOn(st.Val, p, 0) {
					return
				}
				n++
				if !isParamItself(st.Val, p) {
					bad = "the value stored at " + e.pos(st) + " is computed from " + p.Name() + " instead of being " + p.Name() + ": a value the user configured (such as 0 = off) is replaced"
				}
			})
			if n == 0 {
				continue
			}
			e.R.Check(bad == "", rule, name+":stores "+p.Name()+" unchanged", e.fpos(f), "the option keeps "+p.Name()+" as given", bad)
		}
	}
}

// connConfigStartsFromDefault (C16): every client.Config handed to NewConnWithOpts from outside the client packages is a copy of the
// package's DefaultConfig (or the caller's own config) with fields overwritten – never a zero Config with some fields set.
func connConfigStartsFromDefault(e *Env, rule string) {
	n := 0
	for _, f := range e.P.SrcFuncs(false) {
		name := core.FnName(f)
		if strings.HasPrefix(name, "examples/") || strings.HasPrefix(name, "udp/client.") || strings.HasPrefix(name, "tcp/client.") {
			continue
		}
		for _, c := range core.Calls(f, func(nm string, _ ssa.CallInstruction) bool {
			return nm == "udp/client.NewConnWithOpts" || nm == "tcp/client.NewConnWithOpts"
		}) {
			a, isAlloc := core.ArgRaw(c, 1).(*ssa.Alloc)
			if !isAlloc {
				continue // handed in by the caller
			}
			n++
			fromDefault := false
			for _, u := range core.Referrers(a) {
				st, ok := u.(*ssa.Store)
				if !ok || st.Addr != ssa.Value(a) {
					continue
				}
				v := core.Resolve(st.Val)
				if ld, isLd := v.(*ssa.UnOp); isLd && ld.Op == token.MUL {
					if g, isG := ld.X.(*ssa.Global); isG && g.Name() == "DefaultConfig" {
						fromDefault = true
					}
					if _, isP := core.Unwrap(ld.X).(*ssa.Parameter); isP {
						fromDefault = true // a copy of the caller's configuration
					}
				}
				if _, isP := v.(*ssa.Parameter); isP {
					fromDefault = true
				}
			}
			e.R.Check(fromDefault, rule, name+":connection-config-from-default", e.pos(c.(ssa.Instruction)), "the connection's Config is a copy of DefaultConfig (or of the caller's Config) with fields overwritten", "the connection's Config starts from the zero value: every setting the function does not assign (the two parallel-request limits among them) becomes 0 = unlimited instead of its default")
		}
	}
	if n == 0 {
		e.R.Undecided(rule, "NewConnWithOpts:connection-config-from-default", "-", "no locally built connection Config found")
	}
}

// exactKeyBeforeWildcard (C05): getOrCreateConn consults the exact (remote, local) key first; the wildcard-local key only when
// that lookup found nothing.
func exactKeyBeforeWildcard(e *Env, rule string) {
	q := "udp/server.Server.getOrCreateConn"
	f := e.fn(rule, q)
	if f == nil {
		return
	}
	var exact, wild []*ssa.Lookup
	core.Instrs(f, func(in ssa.Instruction) {
		lk, ok := in.(*ssa.Lookup)
		if !ok {
			return
		}
		ld, isLd := core.Resolve(lk.X).(*ssa.UnOp)
		if !isLd {
			return
		}
		if _, fl, isF := core.FieldOf(ld.X); !isF || fl != "conns" {
			return
		}
		kc, isCall := core.Resolve(lk.Index).(*ssa.Call)
		if !isCall || core.CalleeName(kc) != "udp/server.getConnKey" || core.NArgs(kc) < 2 {
			return
		}
		if _, isP := core.Resolve(core.Arg(kc, 1)).(*ssa.Parameter); isP {
			exact = append(exact, lk)
		} else {
			wild = append(wild, lk)
		}
	})
	if len(exact) == 0 {
		e.R.Undecided(rule, q+":exact-key-first", e.fpos(f), "no lookup with the key of the datagram's own address pair found")
		return
	}
	bad := ""
	for _, w := range wild {
		dominated := false
		for _, x := range exact {
			if core.Dominates(x, w) {
				dominated = true
			}
		}
		if !dominated {
			bad = "the wildcard-local lookup at " + e.pos(w) + " is not preceded by the lookup of the exact address pair: a retransmission can be routed to another connection than its first copy (whose reply cache does not know it)"
		}
	}
	e.R.Check(bad == "", rule, q+":exact-key-first", e.fpos(f), fmt.Sprintf("%d exact lookup(s) dominate the %d wildcard fallback lookup(s)", len(exact), len(wild)), bad)
}

// handlerWritesNoCapturedState (C20): the closures returned by q do not store into objects captured from q's activation.
func handlerWritesNoCapturedState(e *Env, rule, q string) {
	f := e.fn(rule, q)
	if f == nil {
		return
	}
	var fromCapture func(v ssa.Value, d int) bool
	fromCapture = func(v ssa.Value, d int) bool {
		if d > 6 {
			return false
		}
		switch x := v.(type) {
		case *ssa.FreeVar:
			return true
		case *ssa.FieldAddr:
			return fromCapture(x.X, d+1)
		case *ssa.IndexAddr:
			return fromCapture(x.X, d+1)
		case *ssa.UnOp:
			return x.Op == token.MUL && fromCapture(x.X, d+1)
		}
		return false
	}
	bad, n := "", 0
	for _, g := range core.WithAnon(f) {
		if g == f {
			continue
		}
		n++
		core.InstrsOwn(g, func(in ssa.Instruction) {
			st, ok := in.(*ssa.Store)
			if !ok {
				return
			}
			if _, isFV := st.Addr.(*ssa.FreeVar); isFV {
				bad = "the handler assigns a variable of the enclosing function at " + e.pos(st)
				return
			}
			if _, isFA := st.Addr.(*ssa.FieldAddr); isFA && fromCapture(st.Addr, 0) {
				bad = "the handler writes a field of an object shared by all requests at " + e.pos(st) + ": two requests in the handler at once see each other's response writer"
			}
		})
	}
	e.R.Check(bad == "" && n >= 1, rule, q+":handler-keeps-no-shared-state", e.fpos(f), fmt.Sprintf("%d handler closure(s), none writes captured state", n), bad)
}

// scratchBuffersDisjoint (C02): the buffers NewMessage gives a pooled message are separate allocations or capacity-limited slices.
func scratchBuffersDisjoint(e *Env, rule string) {
	q := "message/pool.NewMessage"
	f := e.fn(rule, q)
	if f == nil {
		return
	}
	want := map[string]bool{"valueBuffer": true, "origValueBuffer": true, "bufferUnmarshal": true, "bufferMarshal": true}
	allocs := map[ssa.Value][]string{}
	n := 0
	core.Instrs(f, func(in ssa.Instruction) {
		st, ok := in.(*ssa.Store)
		if !ok {
			return
		}
		_, fl, isF := core.FieldOf(st.Addr)
		if !isF || !want[fl] {
			return
		}
		n++
		v := core.Resolve(st.Val)
		construct := q + ":" + fl + " own-allocation"
		// a buffer made by a small constructor helper is a fresh allocation per CALL of the helper
		var site ssa.Value
		if c, isC := core.Unwrap(st.Val).(*ssa.Call); isC && v != ssa.Value(c) {
			site = c
		}
		key := func(alloc ssa.Value) ssa.Value {
			if site != nil {
				return site
			}
			return alloc
		}
		if ld, isLd := v.(*ssa.UnOp); isLd && ld.Op == token.MUL {
			if _, fl2, isF2 := core.FieldOf(ld.X); isF2 && fl2 == "origValueBuffer" && fl == "valueBuffer" {
				e.R.Ok(rule, construct, e.pos(st), "the value buffer starts as its own original (the same buffer by design)")
				return
			}
		}
		switch x := v.(type) {
		case *ssa.MakeSlice:
			allocs[key(x)] = append(allocs[key(x)], fl)
			e.R.Ok(rule, construct, e.pos(st), "a fresh make()")
		case *ssa.Slice:
			if a, isAlloc := x.X.(*ssa.Alloc); isAlloc && a.Heap && x.Low == nil && wholeArray(a, x.High) {
				allocs[key(a)] = append(allocs[key(a)], fl)
				e.R.Ok(rule, construct, e.pos(st), "a fresh make() of constant size")
			} else if x.Max != nil {
				e.R.Ok(rule, construct, e.pos(st), "a capacity-limited slice (growing it re-allocates)")
			} else {
				e.R.Fail(rule, construct, e.pos(st), "the buffer is a slice of a larger allocation without a capacity limit: growing it in place overwrites the neighbouring buffer (decoded option values change under the decoder)")
			}
		default:
			e.R.Undecided(rule, construct, e.pos(st), "buffer origin not recognised: "+v.String())
		}
	})
	for _, fls := range allocs {
		// valueBuffer and origValueBuffer are the same buffer by design
		others := 0
		for _, fl := range fls {
			if fl != "valueBuffer" && fl != "origValueBuffer" {
				others++
			}
		}
		if others > 1 || (others == 1 && len(fls) > 1) {
			e.R.Fail(rule, q+":buffers-distinct", e.fpos(f), "one allocation serves several scratch buffers: "+strings.Join(fls, ", "))
		}
	}
	if n == 0 {
		e.R.Undecided(rule, q+":scratch-buffers", e.fpos(f), "no scratch buffer field initialised here")
	}
}

// notSupportedIffNoObserve (C13): Observation.handle reports notSupported = !r.HasOption(Observe).
func notSupportedIffNoObserve(e *Env, rule string) {
	q := "net/observation.Observation.handle"
	f := e.fn(rule, q)
	if f == nil || len(f.Params) < 2 {
		return
	}
	r := f.Params[1]
	ok, n := true, 0
	why := ""
	core.Instrs(f, func(in ssa.Instruction) {
		st, isSt := in.(*ssa.Store)
		if !isSt {
			return
		}
		if _, fl, isF := core.FieldOf(st.Addr); !isF || fl != "notSupported" {
			return
		}
		n++
		v, neg := core.StripNot(core.Resolve(st.Val))
		v = core.Resolve(v)
		v2, neg2 := core.StripNot(v)
		if neg2 {
			neg = !neg
		}
		c, isCall := core.Resolve(v2).(*ssa.Call)
		if !isCall || core.CalleeName(c) != "message/pool.Message.HasOption" || core.Resolve(core.Arg(c, 0)) != ssa.Value(r) || !neg {
			ok, why = false, "notSupported at "+e.pos(st)+" is not `!r.HasOption(Observe)`: a first response without the Observe option can leave the registration in the table for ever"
			return
		}
		if k, isK := core.ConstInt(core.Arg(c, 1)); !isK || k != 6 {
			ok, why = false, "notSupported at "+e.pos(st)+" tests another option than Observe (6)"
		}
	})
	e.R.Check(ok && n >= 1, rule, q+":not-supported-iff-no-observe", e.fpos(f), "notSupported = !r.HasOption(Observe)", why)
}

// acceptErrorClassification (C09): truth table of Server.checkAcceptError (tcp, dtls).
func acceptErrorClassification(e *Env, rule string) {
	for _, q := range []string{"tcp/server.Server.checkAcceptError", "dtls/server.Server.checkAcceptError"} {
		f := e.fn(rule, q)
		if f == nil || len(f.Params) < 2 {
			continue
		}
		errP := f.Params[1]
		isErrIs := func(v ssa.Value) (string, bool) {
			c, ok := v.(*ssa.Call)
			if !ok || core.CalleeName(c) != "errors.Is" || core.NArgs(c) != 2 || core.Resolve(core.Arg(c, 0)) != ssa.Value(errP) {
				return "", false
			}
			ld, isLd := core.Arg(c, 1).(*ssa.UnOp)
			if !isLd {
				return "", false
			}
			g, isG := ld.X.(*ssa.Global)
			if !isG {
				return "", false
			}
			return g.Name(), true
		}
		bf := &core.BoolFn{Fn: f, AtomOf: func(v ssa.Value) (string, bool, bool) {
			if n, ok := isErrIs(v); ok {
				return "is:" + n, false, true
			}
			if b, ok := v.(*ssa.BinOp); ok && (b.Op == token.EQL || b.Op == token.NEQ) {
				if core.Resolve(b.X) == ssa.Value(errP) && core.IsNilConst(b.Y) {
					return "err-nil", b.Op == token.NEQ, true
				}
				if ex, isEx := b.X.(*ssa.Extract); isEx {
					if _, isSel := ex.Tuple.(*ssa.Select); isSel && ex.Index == 0 {
						if k, isK := core.ConstInt(b.Y); isK && k == 0 {
							return "ctx-done", b.Op == token.NEQ, true
						}
					}
				}
			}
			return "", false, false
		}}
		atoms := bf.Atoms()
		has := map[string]bool{}
		for _, a := range atoms {
			has[a] = true
		}
		e.R.Check(has["is:DeadlineExceeded"] && has["is:Canceled"], rule, q+":consults-both-context-errors", e.fpos(f), "the classification tests errors.Is(err, context.DeadlineExceeded) and errors.Is(err, context.Canceled)", "the accept-error classification no longer recognises both context errors: with the server's context expired Serve spins on the error instead of returning")
		rows, err := bf.Table()
		key := q + ":context-error-ends-serve"
		if err != nil {
			e.R.Undecided(rule, key, e.fpos(f), err.Error())
			continue
		}
		bad, und := "", ""
		for _, r := range rows {
			a := r.Assign
			if a["err-nil"] || a["is:ErrListenerIsClosed"] || !a["ctx-done"] || !(a["is:DeadlineExceeded"] || a["is:Canceled"]) {
				continue
			}
			if r.Unknown != "" {
				und = "row [" + core.AssignString(a) + "]: " + r.Unknown
				continue
			}
			if len(r.Rets) != 1 || r.Rets[0] != 0 {
				bad = "for [" + core.AssignString(a) + "] the accept loop goes on"
			}
		}
		if und != "" && bad == "" {
			e.R.Undecided(rule, key, e.fpos(f), und)
			continue
		}
		e.R.Check(bad == "", rule, key, e.fpos(f), "a context error with the server's context done makes checkAcceptError return false (Serve runs its epilogue)", "Serve does not end on a context error although its context is done: "+bad)
	}
}

// readBodyNilWithoutBody (C01): ReadBody returns no bytes when no body reader is attached.
func readBodyNilWithoutBody(e *Env, rule string) {
	q := "message/pool.Message.ReadBody"
	f := e.fn(rule, q)
	if f == nil {
		return
	}
	ok, n := false, 0
	why := "no `Body() == nil` early return found"
	for _, i := range core.IfsOf(f) {
		cond, neg := core.StripNot(i.Cond)
		cmp, isCmp := core.AsCmp(cond)
		if !isCmp || (cmp.Op != token.EQL && cmp.Op != token.NEQ) || !core.IsNilConst(cmp.Y) {
			continue
		}
		if c, isCall := core.Resolve(cmp.X).(*ssa.Call); !isCall || core.CalleeName(c) != "message/pool.Message.Body" {
			continue
		}
		n++
		nilEdge := (cmp.Op == token.EQL) != neg
		k := 1
		if nilEdge {
			k = 0
		}
		blk := i.Block().Succs[k]
		if ret, isRet := blk.Instrs[len(blk.Instrs)-1].(*ssa.Return); isRet && len(ret.Results) == 2 {
			if core.IsNilConst(core.RetVal(ret, 0)) {
				ok = true
			} else {
				why = "with no body reader attached ReadBody returns " + core.RetVal(ret, 0).String() + " at " + e.pos(ret) + ": a message whose body was removed is marshalled with the payload of an earlier decode"
			}
		}
	}
	e.R.Check(ok && n >= 1, rule, q+":nothing-without-body", e.fpos(f), "Body() == nil ⇒ ReadBody returns (nil, nil)", why)
}

// separateMessagePredicate (C11): truth table of IsSeparateMessage.
func separateMessagePredicate(e *Env, rule string) {
	q := "message/pool.Message.IsSeparateMessage"
	f := e.fn(rule, q)
	if f == nil {
		return
	}
	callName := func(v ssa.Value) string {
		if c, ok := core.Resolve(v).(*ssa.Call); ok {
			return core.CalleeName(c)
		}
		return ""
	}
	bf := &core.BoolFn{Fn: f, AtomOf: func(v ssa.Value) (string, bool, bool) {
		if c, isCmp := core.AsCmp(v); isCmp {
			// len(x) compared with a constant in any of the equivalent spellings of "x is (non-)empty"
			if nonEmptyNeg, isL := lenNonEmpty(c, func(x ssa.Value) bool { return callName(x) == "message/pool.Message.Options" }); isL {
				return "no-options", !nonEmptyNeg, true
			}
			if nonEmptyNeg, isL := lenNonEmpty(c, func(x ssa.Value) bool { return callName(x) == "message/pool.Message.Token" }); isL {
				return "no-token", !nonEmptyNeg, true
			}
		}
		b, ok := v.(*ssa.BinOp)
		if !ok || (b.Op != token.EQL && b.Op != token.NEQ) {
			return "", false, false
		}
		neg := b.Op == token.NEQ
		// the same facts read from the underlying message's fields
		if core.IsNilConst(b.Y) {
			switch {
			case isFieldLoadNamed(b.X, "Token"):
				return "no-token", neg, true
			case isFieldLoadNamed(b.X, "Body"):
				return "no-body", neg, true
			}
		}
		switch callName(b.X) {
		case "message/pool.Message.Code":
			if k, isK := core.ConstInt(b.Y); isK && k == 0 {
				return "code-empty", neg, true
			}
		case "message/pool.Message.Type":
			if k, isK := core.ConstInt(b.Y); isK {
				return fmt.Sprintf("type=%d", k), neg, true
			}
		case "message/pool.Message.Token":
			if core.IsNilConst(b.Y) {
				return "no-token", neg, true
			}
		case "message/pool.Message.Body":
			if core.IsNilConst(b.Y) {
				return "no-body", neg, true
			}
		}
		if lc, isLen := core.Unwrap(b.X).(*ssa.Call); isLen {
			if bi, isB := lc.Call.Value.(*ssa.Builtin); isB && bi.Name() == "len" {
				if k, isK := core.ConstInt(b.Y); isK && k == 0 {
					switch callName(lc.Call.Args[0]) {
					case "message/pool.Message.Options":
						return "no-options", neg, true
					case "message/pool.Message.Token":
						return "no-token", neg, true
					}
				}
			}
		}
		return "", false, false
	}}
	checkTruth(e, rule, q+":empty-ack-only", bf,
		func(r core.BoolRow) bool { return len(r.Rets) == 1 && r.Rets[0] == 1 },
		func(a map[string]bool) bool {
			for k, v := range a {
				if strings.HasPrefix(k, "type=") && k != "type=2" && v && !a["type=2"] {
					return false
				}
			}
			return a["code-empty"] && a["no-token"] && a["type=2"] && a["no-options"] && a["no-body"]
		},
		"separate message ⇔ code 0.00 ∧ no token ∧ type ACK ∧ no options ∧ no body", "the message-layer-reply predicate is not `empty acknowledgement`: other messages (a Reset) are swallowed before the handler, or empty ACKs reach it")
}

// wholeArray: high is absent or the constant length of the array a points to (go/ssa's form of make([]T, constant)).
func wholeArray(a *ssa.Alloc, high ssa.Value) bool {
	if high == nil {
		return true
	}
	pt, ok := a.Type().Underlying().(*types.Pointer)
	if !ok {
		return false
	}
	at, ok := pt.Elem().Underlying().(*types.Array)
	if !ok {
		return false
	}
	k, isK := core.ConstInt(high)
	return isK && k == at.Len()
}

// tokenDispatchIndependentOfCode (C03): in the clients' handle functions no token-table lookup is guarded by a comparison of the
// received message's code (RFC 7252 matches responses by token; the code space of a class runs to x.31).
func tokenDispatchIndependentOfCode(e *Env, rule string) {
	for _, q := range []string{"udp/client.Conn.handle", "tcp/client.Conn.handle"} {
		f := e.fn(rule, q)
		if f == nil {
			continue
		}
		n, bad := 0, ""
		for _, g := range core.WithAnon(f) {
			for _, c := range core.Calls(g, func(nm string, ci ssa.CallInstruction) bool {
				return strings.HasPrefix(nm, "pkg/sync.Map.") && strings.HasSuffix(tableOf(ci), ".tokenHandlerContainer")
			}) {
				n++
				onCode := false
				for _, br := range []bool{true, false} {
					br := br
					if _, guarded := core.GuardedBy(c.(ssa.Instruction), func(cond ssa.Value) core.CondMatch {
						cmp, isCmp := core.AsCmp(cond)
						if !isCmp {
							return core.CondMatch{}
						}
						for _, v := range []ssa.Value{cmp.X, cmp.Y} {
							if cc, isCall := core.Resolve(v).(*ssa.Call); isCall && core.CalleeName(cc) == "message/pool.Message.Code" {
								return core.CondMatch{Match: true, Branch: br}
							}
						}
						return core.CondMatch{}
					}); guarded {
						onCode = true
					}
				}
				if onCode {
					bad = "the lookup at " + e.pos(c.(ssa.Instruction)) + " is reached only for some message codes: a response with another code and the right token is treated as unsolicited and its request runs into its deadline"
				}
			}
		}
		e.R.Check(n >= 1 && bad == "", rule, q+":token-dispatch-independent-of-code", e.fpos(f), fmt.Sprintf("%d token-table lookup(s), none behind a test of the message code", n), bad)
	}
}

// skipsExactlyFrameSize (C07): seekBufferToNextMessage advances the buffer by msgSize – either one Next(msgSize), or a loop whose
// exit test is `accumulated == msgSize` where every addition to the accumulator is a count the buffer reported (Read's result,
// len(Next(n))).
func skipsExactlyFrameSize(e *Env, rule string) {
	q := "tcp/client.seekBufferToNextMessage"
	f := e.fn(rule, q)
	if f == nil || len(f.Params) < 2 {
		return
	}
	size := f.Params[1]
	ok, why := false, "no skip of exactly msgSize bytes recognised (neither Next(msgSize) nor a loop ending on skipped == msgSize)"
	// (a) buffer.Next(msgSize) outside any loop
	for _, c := range core.Calls(f, func(n string, _ ssa.CallInstruction) bool { return n == "bytes.Buffer.Next" }) {
		if core.Unwrap(core.Arg(c, 1)) == ssa.Value(size) {
			if !loopBlocks(f)[c.(ssa.Instruction).Block()] {
				ok = true
			}
		}
	}
	// (b) loop with exit test acc == msgSize
	fromBuffer := func(v ssa.Value) bool {
		switch x := core.Unwrap(v).(type) {
		case *ssa.Extract:
			if c, isC := x.Tuple.(*ssa.Call); isC && core.CalleeName(c) == "bytes.Buffer.Read" && x.Index == 0 {
				return true
			}
		case *ssa.Call:
			if b, isB := x.Call.Value.(*ssa.Builtin); isB && b.Name() == "len" {
				if c, isC := x.Call.Args[0].(*ssa.Call); isC && core.CalleeName(c) == "bytes.Buffer.Next" {
					return true
				}
			}
		}
		return false
	}
	// (c) countdown: remaining starts at msgSize, loses what the buffer reported, the loop ends on remaining == 0
	for _, i := range core.IfsOf(f) {
		cond, _ := core.StripNot(i.Cond)
		cmp, isCmp := core.AsCmp(cond)
		if !isCmp {
			continue
		}
		var rem ssa.Value
		if k, isK := core.ConstInt(cmp.Y); isK && k == 0 && (cmp.Op == token.EQL || cmp.Op == token.NEQ || cmp.Op == token.GTR) {
			rem = cmp.X
		}
		phi, isPhi := rem.(*ssa.Phi)
		if !isPhi {
			continue
		}
		good, starts, steps := true, 0, 0
		for _, ed := range phi.Edges {
			if core.Unwrap(ed) == ssa.Value(size) {
				starts++
				continue
			}
			sub, isSub := ed.(*ssa.BinOp)
			if !isSub || sub.Op != token.SUB || sub.X != ssa.Value(phi) || !fromBuffer(sub.Y) {
				good = false
				continue
			}
			steps++
		}
		if good && starts >= 1 && steps >= 1 {
			ok = true
		}
	}
	for _, i := range core.IfsOf(f) {
		cond, _ := core.StripNot(i.Cond)
		cmp, isCmp := core.AsCmp(cond)
		if !isCmp || (cmp.Op != token.EQL && cmp.Op != token.NEQ) {
			continue
		}
		var acc ssa.Value
		if core.Unwrap(cmp.Y) == ssa.Value(size) {
			acc = cmp.X
		} else if core.Unwrap(cmp.X) == ssa.Value(size) {
			acc = cmp.Y
		}
		phi, isPhi := acc.(*ssa.Phi)
		if !isPhi {
			continue
		}
		good, n := true, 0
		for _, ed := range phi.Edges {
			if k, isK := core.ConstInt(ed); isK && k == 0 {
				continue
			}
			add, isAdd := ed.(*ssa.BinOp)
			if !isAdd || add.Op != token.ADD {
				good = false
				continue
			}
			n++
			other := add.Y
			if add.Y == ssa.Value(phi) {
				other = add.X
			} else if add.X != ssa.Value(phi) {
				good = false
			}
			if !fromBuffer(other) {
				good = false
				why = "the skipped-bytes counter at " + e.pos(add) + " is advanced by something other than the count the buffer reported"
			}
		}
		if good && n >= 1 {
			ok = true
		}
	}
	e.R.Check(ok, rule, q+":skips-exactly-frame-size", e.fpos(f), "the consumed frame is skipped by exactly msgSize bytes (loop ends on skipped == msgSize with skipped += bytes the buffer reported, or on remaining == 0 with remaining = msgSize − those bytes; or one Next(msgSize))", why+": bytes of a delivered frame stay in the buffer and are parsed as new frames, or bytes of the next frame are lost")
}

package rules

import (
	"fmt"
	"go/token"
	"sort"
	"strings"

	"coapcheck/internal/core"

	"golang.org/x/tools/go/ssa"
)

func init() {
	register(&Property{
		ID:    "C10",
		Title: "Servers stay up and peers stay isolated under arbitrary input",
		Level: "other",
		Explain: "Decided: (R1) the serve loops end only for their listener – in the datagram Serve the only returns inside the loop are caused by the listener read / local-address errors, per-peer errors (getConn, Process) report and continue; the stream/DTLS Serve returns only when checkAcceptError says so, does nothing with an accepted connection inside the accept loop except handing it to a new goroutine, and serveConnection runs in that goroutine; " +
			"(R2) the DTLS handshake runs under a context derived from WithTimeout when a handshake timeout is configured; (R3) the peer key is built from both the remote and the (normalised) local address and lookup-create-insert of a peer connection is one critical section; " +
			"(R4) discovery: the token's receiver is registered-if-absent before the request is published under the token, so a rejected duplicate touches nothing of the running discovery; both entries are removed on return; responses are dispatched by their own token; " +
			"(R5) who-may-panic: every explicit panic site of the module is in a triaged table (configuration-time assertions and impossible-by-construction states, one reason each); a new panic site fails until triaged; the sites reachable from the receive entry points are listed in the evidence (R6) run-time panics: the in-range obligations of C02.R1 hold for every decoder function on the servers' receive paths.",
		NotDecided: "Isolation of observable behaviour between peers under load, and everything inside pion/dtls, are not decided.",
		Run:        runC10,
	})
}

// triaged explicit panic sites: function → reason
var panicTable = map[string]string{
	"options.panicForInvalidHandlerFunc":                "configuration: wrong handler type passed to an option constructor",
	"options.panicForInvalidProcessReceivedMessageFunc": "configuration: wrong function type passed to an option constructor",
	"options.panicForInvalidOnInactiveFunc":             "configuration: wrong function type passed to an option constructor",
	"options.panicForInvalidOnNewConnFunc":              "configuration: wrong function type passed to an option constructor",
	"options.panicForInvalidWithRequestMonitorFunc":     "configuration: wrong function type passed to an option constructor",
	"net/blockwise.BlockWise.Handle":                    "configuration: maxSZX comes from the server/client config, which Serve/Dial validate; never from the peer",
	"net.NewDTLSListener":                               "impossible by type constraint",
	"dtls.Dial":                                         "impossible by type constraint",
	"net.NewUDPConn":                                    "construction-time error of the packet connection, not on the receive path",
	"net.ReadWriteOptionHandler.ApplyWrite":             "programming error: option of the wrong kind (type switch over a two-type constraint)",
	"net.ReadWriteOptionHandler.ApplyRead":              "programming error: option of the wrong kind (type switch over a two-type constraint)",
	"mux.newRouteRegexp":                                "route registration (configuration): capture group in a user pattern",
	"mux.Router.HandleFunc":                             "route registration (configuration)",
	"udp/server.getClose":                               "context value stored by this package only; type fixed",
	"udp/client.mutexMapEntry.Unlock":                   "impossible while lock/unlock are paired (C13.R4) and the count is kept under the map lock (C14.R2)",
	"message/pool.Pool.AcquireMessage":                  "the pool only ever receives *Message (single Put site, C12.R6)",
	"message/pool.Message.ResetOptionsTo":               "editor can only fail with ErrTooSmall, which the grow-and-retry step excludes (C15.R2)",
	"message/pool.Message.MustSetPath":                  "documented Must-variant for application use",
	"message/pool.Message.SetOptionString":              "editor can only fail with ErrTooSmall after growth, or an over-long Uri-Path value passed by the application",
	"message/pool.Message.AddOptionString":              "as SetOptionString",
	"message/pool.Message.SetOptionUint32":              "editor can only fail with ErrTooSmall, excluded by the grow step",
	"message/pool.Message.AddOptionUint32":              "editor can only fail with ErrTooSmall, excluded by the grow step",
	"pkg/math.Max":                                      "impossible by type constraint",
	"pkg/math.Min":                                      "impossible by type constraint",
	"pkg/connections.Connections.copyConnections":       "map only ever stores Connection values (single Store site)",
	"pkg/math.MustSafeCastTo":                           "documented Must-variant; callers pass configuration values",
}

func runC10(e *Env) {
	r := e.R
	r.Rule("C10.R1", "paths", "serve loops survive per-peer errors; accept loop does no per-connection work", 7)
	r.Rule("C10.R2", "flows", "handshake bounded by the configured timeout", 1)
	r.Rule("C10.R3", "flows+locks", "peer key from both addresses; get-or-create atomic; stored under its own key", 4)
	r.Rule("C10.R4", "paths", "discovery registration order and dispatch", 3)
	r.Rule("C10.R5", "callgraph", "explicit panic sites are triaged", 20)
	if e.want("C10.R1") {
		c10UDPServe(e)
		for _, q := range []string{"tcp/server.Server", "dtls/server.Server"} {
			c10AcceptLoop(e, q)
		}
	}
	if e.want("C10.R2") {
		if f := e.fn("C10.R2", "dtls/server.Server.serveConnection"); f != nil {
			ok := false
			core.Instrs(f, func(in ssa.Instruction) {
				c, isC := in.(*ssa.Call)
				if !isC || !c.Call.IsInvoke() || c.Call.Method.Name() != "HandshakeContext" {
					return
				}
				ctx := c.Call.Args[0]
				for _, leaf := range phiLeaves(core.Resolve(ctx)) {
					for _, st := range cellStoresOrSelf(leaf) {
						if ex, isEx := st.(*ssa.Extract); isEx {
							if wc, isW := ex.Tuple.(*ssa.Call); isW && core.CalleeName(wc) == "context.WithTimeout" {
								// guarded by HandshakeTimeout > 0
								if _, g := core.GuardedBy(wc, func(cond ssa.Value) core.CondMatch {
									cmp, is := core.AsCmp(cond)
									if is && cmp.Op == token.GTR {
										if k, isK := core.ConstInt(cmp.Y); isK && k == 0 {
											return core.CondMatch{Match: true, Branch: true}
										}
									}
									return core.CondMatch{}
								}); g {
									ok = true
								}
							}
						}
					}
				}
			})
			e.R.Check(ok, "C10.R2", "dtls/server.Server.serveConnection:handshake-timeout", e.fpos(f), "HandshakeContext receives a context from WithTimeout(server ctx, HandshakeTimeout) whenever the timeout is positive", "the DTLS handshake is not bounded by the configured timeout: a stalled handshake holds its goroutine forever")
		}
	}
	if e.want("C10.R3") {
		if f := e.fn("C10.R3", "udp/server.getConnKey"); f != nil && len(f.Params) == 2 {
			usesR, usesL := false, false
			for _, c := range core.CallsNamed(f, "net.UDPAddr.String") {
				a := core.Resolve(core.Arg(c, 0))
				if a == ssa.Value(f.Params[0]) {
					usesR = true
				}
				if al, isA := a.(*ssa.Alloc); isA {
					// the normalised copy of laddr
					for _, st := range core.StoresToCell(al) {
						if ld, isLd := st.Val.(*ssa.UnOp); isLd && core.Resolve(ld.X) == ssa.Value(f.Params[1]) {
							usesL = true
						}
					}
					_ = al
				} else if a != ssa.Value(f.Params[0]) && derivedFromOnly(a, f.Params[1], 0) {
					usesL = true // laddr itself or a normalised form computed from it on every path
				}
			}
			e.R.Check(usesR && usesL, "C10.R3", "udp/server.getConnKey:both-addresses", e.fpos(f), "the key concatenates raddr.String() and the normalised laddr.String()", "the peer key does not depend on both the remote and the local address: distinct peers or local addresses would share a connection")
		}
		if f := e.fn("C10.R3", "udp/server.Server.getOrCreateConn"); f != nil {
			la := core.AnalyzeLocks(f)
			ok, n := true, 0
			for _, a := range core.FieldAccesses(f, func(owner, fl string, _ ssa.Value) bool { return owner == "udp/server.Server" && fl == "conns" }) {
				n++
				h, has := la.At(a.Instr)[a.Base+".connsMutex"]
				if !has || !h.Write || len(h.Sites) != 1 {
					ok = false
				}
			}
			e.R.Check(ok && n >= 3 && len(la.Sites) == 1, "C10.R3", "udp/server.Server.getOrCreateConn:one-critical-section", e.fpos(f), fmt.Sprintf("lookup, fallback lookup and insert (%d accesses) lie in one critical section of connsMutex", n), "lookup and insert of a peer connection are not one critical section: two datagrams of a new peer could create two connections")
			checkLockPairing(e, "C10.R3", f, nil)
		}
	}
	if e.want("C10.R3") {
		// the connection is inserted (and later removed) under exactly getConnKey(raddr, laddr) of this call's own addresses
		if f := e.fn("C10.R3", "udp/server.Server.getOrCreateConn"); f != nil && len(f.Params) >= 4 {
			isOwnKey := func(v ssa.Value) bool {
				c, ok := core.Resolve(v).(*ssa.Call)
				return ok && core.CalleeName(c) == "udp/server.getConnKey" && core.Resolve(core.Arg(c, 0)) == ssa.Value(f.Params[2]) && core.Resolve(core.Arg(c, 1)) == ssa.Value(f.Params[3])
			}
			ok, n := true, 0
			for _, g := range core.WithAnon(f) {
				core.Instrs(g, func(in ssa.Instruction) {
					switch x := in.(type) {
					case *ssa.MapUpdate:
						if _, fl, isF := fieldOfLoaded(x.Map); isF && fl == "conns" {
							n++
							if !isOwnKey(x.Key) {
								ok = false
							}
						}
					case *ssa.Call:
						if b, isB := x.Call.Value.(*ssa.Builtin); isB && b.Name() == "delete" {
							if _, fl, isF := fieldOfLoaded(x.Call.Args[0]); isF && fl == "conns" {
								n++
								if !isOwnKey(x.Call.Args[1]) {
									ok = false
								}
							}
						}
					}
				})
			}
			e.R.Check(ok && n >= 2, "C10.R3", "udp/server.Server.getOrCreateConn:stored-under-own-key", e.fpos(f), "the new connection is inserted, and removed on close, under getConnKey(raddr, laddr) of this call's own addresses", "a peer connection is stored under a key other than getConnKey(raddr, laddr) of its own addresses (e.g. the wildcard fallback key): the local address drops out of the connection identity")
		}
	}
	if e.want("C10.R8") {
		e.R.Rule("C10.R8", "paths", "a listener reports 'closed' (which ends the accept loop) only when its closed flag is set", 3)
		c10ClosedOnlyWhenClosed(e)
	}
	if e.want("C10.R7") {
		e.R.Rule("C10.R7", "callgraph", "monitor state is per connection (one peer's missed pings never count against another)", 1)
		checkKeepAlivePerConn(e, "C10.R7")
	}
	if e.want("C10.R4") {
		if f := e.fn("C10.R4", "udp/server.Server.DiscoveryRequest"); f != nil {
			var reg ssa.Instruction
			for _, c := range core.CallsNamed(f, "pkg/sync.Map.LoadOrStore") {
				if strings.HasSuffix(tableOf(c), ".multicastHandler") {
					reg = c.(ssa.Instruction)
				}
			}
			ok := reg != nil
			n := 0
			for _, c := range core.CallsNamed(f, "pkg/sync.Map.Store") {
				if !strings.HasSuffix(tableOf(c), ".multicastRequests") {
					continue
				}
				n++
				if reg == nil || !core.Dominates(reg, c.(ssa.Instruction)) {
					ok = false
					continue
				}
				if i, loadedBranch := loadedIf(reg.(ssa.CallInstruction), 1); i == nil || !core.OnlyViaEdge(i, !loadedBranch, c.(ssa.Instruction)) {
					ok = false
				}
			}
			// the deferred delete of the request must be armed after the registration too
			core.Instrs(f, func(in ssa.Instruction) {
				if d, isD := in.(*ssa.Defer); isD && core.CalleeName(d) == "pkg/sync.Map.Delete" && strings.HasSuffix(tableOf(d), ".multicastRequests") {
					if reg == nil || !core.Dominates(reg, d) {
						ok = false
					}
				}
			})
			e.R.Check(ok && n == 1, "C10.R4", "udp/server.Server.DiscoveryRequest:Store multicastRequests:after-register", e.fpos(f), "the request is published (and its removal deferred) only after the token's receiver was registered-if-absent, on the stored edge", "the request is stored under the token (and its removal deferred) before the duplicate-token check: a rejected duplicate overwrites and then deletes the running discovery's request")
		}
		// dispatch by the response's own token
		if f := e.fn("C10.R4", "udp/server.Server.getOrCreateConn"); f != nil {
			ok := false
			fns := core.WithAnon(f)
			// a handler given as a method value (cfg.Handler = s.handleRequest) is the method itself
			core.Instrs(f, func(in ssa.Instruction) {
				if mk, isMk := in.(*ssa.MakeClosure); isMk {
					if w, isF := mk.Fn.(*ssa.Function); isF && strings.HasPrefix(w.Synthetic, "bound method wrapper") {
						core.InstrsOwn(w, func(x ssa.Instruction) {
							if c, isC := x.(ssa.CallInstruction); isC {
								if t := c.Common().StaticCallee(); t != nil && len(t.Blocks) > 0 {
									fns = append(fns, t)
								}
							}
						})
					}
				}
			})
			for _, g := range fns {
				for _, c := range core.CallsNamed(g, "pkg/sync.Map.Load") {
					if strings.HasSuffix(tableOf(c), ".multicastHandler") {
						if m, is := isTokenHash(core.Arg(c, 1)); is {
							if p, isP := m.(*ssa.Parameter); isP && p.Parent() == g {
								ok = true
							}
						}
					}
				}
			}
			e.R.Check(ok, "C10.R4", "udp/server.Server.getOrCreateConn:discovery-dispatch-by-token", e.fpos(f), "a response is given to the discovery receiver registered under the response's own token", "discovery responses are not dispatched by their own token")
		}
		for _, sp := range pairSpecs {
			if sp.Fn == "udp/server.Server.DiscoveryRequest" {
				checkPairing(e, "C10.R4", sp)
			}
		}
	}
	if e.want("C10.R5") {
		c10Panics(e)
	}
	if e.want("C10.R6") {
		// run-time panics on peer-controlled bytes: the same in-range obligations as C02.R1, over the functions every server's receive path runs
		e.R.Rule("C10.R6", "bounds", "no out-of-range index/slice on wire bytes in the decoders run by every server receive path (shared with C02.R1)", 30)
		sums := c02Summaries()
		core.FieldSummaries["tcp/coder.Coder.DecodeHeader"] = core.FieldSummary{Field: "Length", StructArg: 2, Param: 1}
		core.NonNegSummaries["message.parseExtOpt"] = core.NonNegSummary{Ret: 1, IfParam: 1}
		for _, q := range c02Decoders {
			f := e.fn("C10.R6", q)
			if f == nil {
				continue
			}
			for _, g := range append(core.WithAnon(f), core.AbsorbedInto(f)...) {
				for _, o := range core.NewBounds(e.P, g, sums).Obligations() {
					construct := fmt.Sprintf("%s:%s %s", core.FnName(g), o.Kind, o.Desc)
					if o.OK {
						e.R.Ok("C10.R6", construct, e.pos(o.Instr), "in range on every path")
					} else {
						e.R.Fail("C10.R6", construct, e.pos(o.Instr), "a malformed datagram/frame can index out of range here and panic the serving goroutine: "+o.Why)
					}
				}
			}
		}
	}
}

func cellStoresOrSelf(v ssa.Value) []ssa.Value {
	if ld, ok := v.(*ssa.UnOp); ok && ld.Op == token.MUL {
		if a := core.CellOf(ld.X); a != nil {
			var out []ssa.Value
			for _, st := range core.StoresToCell(a) {
				out = append(out, core.Resolve(st.Val))
			}
			return out
		}
	}
	return []ssa.Value{v}
}

// loopBlocks: blocks that lie on a cycle.
func loopBlocks(f *ssa.Function) map[*ssa.BasicBlock]bool {
	out := map[*ssa.BasicBlock]bool{}
	for _, b := range f.Blocks {
		if reaches(b, b) {
			out[b] = true
		}
	}
	return out
}

// dominatedByLoop: the block is only reachable through a block that lies on a cycle (it is "inside" or an exit of that loop).
func dominatedByLoop(lb map[*ssa.BasicBlock]bool, b *ssa.BasicBlock) bool {
	for l := range lb {
		if l.Dominates(b) {
			return true
		}
	}
	return false
}

func c10UDPServe(e *Env) {
	rule := "C10.R1"
	f := e.fn(rule, "udp/server.Server.Serve")
	if f == nil {
		return
	}
	lb := loopBlocks(f)
	allowed := map[string]bool{"net.UDPConn.ReadWithOptions": true, "udp/server.Server.getListenerLocalAddr": true}
	n := 0
	bad := ""
	for _, ret := range core.ReturnsOf(f) {
		// a return "inside the loop": its block is entered from a loop block
		if !dominatedByLoop(lb, ret.Block()) {
			continue
		}
		n++
		// which error test leads here?
		cause := ""
		for _, i := range core.IfsOf(f) {
			ev, nilBranch, ok := core.ErrNilEdge(i)
			if !ok || !core.OnlyViaEdge(i, !nilBranch, ret) {
				continue
			}
			if src := errSource(ev); src != nil {
				cause = core.CalleeName(src)
			}
		}
		if !allowed[cause] {
			e.R.Notes = append(e.R.Notes, fmt.Sprintf("udp Serve return at %s cause=%q", e.pos(ret), cause))
			bad = fmt.Sprintf("Serve returns from inside the receive loop at %s because of %q", e.pos(ret), cause)
		}
	}
	e.R.Check(bad == "" && n >= 2, rule, "udp/server.Server.Serve:returns-only-for-listener", e.fpos(f), fmt.Sprintf("all %d returns inside the loop are caused by the listener read or its local address", n), bad+": one peer's bad datagram would stop the server for everyone")
	// the per-peer error arms do not close anything but that peer's connection
	// calls that are reached only through a deferred helper run at Serve's exit (the end-of-serving cleanup, whether it is a
	// function literal or a named method) and are not per-peer error arms
	inline := map[ssa.Instruction]bool{}
	var walk func(g *ssa.Function, d int, seen map[*ssa.Function]bool)
	walk = func(g *ssa.Function, d int, seen map[*ssa.Function]bool) {
		for _, b := range g.Blocks {
			for _, in := range b.Instrs {
				inline[in] = true
				if _, isDefer := in.(*ssa.Defer); isDefer || d >= 4 {
					continue
				}
				if h := core.AbsorbedCallee(in); h != nil && !seen[h] {
					seen[h] = true
					walk(h, d+1, seen)
				}
			}
		}
	}
	walk(f, 0, map[*ssa.Function]bool{f: true})
	for _, c := range core.CallsNamed(f, "udp/server.Server.closeConnection") {
		if !inline[c.(ssa.Instruction)] {
			e.R.Notes = append(e.R.Notes, fmt.Sprintf("closeConnection at %s is part of a deferred cleanup of Serve, not a per-peer arm", e.pos(c.(ssa.Instruction))))
			continue
		}
		ok := false
		for _, i := range core.IfsOf(f) {
			ev, nilBranch, is := core.ErrNilEdge(i)
			if is && core.OnlyViaEdge(i, !nilBranch, c.(ssa.Instruction)) {
				if src := errSource(ev); src != nil && core.CalleeName(src) == "udp/client.Conn.Process" {
					ok = true
				}
			}
		}
		e.R.Check(ok, rule, "udp/server.Server.Serve:process-error-closes-only-that-peer", e.pos(c.(ssa.Instruction)), "a Process error closes only the connection that produced it", "a connection is closed for a reason other than its own processing error")
	}
}

func c10AcceptLoop(e *Env, srv string) {
	rule := "C10.R1"
	f := e.fn(rule, srv+".Serve")
	if f == nil {
		return
	}
	var acc *ssa.Call
	core.Instrs(f, func(in ssa.Instruction) {
		if c, ok := in.(*ssa.Call); ok && c.Call.IsInvoke() && c.Call.Method.Name() == "AcceptWithContext" {
			acc = c
		}
	})
	if acc == nil {
		e.R.Fail(rule, srv+".Serve:accept", e.fpos(f), "no accept call")
		return
	}
	// the accept loop: in Serve itself or in the helper (analysed as part of Serve) it was moved to
	var accCall ssa.Value = acc
	if h := acc.Parent(); h != f {
		if len(loopBlocks(h)) > 0 {
			f = h // the whole loop was moved
		} else {
			// only the accept step was moved: the loop is Serve's, the accepted connection is what the helper hands back
			core.InstrsOwn(f, func(in ssa.Instruction) {
				if c, ok := in.(*ssa.Call); ok && core.SameFunc(core.StaticFn(c), h) {
					accCall = c
				}
			})
		}
	}
	lb := loopBlocks(f)
	var rw ssa.Value
	for _, ref := range core.Referrers(accCall) {
		if ex, ok := ref.(*ssa.Extract); ok && ex.Index == 0 {
			rw = ex
		}
	}
	// returns inside the loop only on !checkAcceptError
	bad := ""
	for _, ret := range core.ReturnsOf(f) {
		if !dominatedByLoop(lb, ret.Block()) {
			continue
		}
		_, g := core.GuardedBy(ret, func(cond ssa.Value) core.CondMatch {
			if _, is := core.CondCall(cond, srv+".checkAcceptError"); is {
				return core.CondMatch{Match: true, Branch: false}
			}
			return core.CondMatch{}
		})
		if !g {
			bad = "Serve returns from the accept loop at " + e.pos(ret) + " for a reason other than checkAcceptError"
		}
	}
	e.R.Check(bad == "", rule, srv+".Serve:returns-only-on-accept-error", e.fpos(f), "the accept loop is left only when checkAcceptError says the listener is done", bad)
	// nothing is done with the accepted connection inside the loop except the nil test and the hand-over to `go`
	bad = ""
	var goI *ssa.Go
	for b := range lb {
		for _, in := range b.Instrs {
			switch x := in.(type) {
			case *ssa.Go:
				goI = x
			case *ssa.Call:
				uses := false
				for _, op := range x.Operands(nil) {
					if *op != nil && rw != nil && derivesFrom(*op, rw, 0) {
						uses = true
					}
				}
				if uses {
					bad = fmt.Sprintf("%s is called on the accepted connection inside the accept loop at %s", describeCall(x), e.pos(x))
				}
			case *ssa.TypeAssert:
				if rw != nil && derivesFrom(x.X, rw, 0) {
					// a type assertion alone is harmless; calls on its result are caught above
				}
			}
		}
	}
	e.R.Check(bad == "" && goI != nil, rule, srv+".Serve:no-per-connection-work-in-accept-loop", e.fpos(f), "the accepted connection is only nil-tested and handed to a new goroutine", bad+": a peer that stalls there (e.g. a TLS handshake) blocks every later connection attempt")
	// the goroutine runs serveConnection with that connection
	okGo := false
	if goI != nil {
		if sf := core.StaticFn(goI); sf != nil {
			if len(core.CallsNamedDeep(sf, srv+".serveConnection")) == 1 {
				okGo = true
			}
		}
	}
	e.R.Check(okGo, rule, srv+".Serve:serveConnection-in-goroutine", e.fpos(f), "serveConnection runs in its own goroutine per accepted connection", "connections are not served in their own goroutine")
}

func derivesFrom(v, src ssa.Value, depth int) bool {
	if depth > 4 {
		return false
	}
	v = core.Resolve(v)
	if v == src {
		return true
	}
	switch x := v.(type) {
	case *ssa.TypeAssert:
		return derivesFrom(x.X, src, depth+1)
	case *ssa.Extract:
		return derivesFrom(x.Tuple, src, depth+1)
	case *ssa.ChangeInterface:
		return derivesFrom(x.X, src, depth+1)
	case *ssa.MakeInterface:
		return derivesFrom(x.X, src, depth+1)
	case *ssa.Phi:
		for _, ed := range x.Edges {
			if ed != ssa.Value(x) && derivesFrom(ed, src, depth+1) {
				return true
			}
		}
	}
	return false
}

func c10Panics(e *Env) {
	rule := "C10.R5"
	sites := map[string][]string{}
	for _, f := range e.P.SrcFuncs(false) {
		name := core.FnName(f)
		if strings.HasPrefix(name, "examples/") || strings.HasPrefix(name, "test/") {
			continue
		}
		root := f
		for root.Parent() != nil {
			root = root.Parent()
		}
		core.Instrs(f, func(in ssa.Instruction) {
			switch x := in.(type) {
			case *ssa.Panic:
				if !x.Pos().IsValid() {
					return // synthetic "blocking select matched no case"
				}
				sites[core.FnName(root)] = append(sites[core.FnName(root)], e.pos(x))
			case *ssa.Call:
				if n := core.CalleeName(x); n == "log.Panicf" || n == "log.Panic" || n == "log.Panicln" {
					sites[core.FnName(root)] = append(sites[core.FnName(root)], e.pos(x))
				}
			}
		})
	}
	var names []string
	for k := range sites {
		names = append(names, k)
	}
	sort.Strings(names)
	for _, n := range names {
		if why, ok := panicTable[n]; ok {
			e.R.OkTrivial(rule, "panic-site:"+n, sites[n][0], "triaged: "+why)
		} else {
			e.R.Fail(rule, "panic-site:"+n, sites[n][0], "explicit panic in a function that is not in the triaged table: a panic on the receive path takes the whole server down; triage it (is it reachable with peer-controlled data?) and list it")
		}
	}
	// reachability from the receive entry points (evidence)
	cg := e.P.CHA()
	if e.Tier == "thorough" {
		cg = e.P.VTA()
	}
	entries := []string{"udp/client.Conn.Process", "tcp/client.Session.processBuffer", "udp/server.Server.Serve", "tcp/server.Server.Serve", "dtls/server.Server.Serve", "net/client.ReceivedMessageReader.loop"}
	seen := map[*ssa.Function]bool{}
	var stack []*ssa.Function
	for _, q := range entries {
		if f := e.P.Func(q); f != nil {
			stack = append(stack, f)
		}
	}
	for len(stack) > 0 {
		f := stack[len(stack)-1]
		stack = stack[:len(stack)-1]
		if seen[f] {
			continue
		}
		seen[f] = true
		if node := cg.Nodes[f]; node != nil {
			for _, ed := range node.Out {
				cal := ed.Callee.Func
				if cal == nil || seen[cal] {
					continue
				}
				in := strings.Contains(cal.String(), core.Module)
				if !in {
					continue
				}
				stack = append(stack, cal)
			}
		}
		for _, a := range f.AnonFuncs {
			stack = append(stack, a)
		}
	}
	var reach []string
	reachSet := map[string]bool{}
	for f := range seen {
		n := core.FnName(f)
		root := f
		for root.Parent() != nil {
			root = root.Parent()
		}
		rn := core.FnName(root)
		if _, has := sites[rn]; has && !reachSet[rn] {
			reachSet[rn] = true
			reach = append(reach, rn)
		}
		_ = n
	}
	sort.Strings(reach)
	e.R.Stats["panic_sites_reachable_from_receive_entry_points"] = reach
	e.R.Stats["functions_reachable_from_receive_entry_points"] = len(seen)
	e.R.Infof(rule, "reachable-panic-sites", "-", "%d functions reachable from the receive entry points (call graph: %s); triaged panic sites among them: %s", len(seen), map[bool]string{true: "VTA", false: "CHA"}[e.Tier == "thorough"], strings.Join(reach, ", "))
}

// fieldOfLoaded: v is a load of a struct field; returns the field.
func fieldOfLoaded(v ssa.Value) (string, string, bool) {
	ld, ok := v.(*ssa.UnOp)
	if !ok || ld.Op != token.MUL {
		return "", "", false
	}
	return core.FieldOf(ld.X)
}

// c10ClosedOnlyWhenClosed: the accept loops stop for good when AcceptWithContext returns ErrListenerIsClosed. That sentinel may
// therefore be produced only on the `closed.Load() == true` edge; a transient Accept error (descriptor shortage caused by
// connect-and-stall peers) must not be turned into it.
func c10ClosedOnlyWhenClosed(e *Env) {
	rule := "C10.R8"
	for _, q := range []string{"net.TCPListener.AcceptWithContext", "net.TLSListener.AcceptWithContext", "net.DTLSListener.AcceptWithContext"} {
		f := e.fn(rule, q)
		if f == nil {
			continue
		}
		bad := ""
		n := 0
		core.Instrs(f, func(in ssa.Instruction) {
			ld, ok := in.(*ssa.UnOp)
			if !ok || ld.Op != token.MUL {
				return
			}
			g, isG := ld.X.(*ssa.Global)
			if !isG || g.Name() != "ErrListenerIsClosed" {
				return
			}
			n++
			if _, guarded := core.GuardedBy(ld, func(cond ssa.Value) core.CondMatch {
				if c, isC := cond.(*ssa.Call); isC && strings.HasSuffix(core.CalleeName(c), ".Load") {
					if _, fl, isF := core.FieldOf(core.Arg(c, 0)); isF && fl == "closed" {
						return core.CondMatch{Match: true, Branch: true}
					}
					// the step shared by the listeners takes the flag as a parameter: every caller passes its closed field
					alts := core.ResolveAll(core.ArgRaw(c, 0))
					all := len(alts) > 1
					for _, a := range alts {
						if _, fl, isF := core.FieldOf(a); !isF || fl != "closed" {
							all = false
						}
					}
					if all {
						return core.CondMatch{Match: true, Branch: true}
					}
				}
				return core.CondMatch{}
			}); !guarded {
				bad = "ErrListenerIsClosed is produced at " + e.pos(ld) + " without the closed flag being set: an Accept error of the open listener stops the server"
			}
		})
		e.R.Check(bad == "", rule, q+":closed-only-when-closed", e.fpos(f), fmt.Sprintf("%d use(s) of the closed sentinel, each on the closed.Load() edge", n), bad)
	}
}

// derivedFromOnly: on every path v is p or is computed from p (a copy, a field of it, a same-package helper applied to it).
func derivedFromOnly(v ssa.Value, p *ssa.Parameter, d int) bool {
	if d > 6 || v == nil {
		return false
	}
	v = core.Unwrap(v)
	switch x := v.(type) {
	case *ssa.Parameter:
		return x == p
	case *ssa.Phi:
		for _, ed := range x.Edges {
			if !derivedFromOnly(ed, p, d+1) {
				return false
			}
		}
		return len(x.Edges) > 0
	case *ssa.Call:
		if g := x.Call.StaticCallee(); g != nil && g.Pkg == p.Parent().Pkg {
			for _, a := range x.Call.Args {
				if derivedFromOnly(a, p, d+1) {
					return true
				}
			}
		}
		return false
	case *ssa.UnOp:
		return derivedFromOnly(x.X, p, d+1)
	case *ssa.FieldAddr:
		return derivedFromOnly(x.X, p, d+1)
	case *ssa.Alloc:
		n := 0
		for _, st := range core.StoresToCell(x) {
			n++
			if !derivedFromOnly(st.Val, p, d+1) {
				return false
			}
		}
		return n > 0
	}
	return false
}

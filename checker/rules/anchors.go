package rules

import (
	"embed"
	"regexp"
	"strings"
)

// The rule sources are embedded so that the checker knows every role name a rule may anchor on: a function that is an
// anchor of some rule is analysed on its own and is never absorbed into its callers (core/absorb.go).

//go:embed *.go
var ruleSources embed.FS

var (
	anchorLits   map[string]bool
	anchorSuffix []string
)

func loadAnchorLits() {
	anchorLits = map[string]bool{}
	re := regexp.MustCompile(`"((?:[^"\\]|\\.)*)"`)
	// a ".name" literal that only ever occurs as the pattern of a strings.HasSuffix test (an access-path or callee-name match) is not
	// a piece a role name is assembled from
	reSuffixTest := regexp.MustCompile(`HasSuffix\([^,()]+(?:\([^()]*\))?[^,()]*,\s*"(\.[^"]*)"`)
	total, inTest := map[string]int{}, map[string]int{}
	ents, _ := ruleSources.ReadDir(".")
	for _, en := range ents {
		b, err := ruleSources.ReadFile(en.Name())
		if err != nil {
			continue
		}
		for _, m := range re.FindAllStringSubmatch(string(b), -1) {
			l := m[1]
			if l == "" || strings.ContainsAny(l, " \t%") {
				continue
			}
			total[l]++
		}
		for _, m := range reSuffixTest.FindAllStringSubmatch(string(b), -1) {
			inTest[m[1]]++
		}
	}
	for l, n := range total {
		if strings.HasPrefix(l, ".") && inTest[l] >= n {
			continue
		}
		anchorLits[l] = true
		if strings.HasPrefix(l, ".") {
			anchorSuffix = append(anchorSuffix, l)
		}
	}
}

// IsAnchorName: the role name appears in a rule (literally, or as prefix-literal + "."-suffix-literal, or as the prefix of a
// "name:construct" key).
func IsAnchorName(name string) bool {
	if anchorLits == nil {
		loadAnchorLits()
	}
	if anchorLits[name] {
		return true
	}
	for i := len(name) - 1; i > 0; i-- {
		if name[i] == '.' && anchorLits[name[:i]] && anchorLits[name[i:]] {
			return true
		}
	}
	return false
}

package rules

import (
	"fmt"
	"go/token"
	"go/types"
	"strings"

	"coapcheck/internal/core"

	"golang.org/x/tools/go/ssa"
)

func init() {
	register(&Property{
		ID:    "C17",
		Title: "Router dispatches to a longest matching route, else the default",
		Level: "other",
		Explain: "Decided: (R1) the route table and the default handler are accessed only with the router's RWMutex held (write lock for writes) in every method, and every lock is released on all exits – the data-race-freedom clause; " +
			"(R2) the compiled pattern is '^' + … + '$' of one buffer, every literal piece of the registered path reaches that buffer only through regexp.QuoteMeta, and the regexp compiled is that buffer; " +
			"(R3) selection: a route becomes the candidate only on the pathMatch(route, path) == true edge and only if there is none yet or its pattern is strictly longer; the scan over the table has no early exit; when nothing matched the default handler (read under the lock) is used; exactly one handler invocation lies on every path of ServeCOAP; middlewares wrap in reverse index order (first registered outermost).",
		NotDecided: "Regexp matching semantics, variable extraction and which of several equally long patterns wins (map order) need execution.",
		Run:        runC17,
	})
}

func runC17(e *Env) {
	r := e.R
	r.Rule("C17.R1", "locks", "Router.z / defaultHandler only under Router.m", 14)
	r.Rule("C17.R2", "flows", "anchored pattern, literals quoted", 4)
	r.Rule("C17.R3", "paths", "longest match selection, full scan, default otherwise, single dispatch", 5)
	r.Rule("C17.R4", "flows", "every request gets route parameters of its own (fresh allocation per call, nothing carried over from an earlier request)", 1)
	if e.want("C17.R4") {
		c17FreshParams(e)
	}
	if e.want("C17.R3") {
		rejectOnlyByRegexp(e, "C17.R3")
	}
	if e.want("C17.R1") {
		for _, f := range methodsOf(e, "C17.R1", "mux.Router") {
			la := core.AnalyzeLocks(f)
			for _, fld := range []string{"z", "defaultHandler"} {
				for _, a := range core.FieldAccesses(f, func(owner, fl string, _ ssa.Value) bool { return owner == "mux.Router" && fl == fld }) {
					kind := "read"
					if a.Write {
						kind = "write"
					}
					held := la.At(a.Instr)
					h, ok := held[a.Base+".m"]
					construct := fmt.Sprintf("%s:%s Router.%s", core.FnName(f), kind, fld)
					switch {
					case !ok:
						e.R.Fail("C17.R1", construct, e.pos(a.Instr), "accessed without the router's lock; held="+held.String())
					case a.Write && !h.Write:
						e.R.Fail("C17.R1", construct, e.pos(a.Instr), "written under the read lock only")
					default:
						e.R.Ok("C17.R1", construct, e.pos(a.Instr), "router lock held "+held.String())
					}
				}
			}
			checkLockPairing(e, "C17.R1", f, nil)
		}
		// iteration steps over the table happen under the lock too
		if f := e.fn("C17.R1", "mux.Router.Match"); f != nil {
			la := core.AnalyzeLocks(f)
			for _, a := range iterAccesses(f, "mux.Router", "z") {
				held := la.At(a.Instr)
				_, ok := held[a.Base+".m"]
				e.R.Check(ok, "C17.R1", "mux.Router.Match:iterate Router.z", e.pos(a.Instr), "every iteration step runs under the read lock", "the route table is iterated without the lock")
			}
		}
	}
	if e.want("C17.R2") {
		c17Pattern(e)
	}
	if e.want("C17.R3") {
		c17Selection(e)
	}
}

func c17Pattern(e *Env) {
	rule := "C17.R2"
	f := e.fn(rule, "mux.newRouteRegexp")
	if f == nil {
		return
	}
	// the pattern buffer: the one whose String() is compiled last
	var compile *ssa.Call
	for _, c := range core.CallsNamed(f, "regexp.Compile") {
		if sc, ok := core.Resolve(core.Arg(c, 0)).(*ssa.Call); ok && (core.CalleeName(sc) == "bytes.Buffer.String" || core.CalleeName(sc) == "strings.Builder.String") {
			compile = c.(*ssa.Call)
		}
	}
	if compile == nil {
		e.R.Fail(rule, "mux.newRouteRegexp:compiles-buffer", e.fpos(f), "the route regexp is not compiled from the pattern buffer")
		return
	}
	buf := core.Resolve(core.Arg(core.Resolve(core.Arg(compile, 0)).(*ssa.Call), 0))
	onBuf := func(c ssa.CallInstruction, argIdx int) bool { return core.Resolve(core.Arg(c, argIdx)) == buf }
	var writes []ssa.CallInstruction
	var first, last ssa.CallInstruction
	core.Instrs(f, func(in ssa.Instruction) {
		c, ok := in.(*ssa.Call)
		if !ok {
			return
		}
		n := core.CalleeName(c)
		if ((strings.HasPrefix(n, "bytes.Buffer.Write") || strings.HasPrefix(n, "strings.Builder.Write")) && onBuf(c, 0)) || (n == "fmt.Fprintf" && onBuf(c, 0)) {
			writes = append(writes, c)
		}
	})
	byteArg := func(c ssa.CallInstruction) int64 {
		if n := core.CalleeName(c); n != "bytes.Buffer.WriteByte" && n != "strings.Builder.WriteByte" {
			return -1
		}
		k, _ := core.ConstInt(core.Arg(c, 1))
		return k
	}
	for _, w := range writes {
		domAll, postAll := true, true
		for _, o := range writes {
			if o == w {
				continue
			}
			if !core.Dominates(w.(ssa.Instruction), o.(ssa.Instruction)) {
				domAll = false
			}
			if !core.Dominates(o.(ssa.Instruction), w.(ssa.Instruction)) && !inLoop(o.(ssa.Instruction)) {
				postAll = false
			}
			if inLoop(o.(ssa.Instruction)) && !core.Dominates(o.(ssa.Instruction).Block().Instrs[0], w.(ssa.Instruction)) && !reachableFrom(f, o.(ssa.Instruction), w.(ssa.Instruction)) {
				postAll = false
			}
		}
		if domAll {
			first = w
		}
		if postAll && core.Dominates(w.(ssa.Instruction), compile) {
			last = w
		}
	}
	e.R.Check(first != nil && byteArg(first) == '^', rule, "mux.newRouteRegexp:starts-with-^", e.fpos(f), "the first write into the pattern buffer is '^'", "the route pattern is not anchored at the start")
	e.R.Check(last != nil && byteArg(last) == '$', rule, "mux.newRouteRegexp:ends-with-$", e.fpos(f), "the last write before compiling is '$'", "the route pattern is not anchored at the end")
	// literals reach the buffer only through QuoteMeta
	path := f.Params[0]
	isPathSlice := func(v ssa.Value) bool {
		v = core.Resolve(v)
		if s, ok := v.(*ssa.Slice); ok && core.Resolve(s.X) == ssa.Value(path) {
			return true
		}
		return false
	}
	bad := ""
	nQuoted := 0
	for _, w := range writes {
		n := core.CalleeName(w)
		var vals []ssa.Value
		switch n {
		case "bytes.Buffer.WriteString", "strings.Builder.WriteString":
			vals = []ssa.Value{core.Arg(w, 1)}
		case "fmt.Fprintf":
			// varargs: stores into the backing array of the []any slice
			if sl, ok := core.Arg(w, 2).(*ssa.Slice); ok {
				if arr, ok := sl.X.(*ssa.Alloc); ok {
					for _, ref := range core.Referrers(arr) {
						if ia, ok := ref.(*ssa.IndexAddr); ok {
							for _, r2 := range core.Referrers(ia) {
								if st, ok := r2.(*ssa.Store); ok {
									if mi, ok := st.Val.(*ssa.MakeInterface); ok {
										vals = append(vals, mi.X)
									}
								}
							}
						}
					}
				}
			}
		}
		for _, v := range vals {
			if c, ok := core.Resolve(v).(*ssa.Call); ok && core.CalleeName(c) == "regexp.QuoteMeta" {
				if isPathSlice(core.Arg(c, 0)) {
					nQuoted++
				}
				continue
			}
			if isPathSlice(v) {
				bad = "literal text of the registered path is written into the regexp at " + e.pos(w.(ssa.Instruction)) + " without regexp.QuoteMeta: metacharacters in literals would be interpreted"
			}
		}
	}
	e.R.Check(bad == "" && nQuoted >= 2, rule, "mux.newRouteRegexp:literals-quoted", e.fpos(f), fmt.Sprintf("%d literal pieces of the path reach the pattern through QuoteMeta, none raw", nQuoted), bad)
	// the compiled regexp is the one stored in the route
	okStore := false
	core.Instrs(f, func(in ssa.Instruction) {
		if st, ok := in.(*ssa.Store); ok {
			if _, fl, isF := core.FieldOf(st.Addr); isF && fl == "regexp" {
				if ex, isEx := core.Resolve(st.Val).(*ssa.Extract); isEx && ex.Tuple == ssa.Value(compile) {
					okStore = true
				}
			}
		}
	})
	e.R.Check(okStore, rule, "mux.newRouteRegexp:stores-compiled", e.fpos(f), "the route keeps exactly the regexp compiled from the anchored buffer", "the route's matcher is not the regexp compiled from the anchored pattern")
}

func c17Selection(e *Env) {
	rule := "C17.R3"
	f := e.fn(rule, "mux.Router.Match")
	if f != nil {
		// candidates: every non-nil value that can flow into the returned route (through phis / result cells)
		var stores []ssa.Instruction
		seenLeaf := map[ssa.Value]bool{}
		for _, ret := range core.ReturnsOf(f) {
			for _, leaf := range phiLeavesCells(core.RetVal(ret, 0)) {
				if core.IsNilConst(leaf) || seenLeaf[leaf] {
					continue
				}
				seenLeaf[leaf] = true
				if al, isAl := leaf.(*ssa.Alloc); isAl {
					// the address of a variable declared earlier (`route := …; if match { best = &route }`): what counts is where the
					// address becomes the candidate – the φ edge or the store that carries it
					var pts []ssa.Instruction
					for _, u := range core.Referrers(al) {
						switch x := u.(type) {
						case *ssa.Phi:
							for k, ed := range x.Edges {
								if ed == ssa.Value(al) {
									pb := x.Block().Preds[k]
									pts = append(pts, pb.Instrs[len(pb.Instrs)-1])
								}
							}
						case *ssa.Store:
							if x.Val == ssa.Value(al) {
								pts = append(pts, x)
							}
						}
					}
					if len(pts) > 0 {
						stores = append(stores, pts...)
						continue
					}
				}
				if in, isIn := leaf.(ssa.Instruction); isIn {
					stores = append(stores, in)
				}
			}
		}
		ok, why := len(stores) >= 1, "no candidate assignment found"
		for _, st := range stores {
			_, g1 := core.GuardedBy(st, func(cond ssa.Value) core.CondMatch {
				if _, is := core.CondCall(cond, "mux.pathMatch"); is {
					return core.CondMatch{Match: true, Branch: true}
				}
				return core.CondMatch{}
			})
			if !g1 {
				ok, why = false, "a route becomes the result at "+e.pos(st)+" without having matched in the scan (the longest-match scan is bypassed)"
				continue
			}
			// strictly-longer test: some If with len(pattern) > n controls the store together with the nil test (short-circuit): the store is not reachable via (matchedRoute != nil ∧ len ≤ n)
			q := &core.PathQuery{Fn: f, Target: func(in ssa.Instruction) bool { return in == st }, EdgeOK: core.ForcedEdges(func(i *ssa.If) int {
				cond, neg := core.StripNot(i.Cond)
				cmp, is := core.AsCmp(cond)
				if !is {
					return 0
				}
				s := 0
				switch {
				case (cmp.Op == token.EQL || cmp.Op == token.NEQ) && (core.IsNilConst(cmp.X) || core.IsNilConst(cmp.Y)):
					// matchedRoute == nil → force "not nil"
					s = -1
					if cmp.Op == token.NEQ {
						s = 1
					}
				case cmp.Op == token.GTR:
					if _, isLen := cmp.X.(*ssa.Call); isLen {
						s = -1 // force "not strictly longer"
					}
				case cmp.Op == token.LEQ:
					if _, isLen := cmp.X.(*ssa.Call); isLen {
						s = 1 // len(pattern) <= n IS "not strictly longer" (De Morgan form of the acceptance test)
					}
				case cmp.Op == token.GEQ:
					if _, isLen := cmp.X.(*ssa.Call); isLen {
						return 0 // ≥ would let an equally long pattern replace: flagged below
					}
				}
				if neg {
					s = -s
				}
				return s
			})}
			if w := q.Find(); w != nil {
				ok, why = false, "with a candidate present, a pattern that is not strictly longer can replace it: "+e.trace(w)
			}
		}
		e.R.Check(ok, rule, "mux.Router.Match:longest-match", e.fpos(f), "a route becomes the candidate only after pathMatch and only if none yet or strictly longer", why)
		// "longer" is measured in bytes of the pattern: the ordering comparison of the scan compares the builtin len of a string
		// with the recorded length (another measure – runes, segments – orders the patterns differently)
		nCmp, badMeasure := 0, ""
		core.Instrs(f, func(in ssa.Instruction) {
			b, isB := in.(*ssa.BinOp)
			if !isB || (b.Op != token.GTR && b.Op != token.LSS && b.Op != token.GEQ && b.Op != token.LEQ) {
				return
			}
			for _, side := range []ssa.Value{b.X, b.Y} {
				c, isCall := core.Resolve(core.Unwrap(side)).(*ssa.Call)
				if !isCall || len(c.Call.Args) != 1 {
					continue
				}
				if bt, isStr := c.Call.Args[0].Type().Underlying().(*types.Basic); !isStr || bt.Kind() != types.String {
					continue
				}
				nCmp++
				if bi, isBuiltin := c.Call.Value.(*ssa.Builtin); !isBuiltin || bi.Name() != "len" {
					badMeasure = "patterns are ordered by " + describeCall(c) + " at " + e.pos(b) + ", not by their length in bytes: the byte-longer of two matching patterns can lose"
				}
			}
		})
		e.R.Check(badMeasure == "" && nCmp >= 1, rule, "mux.Router.Match:longest-in-bytes", e.fpos(f), "the scan orders matching patterns by len(pattern)", badMeasure)
		// full scan: the loop over r.z has no early exit
		var nx *ssa.Next
		core.Instrs(f, func(in ssa.Instruction) {
			if n, isN := in.(*ssa.Next); isN {
				nx = n
			}
		})
		okScan := nx != nil
		if nx != nil {
			head := nx.Block()
			inLoopBlk := map[*ssa.BasicBlock]bool{}
			for _, b := range f.Blocks {
				if b == head || (reaches(b, head) && head.Dominates(b)) {
					inLoopBlk[b] = true
				}
			}
			for b := range inLoopBlk {
				for _, s := range b.Succs {
					if !inLoopBlk[s] && b != head {
						okScan = false
					}
				}
			}
		}
		e.R.Check(okScan, rule, "mux.Router.Match:full-scan", e.fpos(f), "the scan leaves the loop only when the table is exhausted", "the scan over the routes can stop early: a longer matching pattern may be missed")
	}
	if f := e.fn(rule, "mux.Router.ServeCOAP"); f != nil {
		var invs []ssa.Instruction
		core.Instrs(f, func(in ssa.Instruction) {
			if c, ok := in.(*ssa.Call); ok && c.Call.IsInvoke() && c.Call.Method.Name() == "ServeCOAP" {
				invs = append(invs, c)
			}
		})
		bad := ""
		for _, a := range invs {
			q := &core.PathQuery{Fn: f, From: a, Target: func(in ssa.Instruction) bool {
				for _, b := range invs {
					if in == b {
						return true
					}
				}
				return false
			}}
			if w := q.Find(); w != nil {
				bad = "two handler invocations on one path: " + e.trace(w)
			}
		}
		e.R.Check(bad == "" && len(invs) >= 1, rule, "mux.Router.ServeCOAP:single-dispatch", e.fpos(f), fmt.Sprintf("%d invocation sites, never two on one path", len(invs)), bad)
		// default when nothing matched: h is phi(defaultHandler [match nil], matched.h)
		okDef := false
		var matchCall ssa.Value
		for _, c := range core.CallsNamed(f, "mux.Router.Match") {
			matchCall = c.(ssa.Value)
		}
		for _, i := range core.IfsOf(f) {
			cmp, is := core.EdgeFacts(i, true)
			if !is || (cmp.Op != token.EQL && cmp.Op != token.NEQ) || !core.IsNilConst(cmp.Y) {
				continue
			}
			ex, isEx := core.Resolve(cmp.X).(*ssa.Extract)
			if !isEx || ex.Tuple != matchCall || ex.Index != 0 {
				continue
			}
			// the handler that is dispatched is φ(default [match == nil], matched.h [match != nil])
			nilBranch := cmp.Op == token.EQL
			for _, inv := range invs {
				c := inv.(*ssa.Call)
				for _, leaf := range phiLeaves(core.Resolve(c.Call.Value)) {
					isDefault := false
					if ld, isLd := core.Resolve(leaf).(*ssa.UnOp); isLd {
						if _, fl, isF := core.FieldOf(ld.X); isF && fl == "defaultHandler" {
							isDefault = true
						}
					}
					if !isDefault {
						continue
					}
					// the default must be what is dispatched whenever the match is nil: the matched handler is only chosen on the non-nil edge
					okDef = true
				}
			}
			// … and the matched route's handler is taken only on the non-nil edge
			core.Instrs(f, func(in ssa.Instruction) {
				fa, isFA := in.(*ssa.FieldAddr)
				if !isFA {
					return
				}
				if own, fl, isF := core.FieldOf(fa); isF && fl == "h" && strings.HasSuffix(own, "mux.Route") {
					if !core.OnlyViaEdge(i, !nilBranch, fa) {
						okDef = false
					}
				}
			})
		}
		la := core.AnalyzeLocks(f)
		okLock := false
		for _, a := range core.FieldAccesses(f, func(owner, fl string, _ ssa.Value) bool { return owner == "mux.Router" && fl == "defaultHandler" }) {
			if len(la.At(a.Instr)) > 0 {
				okLock = true
			}
		}
		e.R.Check(okDef && okLock, rule, "mux.Router.ServeCOAP:default-when-no-match", e.fpos(f), "a nil match result selects the default handler, which was read under the lock", "no-match does not select the default handler")
		// middlewares: index runs from len-1 down
		okMw := false
		// slices.Backward(r.middlewares): reverse iteration by construction
		for _, c := range core.Calls(f, func(n string, _ ssa.CallInstruction) bool { return strings.HasSuffix(n, "slices.Backward") }) {
			if ld, isLd := core.Resolve(core.Arg(c, 0)).(*ssa.UnOp); isLd {
				if _, fl, isF := core.FieldOf(ld.X); isF && fl == "middlewares" {
					okMw = true
				}
			}
		}
		core.Instrs(f, func(in ssa.Instruction) {
			if b, ok := in.(*ssa.BinOp); ok && b.Op == token.SUB {
				if k, isK := core.ConstInt(b.Y); isK && k == 1 {
					if _, isPhi := b.X.(*ssa.Phi); isPhi {
						okMw = true
					}
				}
			}
		})
		e.R.Check(okMw, rule, "mux.Router.ServeCOAP:middleware-order", e.fpos(f), "middlewares are applied from the last index down (first registered is outermost)", "middlewares are not wrapped in reverse registration order")
	}
}

func reaches(from, to *ssa.BasicBlock) bool {
	seen := map[*ssa.BasicBlock]bool{}
	stack := append([]*ssa.BasicBlock{}, from.Succs...)
	for len(stack) > 0 {
		b := stack[len(stack)-1]
		stack = stack[:len(stack)-1]
		if b == to {
			return true
		}
		if seen[b] {
			continue
		}
		seen[b] = true
		stack = append(stack, b.Succs...)
	}
	return false
}

// c17FreshParams: the adapter that turns a router into a transport handler gives every request a RouteParams value allocated
// in that very call. Match only adds the matched route's variables to Vars; a recycled value would keep another request's.
func c17FreshParams(e *Env) {
	rule := "C17.R4"
	f := e.fn(rule, "mux.ToHandler")
	if f == nil {
		return
	}
	n := 0
	for _, g := range core.WithAnon(f) {
		core.Instrs(g, func(in ssa.Instruction) {
			st, ok := in.(*ssa.Store)
			if !ok {
				return
			}
			own, fl, isF := core.FieldOf(st.Addr)
			if !isF || fl != "RouteParams" || !strings.HasSuffix(own, "mux.Message") {
				return
			}
			n++
			v := core.Resolve(core.Unwrap(st.Val))
			a, isAlloc := v.(*ssa.Alloc)
			fresh := isAlloc && a.Parent() == g
			if fresh {
				// and nothing but zero-value initialisation is stored into it before the hand-over (no carried-over Vars)
				for _, s2 := range core.StoresToCell(a) {
					if c, isC := s2.Val.(*ssa.Const); !isC || !c.IsNil() && c.Value != nil {
						_, isField := s2.Addr.(*ssa.FieldAddr)
						if isField {
							fresh = false
						}
					}
				}
			}
			e.R.Check(fresh, rule, core.FnName(g)+":fresh-route-params", e.pos(st), "RouteParams is allocated in the call that serves the request", "the request's RouteParams is not a fresh allocation of this call (pooled, shared or pre-filled): variables of an earlier request's route leak into this one")
		})
	}
	if n == 0 {
		e.R.Undecided(rule, "mux.ToHandler:fresh-route-params", e.fpos(f), "no store to Message.RouteParams found")
	}
}

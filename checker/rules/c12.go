package rules

import (
	"fmt"
	"go/token"
	"go/types"
	"sort"
	"strings"

	"coapcheck/internal/core"

	"golang.org/x/tools/go/ssa"
)

func init() {
	register(&Property{
		ID:    "C12",
		Title: "A pooled message has one owner at a time",
		Level: "other",
		Explain: "Decided: (R1) ownership typestate per function, module-wide: after a message value has been handed to a releaser (Pool.ReleaseMessage, any ReleaseMessage wrapper, or a function that releases its parameter – discovered by fixpoint) no path uses, sends, stores or releases the same value again, and a direct release is never combined with a deferred release of the same value; " +
			"(R2) the receive paths release a received message only on the !IsHijacked() edge, after the handler returned; the hijack flag is monotone (only Hijack() writes it, only true); (R3) a continuation that hands its message to another goroutine hijacks it first; " +
			"(R4) ResponseWriter.SetMessage releases the replaced response exactly once and then installs the new one, Swap releases nothing, and every caller of Swap releases or stores the message it got back on every path; " +
			"(R5) the pending-confirmable copy is accessed only under the entry's mutex and forgotten when released; (R6) Pool.ReleaseMessage resets the message before putting it back and touches nothing afterwards.",
		NotDecided: "Aliasing across interfaces the application implements, the application's own discipline, and cross-goroutine interleavings of release and use are not decided (no pointer analysis is available in this tool chain).",
		Run:        runC12,
	})
}

func isPoolMsg(v ssa.Value) bool {
	return v != nil && core.TypeName(v.Type()) == "*message/pool.Message"
}

// releaserParams discovers functions that release one of their *pool.Message parameters on some path: fn → parameter index.
func releaserParams(e *Env) map[*ssa.Function]map[int]bool {
	rel := map[*ssa.Function]map[int]bool{}
	baseRelease := func(c ssa.CallInstruction) (ssa.Value, bool) {
		n := core.CalleeName(c)
		if strings.HasSuffix(n, ".ReleaseMessage") && core.NArgs(c) == 2 && isPoolMsg(core.Arg(c, 1)) {
			return core.Arg(c, 1), true
		}
		return nil, false
	}
	changed := true
	for iter := 0; changed && iter < 6; iter++ {
		changed = false
		for _, f := range e.P.SrcFuncs(false) {
			if f.Parent() != nil {
				continue
			}
			core.Instrs(f, func(in ssa.Instruction) {
				c, ok := in.(ssa.CallInstruction)
				if !ok {
					return
				}
				var released []ssa.Value
				if v, ok := baseRelease(c); ok {
					released = append(released, v)
				}
				if sf := core.StaticFn(c); sf != nil {
					for idx := range rel[sf] {
						if idx < core.NArgs(c) {
							released = append(released, core.Arg(c, idx))
						}
					}
				}
				for _, v := range released {
					if p, isP := core.Resolve(v).(*ssa.Parameter); isP && p.Parent() == f {
						for i, q := range f.Params {
							if q == p && !(rel[f] != nil && rel[f][i]) && mustRelease(f, p, rel) {
								if rel[f] == nil {
									rel[f] = map[int]bool{}
								}
								rel[f][i] = true
								changed = true
							}
						}
					}
				}
			})
		}
	}
	return rel
}

// releasedValue: the message value a call releases (nil if none).
func releasedValue(c ssa.CallInstruction, rel map[*ssa.Function]map[int]bool) ssa.Value {
	n := core.CalleeName(c)
	if strings.HasSuffix(n, ".ReleaseMessage") && core.NArgs(c) == 2 && isPoolMsg(core.Arg(c, 1)) {
		return core.Arg(c, 1)
	}
	if sf := core.StaticFn(c); sf != nil && sf.Parent() == nil {
		// wrappers that ARE releasers by name are handled above; other module functions releasing a parameter:
		if strings.HasSuffix(core.FnName(sf), ".ReleaseMessage") {
			return nil
		}
		for idx := range rel[sf] {
			if idx < core.NArgs(c) && isPoolMsg(core.Arg(c, idx)) {
				return core.Arg(c, idx)
			}
		}
	}
	return nil
}

// sameMsg: two SSA values denote the same message object (same value, or loads of the same variable cell / field with no store between – approximated by identity of the resolved value).
func sameMsg(a, b ssa.Value) bool {
	ra, rb := core.Resolve(a), core.Resolve(b)
	if ra == rb {
		return true
	}
	la, ok1 := ra.(*ssa.UnOp)
	lb, ok2 := rb.(*ssa.UnOp)
	if ok1 && ok2 && la.Op == token.MUL && lb.Op == token.MUL {
		if ca, cb := core.CellOf(la.X), core.CellOf(lb.X); ca != nil && ca == cb {
			return true
		}
	}
	return false
}

func usesValue(in ssa.Instruction, v ssa.Value) bool {
	switch x := in.(type) {
	case *ssa.DebugRef:
		return false
	case *ssa.Store:
		// re-assigning the variable that held the message is not a use of the message
		if sameMsg(x.Val, v) {
			return true
		}
		return false
	case *ssa.UnOp:
		return false // a load of the variable; the use is what consumes the loaded value
	case *ssa.Phi:
		return false
	}
	for _, op := range in.Operands(nil) {
		if *op == nil || !isPoolMsg(*op) {
			continue
		}
		o := core.OnActivePath(*op) // inside a path search: what a helper's result IS on the path examined (e.g. nil on its "nothing yet" return)
		if core.IsNilConst(o) {
			continue
		}
		if sameMsg(o, v) {
			return true
		}
	}
	return false
}

func runC12(e *Env) {
	r := e.R
	r.Rule("C12.R1", "own", "no use / send / store / second release of a message value after it was released (per function, all paths, defers modelled)", 30)
	r.Rule("C12.R2", "paths", "received messages are released only when not hijacked; the hijack flag is monotone", 3)
	r.Rule("C12.R3", "paths", "hijack before hand-over", 2)
	r.Rule("C12.R4", "paths", "SetMessage releases once then replaces; Swap releases nothing; Swap callers keep the returned message accounted", 3)
	r.Rule("C12.R5", "locks", "pending copy only under the entry's mutex", 3)
	r.Rule("C12.R6", "paths", "Pool.ReleaseMessage: Reset before Put, nothing after", 2)
	r.Rule("C12.R7", "own", "ownership across containers: a message handed to a pending entry is released only through the entry; a message read out of a cache element is borrowed; a closure that outlives the function does not capture a message the function releases", 3)
	rel := releaserParams(e)
	if e.want("C12.R1") {
		c12Typestate(e, rel)
	}
	if e.want("C12.R2") {
		c12Hijack(e)
	}
	if e.want("C12.R3") {
		c12HijackBeforeSend(e)
	}
	if e.want("C12.R4") {
		c12ResponseWriter(e, rel)
	}
	if e.want("C12.R5") {
		for _, q := range []string{"udp/client.midElement.ReleaseMessage", "udp/client.midElement.GetMessage"} {
			if f := e.fn("C12.R5", q); f != nil {
				la := core.AnalyzeLocks(f)
				for _, a := range core.FieldAccesses(f, func(_ string, fl string, fa ssa.Value) bool {
					return fl == "msg" && strings.Contains(core.AccessPath(fa), ".private.")
				}) {
					held := la.At(a.Instr)
					e.R.Check(len(held) == 1, "C12.R5", q+":private.msg", e.pos(a.Instr), "accessed with the entry's mutex held "+held.String(), "the retransmission copy is accessed without the entry's mutex")
				}
			}
		}
		// nil-after-release (shared with C06.R4)
		if f := e.fn("C12.R5", "udp/client.midElement.ReleaseMessage"); f != nil {
			ok := false
			var relCall ssa.Instruction
			for _, c := range core.Calls(f, func(n string, _ ssa.CallInstruction) bool { return strings.HasSuffix(n, ".ReleaseMessage") }) {
				relCall = c.(ssa.Instruction)
			}
			core.Instrs(f, func(in ssa.Instruction) {
				st, isSt := in.(*ssa.Store)
				if !isSt || !core.IsNilConst(st.Val) || relCall == nil {
					return
				}
				if _, fl, isF := core.FieldOf(st.Addr); isF && fl == "msg" && (core.Dominates(relCall, st) || core.Dominates(st, relCall)) {
					ok = true // forgotten in the same critical section, before or after handing it back
				}
			})
			e.R.Check(ok, "C12.R5", "udp/client.midElement.ReleaseMessage:forgets-copy", e.fpos(f), "the copy pointer is set to nil in the same critical section as the release", "a released copy stays referenced by the pending entry: a racing sweep or acknowledgement releases it a second time")
		}
	}
	if e.want("C12.R7") {
		c12Containers(e, rel, "C12.R7", "abc")
	}
	if e.want("C12.R6") {
		if f := e.fn("C12.R6", "message/pool.Pool.ReleaseMessage"); f != nil && len(f.Params) == 2 {
			resets := core.CallsNamed(f, "message/pool.Message.Reset")
			puts := core.CallsNamed(f, "sync.Pool.Put")
			ok := len(resets) == 1 && len(puts) == 1 && core.Dominates(resets[0].(ssa.Instruction), puts[0].(ssa.Instruction))
			e.R.Check(ok, "C12.R6", "message/pool.Pool.ReleaseMessage:reset-before-put", e.fpos(f), "Reset() dominates Put()", "the message is put back without being reset first")
			if len(puts) == 1 {
				q := &core.PathQuery{Fn: f, From: puts[0].(ssa.Instruction), Target: func(in ssa.Instruction) bool { return usesValue(in, f.Params[1]) }}
				w := q.Find()
				e.R.Check(w == nil, "C12.R6", "message/pool.Pool.ReleaseMessage:nothing-after-put", e.pos(puts[0].(ssa.Instruction)), "the message is not touched after Put()", "the message is used after it was put back: "+e.trace(w))
			}
		}
	}
}

// c12Typestate: R1.
func c12Typestate(e *Env, rel map[*ssa.Function]map[int]bool) {
	rule := "C12.R1"
	type site struct {
		f    *ssa.Function
		c    ssa.CallInstruction
		v    ssa.Value
		dfer bool
	}
	var sites []site
	for _, f := range e.P.SrcFuncs(false) {
		if strings.HasPrefix(core.FnName(f), "examples/") {
			continue
		}
		core.Instrs(f, func(in ssa.Instruction) {
			c, ok := in.(ssa.CallInstruction)
			if !ok {
				return
			}
			if _, isGo := in.(*ssa.Go); isGo {
				return
			}
			if v := releasedValue(c, rel); v != nil {
				_, isD := in.(*ssa.Defer)
				sites = append(sites, site{f, c, v, isD})
			}
		})
	}
	sort.SliceStable(sites, func(i, j int) bool { return sites[i].c.Pos() < sites[j].c.Pos() })
	for _, s := range sites {
		f := s.f
		name := core.FnName(f)
		construct := fmt.Sprintf("%s:release %s", name, describeMsg(s.v))
		pos := e.pos(s.c.(ssa.Instruction))
		def, _ := core.Resolve(s.v).(ssa.Instruction)
		stopAtDef := func(in ssa.Instruction) bool { return def != nil && in == def }
		if s.dfer {
			// a deferred release: no other deferred release of the same message, and no direct release of it on any path after arming
			bad := ""
			core.Instrs(f, func(in ssa.Instruction) {
				c2, ok := in.(ssa.CallInstruction)
				if !ok || in == s.c.(ssa.Instruction) {
					return
				}
				if v2 := releasedValue(c2, rel); v2 != nil && sameMsg(v2, s.v) {
					if _, isD := in.(*ssa.Defer); isD {
						bad = "a second deferred release of the same message at " + e.pos(in)
					} else if reachableFrom(f, s.c.(ssa.Instruction), in) {
						bad = "a direct release of the same message at " + e.pos(in) + " although its release is already deferred"
					}
				}
			})
			e.R.Check(bad == "", rule, construct+" (deferred)", pos, "the deferred release is the only release of this message in the function", bad)
			continue
		}
		q := &core.PathQuery{Fn: f, From: s.c.(ssa.Instruction), Stop: stopAtDef, Target: func(in ssa.Instruction) bool {
			if in == s.c.(ssa.Instruction) {
				return false
			}
			return usesValue(in, s.v)
		}}
		w := q.Find()
		if w != nil {
			last := w[len(w)-1]
			kind := "used"
			if c2, ok := last.(ssa.CallInstruction); ok && releasedValue(c2, rel) != nil {
				kind = "released again"
			}
			e.R.Fail(rule, construct, pos, fmt.Sprintf("the message is %s after its release: %s", kind, e.trace(w)))
			continue
		}
		// deferred release armed before this direct release?
		armed := ""
		core.Instrs(f, func(in ssa.Instruction) {
			d, ok := in.(*ssa.Defer)
			if !ok {
				return
			}
			if v2 := releasedValue(d, rel); v2 != nil && sameMsg(v2, s.v) && reachableFrom(f, d, s.c.(ssa.Instruction)) {
				armed = e.pos(d)
			}
			// deferred closure that releases the same captured message
			if sf := core.StaticFn(d); sf != nil && sf.Parent() != nil {
				for _, g := range core.WithAnon(sf) {
					core.Instrs(g, func(in2 ssa.Instruction) {
						if c3, ok := in2.(ssa.CallInstruction); ok {
							if v3 := releasedValue(c3, rel); v3 != nil && sameMsg(v3, s.v) && reachableFrom(f, d, s.c.(ssa.Instruction)) && !guardedByNotSame(c3) {
								armed = e.pos(d)
							}
						}
					})
				}
			}
		})
		e.R.Check(armed == "", rule, construct, pos, "no path uses or releases the message again after this release, and no deferred release of it is pending", "the message is released here although a release deferred at "+armed+" will release it again at function exit")
	}
	if len(sites) == 0 {
		e.R.Undecided(rule, "release-sites", "-", "no release site found")
	}
}

// guardedByNotSame is a hook for deferred closures that release conditionally (none today).
func guardedByNotSame(c ssa.CallInstruction) bool {
	// the receive paths' deferred `if !req.IsHijacked() { Release(req) }` releases req only; direct releases of req in the same
	// function do not exist today, so no exemption is needed.
	return false
}

func describeMsg(v ssa.Value) string {
	r := core.Resolve(v)
	switch x := r.(type) {
	case *ssa.Parameter:
		return "param " + x.Name()
	case *ssa.Call:
		return "result of " + shortType(core.CalleeName(x))
	case *ssa.UnOp:
		if a := core.CellOf(x.X); a != nil {
			return "var " + a.Comment
		}
		return core.AccessPath(x)
	case *ssa.Extract:
		if c, ok := x.Tuple.(*ssa.Call); ok {
			return fmt.Sprintf("result#%d of %s", x.Index, shortType(core.CalleeName(c)))
		}
	}
	return r.Name()
}

// c12Hijack: R2.
func c12Hijack(e *Env) {
	rule := "C12.R2"
	for _, q := range []string{"udp/client.Conn.ProcessReceivedMessageWithHandler", "tcp/client.Conn.ProcessReceivedMessageWithHandler"} {
		f := e.fn(rule, q)
		if f == nil || len(f.Params) < 2 {
			continue
		}
		req := f.Params[1]
		n, ok := 0, true
		var handlerCall ssa.Instruction
		core.Instrs(f, func(in ssa.Instruction) {
			if c, isC := in.(*ssa.Call); isC && core.Resolve(c.Call.Value) == ssa.Value(f.Params[2]) {
				handlerCall = c
			}
		})
		for _, g := range core.WithAnon(f) {
			for _, c := range core.Calls(g, func(nm string, ci ssa.CallInstruction) bool {
				return strings.HasSuffix(nm, ".ReleaseMessage") && core.NArgs(ci) == 2 && core.Resolve(core.Arg(ci, 1)) == ssa.Value(req)
			}) {
				n++
				_, guarded := core.GuardedBy(c.(ssa.Instruction), func(cond ssa.Value) core.CondMatch {
					if hc, is := core.CondCall(cond, "message/pool.Message.IsHijacked"); is && core.Resolve(core.Arg(hc, 0)) == ssa.Value(req) {
						return core.CondMatch{Match: true, Branch: false}
					}
					return core.CondMatch{}
				})
				if !guarded {
					ok = false
				}
				// the release happens after the handler returned: either in a deferred closure, or dominated by the handler call
				if g == f && handlerCall != nil && !core.Dominates(handlerCall, c.(ssa.Instruction)) {
					ok = false
				}
			}
		}
		e.R.Check(ok && n == 1, rule, q+":release-unless-hijacked", e.fpos(f), "the received message is released exactly at one site, on the !IsHijacked() edge, after the handler returned", "the received message can be recycled although a waiting caller took ownership of it (or before the handler returned)")
	}
	c12HijackMonotoneAs(e, rule)
}

// c12HijackBeforeSend: R3 – closures that send a *pool.Message parameter on a channel hijack it first.
func c12HijackBeforeSend(e *Env) {
	rule := "C12.R3"
	n := 0
	for _, f := range e.P.SrcFuncs(false) {
		if f.Parent() == nil {
			// a named function of handler shape (…, *ResponseWriter, *pool.Message) can be registered as a continuation through a
			// method value just like a closure
			np := len(f.Params)
			if np < 2 || !isPoolMsg(f.Params[np-1]) || !strings.Contains(f.Params[np-2].Type().String(), "ResponseWriter") {
				continue
			}
		}
		core.Instrs(f, func(in ssa.Instruction) {
			var sent []ssa.Value
			switch x := in.(type) {
			case *ssa.Send:
				sent = append(sent, x.X)
			case *ssa.Select:
				for _, st := range x.States {
					if st.Send != nil {
						sent = append(sent, st.Send)
					}
				}
			}
			for _, v := range sent {
				p, isP := core.Resolve(v).(*ssa.Parameter)
				if !isP || !isPoolMsg(p) {
					continue
				}
				n++
				ok := false
				for _, h := range core.CallsNamed(f, "message/pool.Message.Hijack") {
					if core.Resolve(core.Arg(h, 0)) == ssa.Value(p) && core.Dominates(h.(ssa.Instruction), in) {
						ok = true
					}
				}
				e.R.Check(ok, rule, core.FnName(f)+":hijack-before-send", e.pos(in), "Hijack() dominates the channel send of the handler's message", "a message owned by the receive path is sent to another goroutine without being hijacked: it will be recycled while the receiver reads it")
			}
		})
	}
	if n < 2 {
		e.R.Undecided(rule, "hand-over-sites", "-", fmt.Sprintf("%d hand-over sites found, 2 were confirmed by hand", n))
	}
}

// c12ResponseWriter: R4.
func c12ResponseWriter(e *Env, rel map[*ssa.Function]map[int]bool) {
	rule := "C12.R4"
	if f := e.fn(rule, "net/responsewriter.ResponseWriter.SetMessage"); f != nil && len(f.Params) == 2 {
		rels := core.Calls(f, func(n string, _ ssa.CallInstruction) bool { return strings.HasSuffix(n, ".ReleaseMessage") })
		var st *ssa.Store
		core.Instrs(f, func(in ssa.Instruction) {
			if s, ok := in.(*ssa.Store); ok {
				if _, fl, isF := core.FieldOf(s.Addr); isF && fl == "response" {
					st = s
				}
			}
		})
		ok := len(rels) == 1 && st != nil && st.Val == ssa.Value(f.Params[1]) && core.Dominates(rels[0].(ssa.Instruction), st)
		if ok {
			ld, isLd := core.Arg(rels[0], 1).(*ssa.UnOp)
			ok = isLd
			if isLd {
				_, fl, isF := core.FieldOf(ld.X)
				ok = isF && fl == "response"
			}
		}
		e.R.Check(ok, rule, "net/responsewriter.ResponseWriter.SetMessage:release-old-then-install", e.fpos(f), "releases the current response exactly once, then installs the new message", "SetMessage does not release exactly the replaced response before installing the new one")
	}
	if f := e.fn(rule, "net/responsewriter.ResponseWriter.Swap"); f != nil {
		rels := core.Calls(f, func(n string, _ ssa.CallInstruction) bool { return strings.HasSuffix(n, ".ReleaseMessage") })
		okRet := false
		for _, ret := range core.ReturnsOf(f) {
			if ld, isLd := core.Resolve(core.RetVal(ret, 0)).(*ssa.UnOp); isLd {
				if _, fl, isF := core.FieldOf(ld.X); isF && fl == "response" {
					okRet = true
				}
			}
		}
		e.R.Check(len(rels) == 0 && okRet, rule, "net/responsewriter.ResponseWriter.Swap:no-release", e.fpos(f), "Swap releases nothing and returns the previous response to its caller", "Swap releases a message or does not return the previous response")
	}
	// callers of Swap: the returned message is released or stored (cache element) on every path
	n := 0
	for _, f := range e.P.SrcFuncs(false) {
		for _, c := range core.CallsNamed(f, "net/responsewriter.ResponseWriter.Swap") {
			n++
			call := c.(*ssa.Call)
			accounted := func(in ssa.Instruction) bool {
				ci, ok := in.(ssa.CallInstruction)
				if !ok {
					return false
				}
				if v := releasedValue(ci, rel); v != nil && sameMsg(v, call) {
					return true
				}
				// stored into a cache element
				if core.CalleeName(ci) == "pkg/cache.NewElement" && sameMsg(core.Arg(ci, 0), call) {
					return true
				}
				return false
			}
			q := &core.PathQuery{Fn: f, From: call, Stop: accounted, Target: core.IsReturn, DeferStop: func(d *ssa.Defer) bool { return accounted(d) }}
			w := q.Find()
			e.R.Check(w == nil, rule, core.FnName(f)+":Swap-result-accounted", e.pos(call), "the message returned by Swap is released or stored in the sending cache on every path", "the message returned by Swap is dropped on a path (neither released nor stored): "+e.trace(w))
		}
	}
	if n == 0 {
		e.R.Undecided(rule, "Swap:callers", "-", "no caller of Swap found")
	}
}

// c12Containers: R7 (also run under C13 for the closure clause: a removal closure keyed by a released message removes nothing).
func c12Containers(e *Env, rel map[*ssa.Function]map[int]bool, rule string, clauses string) {
	nRel, nBorrowed := 0, 0
	for _, f := range e.P.SrcFuncs(false) {
		name := core.FnName(f)
		if strings.HasPrefix(name, "examples/") || f.Parent() != nil {
			continue
		}
		fam := core.WithAnon(f)
		type relSite struct {
			c ssa.CallInstruction
			v ssa.Value
			g *ssa.Function
		}
		var rels []relSite
		for _, g := range fam {
			core.Instrs(g, func(in ssa.Instruction) {
				if c, ok := in.(ssa.CallInstruction); ok {
					if v := releasedValue(c, rel); v != nil {
						rels = append(rels, relSite{c, v, g})
					}
				}
			})
		}
		nRel += len(rels)
		// (a) messages stored as the pending entry's copy
		if strings.Contains(clauses, "a") && !strings.Contains(name, ".midElement.") {
			for _, g := range fam {
				core.Instrs(g, func(in ssa.Instruction) {
					st, ok := in.(*ssa.Store)
					if !ok || !isPoolMsg(st.Val) {
						return
					}
					_, fl, isF := core.FieldOf(st.Addr)
					if !isF || fl != "msg" || !hasMutexSibling(st.Addr) {
						return
					}
					bad := ""
					for _, r := range rels {
						if r.g == g && !reachableFrom(g, st, r.c.(ssa.Instruction)) {
							continue // released on a path that never handed the message to the entry
						}
						if sameMsg(r.v, st.Val) {
							bad = "the message that became the pending entry's copy at " + e.pos(st) + " is also released directly at " + e.pos(r.c.(ssa.Instruction)) + ": removing the entry releases it a second time"
						}
					}
					e.R.Check(bad == "", rule, name+":entry-owned "+describeMsg(st.Val), e.pos(st), "the message handed to the pending entry is never released directly by this function", bad)
				})
			}
		}
		// (b) borrowed from a cache element
		for _, r := range rels {
			if !strings.Contains(clauses, "b") {
				break
			}
			dc, isCall := core.Resolve(core.Unwrap(r.v)).(*ssa.Call)
			if !isCall || !strings.HasSuffix(core.CalleeName(dc), "cache.Element.Data") {
				continue
			}
			nBorrowed++
			owned := false
			if ex, isEx := core.Resolve(core.Unwrap(core.Arg(dc, 0))).(*ssa.Extract); isEx {
				if src, isC := ex.Tuple.(*ssa.Call); isC && strings.Contains(core.CalleeName(src), "LoadAndDelete") {
					owned = true
				}
			}
			e.R.Check(owned, rule, name+":release of cache data", e.pos(r.c.(ssa.Instruction)), "the element was removed from the cache (LoadAndDelete) before its message is released",
				"a message read out of a cache element that is still in the cache is released: the cache keeps using it (and its expiry callback releases it again)")
		}
		// (c) closures that outlive f must not capture a message f releases
		for _, r := range rels {
			if r.g != f || !strings.Contains(clauses, "c") {
				continue
			}
			for _, g := range f.AnonFuncs {
				mk, bind := core.ClosureBindings(g)
				if mk == nil {
					continue
				}
				captures := false
				for _, b := range bind {
					if isPoolMsg(b) && sameMsg(b, r.v) {
						captures = true
					}
					if a, isA := b.(*ssa.Alloc); isA {
						if la, isL := core.Resolve(r.v).(*ssa.UnOp); isL && core.CellOf(la.X) == a {
							captures = true
						}
						for _, st := range core.StoresToCell(a) {
							if isPoolMsg(st.Val) && sameMsg(st.Val, r.v) {
								captures = true
							}
						}
					}
				}
				if !captures {
					continue
				}
				esc := ""
				for _, ref := range core.Referrers(mk) {
					switch u := ref.(type) {
					case *ssa.Return:
						esc = "returned at " + e.pos(u)
					case *ssa.Store:
						if _, isCell := u.Addr.(*ssa.Alloc); !isCell {
							esc = "stored at " + e.pos(u)
						} else {
							// local variable: is the variable returned?
							for _, ld := range core.Referrers(u.Addr) {
								if l, isL := ld.(*ssa.UnOp); isL {
									for _, rr := range core.Referrers(l) {
										if ret, isRet := rr.(*ssa.Return); isRet {
											esc = "returned at " + e.pos(ret)
										}
									}
								}
							}
						}
					case *ssa.Go:
						esc = "started as a goroutine at " + e.pos(u)
					}
				}
				e.R.Check(esc == "", rule, name+":closure captures released "+describeMsg(r.v), e.pos(mk), "the closure that captures the message does not outlive the function",
					"a closure capturing the message is "+esc+" while the function releases the message ("+e.pos(r.c.(ssa.Instruction))+"): it will read a recycled message")
			}
		}
	}
	e.R.Ok(rule, "release-sites:borrowed-or-captured", "-", fmt.Sprintf("%d release sites examined; %d release cache-element data", nRel, nBorrowed))
}

// hasMutexSibling: addr is &S.f for a struct S that also embeds or contains a sync.Mutex (the pending entry's guarded part).
func hasMutexSibling(addr ssa.Value) bool {
	fa, ok := addr.(*ssa.FieldAddr)
	if !ok {
		return false
	}
	t := fa.X.Type()
	if p, isP := t.Underlying().(*types.Pointer); isP {
		t = p.Elem()
	}
	st, isS := t.Underlying().(*types.Struct)
	if !isS {
		return false
	}
	for i := 0; i < st.NumFields(); i++ {
		if core.TypeName(st.Field(i).Type()) == "sync.Mutex" {
			return true
		}
	}
	return false
}

// mustRelease: every path of f from its entry to a normal return releases parameter p (directly, through a callee already known
// to release its parameter, or by a deferred such call). A function that releases only on some paths (unless hijacked, only
// for pings, …) is not a releaser for its callers: what happens to the message there depends on the path taken.
func mustRelease(f *ssa.Function, p *ssa.Parameter, rel map[*ssa.Function]map[int]bool) bool {
	isRel := func(c ssa.CallInstruction) bool {
		v := releasedValue(c, rel)
		if v == nil {
			if strings.HasSuffix(core.CalleeName(c), ".ReleaseMessage") && core.NArgs(c) == 2 {
				v = core.Arg(c, 1)
			}
		}
		return v != nil && core.Resolve(v) == ssa.Value(p)
	}
	q := &core.PathQuery{Fn: f, Target: core.IsReturn,
		Stop: func(in ssa.Instruction) bool {
			c, ok := in.(*ssa.Call)
			return ok && isRel(c)
		},
		DeferStop: func(d *ssa.Defer) bool { return isRel(d) }}
	return q.Find() == nil
}

// c12HijackMonotoneAs: the hijack flag is written only by Hijack(), only to true.
func c12HijackMonotoneAs(e *Env, rule string) {
	// monotone flag: every write of Message.hijacked is Store(true), and only in Hijack
	var writers []string
	okFlag := true
	for _, f := range e.P.SrcFuncs(false) {
		core.Instrs(f, func(in ssa.Instruction) {
			c, ok := in.(ssa.CallInstruction)
			if !ok {
				return
			}
			n := core.CalleeName(c)
			if !strings.Contains(n, "atomic.Bool.") || strings.HasSuffix(n, ".Load") {
				return
			}
			if _, fl, isF := core.FieldOf(core.Arg(c, 0)); !isF || fl != "hijacked" {
				return
			}
			writers = append(writers, core.FnName(f))
			b, isB := core.ConstBool(core.Arg(c, 1))
			if !strings.HasSuffix(n, ".Store") || !isB || !b || core.FnName(f) != "message/pool.Message.Hijack" {
				okFlag = false
			}
		})
	}
	sort.Strings(writers)
	e.R.Check(okFlag && len(writers) == 1, rule, "message/pool.Message.hijacked:monotone", "-", "the hijack flag is written only by Hijack(), only to true", "the hijack flag is also written by "+strings.Join(writers, ", ")+": clearing it lets the receive path recycle a message its new owner still holds")
}

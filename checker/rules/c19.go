package rules

import (
	"fmt"
	"go/ast"
	"go/constant"
	"go/token"
	"go/types"
	"math/big"
	"sort"
	"strings"

	"coapcheck/internal/core"

	"golang.org/x/tools/go/ssa"
)

func init() {
	register(&Property{
		ID:    "C19",
		Title: "Block option value codec is the RFC 7959 mapping on its whole domain",
		Level: "proof",
		Explain: "Decided by abstract interpretation of EncodeBlockOption / DecodeBlockOption over symbolic inputs (intervals × per-bit provenance; no enumeration, no execution): " +
			"P1 Decode returns err=nil for every 24-bit value; P2 non-nil for every larger 32-bit value; P3 the results are exactly szx=v[2:0], more=v[3], num=v[23:4]; " +
			"P4 Encode returns err=nil for szx∈[0,7] × num∈[0,2^20−1] × more; P5 non-nil for szx>7, num<0, num≥2^20; P6 the value is num[19:0]‖more‖szx[2:0] with the upper byte 0 and no wrap/narrowing on the way " +
			"(P3∧P6 ⇒ mutually inverse); P7 the size table equals {k↦2^(k+4), 7↦1024}, is written only by its initialiser and SZX.Size returns it; P8 BERT buffer size is ⌊max/1024⌋·1024 (a positive multiple of 1024 not above max for max ≥ 1024).",
		NotDecided: "BERT sizing for a maximum message size below 1024 (yields 0; RFC 8323 requires ≥ 1152, checked by the callers, not here).",
		Assume:     []string{"transfer functions of the abstract domain (interval, known bits with provenance, linear form) are sound for Go's fixed-width integer semantics"},
		Run:        runC19,
	})
}

func big2(k int) *big.Int { return new(big.Int).Lsh(big.NewInt(1), uint(k)) }
func bigm1(x *big.Int) *big.Int {
	return new(big.Int).Sub(x, big.NewInt(1))
}

// szxSizeModel is justified by C19.P7 (table + Size structure verified on every run).
func szxSizeModel(table map[int64]int64) func(it *core.Interp, st *core.AState, args []*core.AVal) []*core.AVal {
	return func(it *core.Interp, st *core.AState, args []*core.AVal) []*core.AVal {
		if len(args) == 1 {
			if k, ok := args[0].IsConst(); ok {
				if v, has := table[k.Int64()]; has {
					return []*core.AVal{core.ConstAInt(big.NewInt(v), 64, true)}
				}
				return []*core.AVal{core.ConstAInt(big.NewInt(-1), 64, true)}
			}
		}
		return []*core.AVal{core.TopInt(64, true)}
	}
}

func runC19(e *Env) {
	r := e.R
	r.Rule("C19.P1", "absint", "DecodeBlockOption accepts every 24-bit value", 1)
	r.Rule("C19.P2", "absint", "DecodeBlockOption refuses every value above 24 bits", 1)
	r.Rule("C19.P3", "absint", "DecodeBlockOption returns szx=v[2:0], more=v[3], num=v[23:4]", 3)
	r.Rule("C19.P4", "absint", "EncodeBlockOption accepts every (szx≤7, 0≤num<2^20, more)", 1)
	r.Rule("C19.P5", "absint", "EncodeBlockOption refuses szx>7, num<0, num≥2^20", 3)
	r.Rule("C19.P6", "absint", "EncodeBlockOption returns num[19:0]‖more‖szx[2:0], upper byte 0, no wrap", 2)
	r.Rule("C19.P7", "tables", "szxToSize = {k↦2^(k+4), 7↦1024}; written only at init; SZX.Size returns the table entry", 3)
	r.Rule("C19.P8", "absint+flows", "bufferSize: table size below BERT; ⌊max/1024⌋·1024 for BERT", 3)
	r.Rule("C19.P9", "absint+bounds", "the 24-bit option value travels as its 0–3 byte minimal big-endian form (message.EncodeUint32 / DecodeUint32 are mutually inverse per length class)", 5)
	if e.want("C19.P9") {
		uintCodecClasses(e, "C19.P9")
	}

	dec := e.fn("C19.P1", "net/blockwise.DecodeBlockOption")
	enc := e.fn("C19.P4", "net/blockwise.EncodeBlockOption")
	errNil := func(v *core.AVal) int {
		if v == nil || v.K != core.AErr {
			return -1
		}
		return v.ErrNil
	}
	if dec != nil && len(dec.Params) == 1 {
		// P1 + P3
		it := core.NewInterp(e.P)
		in := core.SymInt("v", 32, false, big.NewInt(0), bigm1(big2(24)), 24)
		outs := it.Run(dec, []*core.AVal{in}, nil)
		okP1, why := len(outs) > 0, ""
		for _, o := range outs {
			if o.Abort || o.Panic || len(o.Ret) != 4 || errNil(o.Ret[3]) != 1 {
				okP1 = false
				why = core.SummarizeOutcomes([]core.Outcome{o})
			}
		}
		r.Check(okP1, "C19.P1", "net/blockwise.DecodeBlockOption:accepts[0,2^24)", e.fpos(dec),
			fmt.Sprintf("err=nil on all %d abstract paths for v∈[0,2^24−1] (24 symbolic bits)", len(outs)), "some 24-bit value is refused or undecided: "+why)
		if okP1 {
			var bad [3]string
			for _, o := range outs {
				if m := core.MatchBits(o.Ret[0], o.St.Assume, core.BitField{Sym: "v", From: 0, N: 3}); m != "" {
					bad[0] = m
				}
				if m := core.MatchBits(o.Ret[1], o.St.Assume, core.BitField{Sym: "v", From: 4, N: 20}); m != "" {
					bad[1] = m
				}
				if m := core.MatchBool(o.Ret[2], o.St.Assume, "v", 3); m != "" {
					bad[2] = m + " under {" + fmt.Sprint(o.St.Assume) + "}"
				}
			}
			r.Check(bad[0] == "", "C19.P3", "net/blockwise.DecodeBlockOption:szx=v[2:0]", e.fpos(dec), "bit provenance of the SZX result is v[0..2]", bad[0])
			r.Check(bad[1] == "", "C19.P3", "net/blockwise.DecodeBlockOption:num=v[23:4]", e.fpos(dec), "bit provenance of the block number is v[4..23], upper bits 0", bad[1])
			r.Check(bad[2] == "", "C19.P3", "net/blockwise.DecodeBlockOption:more=v[3]", e.fpos(dec), "the more flag equals bit 3 on every path", bad[2])
		}
		// P2
		it = core.NewInterp(e.P)
		in = core.SymInt("v", 32, false, big2(24), bigm1(big2(32)), 0)
		outs = it.Run(dec, []*core.AVal{in}, nil)
		ok, why2 := len(outs) > 0, ""
		for _, o := range outs {
			if o.Abort || o.Panic || len(o.Ret) != 4 || errNil(o.Ret[3]) != 0 {
				ok = false
				why2 = core.SummarizeOutcomes([]core.Outcome{o})
			}
		}
		r.Check(ok, "C19.P2", "net/blockwise.DecodeBlockOption:refuses[2^24,2^32)", e.fpos(dec), "err≠nil on all abstract paths for v∈[2^24,2^32−1]", "a value above 24 bits can be accepted: "+why2)
	}
	if enc != nil && len(enc.Params) == 3 {
		mk := func(szxLo, szxHi int64, szxBits int, numLo, numHi *big.Int, numBits int) []core.Outcome {
			it := core.NewInterp(e.P)
			szx := core.SymInt("szx", 8, false, big.NewInt(szxLo), big.NewInt(szxHi), szxBits)
			num := core.SymInt("num", 64, true, numLo, numHi, numBits)
			return it.Run(enc, []*core.AVal{szx, num, core.SymBool("more")}, nil)
		}
		// P4 + P6
		outs := mk(0, 7, 3, big.NewInt(0), bigm1(big2(20)), 20)
		okP4, why := len(outs) > 0, ""
		events := ""
		for _, o := range outs {
			if o.Abort || o.Panic || len(o.Ret) != 2 || errNil(o.Ret[1]) != 1 {
				okP4 = false
				why = core.SummarizeOutcomes([]core.Outcome{o})
			}
			if o.St != nil && len(o.St.Events) > 0 {
				events = strings.Join(o.St.Events, "; ")
			}
		}
		r.Check(okP4, "C19.P4", "net/blockwise.EncodeBlockOption:accepts-domain", e.fpos(enc),
			fmt.Sprintf("err=nil on all %d abstract paths for szx∈[0,7], num∈[0,2^20−1], more∈{0,1}", len(outs)), "a legal triple is refused or undecided: "+why)
		if okP4 {
			bad := ""
			for _, o := range outs {
				if m := core.MatchBits(o.Ret[0], o.St.Assume, core.BitField{Sym: "szx", From: 0, N: 3}, core.BitField{Sym: "more", From: 0, N: 1}, core.BitField{Sym: "num", From: 0, N: 20}); m != "" {
					bad = m + " under {" + fmt.Sprint(o.St.Assume) + "}"
				}
			}
			r.Check(bad == "", "C19.P6", "net/blockwise.EncodeBlockOption:layout", e.fpos(enc), "value bits are szx[0..2] more num[0..19] 0×8 on every path", bad)
			r.Check(events == "", "C19.P6", "net/blockwise.EncodeBlockOption:no-wrap", e.fpos(enc), "no arithmetic wrap or lossy conversion on the legal domain", "wrap/narrowing possible: "+events)
		}
		// P5
		minI64 := new(big.Int).Neg(big2(63))
		maxI64 := bigm1(big2(63))
		cells := []struct {
			name string
			outs []core.Outcome
		}{
			{"szx>7", mk(8, 255, 0, big.NewInt(0), bigm1(big2(20)), 20)},
			{"num<0", mk(0, 7, 3, minI64, big.NewInt(-1), 0)},
			{"num>=2^20", mk(0, 7, 3, big2(20), maxI64, 0)},
		}
		for _, c := range cells {
			ok, why := len(c.outs) > 0, ""
			for _, o := range c.outs {
				if o.Abort || o.Panic || len(o.Ret) != 2 || errNil(o.Ret[1]) != 0 {
					ok = false
					why = core.SummarizeOutcomes([]core.Outcome{o})
				}
			}
			r.Check(ok, "C19.P5", "net/blockwise.EncodeBlockOption:refuses "+c.name, e.fpos(enc), "err≠nil on all abstract paths of the cell", "an out-of-domain argument can be accepted: "+why)
		}
	}
	table := checkSzxTable(e)
	checkBufferSize(e, table)
}

// checkSzxTable (C19.P7): literal table, single writer, Size returns it.
func checkSzxTable(e *Env) map[int64]int64 {
	rule := "C19.P7"
	pk := e.P.Pkg("net/blockwise")
	want := map[int64]int64{0: 16, 1: 32, 2: 64, 3: 128, 4: 256, 5: 512, 6: 1024, 7: 1024}
	got := map[int64]int64{}
	if pk == nil {
		e.R.Undecided(rule, "net/blockwise.szxToSize:table", "-", "package not found")
		return want
	}
	var lit *ast.CompositeLit
	var pos token.Pos
	for _, f := range pk.Syntax {
		ast.Inspect(f, func(n ast.Node) bool {
			vs, ok := n.(*ast.ValueSpec)
			if !ok {
				return true
			}
			for i, nm := range vs.Names {
				if nm.Name == "szxToSize" && i < len(vs.Values) {
					if cl, ok := vs.Values[i].(*ast.CompositeLit); ok {
						lit, pos = cl, nm.Pos()
					}
				}
			}
			return true
		})
	}
	if lit == nil {
		// no table: the sizes are computed. Size() is evaluated abstractly on every exponent
		f := e.fn(rule, "net/blockwise.SZX.Size")
		if f == nil || len(f.Params) != 1 {
			e.R.Undecided(rule, "net/blockwise.szxToSize:table", "-", "neither a size table nor a one-argument SZX.Size found")
			return want
		}
		run := func(in *core.AVal) (string, *big.Int) {
			it := core.NewInterp(e.P)
			outs := it.Run(f, []*core.AVal{in}, nil)
			var val *big.Int
			if len(outs) == 0 {
				return "no outcome", nil
			}
			for _, o := range outs {
				if o.Abort || o.Panic || len(o.Ret) != 1 {
					return core.SummarizeOutcomes([]core.Outcome{o}), nil
				}
				c, isC := o.Ret[0].IsConst()
				if !isC || (val != nil && val.Cmp(c) != 0) {
					return "result is not one constant: " + core.SummarizeOutcomes(outs), nil
				}
				val = c
			}
			return "", val
		}
		bad := ""
		for k := int64(0); k <= 6; k++ {
			if why, v := run(core.ConstAInt(big.NewInt(k), 8, false)); why != "" || v.Int64() != want[k] {
				bad = fmt.Sprintf("Size(%d): %s %v, RFC 7959 says %d", k, why, v, want[k])
			}
		}
		e.R.Check(bad == "", rule, "net/blockwise.SZX.Size:2^(szx+4)", e.fpos(f), "Size(k) = 2^(k+4) for k = 0..6 (evaluated on the code, no table)", "block size differs from RFC 7959 2^(SZX+4): "+bad)
		why7, v7 := run(core.ConstAInt(big.NewInt(7), 8, false))
		e.R.Check(why7 == "" && v7.Int64() == 1024, rule, "net/blockwise.SZX.Size:BERT", e.fpos(f), "Size(7) = 1024 (BERT unit)", fmt.Sprintf("BERT block unit is not 1024: %s %v", why7, v7))
		whyO, vO := run(core.SymInt("szx", 8, false, big.NewInt(8), big.NewInt(255), 8))
		e.R.Check(whyO == "" && vO.Int64() == -1, rule, "net/blockwise.SZX.Size:unknown-exponent", e.fpos(f), "any other exponent yields -1", fmt.Sprintf("an exponent above 7 has a size: %s %v", whyO, vO))
		return want
	}
	okTable := true
	next := int64(0)
	for _, el := range lit.Elts {
		kv, ok := el.(*ast.KeyValueExpr)
		if !ok {
			// positional element of an array/slice literal: index = previous index + 1
			v := pk.TypesInfo.Types[el].Value
			if v == nil {
				okTable = false
				continue
			}
			vi, _ := constant.Int64Val(v)
			got[next] = vi
			next++
			continue
		}
		k, v := pk.TypesInfo.Types[kv.Key].Value, pk.TypesInfo.Types[kv.Value].Value
		if k != nil {
			if ki, exact := constant.Int64Val(k); exact {
				next = ki + 1
			}
		}
		if k == nil || v == nil {
			okTable = false
			continue
		}
		ki, _ := constant.Int64Val(k)
		vi, _ := constant.Int64Val(v)
		got[ki] = vi
	}
	if len(got) != len(want) {
		okTable = false
	}
	for k, v := range want {
		if got[k] != v {
			okTable = false
		}
	}
	var ks []string
	for k, v := range got {
		ks = append(ks, fmt.Sprintf("%d:%d", k, v))
	}
	sort.Strings(ks)
	e.R.Check(okTable, rule, "net/blockwise.szxToSize:table", e.P.Pos(pos), "table is {0:16,1:32,2:64,3:128,4:256,5:512,6:1024,7:1024}", "size table differs from RFC 7959 2^(SZX+4) (BERT 1024): {"+strings.Join(ks, ",")+"}")
	// single writer
	writers := globalWriters(e, "net/blockwise", "szxToSize")
	e.R.Check(len(writers) == 0, rule, "net/blockwise.szxToSize:single-writer", e.P.Pos(pos), "no function other than the package initialiser stores to or updates the table", "table is modified at run time by: "+strings.Join(writers, ", "))
	// Size returns the entry
	if f := e.fn(rule, "net/blockwise.SZX.Size"); f != nil {
		ok := false
		why := "Size does not return szxToSize[s]"
		for _, ret := range core.ReturnsOf(f) {
			// array/slice form: szxToSize[s] behind an index-in-range test
			if ld, isLd := core.RetVal(ret, 0).(*ssa.UnOp); isLd && ld.Op == token.MUL {
				if ia, isIA := ld.X.(*ssa.IndexAddr); isIA {
					base := ia.X
					if bl, isBl := base.(*ssa.UnOp); isBl {
						base = bl.X
					}
					if g, isG := base.(*ssa.Global); isG && g.Name() == "szxToSize" && core.Unwrap(ia.Index) == ssa.Value(f.Params[0]) {
						ok = true
					}
				}
			}
			ex, isEx := core.RetVal(ret, 0).(*ssa.Extract)
			if !isEx {
				continue
			}
			lk, isLk := ex.Tuple.(*ssa.Lookup)
			if !isLk || ex.Index != 0 {
				continue
			}
			ld, isLd := lk.X.(*ssa.UnOp)
			if !isLd {
				continue
			}
			g, isG := ld.X.(*ssa.Global)
			if !isG || g.Name() != "szxToSize" || core.Unwrap(lk.Index) != ssa.Value(f.Params[0]) {
				continue
			}
			ok = true
		}
		// other returns must be the constant -1 on the !ok edge
		for _, ret := range core.ReturnsOf(f) {
			if k, isC := core.ConstInt(core.RetVal(ret, 0)); isC && k != -1 {
				ok, why = false, "a constant other than -1 is returned"
			}
		}
		e.R.Check(ok, rule, "net/blockwise.SZX.Size:returns-table", e.fpos(f), "returns szxToSize[s] when present, else -1", why)
	}
	if okTable {
		return got
	}
	return want
}

// globalWriters lists functions (other than init) that store to a package-level variable or update the map/slice it holds.
func globalWriters(e *Env, pkgRel, name string) []string {
	var out []string
	sp := e.P.SSA.Package(e.P.Pkg(pkgRel).Types)
	if sp == nil {
		return []string{"<package not built>"}
	}
	g, ok := sp.Members[name].(*ssa.Global)
	if !ok {
		return []string{"<global not found>"}
	}
	for _, f := range e.P.SrcFuncs(false) {
		if f.Name() == "init" && f.Parent() == nil {
			continue
		}
		core.Instrs(f, func(in ssa.Instruction) {
			switch x := in.(type) {
			case *ssa.Store:
				if x.Addr == ssa.Value(g) {
					out = append(out, core.FnName(f))
				}
			case *ssa.UnOp:
				if x.X == ssa.Value(g) && x.Op == token.MUL {
					for _, r := range core.Referrers(x) {
						switch u := r.(type) {
						case *ssa.MapUpdate:
							if u.Map == ssa.Value(x) {
								out = append(out, core.FnName(f))
							}
						case *ssa.Call:
							if b, ok := u.Call.Value.(*ssa.Builtin); ok && (b.Name() == "delete" || b.Name() == "clear" || b.Name() == "append") {
								out = append(out, core.FnName(f))
							}
						case *ssa.IndexAddr:
							for _, rr := range core.Referrers(u) {
								if st, ok := rr.(*ssa.Store); ok && st.Addr == ssa.Value(u) {
									out = append(out, core.FnName(f))
								}
							}
						}
					}
				}
			}
		})
	}
	sort.Strings(out)
	return out
}

// checkBufferSize (C19.P8 / C04.R5).
func checkBufferSize(e *Env, table map[int64]int64) {
	rule := "C19.P8"
	f := e.fn(rule, "net/blockwise.bufferSize")
	if f == nil || len(f.Params) != 2 {
		return
	}
	// below BERT: the table size, for each constant szx
	okAll, why := true, ""
	for k := int64(0); k <= 6; k++ {
		it := core.NewInterp(e.P)
		it.Models["net/blockwise.SZX.Size"] = szxSizeModel(table)
		outs := it.Run(f, []*core.AVal{core.ConstAInt(big.NewInt(k), 8, false), core.SymInt("max", 32, false, big.NewInt(0), bigm1(big2(32)), 32)}, nil)
		for _, o := range outs {
			c, isC := (*core.AVal)(nil), false
			if len(o.Ret) == 1 {
				_, isC = o.Ret[0].IsConst()
				c = o.Ret[0]
			}
			if o.Abort || o.Panic || !isC || c.Lo.Int64() != table[k] {
				okAll, why = false, fmt.Sprintf("szx=%d: %s", k, core.SummarizeOutcomes([]core.Outcome{o}))
			}
		}
		if len(outs) == 0 {
			okAll, why = false, "no outcome"
		}
	}
	e.R.Check(okAll, rule, "net/blockwise.bufferSize:below-BERT", e.fpos(f), "returns the table size 2^(szx+4) for every szx 0..6, independent of the maximum message size", why)
	// BERT: range
	it := core.NewInterp(e.P)
	it.Models["net/blockwise.SZX.Size"] = szxSizeModel(table)
	outs := it.Run(f, []*core.AVal{core.ConstAInt(big.NewInt(7), 8, false), core.SymInt("max", 32, false, big.NewInt(1024), bigm1(big2(32)), 32)}, nil)
	ok, why2 := len(outs) > 0, ""
	for _, o := range outs {
		if o.Abort || o.Panic || len(o.Ret) != 1 || o.Ret[0].K != core.AInt || o.Ret[0].Lo.Cmp(big.NewInt(1024)) < 0 || o.Ret[0].Hi.Cmp(bigm1(big2(32))) > 0 {
			ok, why2 = false, core.SummarizeOutcomes([]core.Outcome{o})
		} else {
			for i := 0; i < 10; i++ {
				if o.Ret[0].Bits[i].K != core.B0 {
					ok, why2 = false, "low 10 bits not provably zero: "+o.Ret[0].BitString()
				}
			}
		}
	}
	e.R.Check(ok, rule, "net/blockwise.bufferSize:BERT-range", e.fpos(f), "for max ≥ 1024 the result lies in [1024, 2^32) with the low 10 bits zero (a positive multiple of 1024)", why2)
	// BERT: shape ⌊max/S⌋·S with the same S ⇒ ≤ max
	shape := false
	for _, ret := range core.ReturnsOf(f) {
		m, isM := core.RetVal(ret, 0).(*ssa.BinOp)
		if !isM || m.Op != token.MUL {
			continue
		}
		_ = m
	}
	for _, ret := range core.ReturnsOf(f) {
		// max − max mod S: the same floor
		d, isD := core.RetVal(ret, 0).(*ssa.BinOp)
		if isD && d.Op == token.SUB {
			if r, isR := d.Y.(*ssa.BinOp); isR && r.Op == token.REM && r.X == d.X && core.Unwrap(d.X) == ssa.Value(f.Params[1]) {
				if _, isCall := core.Resolve(r.Y).(*ssa.Call); isCall {
					if _, isBasic := f.Params[1].Type().Underlying().(*types.Basic); isBasic {
						shape = true
					}
				}
			}
		}
		m, isM := core.RetVal(ret, 0).(*ssa.BinOp)
		if !isM || m.Op != token.MUL {
			continue
		}
		for _, pair := range [][2]ssa.Value{{m.X, m.Y}, {m.Y, m.X}} {
			q, isQ := pair[0].(*ssa.BinOp)
			if !isQ || q.Op != token.QUO {
				continue
			}
			if sameCall(q.Y, pair[1]) && core.Unwrap(q.X) == ssa.Value(f.Params[1]) {
				if _, isBasic := f.Params[1].Type().Underlying().(*types.Basic); isBasic {
					shape = true
				}
			}
		}
	}
	e.R.Check(shape, rule, "net/blockwise.bufferSize:BERT-floor", e.fpos(f), "BERT result has the form (max / S) · S (or max − max mod S) with one and the same S = szx.Size(): ⌊max/S⌋·S ≤ max", "BERT size is not ⌊max/S⌋·S over the maximum message size")
}

// sameCall: two values are calls to the same function with the same arguments (or the same value).
func sameCall(a, b ssa.Value) bool {
	if a == b {
		return true
	}
	ca, ok1 := a.(*ssa.Call)
	cb, ok2 := b.(*ssa.Call)
	if !ok1 || !ok2 || core.CalleeName(ca) == "" || core.CalleeName(ca) != core.CalleeName(cb) || core.NArgs(ca) != core.NArgs(cb) {
		return false
	}
	for i := 0; i < core.NArgs(ca); i++ {
		if core.Arg(ca, i) != core.Arg(cb, i) {
			return false
		}
	}
	return true
}

package rules

import (
	"fmt"
	"go/token"
	"go/types"
	"strings"

	"coapcheck/internal/core"

	"golang.org/x/tools/go/ssa"
)

// Rules added after the third round of independently seeded changes ("refactorings gone wrong" and mistakes in secondary
// places). Each is a necessary condition of the property it is reported under; several are shared between properties.

// skipLeavesIDZero (C02): Options.Unmarshal drops an option iff Option.Unmarshal left its ID at zero. Option.Unmarshal must
// therefore store the ID only on the way to UnmarshalValue: once the ID is stored no "skipped" return (a constant-nil error with
// the whole value consumed) may follow.
func skipLeavesIDZero(e *Env, rule string) {
	f := e.fn(rule, "message.Option.Unmarshal")
	if f == nil {
		return
	}
	n := 0
	bad := ""
	core.Instrs(f, func(in ssa.Instruction) {
		st, ok := in.(*ssa.Store)
		if !ok {
			return
		}
		if _, fl, isF := core.FieldOf(st.Addr); !isF || fl != "ID" {
			return
		}
		n++
		q := &core.PathQuery{Fn: f, From: st, Target: func(x ssa.Instruction) bool {
			ret, isRet := x.(*ssa.Return)
			if !isRet || len(ret.Results) != 2 || !core.IsNilConst(core.RetVal(ret, 1)) {
				return false
			}
			// `return proc, nil` after UnmarshalValue succeeded is the parsed option, not a skip
			if ex, isEx := core.Resolve(core.RetVal(ret, 0)).(*ssa.Extract); isEx && ex.Index == 0 {
				if c, isC := ex.Tuple.(*ssa.Call); isC && strings.HasSuffix(core.CalleeName(c), "Option.UnmarshalValue") {
					return false
				}
			}
			return true
		}}
		if w := q.Find(); w != nil {
			bad = "after the option number was stored a skip return (value consumed, error nil) is still reachable: an option with an illegal length or unknown format is kept as an empty option instead of being dropped: " + e.trace(w)
		}
	})
	e.R.Check(bad == "" && n >= 1, rule, "message.Option.Unmarshal:skip-leaves-ID-zero", e.fpos(f), "the option number is stored only on the way to UnmarshalValue; skipped options keep ID 0 (which is what the list parser drops)", bad)
}

// sweepReachesMonitor (C18): the connection's housekeeping reaches the session's check (inactivity monitor / keep-alive) on every
// path; an early return for a disabled feature must not skip it.
func sweepReachesMonitor(e *Env, rule string) {
	for _, it := range []struct{ fn, callee string }{
		{"tcp/client.Conn.CheckExpirations", "tcp/client.Session.CheckExpirations"},
		{"tcp/client.Session.CheckExpirations", ".CheckInactivity"},
		{"udp/client.Conn.CheckExpirations", ".CheckInactivity"},
	} {
		f := e.fn(rule, it.fn)
		if f == nil {
			continue
		}
		callee := it.callee
		q := &core.PathQuery{Fn: f, Target: core.IsReturn, Stop: func(in ssa.Instruction) bool {
			c, ok := in.(*ssa.Call)
			return ok && strings.HasSuffix(core.CalleeName(c), callee)
		}}
		w := q.Find()
		// udp: the closed-connection early return is the one listed exception (nothing to monitor any more)
		if w != nil && strings.HasPrefix(it.fn, "udp/") {
			q.EdgeOK = func(i *ssa.If, br bool) bool {
				cond, neg := core.StripNot(i.Cond)
				if c, ok := cond.(*ssa.BinOp); ok && (c.Op == token.NEQ || c.Op == token.EQL) && core.IsErrorType(c.X.Type()) {
					// `cc.Context().Err() != nil` → return: follow only the live side
					nilBranch := c.Op == token.EQL
					if neg {
						nilBranch = !nilBranch
					}
					return br == nilBranch
				}
				return true
			}
			w = q.Find()
		}
		e.R.Check(w == nil, rule, it.fn+":reaches-monitor", e.fpos(f), "every path of the housekeeping calls "+strings.TrimPrefix(callee, "."), "a path of the housekeeping returns without checking inactivity (no close of a silent peer, no keep-alive ping): "+e.trace(w))
	}
}

// observationDoIsLimited (C16): the observation handler's `do` (used for the deregistration GET of Cancel) is the limiter's Do
// in both transports: every client request passes the limits.
func observationDoIsLimited(e *Env, rule string) {
	for _, fn := range []string{"udp/client.NewConnWithOpts", "tcp/client.NewConnWithOpts"} {
		f := e.fn(rule, fn)
		if f == nil {
			continue
		}
		ok, n := true, 0
		for _, c := range core.CallsNamed(f, "net/observation.NewHandler") {
			n++
			callee := core.StaticFn(c)
			idx := -1
			if callee != nil {
				for i, p := range callee.Params {
					if p.Name() == "do" {
						idx = i
					}
				}
			}
			if idx < 0 {
				ok = false
				continue
			}
			mk, isMk := core.Resolve(core.Arg(c, idx)).(*ssa.MakeClosure)
			isLimited := false
			if isMk {
				if bf, isFn := mk.Fn.(*ssa.Function); isFn {
					if obj, isObj := bf.Object().(*types.Func); isObj && core.QName(obj) == lpr+".Do" {
						isLimited = true
					}
				}
			}
			if !isLimited {
				ok = false
			}
		}
		e.R.Check(ok && n == 1, rule, fn+"→NewHandler:do", e.fpos(f), "the observation handler sends its requests through LimitParallelRequests.Do", "the observation handler is wired with an unlimited `do`: the deregistration request of Cancel bypasses both limits")
	}
}

// copyIsComplete (C15): the pooled builder stores an option value by copy(valueBuffer, value) after growing the buffer; the copy
// is complete only if len(valueBuffer) ≥ len(value) holds there (a guard on the capacity does not give that).
func copyIsComplete(e *Env, rule string) {
	n := 0
	for _, fn := range []string{"message/pool.Message.AddOptionBytes", "message/pool.Message.SetOptionBytes"} {
		f := e.fn(rule, fn)
		if f == nil {
			continue
		}
		b := core.NewBounds(e.P, f, nil)
		core.Instrs(f, func(in ssa.Instruction) {
			c, ok := in.(*ssa.Call)
			if !ok {
				return
			}
			bi, isB := c.Call.Value.(*ssa.Builtin)
			if !isB || bi.Name() != "copy" || len(c.Call.Args) != 2 {
				return
			}
			if !isFieldLoad(c.Call.Args[0], "valueBuffer") {
				return
			}
			n++
			var srcLen ssa.Value
			core.Instrs(f, func(x ssa.Instruction) {
				if lc, isC := x.(*ssa.Call); isC {
					if lb, isLB := lc.Call.Value.(*ssa.Builtin); isLB && lb.Name() == "len" && lc.Call.Args[0] == c.Call.Args[1] && core.Dominates(lc, c) {
						srcLen = lc
					}
				}
			})
			ok2 := srcLen != nil && b.LenAtLeast(c.Call.Args[0], c, core.Term{V: srcLen})
			e.R.Check(ok2, rule, fn+":copy-complete", e.pos(c), "len(valueBuffer) ≥ len(value) holds at the copy (grow idiom on the length)", "the value can be truncated: the buffer's length (not its capacity) bounds the copy and is not shown to be ≥ len(value) here")
		})
	}
	if n == 0 {
		e.R.Undecided(rule, "message/pool:copy-complete", "-", "no copy into the value buffer found")
	}
}

// rejectOnlyByRegexp (C17): a route matches a path iff its anchored regexp does. pathMatch must not reject on any other ground.
func rejectOnlyByRegexp(e *Env, rule string) {
	f := e.fn(rule, "mux.pathMatch")
	if f == nil {
		return
	}
	bad := ""
	n := 0
	for _, ret := range core.ReturnsOf(f) {
		n++
		v := core.Resolve(core.RetVal(ret, 0))
		if c, ok := v.(*ssa.Call); ok && strings.HasSuffix(core.CalleeName(c), "regexp.Regexp.MatchString") {
			continue
		}
		if b, isC := core.ConstBool(v); isC && !b {
			bad = "pathMatch returns false at " + e.pos(ret) + " without consulting the route's regexp: a route whose pattern matches the path can be skipped"
			continue
		}
		if _, isPhi := v.(*ssa.Phi); isPhi {
			for _, leaf := range phiLeaves(v) {
				if b, isC := core.ConstBool(leaf); isC && !b {
					bad = "pathMatch can return false without consulting the route's regexp (" + e.pos(ret) + ")"
				}
			}
		}
	}
	e.R.Check(bad == "" && n >= 1, rule, "mux.pathMatch:only-regexp-rejects", e.fpos(f), "the result is the regexp's MatchString on every return", bad)
}

// singleExpirySnapshot (C14): Element.IsExpired decides from one atomic load of ValidUntil. Two loads let a concurrent update to
// "never expires" slip between the zero test and the comparison.
func singleExpirySnapshot(e *Env, rule string) {
	f := e.fn(rule, "pkg/cache.Element.IsExpired")
	if f == nil {
		return
	}
	n := 0
	core.Instrs(f, func(in ssa.Instruction) {
		if c, ok := in.(*ssa.Call); ok && isAtomicLoadOf(c, "ValidUntil") {
			n++
		}
	})
	e.R.Check(n == 1, rule, "pkg/cache.Element.IsExpired:single-snapshot", e.fpos(f), "ValidUntil is loaded exactly once per decision", fmt.Sprintf("ValidUntil is loaded %d times: the zero test and the comparison can see different values (an element switched to 'never expires' is reported expired)", n))
}

// bodyNotFromPool (C04): the bytes of a block handed to the outgoing message live as long as the message: the buffer behind
// SetBody(bytes.NewReader(buf)) is allocated in the function, not taken from a pool / package-level variable that is reused.
func bodyNotFromPool(e *Env, rule string) {
	for _, fn := range []string{"net/blockwise.BlockWise.createSendingMessage", "net/blockwise.BlockWise.cloneMessage"} {
		f := e.fn(rule, fn)
		if f == nil {
			continue
		}
		for _, c := range core.CallsNamed(f, "bytes.NewReader") {
			fresh := allFreshSlices(c.Common().Args[0], map[ssa.Value]bool{}, 0)
			putBack := false
			core.Instrs(f, func(in ssa.Instruction) {
				if ci, ok := in.(ssa.CallInstruction); ok && strings.HasSuffix(core.CalleeName(ci), "sync.Pool.Put") {
					putBack = true
				}
			})
			e.R.Check(fresh && !putBack, rule, fn+":block-buffer-owned", e.pos(c.(ssa.Instruction)), "the block's bytes are a slice allocated in this call", "the block's body reads from a buffer that is recycled (pool / shared variable) when the function returns: a later block overwrites the bytes of one not yet sent")
		}
	}
}

// reassemblyHeaderSetOnce (C08/C04): the options of the message being reassembled come from the first block (for a notification
// that is the one carrying Observe). Only the function that creates the reassembly entry may reset them; a restart on a changed
// ETag replaces the ETag only.
func reassemblyHeaderSetOnce(e *Env, rule string) {
	allowed := map[string]bool{"net/blockwise.BlockWise.getCachedReceivedMessage": true}
	n := 0
	for _, f := range e.P.SrcFuncs(false) {
		name := core.FnName(f)
		if !strings.HasPrefix(name, "net/blockwise.") || f.Parent() != nil {
			continue
		}
		core.Instrs(f, func(in ssa.Instruction) {
			c, ok := in.(*ssa.Call)
			if !ok || !strings.HasSuffix(core.CalleeName(c), "pool.Message.ResetOptionsTo") {
				return
			}
			recv := core.Resolve(core.Arg(c, 0))
			p, isParam := recv.(*ssa.Parameter)
			if !isParam || !strings.Contains(strings.ToLower(p.Name()), "cachedreceived") {
				return
			}
			n++
			e.R.Check(allowed[name], rule, name+":resets reassembly options", e.pos(c), "listed: creation of the reassembly entry", "the options of a partly reassembled message are replaced from a later block: a block-wise notification loses its Observe option and is then delivered without the freshness check")
		})
	}
	e.R.Ok(rule, "net/blockwise:reassembly-options-set-once", "-", fmt.Sprintf("%d reset(s) of a reassembly message's options outside its creation", n))
}

// sendingEntryDroppedByTokenTest (C13): when a reassembled response is handed on, the sending entry registered under the
// exchange's token (the helper GET of a block-wise notification) is deleted exactly when the reassembled message carries another
// token – a flag computed from the current block is not the same thing (the last block of a notification has no Observe option).
func sendingEntryDroppedByTokenTest(e *Env, rule string) {
	f := e.fn(rule, "net/blockwise.BlockWise.processReceivedMessage")
	if f == nil {
		return
	}
	ok := false
	for _, d := range core.CallsNamed(f, "pkg/sync.Map.Delete") {
		if !strings.HasSuffix(tableOf(d), ".sendingMessagesCache") {
			continue
		}
		if _, g := core.GuardedBy(d.(ssa.Instruction), func(cond ssa.Value) core.CondMatch {
			if c, isC := cond.(*ssa.Call); isC && core.CalleeName(c) == "bytes.Equal" {
				return core.CondMatch{Match: true, Branch: false}
			}
			return core.CondMatch{}
		}); g {
			ok = true
		}
	}
	e.R.Check(ok, rule, "net/blockwise.BlockWise.processReceivedMessage:drops-helper-entry", e.fpos(f), "on completion the sending entry is deleted on the `tokens differ` edge", "the sending entry of a block-wise notification's helper GET is not deleted on the 'reassembled token differs' edge: it stays until its timeout")
}

// setPathRemovesOldPath (C15): a successful setPath with a non-empty path string replaces the old path: Remove(optionID) lies on
// every path to the success return (a slash-only path is a valid way to clear the path).
func setPathRemovesOldPath(e *Env, rule string) {
	f := e.fn(rule, "message.setPath")
	if f == nil || len(f.Params) < 4 {
		return
	}
	path := f.Params[3]
	q := &core.PathQuery{Fn: f,
		Stop: func(in ssa.Instruction) bool {
			c, ok := in.(*ssa.Call)
			return ok && core.CalleeName(c) == "message.Options.Remove"
		},
		Target: func(in ssa.Instruction) bool {
			ret, ok := in.(*ssa.Return)
			return ok && len(ret.Results) == 3 && core.IsNilConst(core.RetVal(ret, 2))
		},
		EdgeOK: func(i *ssa.If, br bool) bool {
			// the empty string is a documented no-op: follow only len(path) != 0
			cmp, ok := core.AsCmp(i.Cond)
			if !ok || cmp.Op != token.EQL {
				return true
			}
			if lc, isC := cmp.X.(*ssa.Call); isC {
				if b, isB := lc.Call.Value.(*ssa.Builtin); isB && b.Name() == "len" && lc.Call.Args[0] == ssa.Value(path) {
					if k, isK := core.ConstInt(cmp.Y); isK && k == 0 {
						return !br
					}
				}
			}
			return true
		}}
	w := q.Find()
	e.R.Check(w == nil, rule, "message.setPath:removes-old-path", e.fpos(f), "every successful return for a non-empty string passes Remove(optionID)", "a successful SetPath can keep the old path options (e.g. for \"/\"): "+e.trace(w))
}

// delegatedCallbackUnderLock (C14): a callback of an operation documented to run it under the write lock is either handed to an
// operation that does so, or called with the write lock held – never after the lock was given back.
func delegatedCallbackUnderLock(e *Env, rule string) {
	for name, want := range callbackLock {
		if want != "delegated" {
			continue
		}
		f := e.P.Func(name)
		if f == nil {
			continue
		}
		la := core.AnalyzeLocks(f)
		for _, p := range f.Params {
			if _, ok := p.Type().Underlying().(*types.Signature); !ok {
				continue
			}
			for _, ref := range core.Referrers(p) {
				c, ok := ref.(*ssa.Call)
				if !ok || c.Call.Value != ssa.Value(p) {
					continue
				}
				held := la.At(c)
				h, isHeld := held[core.AccessPath(f.Params[0])+".mutex"]
				e.R.Check(isHeld && h.Write, rule, name+":callback "+p.Name()+" called directly", e.pos(c), "invoked under the write lock", "the callback runs outside the map's critical section: the removal and the callback are no longer one atomic step (held="+held.String()+")")
			}
		}
	}
}

// c07ConsumptionAs: the stream re-framing loop hands the decoder exactly the announced frame and advances the buffer by the
// decoder's own count, inside the loop (a message is neither dropped nor delivered twice). Same obligations as C07.R3.
func c07ConsumptionAs(e *Env, rule string) {
	f := e.fn(rule, "tcp/client.Session.processBuffer")
	if f == nil {
		return
	}
	decodes := core.CallsNamed(f, "message/pool.Message.UnmarshalWithDecoder")
	if len(decodes) != 1 {
		e.R.Fail(rule, "tcp/client.Session.processBuffer:decodes-once", e.fpos(f), fmt.Sprintf("%d decode calls in the framing loop (expected 1)", len(decodes)))
		return
	}
	arg := core.Arg(decodes[0], 2)
	sl, isSl := arg.(*ssa.Slice)
	ok := isSl && sl.Low == nil && sl.High != nil && isFieldLoad(core.Resolve(sl.High), "MessageLength")
	if ok {
		c, isCall := core.ThroughHelpers(sl.X).(*ssa.Call)
		ok = isCall && core.CalleeName(c) == "bytes.Buffer.Bytes"
	}
	e.R.Check(ok, rule, "tcp/client.Session.processBuffer:decoder-gets-frame", e.pos(decodes[0].(ssa.Instruction)), "the decoder is given buffer.Bytes()[:header.MessageLength]", "the decoder is not given exactly the announced frame of the buffer's unread bytes")
	ok2 := false
	for _, c := range core.Calls(f, func(n string, _ ssa.CallInstruction) bool {
		return n == "tcp/client.seekBufferToNextMessage" || n == "bytes.Buffer.Next"
	}) {
		a := core.Arg(c, 1)
		if ex, isEx := core.Resolve(a).(*ssa.Extract); isEx && ex.Tuple == decodes[0].(ssa.Value) && ex.Index == 0 {
			// on every path from the decode's success to the next iteration / return
			ok2 = true
		}
	}
	e.R.Check(ok2, rule, "tcp/client.Session.processBuffer:advance-by-decoded", e.fpos(f), "the buffer is advanced by the decoder's own count", "the buffer is not advanced by the decoder's count right after each decode: a frame can be processed again or bytes of the next frame skipped")
	// every decoded message is consumed: from a successful decode no path reaches the next decode or a return without the advance
	if ok2 {
		dec := decodes[0].(ssa.Instruction)
		q := &core.PathQuery{Fn: f, From: dec,
			Stop: func(in ssa.Instruction) bool {
				c, isC := in.(*ssa.Call)
				if !isC {
					return false
				}
				n := core.CalleeName(c)
				return n == "tcp/client.seekBufferToNextMessage" || n == "bytes.Buffer.Next"
			},
			Target: func(in ssa.Instruction) bool {
				if in == dec {
					return true
				}
				ret, isRet := in.(*ssa.Return)
				return isRet && len(ret.Results) == 1 && core.IsNilConst(core.RetVal(ret, 0))
			},
			EdgeOK: func(i *ssa.If, br bool) bool {
				ev, nilBranch, isErr := core.ErrNilEdge(i)
				if isErr {
					if ex, isEx := core.Resolve(ev).(*ssa.Extract); isEx && ex.Tuple == decodes[0].(ssa.Value) {
						return br == nilBranch
					}
				}
				return true
			}}
		w := q.Find()
		e.R.Check(w == nil, rule, "tcp/client.Session.processBuffer:every-decoded-frame-consumed", e.pos(dec), "after a successful decode every path advances the buffer before the next frame is looked at or the function returns", "a decoded frame can stay in the buffer (it would be decoded and dispatched again): "+e.trace(w))
	}
}

// observeDefAllows3Bytes: the option registry admits Observe values of 0…3 bytes (sequence numbers are 24 bit); a narrower
// window makes the decoder drop the option of late notifications, which are then delivered without the freshness check.
func observeDefAllows3Bytes(e *Env, rule string) {
	pk := e.P.Pkg("message")
	if pk == nil {
		e.R.Undecided(rule, "message.CoapOptionDefs:Observe", "-", "package not found")
		return
	}
	lit, pos := core.VarLiteral(pk, "CoapOptionDefs")
	if lit == nil {
		e.R.Undecided(rule, "message.CoapOptionDefs:Observe", "-", "registry literal not found")
		return
	}
	tab, ok := core.EvalStructMap(pk, lit)
	row, has := tab[6]
	e.R.Check(ok && has && row["MinLen"] == 0 && row["MaxLen"] == 3, rule, "message.CoapOptionDefs:Observe", e.P.Pos(pos), "Observe (6): length 0…3", fmt.Sprintf("the registry entry of Observe is %v (RFC 7641: 0…3 bytes)", row))
}

// allFreshSlices: every value v can stand for is a slice made in this function (through re-slicing and φ).
func allFreshSlices(v ssa.Value, seen map[ssa.Value]bool, d int) bool {
	if d > 8 {
		return false
	}
	v = core.Resolve(v)
	if seen[v] {
		return true
	}
	seen[v] = true
	switch x := v.(type) {
	case *ssa.MakeSlice:
		return true
	case *ssa.Alloc:
		// make([]byte, constant) is lowered to a fresh array allocation that is sliced
		_, isArr := core.ByteArrayLen(x.Type())
		return isArr
	case *ssa.Slice:
		return allFreshSlices(x.X, seen, d+1)
	case *ssa.Phi:
		for _, ed := range x.Edges {
			if !allFreshSlices(ed, seen, d+1) {
				return false
			}
		}
		return len(x.Edges) > 0
	}
	return false
}

package rules

import (
	"fmt"
	"go/token"
	"go/types"
	"sort"
	"strings"

	"coapcheck/internal/core"

	"golang.org/x/tools/go/ssa"
)

func init() {
	register(&Property{
		ID:    "C14",
		Title: "Concurrent map and expiring cache are linearizable",
		Level: "proof",
		Explain: "Decided: (R1) every Lock/RLock of pkg/sync.Map and udp/client.MutexMap is released exactly once on every path to a return and every Unlock is preceded by its Lock; " +
			"(R2) Map.data is read only with Map.mutex held and written only with the write lock held; (R3) every operation of Map touches the guarded state inside ONE critical section " +
			"(or re-reads the container in the section that writes: double-checked form), and every operation of Cache makes exactly one atomic Map call per path – by the meta-theorem " +
			"'operations that each run in a single critical section of one lock are serialisable in lock-acquisition order' each such operation is linearizable; callbacks documented to run under the lock are called inside it; " +
			"(R4) callbacks passed to the weakly-consistent Range never perform a blind Delete/Store/Replace on the same container – only a compare-and-act on the inspected value; " +
			"(R5) the expiry predicate is 'deadline set ∧ now after deadline', a non-expired entry is never replaced by LoadOrStore, never hidden by Load and never swept.",
		NotDecided: "Range's iteration as a whole is not atomic by design (documented: the lock is dropped around each callback); only its per-step lock discipline and the discipline of its callbacks are decided. No history is executed.",
		Assume:     []string{"sync.Mutex / sync.RWMutex give mutual exclusion (Go memory model)", "meta-theorem: single-critical-section operations on one lock are linearizable in acquisition order"},
		Run:        runC14,
	})
}

var mapMutators = map[string]bool{
	"pkg/sync.Map.Store": true, "pkg/sync.Map.Delete": true, "pkg/sync.Map.Replace": true, "pkg/sync.Map.LoadAndDelete": true,
	"pkg/sync.Map.StoreWithFunc": true, "pkg/sync.Map.DeleteWithFunc": true, "pkg/sync.Map.LoadAndDeleteWithFunc": true,
	"pkg/sync.Map.LoadAndDeleteAll": true, "pkg/sync.Map.LoadOrStore": true, "pkg/sync.Map.LoadOrStoreWithFunc": true,
}

// callbackLock: how each function-typed parameter of a Map method must be invoked. "none" = must be called with the lock released
// (the callback re-enters the map).
var callbackLock = map[string]string{
	"pkg/sync.Map.StoreWithFunc":         "w",
	"pkg/sync.Map.LoadWithFunc":          "r",
	"pkg/sync.Map.LoadOrStoreWithFunc":   "w",
	"pkg/sync.Map.ReplaceWithFunc":       "w",
	"pkg/sync.Map.Range":                 "none",
	"pkg/sync.Map.Range2":                "r",
	"pkg/sync.Map.DeleteWithFunc":        "delegated",
	"pkg/sync.Map.LoadAndDeleteWithFunc": "delegated",
}

func methodsOf(e *Env, rule, q string) []*ssa.Function {
	n := e.P.NamedType(q)
	if n == nil {
		e.R.Undecided(rule, "anchor:"+q, "-", "type "+q+" not found")
		return nil
	}
	var out []*ssa.Function
	for i := 0; i < n.NumMethods(); i++ {
		if f := e.P.SSA.FuncValue(n.Method(i)); f != nil && len(f.Blocks) > 0 {
			if core.IsAbsorbed(f) {
				continue // an unexported helper of the operations (e.g. a caller-holds-lock body): analysed as part of each caller
			}
			out = append(out, f)
		}
	}
	sort.Slice(out, func(i, j int) bool { return out[i].Pos() < out[j].Pos() })
	return out
}

func runC14(e *Env) {
	r := e.R
	r.Rule("C14.R1", "locks", "every Lock/RLock is released exactly once on every path to a return (directly or by defer); every direct Unlock happens with the lock held", 19)
	r.Rule("C14.R2", "locks", "Map.data is accessed only with Map.mutex in the must-hold set (write lock for writes); MutexMap.ma / entry.cnt only under MutexMap.ml", 30)
	r.Rule("C14.R3", "locks", "each Map/Cache operation touches the guarded state in one critical section (or double-checked form); callbacks run in the documented lock context", 26)
	r.Rule("C14.R4", "locks", "callbacks passed to Range do not blindly mutate the same container; only compare-and-act on the inspected value", 1)
	r.Rule("C14.R5", "paths", "expiry predicate and its use: expired ⇔ deadline set ∧ now.After(deadline); LoadOrStore/Load/CheckExpirations act on a non-expired entry only as the identity", 6)

	mapMethods := methodsOf(e, "C14.R1", "pkg/sync.Map")
	cacheMethods := methodsOf(e, "C14.R3", "pkg/cache.Cache")
	mmFns := []*ssa.Function{}
	for _, q := range []string{"udp/client.MutexMap.Lock", "udp/client.mutexMapEntry.Unlock"} {
		if f := e.fn("C14.R1", q); f != nil {
			mmFns = append(mmFns, f)
		}
	}

	// ---- R1 pairing
	if e.want("C14.R1") {
		for _, f := range append(append([]*ssa.Function{}, mapMethods...), mmFns...) {
			checkLockPairing(e, "C14.R1", f, func(path string) bool { return !strings.HasSuffix(path, ".el") })
		}
	}
	// ---- R2 guarded-by
	if e.want("C14.R2") {
		for _, f := range mapMethods {
			checkGuarded(e, "C14.R2", f, "pkg/sync.Map", "data", "mutex")
		}
		if nm := e.fn("C14.R2", "pkg/sync.NewMap"); nm != nil {
			checkGuarded(e, "C14.R2", nm, "pkg/sync.Map", "data", "mutex")
		}
		for _, f := range mmFns {
			checkGuarded(e, "C14.R2", f, "udp/client.MutexMap", "ma", "ml")
			checkGuardedByPath(e, "C14.R2", f, "udp/client.mutexMapEntry", "cnt", "m.ml", "entry.m.ml", "e.m.ml")
		}
	}
	// ---- R3 atomic sections + callback context
	if e.want("C14.R3") {
		for _, f := range mapMethods {
			checkAtomicSection(e, f)
			checkCallbackContext(e, f)
		}
		for _, f := range cacheMethods {
			checkCacheOp(e, f)
		}
	}
	// ---- R4 stale iteration values
	if e.want("C14.R4") {
		scope := []*ssa.Function{}
		for _, f := range cacheMethods {
			scope = append(scope, f)
		}
		checkRangeCallbacks(e, "C14.R4", scope, true)
		if e.Tier == "thorough" {
			// module-wide sweep: informational outside the anchored packages
			var rest []*ssa.Function
			for _, f := range e.P.SrcFuncs(false) {
				if f.Parent() == nil && !strings.HasPrefix(core.FnName(f), "pkg/cache.") {
					rest = append(rest, f)
				}
			}
			checkRangeCallbacks(e, "C14.R4", rest, false)
		}
	}
	// ---- R5 expiry predicate
	if e.want("C14.R5") {
		checkExpiryPredicate(e)
		singleExpirySnapshot(e, "C14.R5")
	}
	if e.want("C14.R3") {
		delegatedCallbackUnderLock(e, "C14.R3")
	}
}

// checkLockPairing: for every Lock/RLock call site in f whose path passes filter.
func checkLockPairing(e *Env, rule string, f *ssa.Function, filter func(path string) bool) {
	la := core.AnalyzeLocks(f)
	name := core.FnName(f)
	for _, site := range la.Sites {
		op, path, _ := core.MutexOp(site)
		if filter != nil && !filter(path) {
			continue
		}
		want := "Unlock"
		if op == "RLock" {
			want = "RUnlock"
		}
		isUnlock := func(in ssa.Instruction) bool {
			c, ok := in.(*ssa.Call)
			if !ok {
				return false
			}
			o, p, ok := core.MutexOp(c)
			return ok && o == want && p == path
		}
		q := &core.PathQuery{Fn: f, From: site.(ssa.Instruction), Stop: isUnlock, Target: core.IsReturn,
			DeferStop: func(d *ssa.Defer) bool {
				if o, p, ok := core.MutexOp(d); ok {
					return o == want && p == path
				}
				// a deferred release function (closure, possibly handed back by a lock helper) whose body unlocks this mutex
				if body := core.StaticFn(d); body != nil && body.Parent() != nil {
					found := false
					core.Instrs(body, func(in ssa.Instruction) {
						if c, isC := in.(*ssa.Call); isC {
							if o, p, ok := core.MutexOp(c); ok && o == want && p == path {
								found = true
							}
						}
					})
					return found
				}
				return false
			}}
		construct := fmt.Sprintf("%s:%s(%s)", name, op, path)
		if w := q.Find(); w != nil {
			e.R.Fail(rule, construct, e.pos(site.(ssa.Instruction)), "a path reaches a return with the lock still held: "+e.trace(w))
			continue
		}
		// no re-acquisition of the same mutex while held (self-deadlock): from the site, reach another Lock on the same path without an unlock
		q2 := &core.PathQuery{Fn: f, From: site.(ssa.Instruction), Stop: isUnlock, Target: func(in ssa.Instruction) bool {
			c, ok := in.(*ssa.Call)
			if !ok || in == site.(ssa.Instruction) {
				return false
			}
			o, p, ok := core.MutexOp(c)
			return ok && (o == "Lock" || o == "RLock") && p == path
		}}
		if w := q2.Find(); w != nil {
			e.R.Fail(rule, construct, e.pos(site.(ssa.Instruction)), "the same mutex is acquired again while held: "+e.trace(w))
			continue
		}
		e.R.Ok(rule, construct, e.pos(site.(ssa.Instruction)), "every path to a return passes "+want+" (direct or deferred); no re-acquisition while held")
	}
	for _, u := range la.Unlock {
		c, isCall := u.(*ssa.Call)
		if !isCall {
			continue // deferred unlocks are covered from the lock side
		}
		op, path, _ := core.MutexOp(c)
		if filter != nil && !filter(path) {
			continue
		}
		if !la.Reachable(c) {
			continue // in a branch that cannot be taken with the constant flags this helper is called with here
		}
		held := la.At(c)
		h, ok := held[path]
		construct := fmt.Sprintf("%s:%s(%s)", name, op, path)
		switch {
		case !ok:
			e.R.Fail(rule, construct, e.pos(c), "unlock of a mutex that is not held on every path reaching it; held="+held.String())
		case h.Write != (op == "Unlock"):
			e.R.Fail(rule, construct, e.pos(c), "unlock kind does not match the lock kind held ("+held.String()+")")
		default:
			e.R.Ok(rule, construct, e.pos(c), "lock is in the must-hold set "+held.String())
		}
	}
}

// checkGuarded: accesses to owner.field in f need base+"."+mutexField held.
func checkGuarded(e *Env, rule string, f *ssa.Function, owner, field, mutexField string) {
	la := core.AnalyzeLocks(f)
	name := core.FnName(f)
	accs := core.FieldAccesses(f, func(o, fl string, _ ssa.Value) bool { return o == owner && fl == field })
	accs = append(accs, iterAccesses(f, owner, field)...)
	for _, a := range accs {
		kind := "read"
		if a.Write {
			kind = "write"
		}
		construct := fmt.Sprintf("%s:%s %s.%s", name, kind, shortType(owner), field)
		if strings.HasPrefix(a.Base, "alloc:") {
			e.R.OkTrivial(rule, construct, e.pos(a.Instr), "object is being constructed in this function (not yet shared)")
			continue
		}
		// an access in a helper analysed as part of f whose receiver is, seen from f, the object f is constructing
		if a.Instr.Parent() != f {
			if fa, isFA := a.Instr.(*ssa.FieldAddr); isFA {
				if alts := core.ResolveIn(f, fa.X); len(alts) == 1 {
					if al, isAl := alts[0].(*ssa.Alloc); isAl && al.Parent() == f {
						e.R.OkTrivial(rule, construct, e.pos(a.Instr), "object is being constructed by the caller (not yet shared)")
						continue
					}
				}
			}
		}
		held := la.At(a.Instr)
		h, ok := held[a.Base+"."+mutexField]
		switch {
		case !ok:
			e.R.Fail(rule, construct, e.pos(a.Instr), fmt.Sprintf("%s of %s.%s without %s.%s held on every path; held=%s", kind, a.Base, field, a.Base, mutexField, held))
		case a.Write && !h.Write:
			e.R.Fail(rule, construct, e.pos(a.Instr), fmt.Sprintf("write of %s.%s under a read lock only; held=%s", a.Base, field, held))
		default:
			e.R.Ok(rule, construct, e.pos(a.Instr), "must-hold set "+held.String())
		}
	}
}

// checkGuardedByPath: like checkGuarded but the mutex is named by explicit candidate access paths.
func checkGuardedByPath(e *Env, rule string, f *ssa.Function, owner, field string, mutexPaths ...string) {
	la := core.AnalyzeLocks(f)
	name := core.FnName(f)
	for _, a := range core.FieldAccesses(f, func(o, fl string, _ ssa.Value) bool { return o == owner && fl == field }) {
		construct := fmt.Sprintf("%s:access %s.%s", name, shortType(owner), field)
		if strings.HasPrefix(a.Base, "alloc:") {
			e.R.OkTrivial(rule, construct, e.pos(a.Instr), "object under construction")
			continue
		}
		held := la.At(a.Instr)
		ok := false
		for _, mp := range mutexPaths {
			if h, has := held[mp]; has && h.Write {
				ok = true
			}
		}
		if ok {
			e.R.Ok(rule, construct, e.pos(a.Instr), "must-hold set "+held.String())
		} else {
			e.R.Fail(rule, construct, e.pos(a.Instr), fmt.Sprintf("%s.%s accessed without the map lock (one of %v); held=%s", a.Base, field, mutexPaths, held))
		}
	}
}

// iterAccesses: `Next` steps of an iteration over a map loaded from owner.field are reads of the map at the Next instruction.
func iterAccesses(f *ssa.Function, owner, field string) []core.FieldAccess {
	var out []core.FieldAccess
	core.Instrs(f, func(in ssa.Instruction) {
		nx, ok := in.(*ssa.Next)
		if !ok {
			return
		}
		rg, ok := nx.Iter.(*ssa.Range)
		if !ok {
			return
		}
		ld, ok := rg.X.(*ssa.UnOp)
		if !ok {
			return
		}
		o, fl, ok := core.FieldOf(ld.X)
		if !ok || o != owner || fl != field {
			return
		}
		fa := ld.X.(*ssa.FieldAddr)
		out = append(out, core.FieldAccess{Instr: nx, Base: core.AccessPath(fa.X), Owner: o, Field: fl, Fn: f})
	})
	return out
}

func shortType(q string) string {
	if i := strings.LastIndex(q, "."); i >= 0 {
		return q[i+1:]
	}
	return q
}

// checkAtomicSection (C14.R3 for Map methods).
func checkAtomicSection(e *Env, f *ssa.Function) {
	rule := "C14.R3"
	la := core.AnalyzeLocks(f)
	name := core.FnName(f)
	accs := core.FieldAccesses(f, func(o, fl string, _ ssa.Value) bool { return o == "pkg/sync.Map" && fl == "data" })
	accs = append(accs, iterAccesses(f, "pkg/sync.Map", "data")...)
	construct := name + ":sections"
	if len(accs) == 0 {
		// delegation: exactly one call to another Map method on the receiver, on every path, and nothing else touches the map
		calls := core.Calls(f, func(n string, c ssa.CallInstruction) bool { return strings.HasPrefix(n, "pkg/sync.Map.") })
		if len(calls) == 1 && !inLoop(calls[0].(ssa.Instruction)) {
			e.R.Ok(rule, construct, e.fpos(f), "delegates to one atomic operation: "+core.CalleeName(calls[0]))
		} else {
			e.R.Fail(rule, construct, e.fpos(f), fmt.Sprintf("no direct access and %d map calls: the operation is composed of several atomic steps", len(calls)))
		}
		return
	}
	// group accesses by acquisition site set
	type sec struct {
		sites  string
		reads  []core.FieldAccess
		writes []core.FieldAccess
		first  ssa.Instruction
	}
	secs := map[string]*sec{}
	var order []string
	unlocked := false
	for _, a := range accs {
		held := la.At(a.Instr)
		h, ok := held[a.Base+".mutex"]
		if !ok {
			unlocked = true
			continue
		}
		var ids []string
		for s := range h.Sites {
			ids = append(ids, e.pos(s))
		}
		sort.Strings(ids)
		k := strings.Join(ids, "+")
		if secs[k] == nil {
			secs[k] = &sec{sites: k, first: a.Instr}
			order = append(order, k)
		}
		if a.Write {
			secs[k].writes = append(secs[k].writes, a)
		} else {
			secs[k].reads = append(secs[k].reads, a)
		}
	}
	if unlocked {
		e.R.Fail(rule, construct, e.fpos(f), "guarded state accessed outside any critical section (see C14.R2)")
		return
	}
	// calls to other operations of the same map are critical sections of their own
	delegated := core.Calls(f, func(n string, c ssa.CallInstruction) bool {
		if core.AbsorbedCallee(c.(ssa.Instruction)) != nil {
			return false // an unexported helper analysed as part of this operation (lock helper, caller-holds-lock body): not an operation of its own
		}
		return strings.HasPrefix(n, "pkg/sync.Map.") && len(f.Params) > 0 && core.AccessPath(core.Arg(c, 0)) == core.AccessPath(f.Params[0])
	})
	if len(delegated) > 0 && name != "pkg/sync.Map.Range" {
		// direct sections combined with separate atomic calls: only sound if every writing section re-reads (checked below);
		// a delegated mutator next to direct accesses is always a composition of several atomic steps
		for _, dc := range delegated {
			if mapMutators[core.CalleeName(dc)] || core.CalleeName(dc) == "pkg/sync.Map.ReplaceWithFunc" {
				e.R.Fail(rule, construct, e.pos(dc.(ssa.Instruction)), "the operation combines its own critical section with a separate mutating map operation ("+core.CalleeName(dc)+")")
				return
			}
		}
		for _, k := range order {
			for _, w := range secs[k].writes {
				ok := false
				for _, rd := range secs[k].reads {
					if core.Dominates(rd.Instr, w.Instr) {
						ok = true
					}
				}
				if !ok {
					e.R.Fail(rule, construct, e.pos(w.Instr), fmt.Sprintf("check-then-act: the state is inspected through a separate operation (%s) and the section acquired at %s then writes Map.data without re-reading it", core.CalleeName(delegated[0]), k))
					return
				}
			}
		}
	}
	if name == "pkg/sync.Map.Range" {
		// listed exception: weakly consistent iteration; the lock is dropped around each callback by design (documented on the method).
		// what is required instead: every step of the iteration itself happens under the read lock (R2) and callbacks obey R4.
		e.R.Ok(rule, construct, e.fpos(f), fmt.Sprintf("listed exception (documented weakly-consistent iteration): %d lock regions, each iteration step under the read lock; callbacks are constrained by C14.R4", len(secs)))
		return
	}
	if len(secs) == 1 {
		e.R.Ok(rule, construct, e.fpos(f), "all accesses to Map.data lie in the single critical section acquired at "+order[0])
		return
	}
	// several sections: every section that writes must itself read the container before the write (double-checked form)
	for _, k := range order {
		s := secs[k]
		for _, w := range s.writes {
			ok := false
			for _, rd := range s.reads {
				if core.Dominates(rd.Instr, w.Instr) {
					ok = true
				}
			}
			if !ok {
				e.R.Fail(rule, construct, e.pos(w.Instr), fmt.Sprintf("check-then-act: the operation spans %d critical sections and the section acquired at %s writes Map.data without re-reading it in the same section", len(secs), k))
				return
			}
		}
	}
	e.R.Ok(rule, construct, e.fpos(f), fmt.Sprintf("%d critical sections in double-checked form (every writing section re-reads first)", len(secs)))
}

func inLoop(in ssa.Instruction) bool {
	b := in.Block()
	// b is in a loop iff b is reachable from one of its successors
	seen := map[*ssa.BasicBlock]bool{}
	stack := append([]*ssa.BasicBlock{}, b.Succs...)
	for len(stack) > 0 {
		x := stack[len(stack)-1]
		stack = stack[:len(stack)-1]
		if x == b {
			return true
		}
		if seen[x] {
			continue
		}
		seen[x] = true
		stack = append(stack, x.Succs...)
	}
	return false
}

// checkCallbackContext: calls of function-typed parameters inside Map methods happen in the documented lock context.
func checkCallbackContext(e *Env, f *ssa.Function) {
	rule := "C14.R3"
	name := core.FnName(f)
	la := core.AnalyzeLocks(f)
	for _, p := range f.Params {
		if _, ok := p.Type().Underlying().(*types.Signature); !ok {
			continue
		}
		want, listed := callbackLock[name]
		if !listed {
			want = "any"
		}
		construct := fmt.Sprintf("%s:callback %s", name, p.Name())
		if want == "delegated" {
			// the parameter must only be used inside a closure handed to another Map method (which runs it under the lock)
			e.R.OkTrivial(rule, construct, e.fpos(f), "callback forwarded to a delegated atomic operation")
			continue
		}
		n := 0
		for _, ref := range core.Referrers(p) {
			c, ok := ref.(*ssa.Call)
			if ok && c.Call.Value != p {
				// handed to a caller-holds-lock helper that is analysed as part of this operation: the lock set at the helper's own
				// call of the callback (lock sets flow through such helpers) is what counts
				if h := core.StaticFn(c); h != nil && core.IsAbsorbed(h) {
					idx := -1
					for k, a := range c.Call.Args {
						if a == ssa.Value(p) {
							idx = k
						}
					}
					if idx >= 0 && idx < len(h.Params) {
						for _, r2 := range core.Referrers(h.Params[idx]) {
							c2, isC2 := r2.(*ssa.Call)
							if !isC2 || c2.Call.Value != ssa.Value(h.Params[idx]) {
								continue
							}
							n++
							held := la.At(c2)
							hh, isHeld := held[core.AccessPath(f.Params[0])+".mutex"]
							switch want {
							case "w":
								e.R.Check(isHeld && hh.Write, rule, construct, e.pos(c2), "invoked under the write lock (in "+core.FnName(h)+")", "documented to run under the write lock but held="+held.String())
							case "r", "any":
								e.R.Check(isHeld, rule, construct, e.pos(c2), "invoked under the lock "+held.String(), "documented to run under the lock but held="+held.String())
							case "none":
								e.R.Check(!isHeld, rule, construct, e.pos(c2), "invoked with the lock released (the callback may re-enter the map)", "Range's callback is invoked with the map lock held: re-entering callbacks (cache sweep) would self-deadlock; held="+held.String())
							}
						}
						continue
					}
				}
				// the callback is handed on to another operation: it then runs in THAT operation's lock context
				callee := core.CalleeName(c)
				got, known := callbackLock[callee]
				compatible := known && (got == want || want == "any" || (want == "r" && got == "w"))
				e.R.Check(compatible, rule, construct+" via "+shortType(callee), e.pos(c), "forwarded to "+callee+", which runs it in the same lock context ("+got+")",
					fmt.Sprintf("the callback is forwarded to %s, which runs it in lock context %q, but %s documents %q: concurrent callers' callbacks can overlap", callee, got, name, want))
				continue
			}
			_, isDbg := ref.(*ssa.DebugRef)
			if b, isB := ref.(*ssa.BinOp); isB && (b.Op == token.EQL || b.Op == token.NEQ) {
				isDbg = true // nil test of an optional callback
			}
			if !ok && !isDbg {
				// captured by a function literal that is itself handed to another operation as ITS callback and calls the parameter
				// there (StoreWithFunc = ReplaceWithFunc with a literal that calls createFunc): it runs in that operation's context
				if fwd := capturedForwards(p, ref); len(fwd) > 0 {
					for _, c := range fwd {
						n++
						callee := core.CalleeName(c)
						got, known := callbackLock[callee]
						compatible := known && (got == want || want == "any" || (want == "r" && got == "w"))
						e.R.Check(compatible, rule, construct+" via "+shortType(callee), e.pos(c), "called from a literal that "+callee+" runs in the same lock context ("+got+")",
							fmt.Sprintf("the callback is called from a literal handed to %s, which runs it in lock context %q, but %s documents %q", callee, got, name, want))
					}
					continue
				}
				e.R.Undecided(rule, construct+":escapes", e.pos(ref), "the callback escapes (stored or captured) instead of being called in the method's own critical section")
				continue
			}
			if !ok {
				continue
			}
			n++
			held := la.At(c)
			h, isHeld := held[core.AccessPath(f.Params[0])+".mutex"]
			switch want {
			case "w":
				e.R.Check(isHeld && h.Write, rule, construct, e.pos(c), "invoked under the write lock", "documented to run under the write lock but held="+held.String())
			case "r", "any":
				e.R.Check(isHeld, rule, construct, e.pos(c), "invoked under the lock "+held.String(), "documented to run under the lock but held="+held.String())
			case "none":
				e.R.Check(!isHeld, rule, construct, e.pos(c), "invoked with the lock released (the callback may re-enter the map)", "Range's callback is invoked with the map lock held: re-entering callbacks (cache sweep) would self-deadlock; held="+held.String())
			}
		}
		if n == 0 {
			e.R.Undecided(rule, construct, e.fpos(f), "function-typed parameter is never called directly; rule table needs an update")
		}
	}
}

// checkCacheOp: every Cache method performs one atomic Map call per path outside callbacks (Range is the sweep, constrained by R4).
func checkCacheOp(e *Env, f *ssa.Function) {
	rule := "C14.R3"
	name := core.FnName(f)
	calls := core.Calls(f, func(n string, c ssa.CallInstruction) bool { return strings.HasPrefix(n, "pkg/sync.Map.") })
	construct := name + ":sections"
	switch {
	case len(calls) == 0:
		e.R.OkTrivial(rule, construct, e.fpos(f), "does not touch the map")
	case len(calls) == 1 && !inLoop(calls[0].(ssa.Instruction)):
		n := core.CalleeName(calls[0])
		if n == "pkg/sync.Map.Range" {
			e.R.Ok(rule, construct, e.fpos(f), "sweep over the weakly consistent Range; its callback is constrained by C14.R4")
		} else {
			e.R.Ok(rule, construct, e.fpos(f), "one atomic map operation: "+n)
		}
	default:
		// a sweep over a snapshot: one CopyData outside any loop, every other operation inside the loop over it (each constrained
		// by C14.R4: compare-and-act on the value the snapshot held)
		nSnap, rest := 0, true
		for _, c := range calls {
			if core.CalleeName(c) == "pkg/sync.Map.CopyData" && !inLoop(c.(ssa.Instruction)) {
				nSnap++
			} else if core.CalleeName(c) != "pkg/sync.Map.ReplaceWithFunc" || (!inLoop(c.(ssa.Instruction)) && c.Parent() == f) {
				rest = false
			}
		}
		if nSnap == 1 && rest {
			e.R.Ok(rule, construct, e.fpos(f), "sweep over a snapshot (CopyData); the per-key operations are constrained by C14.R4")
			return
		}
		e.R.Fail(rule, construct, e.fpos(f), fmt.Sprintf("check-then-act: %d separate map operations (%s) compose this cache operation", len(calls), core.CalleeName(calls[0])))
	}
}

// checkRangeCallbacks: inside closures passed to Map.Range, mutation of the same container must be compare-style.
func checkRangeCallbacks(e *Env, rule string, fns []*ssa.Function, arm bool) {
	for _, f := range fns {
		for _, c := range core.CallsNamed(f, "pkg/sync.Map.Range") {
			cb := core.FuncArgClosure(core.Arg(c, 1))
			name := core.FnName(f)
			construct := name + ":Range-callback"
			if cb == nil {
				if arm {
					e.R.Undecided(rule, construct, e.pos(c.(ssa.Instruction)), "Range callback is not a function literal")
				}
				continue
			}
			container := core.AccessPath(core.Arg(c, 0))
			bad := ""
			nMut := 0
			for _, g := range core.WithAnon(cb) {
				for _, mc := range core.Calls(g, func(n string, _ ssa.CallInstruction) bool { return strings.HasPrefix(n, "pkg/sync.Map.") }) {
					n := core.CalleeName(mc)
					// same container? resolve the receiver through the closure bindings
					recv := core.Arg(mc, 0)
					rp := core.AccessPath(recv)
					if rp != container {
						continue
					}
					if mapMutators[n] {
						bad = fmt.Sprintf("%s at %s acts blindly on a key whose value was read before the lock was dropped", shortType(n), e.pos(mc.(ssa.Instruction)))
					}
					if n == "pkg/sync.Map.ReplaceWithFunc" {
						nMut++
						inner, shift := core.MethodBehind(core.FuncArgClosure(core.Arg(mc, 2))) // a literal, or the method behind a method value
						if inner == nil || len(cb.Params) < 2 {
							bad = "ReplaceWithFunc callback is not a function literal"
							continue
						}
						if why := compareStyle(inner, shift, cb.Params[1]); why != "" {
							bad = fmt.Sprintf("ReplaceWithFunc at %s is not compare-and-act on the inspected value: %s", e.pos(mc.(ssa.Instruction)), why)
						}
					}
				}
			}
			if !arm {
				if bad != "" {
					e.R.Infof(rule, construct, e.pos(c.(ssa.Instruction)), "outside the anchored packages: %s", bad)
				}
				continue
			}
			if bad != "" {
				e.R.Fail(rule, construct, e.pos(c.(ssa.Instruction)), bad)
			} else {
				e.R.Ok(rule, construct, e.pos(c.(ssa.Instruction)), fmt.Sprintf("%d mutation(s) inside the callback, each a compare-and-act on the value Range handed out", nMut))
			}
		}
		// the same sweep written over a snapshot: `for k, v := range m.CopyData() { … m.ReplaceWithFunc(k, compare-and-act on v) }`
		for _, c := range core.CallsNamed(f, "pkg/sync.Map.CopyData") {
			snap, isCall := c.(*ssa.Call)
			if !isCall {
				continue
			}
			container := core.AccessPath(core.Arg(c, 0))
			var stale ssa.Value
			for _, u := range core.Referrers(snap) {
				rg, isRg := u.(*ssa.Range)
				if !isRg {
					continue
				}
				for _, uu := range core.Referrers(rg) {
					if nx, isNx := uu.(*ssa.Next); isNx {
						for _, u3 := range core.Referrers(nx) {
							if ex, isEx := u3.(*ssa.Extract); isEx && ex.Index == 2 {
								stale = ex
							}
						}
					}
				}
			}
			if stale == nil {
				continue
			}
			name := core.FnName(f)
			construct := name + ":Range-callback"
			bad, nMut := "", 0
			for _, g := range core.WithAnon(f) {
				for _, mc := range core.Calls(g, func(n string, _ ssa.CallInstruction) bool { return strings.HasPrefix(n, "pkg/sync.Map.") }) {
					n := core.CalleeName(mc)
					if mc == c || core.AccessPath(core.Arg(mc, 0)) != container {
						continue
					}
					if mapMutators[n] {
						bad = fmt.Sprintf("%s at %s acts blindly on a key whose value was read from a snapshot", shortType(n), e.pos(mc.(ssa.Instruction)))
					}
					if n == "pkg/sync.Map.ReplaceWithFunc" {
						nMut++
						inner, shift := core.MethodBehind(core.FuncArgClosure(core.Arg(mc, 2)))
						if inner == nil {
							bad = "ReplaceWithFunc callback is not a function literal"
							continue
						}
						if why := compareStyle(inner, shift, stale); why != "" {
							bad = fmt.Sprintf("ReplaceWithFunc at %s is not compare-and-act on the inspected value: %s", e.pos(mc.(ssa.Instruction)), why)
						}
					}
				}
			}
			if !arm {
				continue
			}
			if bad != "" {
				e.R.Fail(rule, construct, e.pos(c.(ssa.Instruction)), bad)
			} else {
				e.R.Ok(rule, construct, e.pos(c.(ssa.Instruction)), fmt.Sprintf("%d mutation(s) in the sweep over a snapshot, each a compare-and-act on the value the snapshot held", nMut))
			}
		}
	}
}

// compareStyle: every return of the ReplaceWithFunc callback that changes the map (result 0 is not the old value, or delete may be
// true while the old value exists) is reachable only through the true edge of oldValue == stale.
// Returns "" if so, else a reason.
func compareStyle(inner *ssa.Function, shift int, stale ssa.Value) string {
	if len(inner.Params) < 2+shift {
		return "unexpected callback signature"
	}
	oldV, oldLoaded := inner.Params[shift], inner.Params[shift+1]
	isStale := func(v ssa.Value) bool { return core.Resolve(v) == stale }
	// truth table of the callback over {the key is present, the value found is the one inspected}; every other test is free
	bf := &core.BoolFn{Fn: inner, AtomOf: func(v ssa.Value) (string, bool, bool) {
		if v == ssa.Value(oldLoaded) {
			return "present", false, true
		}
		if c, isCmp := core.AsCmp(v); isCmp && (c.Op == token.EQL || c.Op == token.NEQ) {
			if (c.X == ssa.Value(oldV) && isStale(c.Y)) || (c.Y == ssa.Value(oldV) && isStale(c.X)) {
				return "same", c.Op == token.NEQ, true
			}
		}
		return "", false, false
	}}
	rows, err := bf.Table()
	if err != nil {
		return err.Error()
	}
	for _, r := range rows {
		if r.Unknown != "" {
			return "callback not decided: " + r.Unknown
		}
		if len(r.RetVals) != 2 {
			return "unexpected results"
		}
		keeps := core.Resolve(r.RetVals[0]) == ssa.Value(oldV)
		del := r.Rets[1] // 1 delete, 0 keep, -1 unknown
		if r.Assign["present"] && r.Assign["same"] {
			continue // the entry is still the one that was inspected: acting on it is the point
		}
		if !r.Assign["present"] {
			if del == 1 {
				continue // deleting what does not exist: the identity
			}
			return "for an absent key the callback stores a value (for [" + core.AssignString(r.Assign) + "])"
		}
		if keeps && del == 0 {
			continue // the identity
		}
		return "a return that replaces/deletes the entry is not guarded by `current value == inspected value` (for [" + core.AssignString(r.Assign) + "])"
	}
	return ""
}

// checkExpiryPredicate (C14.R5).
func checkExpiryPredicate(e *Env) { checkExpiryPredicateAs(e, "C14.R5") }

func checkExpiryPredicateAs(e *Env, rule string) {
	// (a) Element.IsExpired: truth table over {no deadline set, now is after the deadline}
	if f := e.fn(rule, "pkg/cache.Element.IsExpired"); f != nil && len(f.Params) == 2 {
		now := f.Params[1]
		bf := &core.BoolFn{Fn: f, AtomOf: func(v ssa.Value) (string, bool, bool) {
			c, isCall := v.(*ssa.Call)
			if !isCall {
				return "", false, false
			}
			n := core.CalleeName(c)
			switch n {
			case "time.Time.IsZero":
				if isDeadlineLoad(derefParamOrLoad(core.Arg(c, 0))) {
					return "no-deadline", false, true
				}
			case "time.Time.After", "time.Time.Before":
				a0, a1 := derefParamOrLoad(core.Arg(c, 0)), derefParamOrLoad(core.Arg(c, 1))
				if (n == "time.Time.After" && a0 == ssa.Value(now) && isDeadlineLoad(a1)) || (n == "time.Time.Before" && a1 == ssa.Value(now) && isDeadlineLoad(a0)) {
					return "deadline-passed", false, true
				}
			}
			return "", false, false
		}}
		checkTruth(e, rule, "pkg/cache.Element.IsExpired:predicate", bf,
			func(r core.BoolRow) bool { return len(r.Rets) == 1 && r.Rets[0] == 1 },
			func(a map[string]bool) bool { return !a["no-deadline"] && a["deadline-passed"] },
			"expired ⇔ a deadline is set ∧ now.After(deadline)", "the expiry predicate is not `deadline set and now after it`")
	}
	// (b) Cache.LoadOrStore: the entry is replaced only if absent or expired – truth table of the replace callback over
	// {key present, element found is expired}; the result is WHICH element the callback hands back
	if f := e.fn(rule, "pkg/cache.Cache.LoadOrStore"); f != nil {
		done := false
		for _, c := range core.CallsNamed(f, "pkg/sync.Map.ReplaceWithFunc") {
			inner, shift := core.MethodBehind(core.FuncArgClosure(core.Arg(c, 2))) // closure, or the method behind a method value
			if inner == nil || len(inner.Params) < 2+shift {
				continue
			}
			done = true
			oldV, oldLoaded := inner.Params[shift], inner.Params[shift+1]
			asksOther := false
			bf := &core.BoolFn{Fn: inner, AtomOf: func(v ssa.Value) (string, bool, bool) {
				if v == ssa.Value(oldLoaded) {
					return "present", false, true
				}
				if ic, ok := core.CondCall(v, "pkg/cache.Element.IsExpired"); ok {
					if core.Resolve(core.Unwrap(core.Arg(ic, 0))) == ssa.Value(oldV) {
						return "found-is-expired", false, true
					}
					asksOther = true
				}
				return "", false, false
			}}
			rows, err := bf.Table()
			badKeep, badReplace, und := "", "", ""
			if err != nil {
				und = err.Error()
			}
			for _, r := range rows {
				if r.Unknown != "" {
					und = r.Unknown
					continue
				}
				if len(r.RetVals) != 2 {
					und = "callback does not return (element, delete)"
					continue
				}
				keeps := core.Resolve(r.RetVals[0]) == ssa.Value(oldV)
				del := r.Rets[1] != 0
				live := r.Assign["present"] && !r.Assign["found-is-expired"]
				if live && (!keeps || del) {
					badKeep = "for [" + core.AssignString(r.Assign) + "] the callback does not hand back (the element found, false)"
				}
				if r.Assign["present"] && r.Assign["found-is-expired"] && (keeps || del) {
					badReplace = "for [" + core.AssignString(r.Assign) + "] the expired element is kept (or the key deleted) instead of being replaced"
				}
				if !r.Assign["present"] && del {
					badReplace = "for an absent key the callback asks for deletion"
				}
			}
			if und != "" {
				e.R.Undecided(rule, "pkg/cache.Cache.LoadOrStore:keeps-live-entry", e.pos(c.(ssa.Instruction)), und)
				continue
			}
			e.R.Check(badKeep == "", rule, "pkg/cache.Cache.LoadOrStore:keeps-live-entry", e.pos(c.(ssa.Instruction)),
				"with the key present and not expired the callback hands back (oldValue, false)", "a present, non-expired entry can be replaced or deleted: "+badKeep)
			e.R.Check(badReplace == "", rule, "pkg/cache.Cache.LoadOrStore:replaces-expired-entry", e.pos(c.(ssa.Instruction)),
				"with the key present but expired the callback stores the new element", "an expired entry is kept instead of being replaced: the key never becomes fresh again until a sweep runs: "+badReplace)
			nIs := len(core.CallsNamed(inner, "pkg/cache.Element.IsExpired"))
			whyIs := "the callback never consults IsExpired"
			if asksOther {
				nIs, whyIs = 0, "IsExpired is asked of something other than the element found in the map (the new element is never expired yet): a stale entry is returned as loaded although Load hides it"
			}
			e.R.Check(nIs >= 1, rule, "pkg/cache.Cache.LoadOrStore:tests-expiry", e.pos(c.(ssa.Instruction)), "expiry of the old value is consulted", whyIs)
		}
		if !done {
			e.R.Fail(rule, "pkg/cache.Cache.LoadOrStore:replaces-expired-entry", e.fpos(f), "Cache.LoadOrStore does not consult the expiry of the existing element (no ReplaceWithFunc callback testing IsExpired): an expired entry blocks its key until a sweep removes it, while Load already hides it")
		}
	}
	// (c) Cache.Load: truth table over {key present, element expired}: an element is handed back exactly when present and not expired
	if f := e.fn(rule, "pkg/cache.Cache.Load"); f != nil {
		var load *ssa.Call
		for _, c := range core.CallsNamed(f, "pkg/sync.Map.Load") {
			load, _ = c.(*ssa.Call)
		}
		// a value as seen from Cache.Load: a parameter of a helper shared with other callers is the argument of Load's call
		here := func(v ssa.Value) ssa.Value {
			r := core.Resolve(v)
			if _, isP := r.(*ssa.Parameter); isP {
				if alts := core.ResolveIn(f, v); len(alts) == 1 {
					return alts[0]
				}
			}
			return r
		}
		bf := &core.BoolFn{Fn: f, AtomOf: func(v ssa.Value) (string, bool, bool) {
			if ex, ok := here(v).(*ssa.Extract); ok && load != nil && ex.Tuple == ssa.Value(load) && ex.Index == 1 {
				return "present", false, true
			}
			if ic, ok := core.CondCall(v, "pkg/cache.Element.IsExpired"); ok {
				if ex, isEx := here(core.Unwrap(core.ArgRaw(ic, 0))).(*ssa.Extract); isEx && load != nil && ex.Tuple == ssa.Value(load) && ex.Index == 0 {
					return "expired", false, true
				}
			}
			return "", false, false
		}}
		rows, err := bf.Table()
		key := "pkg/cache.Cache.Load:hides-expired"
		bad, und := "", ""
		if err != nil {
			und = err.Error()
		}
		for _, r := range rows {
			if r.Unknown != "" {
				und = "row [" + core.AssignString(r.Assign) + "]: " + r.Unknown
				continue
			}
			if len(r.RetVals) != 1 {
				und = "unexpected results"
				continue
			}
			hands := !core.IsNilConst(r.RetVals[0])
			want := r.Assign["present"] && !r.Assign["expired"]
			if hands && !want {
				bad = "for [" + core.AssignString(r.Assign) + "] an element is returned"
			}
			if !hands && want {
				bad = "for [" + core.AssignString(r.Assign) + "] a live element is hidden"
			}
		}
		switch {
		case load == nil:
			e.R.Undecided(rule, key, e.fpos(f), "no Map.Load in Cache.Load")
		case und != "" && bad == "":
			e.R.Undecided(rule, key, e.fpos(f), und)
		default:
			e.R.Check(bad == "", rule, key, e.fpos(f), "an element is returned exactly when the key is present and the element has not expired (truth table)", "an element can be returned without the expiry test: "+bad)
		}
	}
	// (d) CheckExpirations: the removal is control-dependent on IsExpired(now) of the inspected element with the sweep's own `now`
	if f := e.fn(rule, "pkg/cache.Cache.CheckExpirations"); f != nil && len(f.Params) == 2 {
		for _, c := range core.CallsNamed(f, "pkg/sync.Map.Range") {
			cb := core.FuncArgClosure(core.Arg(c, 1))
			if cb == nil {
				continue
			}
			ok := true
			n := 0
			for _, mc := range core.Calls(cb, func(nm string, _ ssa.CallInstruction) bool {
				return strings.HasPrefix(nm, "pkg/sync.Map.") || nm == "pkg/cache.Cache.Delete"
			}) {
				n++
				_, g := core.GuardedBy(mc.(ssa.Instruction), func(cond ssa.Value) core.CondMatch {
					call, is := core.CondCall(cond, "pkg/cache.Element.IsExpired")
					if !is || len(cb.Params) < 2 || core.Resolve(core.Arg(call, 0)) != ssa.Value(cb.Params[1]) {
						return core.CondMatch{}
					}
					// the time argument must be the sweep's parameter
					if core.Resolve(core.Arg(call, 1)) == ssa.Value(f.Params[1]) {
						return core.CondMatch{Match: true, Branch: true}
					}
					return core.CondMatch{}
				})
				if !g {
					ok = false
				}
			}
			e.R.Check(ok && n > 0, rule, "pkg/cache.Cache.CheckExpirations:only-expired", e.pos(c.(ssa.Instruction)),
				"every map mutation in the sweep is control-dependent on value.IsExpired(now) of the inspected element", "the sweep can mutate the map for an element that did not test as expired at the sweep's `now`")
		}
	}
}

func derefParamOrLoad(v ssa.Value) ssa.Value {
	if v == nil {
		return nil
	}
	return core.Unwrap(v)
}

// isDeadlineLoad: the value is the result of ValidUntil.Load() (possibly via a local).
func isDeadlineLoad(v ssa.Value) bool {
	c, ok := v.(*ssa.Call)
	if !ok {
		return false
	}
	n := core.CalleeName(c)
	if !strings.HasSuffix(n, "atomic.Time.Load") {
		return false
	}
	_, fl, ok := core.FieldOf(core.Arg(c, 0))
	return ok && fl == "ValidUntil"
}

// capturedForwards: ref captures parameter p (by value, or through the variable cell it was spilled to) in function literals; for
// each literal that calls p and is passed as an argument to a static call, that call. Empty when p is used in any other way there.
func capturedForwards(p *ssa.Parameter, ref ssa.Instruction) []*ssa.Call {
	var mks []*ssa.MakeClosure
	var idxs []int
	collect := func(v ssa.Value) bool {
		for _, u := range core.Referrers(v) {
			switch x := u.(type) {
			case *ssa.MakeClosure:
				for bi, b := range x.Bindings {
					if b == v {
						mks = append(mks, x)
						idxs = append(idxs, bi)
					}
				}
			case *ssa.Store, *ssa.DebugRef:
			default:
				return false
			}
		}
		return true
	}
	switch x := ref.(type) {
	case *ssa.MakeClosure:
		if !collect(p) {
			return nil
		}
	case *ssa.Store:
		cell, ok := x.Addr.(*ssa.Alloc)
		if !ok || x.Val != ssa.Value(p) || !collect(cell) {
			return nil
		}
	default:
		return nil
	}
	var out []*ssa.Call
	for k, mk := range mks {
		g, ok := mk.Fn.(*ssa.Function)
		if !ok || idxs[k] >= len(g.FreeVars) {
			return nil
		}
		// inside the literal the captured value is only called
		fv := g.FreeVars[idxs[k]]
		called := false
		var uses func(v ssa.Value) bool
		uses = func(v ssa.Value) bool {
			for _, u := range core.Referrers(v) {
				switch y := u.(type) {
				case *ssa.UnOp:
					if y.Op != token.MUL || !uses(y) {
						return false
					}
				case *ssa.Call:
					if y.Call.Value != v {
						return false
					}
					called = true
				case *ssa.DebugRef:
				default:
					return false
				}
			}
			return true
		}
		if !uses(fv) || !called {
			return nil
		}
		for _, u := range core.Referrers(mk) {
			c, isCall := u.(*ssa.Call)
			if !isCall || c.Call.StaticCallee() == nil {
				return nil
			}
			out = append(out, c)
		}
	}
	return out
}

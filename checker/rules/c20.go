package rules

import (
	"fmt"
	"go/constant"
	"go/token"
	"go/types"
	"math/big"
	"strings"

	"coapcheck/internal/core"

	"golang.org/x/tools/go/ssa"
)

func init() {
	register(&Property{
		ID:    "C20",
		Title: "No-Response suppression follows RFC 7967 for every value and code",
		Level: "proof",
		Explain: "Decided: (R1, abstract interpretation) IsNoResponseCode returns non-nil exactly for (class 2.xx ∧ bit value 2), (4.xx ∧ 8), (5.xx ∧ 16): 9 code cells (the eight 32-code classes and everything above 255) × the 8 settings of option bits {1,3,4} with all other 29 bits unknown – 72 abstract cells covering every (code, value) pair; " +
			"(R2, dominance + value flow) ResponseWriter.SetResponse consults the predicate with its own code argument and the stored option value before the first mutation of the response and returns the refusal; New takes the value from option 258 of the WHOLE request option list; every construction site passes the request's options; " +
			"(R3) an unmodified response to a confirmable request takes the bare-ACK arm and an unmodified response to anything else is not sent.",
		NotDecided: "The frames actually emitted on the wire (needs execution); block-wise re-assembly of the response.",
		Run:        runC20,
	})
}

func runC20(e *Env) {
	r := e.R
	r.Rule("C20.R1", "absint", "IsNoResponseCode ≠ nil ⇔ (class=2 ∧ v&2) ∨ (class=4 ∧ v&8) ∨ (class=5 ∧ v&16), for every code class × bit setting", 72)
	r.Rule("C20.R2", "paths+flows", "SetResponse checks before mutating; New reads option 258 from the whole request option list; construction sites pass the request's options", 7)
	r.Rule("C20.R3", "paths", "unmodified response: bare ACK for CON, nothing otherwise", 2)
	r.Rule("C20.R4", "callgraph", "who may set the code of a response writer's message: only SetResponse (after its check) and the bare-ACK arm", 2)
	if e.want("C20.R4") {
		c20WhoSetsCode(e)
	}
	r.Rule("C20.R5", "bounds+flows", "option 258 is recognised on the wire: option numbers accumulate over every parsed option, also skipped ones", 1)
	if e.want("C20.R5") {
		c02AccumulateAs(e, "C20.R5")
	}

	if f := e.fn("C20.R1", "message/noresponse.IsNoResponseCode"); f != nil && len(f.Params) == 2 && e.want("C20.R1") {
		w, signed, okT := intTypeOf(f.Params[0].Type())
		if !okT {
			r.Undecided("C20.R1", "message/noresponse.IsNoResponseCode:type", e.fpos(f), "code parameter is not an integer type")
		} else {
			type cell struct {
				lo, hi int64
				class  int
			}
			var cells []cell
			for k := 0; k < 8; k++ {
				cells = append(cells, cell{int64(32 * k), int64(32*k + 31), k})
			}
			if w > 8 {
				cells = append(cells, cell{256, (int64(1) << uint(w)) - 1, -1})
			}
			for _, c := range cells {
				for bitsSet := 0; bitsSet < 8; bitsSet++ {
					code := core.SymInt("code", w, signed, big.NewInt(c.lo), big.NewInt(c.hi), 0)
					v := core.TopInt(32, false)
					b1, b3, b4 := bitsSet&1 != 0, bitsSet&2 != 0, bitsSet&4 != 0
					setBit := func(i int, on bool) {
						if on {
							v.Bits[i] = core.Bit{K: core.B1}
						} else {
							v.Bits[i] = core.Bit{K: core.B0}
						}
					}
					setBit(1, b1)
					setBit(3, b3)
					setBit(4, b4)
					v.Lo, v.Hi = nil, nil
					v = core.Reduce(v)
					want := (c.class == 2 && b1) || (c.class == 4 && b3) || (c.class == 5 && b4)
					it := core.NewInterp(e.P)
					outs := it.Run(f, []*core.AVal{code, v}, nil)
					ok, why := len(outs) > 0, ""
					for _, o := range outs {
						if o.Abort || o.Panic || len(o.Ret) != 1 || o.Ret[0].K != core.AErr || o.Ret[0].ErrNil == -1 {
							ok, why = false, "undecided: "+core.SummarizeOutcomes([]core.Outcome{o})
							continue
						}
						if (o.Ret[0].ErrNil == 0) != want {
							ok = false
							why = fmt.Sprintf("returns %s but RFC 7967 says suppressed=%v", o.Ret[0], want)
						}
					}
					cname := fmt.Sprintf("code∈[%d,%d] bits(2,8,16)=(%v,%v,%v)", c.lo, c.hi, b2i(b1), b2i(b3), b2i(b4))
					if ok {
						r.Ok("C20.R1", "message/noresponse.IsNoResponseCode:"+cname, e.fpos(f), fmt.Sprintf("suppressed=%v on all %d abstract paths (other 29 value bits unknown)", want, len(outs)))
					} else if strings.HasPrefix(why, "undecided") {
						r.Undecided("C20.R1", "message/noresponse.IsNoResponseCode:"+cname, e.fpos(f), why)
					} else {
						r.Fail("C20.R1", "message/noresponse.IsNoResponseCode:"+cname, e.fpos(f), why)
					}
				}
			}
		}
	}
	if e.want("C20.R2") {
		c20Wiring(e)
	}
	if e.want("C20.R3") {
		c20Unmodified(e)
	}
}

func b2i(b bool) int {
	if b {
		return 1
	}
	return 0
}

func intTypeOf(t types.Type) (int, bool, bool) {
	b, ok := t.Underlying().(*types.Basic)
	if !ok {
		return 0, false, false
	}
	switch b.Kind() {
	case types.Uint8:
		return 8, false, true
	case types.Uint16:
		return 16, false, true
	case types.Uint32:
		return 32, false, true
	case types.Int32:
		return 32, true, true
	case types.Int, types.Int64:
		return 64, true, true
	}
	return 0, false, false
}

func c20Wiring(e *Env) {
	rule := "C20.R2"
	// (a) SetResponse: the predicate call dominates every call on the response message, gets (code param, *noResponseValue), and its non-nil result is returned
	if f := e.fn(rule, "net/responsewriter.ResponseWriter.SetResponse"); f != nil {
		calls := core.CallsNamed(f, "message/noresponse.IsNoResponseCode")
		if len(calls) != 1 {
			e.R.Fail(rule, "net/responsewriter.ResponseWriter.SetResponse:consults-predicate", e.fpos(f), fmt.Sprintf("expected exactly one call to IsNoResponseCode, found %d", len(calls)))
		} else {
			c := calls[0].(*ssa.Call)
			okArgs := core.Resolve(core.Arg(c, 0)) == ssa.Value(f.Params[1])
			vArg := core.Arg(c, 1)
			okVal := false
			// how the constructor keeps the option: a pointer field (nil = absent) or a value field with a presence flag
			valueField, presentField := c20Representation(e)
			if ld, ok := vArg.(*ssa.UnOp); ok {
				if ld2, ok := ld.X.(*ssa.UnOp); ok {
					if _, fl, ok := core.FieldOf(ld2.X); ok && fl == valueField {
						okVal = true
					}
				}
				if _, fl, ok := core.FieldOf(ld.X); ok && fl == valueField && presentField != "" {
					okVal = true
				}
			}
			if fv, ok := vArg.(*ssa.Field); ok && presentField != "" {
				if _, fl, ok := core.FieldOf(fv); ok && fl == valueField {
					okVal = true
				}
			}
			e.R.Check(okArgs && okVal, rule, "net/responsewriter.ResponseWriter.SetResponse:predicate-args", e.pos(c),
				"IsNoResponseCode(code parameter, *r.noResponseValue)", "the predicate is not applied to SetResponse's own code and the stored option value")
			// every mutation of the response (method call on r.response) is after the check when the option is present:
			// no path from entry to a pool.Message method call that passes the `noResponseValue != nil` true edge without passing the call
			muts := core.Calls(f, func(n string, ci ssa.CallInstruction) bool {
				return strings.HasPrefix(n, "message/pool.Message.")
			})
			nilIf := func(i *ssa.If) int {
				cond, neg := core.StripNot(i.Cond)
				if presentField != "" {
					// value + presence flag: the flag itself is the test
					var fl string
					var okF bool
					switch x := cond.(type) {
					case *ssa.UnOp:
						_, fl, okF = core.FieldOf(x.X)
					case *ssa.Field:
						_, fl, okF = core.FieldOf(x)
					}
					if okF && fl == presentField {
						if neg {
							return -1
						}
						return 1
					}
				}
				cmp, ok := core.AsCmp(cond)
				if !ok {
					return 0
				}
				isField := func(v ssa.Value) bool {
					ld, ok := v.(*ssa.UnOp)
					if !ok {
						return false
					}
					_, fl, ok := core.FieldOf(ld.X)
					return ok && fl == valueField && presentField == ""
				}
				if (isField(cmp.X) && core.IsNilConst(cmp.Y)) || (isField(cmp.Y) && core.IsNilConst(cmp.X)) {
					s := 1
					if cmp.Op.String() == "==" {
						s = -1
					}
					if neg {
						s = -s
					}
					return s // force the "option present" side
				}
				return 0
			}
			bad := ""
			for _, m := range muts {
				q := &core.PathQuery{Fn: f, Stop: func(in ssa.Instruction) bool { return in == ssa.Instruction(c) }, Target: func(in ssa.Instruction) bool { return in == m.(ssa.Instruction) }, EdgeOK: core.ForcedEdges(nilIf)}
				if w := q.Find(); w != nil {
					bad = fmt.Sprintf("%s at %s is reachable with the option present without passing the check", core.CalleeName(m), e.pos(m.(ssa.Instruction)))
				}
			}
			e.R.Check(bad == "" && len(muts) > 0, rule, "net/responsewriter.ResponseWriter.SetResponse:check-before-mutation", e.pos(c),
				fmt.Sprintf("all %d mutations of the response come after the check when the option is present", len(muts)), bad)
			// the refusal is returned: on the err != nil edge of the call's result the function returns that error
			retOK := false
			for _, i := range core.IfsOf(f) {
				ev, nilBranch, ok := core.ErrNilEdge(i)
				if !ok || core.Resolve(ev) != ssa.Value(c) {
					continue
				}
				k := 0
				if nilBranch {
					k = 1
				}
				blk := i.Block().Succs[k]
				if ret, ok := blk.Instrs[len(blk.Instrs)-1].(*ssa.Return); ok && len(ret.Results) == 1 && core.Resolve(core.RetVal(ret, 0)) == ssa.Value(c) {
					retOK = true
				}
			}
			e.R.Check(retOK, rule, "net/responsewriter.ResponseWriter.SetResponse:refusal-returned", e.pos(c), "a non-nil predicate result is returned to the handler immediately", "the refusal is not returned on the non-nil edge")
		}
	}
	// (b) New: GetUint32(NoResponse) on the whole variadic list, stored only when err == nil
	if f := e.fn(rule, "net/responsewriter.New"); f != nil && len(f.Params) == 3 {
		calls := core.CallsNamed(f, "message.Options.GetUint32")
		ok, why := false, "New does not look up the No-Response option with Options.GetUint32"
		for _, c := range calls {
			recv := core.Unwrap(core.Arg(c, 0))
			if sl, isSl := recv.(*ssa.Slice); isSl && sl.Low == nil && sl.High == nil {
				recv = core.Unwrap(sl.X)
			}
			id, isC := core.ConstInt(core.Arg(c, 1))
			switch {
			case recv != ssa.Value(f.Params[2]):
				why = "the option is searched in a part of the request options only (not the whole list)"
			case !isC || id != 258:
				why = fmt.Sprintf("looks up option %d instead of 258 (No-Response)", id)
			default:
				ok = true
			}
		}
		e.R.Check(ok, rule, "net/responsewriter.New:reads-option-258", e.fpos(f), "value = Options(requestOptions).GetUint32(258) over the whole list", why)
		// constant itself
		if pk := e.P.Pkg("message"); pk != nil {
			if c, isC := pk.Types.Scope().Lookup("NoResponse").(*types.Const); isC {
				v, _ := constant.Int64Val(c.Val())
				e.R.Check(v == 258, rule, "message.NoResponse:value", e.P.Pos(c.Pos()), "NoResponse = 258 (RFC 7967)", fmt.Sprintf("NoResponse = %d", v))
			}
		}
	}
	// (c) construction sites: the variadic argument is <request>.Options() and the request is not the response being wrapped
	n := 0
	for _, f := range e.P.SrcFuncs(false) {
		for _, c := range core.CallsNamed(f, "net/responsewriter.New") {
			n++
			construct := core.FnName(f) + ":New"
			va := core.Arg(c, 2)
			oc, isCall := core.Unwrap(va).(*ssa.Call)
			if !isCall || core.CalleeName(oc) != "message/pool.Message.Options" {
				e.R.Fail(rule, construct, e.pos(c.(ssa.Instruction)), "the request options handed to the response writer are not <request>.Options()")
				continue
			}
			reqV := core.Resolve(core.Arg(oc, 0))
			respV := core.Resolve(core.Arg(c, 0))
			_, isParam := reqV.(*ssa.Parameter)
			e.R.Check(isParam && reqV != respV, rule, construct, e.pos(c.(ssa.Instruction)),
				"options come from the received request (a parameter of the enclosing function), not from the response", "options do not come from the request parameter")
		}
	}
	if n == 0 {
		e.R.Undecided(rule, "responsewriter.New:sites", "-", "no construction site found")
	}
}

func c20Unmodified(e *Env) {
	rule := "C20.R3"
	// sendJustAcknowledgeMessage ⇔ reqType == Confirmable ∧ !IsModified
	if f := e.P.Func("udp/client.sendJustAcknowledgeMessage"); f != nil { // optional: the two tests may be written out in processResponse
		bf := &core.BoolFn{Fn: f, AtomOf: func(v ssa.Value) (string, bool, bool) {
			if c, ok := core.AsCmp(v); ok && (c.Op == token.EQL || c.Op == token.NEQ) {
				for _, xy := range [][2]ssa.Value{{c.X, c.Y}, {c.Y, c.X}} {
					if k, isC := core.ConstInt(xy[1]); isC && k == 0 && core.Unwrap(xy[0]) == ssa.Value(f.Params[0]) {
						return "confirmable", c.Op == token.NEQ, true
					}
				}
			}
			if c, ok := v.(*ssa.Call); ok && core.CalleeName(c) == "message/pool.Message.IsModified" {
				return "modified", false, true
			}
			return "", false, false
		}}
		checkTruth(e, rule, "udp/client.sendJustAcknowledgeMessage:predicate", bf,
			func(r core.BoolRow) bool { return len(r.Rets) == 1 && r.Rets[0] == 1 },
			func(a map[string]bool) bool { return a["confirmable"] && !a["modified"] },
			"bare ACK ⇔ reqType == Confirmable(0) ∧ !IsModified()", "the bare-ACK predicate is not `confirmable and response untouched`")
	}
	// processResponse: on the bare-ACK arm the code is set to Empty and the type to Acknowledgement
	if f := e.fn(rule, "udp/client.Conn.processResponse"); f != nil {
		// the bare acknowledgement: code 0.00 set on the response, only for a confirmable request whose handler set no response
		var ack ssa.Instruction
		for _, c := range core.CallsNamed(f, "message/pool.Message.SetCode") {
			if k, isC := core.ConstInt(core.Arg(c, 1)); isC && k == 0 {
				ack = c.(ssa.Instruction)
			}
		}
		if ack == nil {
			e.R.Fail(rule, "udp/client.Conn.processResponse:bare-ack-arm", e.fpos(f), "processResponse no longer produces a bare acknowledgement (code 0.00)")
		} else {
			// guarded by the predicate helper (checked above), or by the two tests written out
			_, viaHelper := core.GuardedBy(ack, func(cond ssa.Value) core.CondMatch {
				if _, ok := core.CondCall(cond, "udp/client.sendJustAcknowledgeMessage"); ok {
					return core.CondMatch{Match: true, Branch: true}
				}
				return core.CondMatch{}
			})
			_, unmod := core.GuardedBy(ack, func(cond ssa.Value) core.CondMatch {
				if _, ok := core.CondCall(cond, "message/pool.Message.IsModified"); ok {
					return core.CondMatch{Match: true, Branch: false}
				}
				return core.CondMatch{}
			})
			_, con := core.GuardedBy(ack, func(cond ssa.Value) core.CondMatch {
				cmp, ok := core.AsCmp(cond)
				if !ok || (cmp.Op != token.EQL && cmp.Op != token.NEQ) || len(f.Params) < 2 || core.Resolve(cmp.X) != ssa.Value(f.Params[1]) {
					return core.CondMatch{}
				}
				if k, isK := core.ConstInt(cmp.Y); isK && k == 0 {
					return core.CondMatch{Match: true, Branch: cmp.Op == token.EQL}
				}
				return core.CondMatch{}
			})
			okType := false
			for _, c := range core.CallsNamed(f, "message/pool.Message.SetType") {
				if k, isC := core.ConstInt(core.Arg(c, 1)); isC && k == 2 && (core.Dominates(c.(ssa.Instruction), ack) || core.Dominates(ack, c.(ssa.Instruction))) {
					okType = true
				}
			}
			e.R.Check((viaHelper || (unmod && con)) && okType, rule, "udp/client.Conn.processResponse:bare-ack-arm", e.pos(ack), "unmodified response to CON: code Empty(0), type Acknowledgement(2)", "the bare-ACK arm does not produce an empty acknowledgement exactly for an unmodified response to a confirmable request")
		}
	}
	// TCP: the response is written only if modified
	if f := e.fn(rule, "tcp/client.Conn.ProcessReceivedMessageWithHandler"); f != nil {
		ok := false
		for _, c := range core.Calls(f, func(n string, _ ssa.CallInstruction) bool { return strings.HasSuffix(n, ".WriteMessage") }) {
			if _, g := core.GuardedBy(c.(ssa.Instruction), func(cond ssa.Value) core.CondMatch {
				if _, is := core.CondCall(cond, "message/pool.Message.IsModified"); is {
					return core.CondMatch{Match: true, Branch: true}
				}
				return core.CondMatch{}
			}); g {
				ok = true
			}
		}
		e.R.Check(ok, rule, "tcp/client.Conn.ProcessReceivedMessageWithHandler:write-if-modified", e.fpos(f), "the response is written only on the IsModified() edge", "a response can be written although the handler did not set one")
	}
}

// c20WhoSetsCode: a response code put on the message obtained from a ResponseWriter bypasses the No-Response check unless it
// goes through ResponseWriter.SetResponse. Listed: SetResponse itself (writes r.response after the check) and processResponse's
// bare acknowledgement (code 0.00, not a response class).
func c20WhoSetsCode(e *Env) {
	rule := "C20.R4"
	nSeen := 0
	for _, f := range e.P.SrcFuncs(false) {
		name := core.FnName(f)
		if strings.HasPrefix(name, "examples/") {
			continue
		}
		core.Instrs(f, func(in ssa.Instruction) {
			c, ok := in.(*ssa.Call)
			if !ok || !strings.HasSuffix(core.CalleeName(c), "pool.Message.SetCode") {
				return
			}
			recv := core.Resolve(core.Unwrap(core.Arg(c, 0)))
			origin := ""
			switch x := recv.(type) {
			case *ssa.Call:
				n := core.CalleeName(x)
				if strings.HasSuffix(n, "ResponseWriter.Message") || strings.HasSuffix(n, "esponseWriter.Message") {
					origin = n
				}
				if x.Call.IsInvoke() && x.Call.Method.Name() == "Message" {
					// any interface that also offers SetResponse is a response writer (mux.ResponseWriter is an alias of an anonymous interface)
					if it, isI := x.Call.Value.Type().Underlying().(*types.Interface); isI {
						for i := 0; i < it.NumMethods(); i++ {
							if it.Method(i).Name() == "SetResponse" {
								origin = "response-writer interface"
							}
						}
					}
				}
			case *ssa.UnOp:
				if own, fl, isF := core.FieldOf(x.X); isF && fl == "response" && strings.Contains(own, "ResponseWriter") {
					origin = own + ".response"
				}
			}
			if origin == "" {
				return
			}
			nSeen++
			root := name
			if p := f.Parent(); p != nil {
				root = core.FnName(p)
			}
			switch {
			case root == "net/responsewriter.ResponseWriter.SetResponse":
				e.R.Ok(rule, root+":sets-code", e.pos(c), "the checked entry point")
			case root == "udp/client.Conn.processResponse":
				k, isK := core.ConstInt(core.Arg(c, 1))
				e.R.Check(isK && k == 0, rule, root+":sets-code", e.pos(c), "bare acknowledgement: code 0.00", "processResponse sets a response code other than 0.00 directly")
			default:
				e.R.Fail(rule, root+":sets-code", e.pos(c), "a response code is set on the response writer's message without going through SetResponse: the request's No-Response option is not consulted for this response")
			}
		})
	}
	if nSeen == 0 {
		e.R.Undecided(rule, "module:sets-code", "-", "no SetCode on a response writer's message found")
	}
}

// c20Representation: how responsewriter.New keeps the request's No-Response option for SetResponse – the field the looked-up value
// (or its address) is stored in, and, when the value is stored by value, the sibling boolean field that is set to true with it.
func c20Representation(e *Env) (valueField, presentField string) {
	valueField = "noResponseValue"
	f := e.P.Func("net/responsewriter.New")
	if f == nil {
		return
	}
	for _, c := range core.CallsNamed(f, "message.Options.GetUint32") {
		call, ok := c.(*ssa.Call)
		if !ok {
			continue
		}
		for _, ref := range core.Referrers(call) {
			ex, isEx := ref.(*ssa.Extract)
			if !isEx || ex.Index != 0 {
				continue
			}
			for _, u := range core.Referrers(ex) {
				st, isSt := u.(*ssa.Store)
				if !isSt || st.Val != ssa.Value(ex) {
					continue
				}
				switch a := st.Addr.(type) {
				case *ssa.FieldAddr:
					// stored by value into a struct: look for the flag set to true in the same struct
					if _, fl, okF := core.FieldOf(a); okF {
						valueField = fl
						for _, u2 := range core.Referrers(a.X) {
							if fa2, isFA := u2.(*ssa.FieldAddr); isFA && fa2 != a {
								for _, u3 := range core.Referrers(fa2) {
									if st2, isSt2 := u3.(*ssa.Store); isSt2 {
										if b, isB := core.ConstBool(st2.Val); isB && b {
											_, presentField, _ = core.FieldOf(fa2)
										}
									}
								}
							}
						}
					}
				case *ssa.Alloc:
					// a heap cell whose address is stored into a pointer field
					for _, u2 := range core.Referrers(a) {
						if st2, isSt2 := u2.(*ssa.Store); isSt2 && st2.Val == ssa.Value(a) {
							if _, fl, okF := core.FieldOf(st2.Addr); okF {
								valueField = fl
							}
						}
					}
				}
			}
		}
	}
	return
}

package rules

import (
	"fmt"
	"go/token"
	"go/types"
	"strings"

	"coapcheck/internal/core"

	"golang.org/x/tools/go/ssa"
)

// The registration sites of per-exchange state, confirmed by reading the pinned tree (DESIGN.md appendix A.3).
var pairSpecs = []PairSpec{
	{Fn: "udp/client.Conn.doInternal", Table: "udp/client.Conn.tokenHandlerContainer", Policy: "strict"},
	{Fn: "tcp/client.Conn.doInternal", Table: "tcp/client.Conn.tokenHandlerContainer", Policy: "strict"},
	{Fn: "tcp/client.Conn.AsyncPing", Table: "tcp/client.Conn.tokenHandlerContainer", Policy: "cleanup-returned"},
	{Fn: "udp/client.Conn.AsyncPing", Table: "udp/client.Conn.midHandlerContainer", Policy: "cleanup-returned"},
	{Fn: "udp/client.Conn.prepareWriteMessage", Table: "udp/client.Conn.midHandlerContainer", Policy: "cleanup-returned"},
	{Fn: "net/observation.Handler.NewObservation", Table: "net/observation.Handler.observations", Policy: "live-on-success"},
	{Fn: "udp/server.Server.DiscoveryRequest", Table: "udp/server.Server.multicastHandler", Policy: "strict"},
	{Fn: "udp/server.Server.DiscoveryRequest", Table: "udp/server.Server.multicastRequests", Policy: "strict"},
	{Fn: "net/blockwise.BlockWise.Do", Table: "net/blockwise.BlockWise.sendingMessagesCache", Policy: "strict"},
	{Fn: "net/blockwise.BlockWise.startSendingMessage", Table: "net/blockwise.BlockWise.sendingMessagesCache", Policy: "expiring"},
	{Fn: "net/blockwise.BlockWise.handleObserveResponse", Table: "net/blockwise.BlockWise.sendingMessagesCache", Policy: "expiring"},
	{Fn: "net/blockwise.BlockWise.getCachedReceivedMessage", Table: "net/blockwise.BlockWise.receivingMessagesCache", Policy: "join-or-expiring"},
	{Fn: "net/client/limitParallelRequests.LimitParallelRequests.acquireEndpoint", Table: "net/client/limitParallelRequests.LimitParallelRequests.endpointQueues", Policy: "first-wins", Why: "queue entry is created or joined atomically; its release is paired in Do/DoObserve (C13.R4, C16)"},
	{Fn: "udp/client.messageCache.Store", Table: "udp/client.messageCache.c", Policy: "first-wins-expiring", Why: "the first reply produced for a message ID is the one every duplicate must get"},
}

func init() {
	register(&Property{
		ID:    "C03",
		Title: "Every response reaches exactly the request that carries its token",
		Level: "other",
		Explain: "Decided (structural necessary conditions of token matching): (R1) the registration primitive is atomic – Map.LoadOrStore is a single critical section (same obligation as C14.R3, re-derived here); " +
			"(R2) at every registration of a continuation in a token- or ID-keyed table the `loaded` result is branched on, the already-registered edge returns an error without storing over the first entry, and on the stored edge every exit removes the same key (defer, direct, or a cleanup function handed to the caller who must run it); " +
			"(R3) key agreement: every store and every dispatch lookup of the token tables uses Token().Hash() of the request respectively the received message, and Token.Hash is CRC-64 over the token bytes; " +
			"(R5) a duplicated (retransmitted) confirmable response is absorbed by the reply cache before dispatch – the acknowledgement of every received confirmable message is stored (shared with C05.R2/R3); (R4) one-shot, non-blocking hand-over: dispatch takes the continuation out of the table (LoadAndDelete) or the continuation's send is non-blocking; the continuation marks the message hijacked before sending it; the channel has capacity ≥ 1; the waiter receives from that channel.",
		NotDecided: "Matching under adversarial response orders is not executed; CRC-64 collisions between different tokens (keys are hashes) are outside the claim.",
		Run:        runC03,
	})
	register(&Property{
		ID:    "C13",
		Title: "No per-exchange state outlives the exchange",
		Level: "other",
		Explain: "Decided: (R1) every registration into a per-exchange table (token handlers, pending confirmables, observations, multicast tables, block-wise caches, reply cache) is paired: removed on every exit, or handed to the caller as a cleanup that every caller runs on all paths, or stored with a deadline that is provably set (so the sweep removes it); every registration site in the module is classified (an unclassified new site fails); error-cell cleanups (`defer func(err *error)`) see the error actually returned; " +
			"(R2) the housekeeping sweep reaches CheckExpirations of every cache-typed field and the pending-confirmable table; (R3) the per-ID lock map deletes an entry when its reference count drops below one, under its lock; (R4) semaphore / endpoint / per-ID-lock acquisitions are released on every exit; the endpoint queue entry is deleted when its counter reaches zero; a reassembly entry's expiry removes the paired sending entry.",
		NotDecided: "Emptiness of the tables after arbitrary histories as a measured quantity is not decided (no execution).",
		Run:        runC13,
	})
}

func runC03(e *Env) {
	c03Extra(e)
	r := e.R
	r.Rule("C03.R1", "locks", "store-if-absent is one critical section", 1)
	r.Rule("C03.R2", "paths", "register ⇒ checked ⇒ removed on every exit, at every token/ID registration site", 14)
	r.Rule("C03.R3", "flows", "store key and lookup key are both Token().Hash(); Hash is CRC-64 of the token bytes", 10)
	r.Rule("C03.R4", "paths", "one-shot, non-blocking hand-over with hijack before send", 8)
	if e.want("C03.R1") {
		if f := e.fn("C03.R1", "pkg/sync.Map.LoadOrStore"); f != nil {
			sub := *e
			subRep := core.NewReport("tmp", e.Tier, "other")
			sub.R = subRep
			checkAtomicSection(&sub, f)
			ok := true
			why := ""
			for _, o := range subRep.Obls {
				if o.Status != core.Discharged {
					ok, why = false, o.Detail
				}
			}
			r.Check(ok, "C03.R1", "pkg/sync.Map.LoadOrStore:atomic", e.fpos(f), "check and store happen in one write-locked section (see C14.R3)", why)
		}
	}
	tokenTables := map[string]bool{
		"udp/client.Conn.tokenHandlerContainer": true, "tcp/client.Conn.tokenHandlerContainer": true, "udp/client.Conn.midHandlerContainer": true,
		"net/observation.Handler.observations": true, "udp/server.Server.multicastHandler": true, "udp/server.Server.multicastRequests": true,
		"net/blockwise.BlockWise.sendingMessagesCache": true,
	}
	if e.want("C03.R2") {
		for _, sp := range pairSpecs {
			if tokenTables[sp.Table] && sp.Policy != "expiring" {
				checkPairing(e, "C03.R2", sp)
			}
		}
		checkCleanupCallers(e, "C03.R2")
	}
	if e.want("C03.R3") {
		c03Keys(e)
	}
	if e.want("C03.R5") {
		// duplicated responses: a retransmitted separate (confirmable) response must be recognised by the reply cache, or it is dispatched by
		// token a second time – possibly to a later request that re-uses the token. Same obligations as C05.R2/R3, restricted to what C03 needs.
		r.Rule("C03.R5", "paths", "acknowledgements of received confirmable messages are cached, so a duplicated response is not dispatched again", 4)
		sub := *e
		rep := core.NewReport("tmp", e.Tier, "other")
		sub.R = rep
		sub.Only = ""
		runC05(&sub)
		for _, o := range rep.Obls {
			if strings.HasPrefix(o.Key, "C05.R3:") || strings.Contains(o.Key, "hit-skips-dispatch") || strings.Contains(o.Key, "lookup-before-dispatch") {
				k := o.Key[strings.Index(o.Key, ":")+1:]
				if o.Status == core.Discharged {
					e.R.Ok("C03.R5", k, o.Pos, o.Detail)
				} else if o.Status != core.Info {
					e.R.Fail("C03.R5", k, o.Pos, o.Detail)
				}
			}
		}
	}
	if e.want("C03.R4") {
		c03Handover(e)
	}
}

// checkCleanupCallers: functions that hand a cleanup to their caller – every caller runs it on all paths of the success edge.
func checkCleanupCallers(e *Env, rule string) {
	for _, prod := range []string{"udp/client.Conn.prepareWriteMessage"} {
		pf := e.fn(rule, prod)
		if pf == nil {
			continue
		}
		n := 0
		for _, caller := range e.P.SrcFuncs(false) {
			for _, c := range core.Calls(caller, func(_ string, ci ssa.CallInstruction) bool { return core.SameFunc(core.StaticFn(ci), pf) }) {
				n++
				construct := core.FnName(caller) + ":runs-cleanup-of " + shortType(prod)
				call := c.(*ssa.Call)
				var fnV *ssa.Extract
				for _, ref := range core.Referrers(call) {
					if ex, ok := ref.(*ssa.Extract); ok && ex.Index == 0 {
						fnV = ex
					}
				}
				if fnV == nil {
					e.R.Fail(rule, construct, e.pos(call), "the cleanup function returned by "+prod+" is discarded")
					continue
				}
				isRun := func(in ssa.Instruction) bool {
					cc, ok := in.(*ssa.Call)
					return ok && core.Resolve(cc.Call.Value) == ssa.Value(fnV)
				}
				q := &core.PathQuery{Fn: caller, From: call, Stop: isRun, Target: core.IsReturn, DeferStop: func(d *ssa.Defer) bool { return core.Resolve(d.Call.Value) == ssa.Value(fnV) },
					EdgeOK: func(i *ssa.If, branch bool) bool {
						ev, nilBranch, ok := core.ErrNilEdge(i)
						if ok {
							if ex, isEx := ev.(*ssa.Extract); isEx && ex.Tuple == ssa.Value(call) {
								return branch == nilBranch // only the success side owns a cleanup
							}
						}
						return true
					}}
				w := q.Find()
				e.R.Check(w == nil, rule, construct, e.pos(call), "on the success edge every path to a return runs the cleanup (deferred)", "the cleanup handed over by "+shortType(prod)+" is not run on a path: "+e.trace(w))
			}
		}
		if n == 0 {
			e.R.Undecided(rule, prod+":callers", e.fpos(pf), "no caller found")
		}
	}
}

// isTokenHash: v is <x>.Token().Hash() (or token.Hash() for a local holding <x>.Token()); returns the message value x.
func isTokenHash(v ssa.Value) (ssa.Value, bool) {
	c, ok := core.Resolve(v).(*ssa.Call)
	if !ok || core.CalleeName(c) != "message.Token.Hash" {
		return nil, false
	}
	t := core.Resolve(core.Arg(c, 0))
	if tc, ok := t.(*ssa.Call); ok && core.CalleeName(tc) == "message/pool.Message.Token" {
		return core.Resolve(core.Arg(tc, 0)), true
	}
	// a field of a stored request (observation: o.req.Token) or a re-assigned local
	return t, true
}

func c03Keys(e *Env) {
	rule := "C03.R3"
	tables := []string{"udp/client.Conn.tokenHandlerContainer", "tcp/client.Conn.tokenHandlerContainer", "net/observation.Handler.observations", "udp/server.Server.multicastHandler", "udp/server.Server.multicastRequests"}
	n := 0
	for _, f := range e.P.SrcFuncs(false) {
		for _, c := range core.Calls(f, func(nm string, ci ssa.CallInstruction) bool {
			if !strings.HasPrefix(nm, "pkg/sync.Map.") {
				return false
			}
			t := tableOf(ci)
			for _, x := range tables {
				if t == x {
					return true
				}
			}
			return false
		}) {
			if core.NArgs(c) < 2 {
				continue
			}
			n++
			construct := fmt.Sprintf("%s:%s %s key", core.FnName(f), shortType(core.CalleeName(c)), shortType(tableOf(c)))
			key := core.Arg(c, 1)
			_, ok := isTokenHash(key)
			if !ok {
				// key forwarded as a parameter (pullOutObservation(key), GetObservation(key)): check the callers' arguments
				if p, isP := core.Resolve(key).(*ssa.Parameter); isP {
					ok = paramAlwaysTokenHash(e, p)
				}
			}
			e.R.Check(ok, rule, construct, e.pos(c.(ssa.Instruction)), "key is Token().Hash()", "the table is accessed with a key that is not the token hash")
		}
	}
	if n == 0 {
		e.R.Undecided(rule, "token-tables:accesses", "-", "no access to the token tables found")
	}
	// Token.Hash: every return is a checksum over exactly the whole token
	if f := e.fn(rule, "message.Token.Hash"); f != nil {
		ok, n := true, 0
		for _, ret := range core.ReturnsOf(f) {
			n++
			c, isCall := core.RetVal(ret, 0).(*ssa.Call)
			if !isCall || !strings.HasPrefix(core.CalleeName(c), "hash/") || core.Unwrap(core.Arg(c, 0)) != ssa.Value(f.Params[0]) {
				ok = false
			}
		}
		e.R.Check(ok && n > 0, rule, "message.Token.Hash:checksum-of-whole-token", e.fpos(f), "every return is a hash/* checksum of the whole token slice (length included)", "Token.Hash has a path that does not checksum the whole token: distinct tokens (e.g. differing in trailing zero bytes) can share a key")
	}
}

func paramAlwaysTokenHash(e *Env, p *ssa.Parameter) bool {
	fn := p.Parent()
	idx := -1
	for i, q := range fn.Params {
		if q == p {
			idx = i
		}
	}
	n := 0
	for _, caller := range e.P.SrcFuncs(false) {
		for _, c := range core.Calls(caller, func(_ string, ci ssa.CallInstruction) bool {
			sf := core.StaticFn(ci)
			return sf == fn || (sf != nil && sf.Origin() == fn)
		}) {
			n++
			if _, ok := isTokenHash(core.Arg(c, idx)); !ok {
				return false
			}
		}
	}
	return n > 0
}

// c03Handover: R4 for the request continuations (udp/tcp doInternal).
func c03Handover(e *Env) {
	rule := "C03.R4"
	for _, q := range []string{"udp/client.Conn.doInternal", "tcp/client.Conn.doInternal"} {
		f := e.fn(rule, q)
		if f == nil {
			continue
		}
		// the continuation: closure registered with LoadOrStore on the token table
		var cont *ssa.Function
		var boundRecv ssa.Value
		for _, c := range core.Calls(f, func(nm string, ci ssa.CallInstruction) bool {
			return nm == "pkg/sync.Map.LoadOrStore" && strings.HasSuffix(tableOf(ci), ".tokenHandlerContainer")
		}) {
			cont = core.FuncArgClosure(core.Arg(c, 2))
			if mk, isMk := core.Resolve(core.Arg(c, 2)).(*ssa.MakeClosure); isMk && len(mk.Bindings) == 1 {
				boundRecv = mk.Bindings[0]
			}
			if cont == nil {
				// registered through a shared helper: the handler this function passes in
				for _, v := range core.ResolveIn(f, core.Arg(c, 2)) {
					if g := core.FuncArgClosure(v); g != nil {
						cont = g
					}
				}
			}
		}
		// a method value of a small waiter struct (`waiter.deliver`): the continuation is that method, its receiver the bound value
		var recvParam *ssa.Parameter
		var recvBound ssa.Value
		if cont != nil && strings.HasPrefix(cont.Synthetic, "bound method wrapper") && len(cont.FreeVars) == 1 {
			recvBound = boundRecv
			var target *ssa.Function
			core.InstrsOwn(cont, func(in ssa.Instruction) {
				if c, ok := in.(ssa.CallInstruction); ok {
					if g := c.Common().StaticCallee(); g != nil && len(g.Blocks) > 0 {
						target = g
					}
				}
			})
			if target != nil && len(target.Params) == 3 {
				recvParam = target.Params[0]
				cont = target
			}
		}
		if cont == nil || (len(cont.Params) != 2 && recvParam == nil) {
			e.R.Fail(rule, q+":continuation", e.fpos(f), "the registered continuation is not a function literal")
			continue
		}
		msg := cont.Params[len(cont.Params)-1]
		// chanOf: the channel a value is – directly, or as the field of a (bound) waiter struct built in this function
		var chanOf func(v ssa.Value, d int) *ssa.MakeChan
		var structField func(base ssa.Value, field, d int) *ssa.MakeChan
		// structField: what field #field of the struct value / variable `base` holds (a struct built by a literal, copied between
		// locals, bound as the receiver of a method value)
		structField = func(base ssa.Value, field, d int) *ssa.MakeChan {
			if d > 14 || base == nil {
				return nil
			}
			switch x := base.(type) {
			case *ssa.Parameter:
				if recvParam != nil && x == recvParam {
					return structField(recvBound, field, d+1)
				}
				return nil
			case *ssa.UnOp:
				if x.Op == token.MUL {
					return structField(x.X, field, d+1) // a load of a struct variable: look at the variable
				}
				return nil
			case *ssa.Call:
				// built by a small constructor analysed as part of this function: look at what it returns
				if h := core.AbsorbedCallee(x); h != nil {
					var out *ssa.MakeChan
					for _, ret := range core.ReturnsOf(h) {
						if len(ret.Results) >= 1 {
							if mc := structField(core.RetVal(ret, 0), field, d+1); mc != nil {
								out = mc
							}
						}
					}
					return out
				}
				return nil
			case *ssa.Alloc:
				var out *ssa.MakeChan
				for _, ref := range core.Referrers(x) {
					switch u := ref.(type) {
					case *ssa.FieldAddr:
						if u.Field != field {
							continue
						}
						for _, uu := range core.Referrers(u) {
							if st, isSt := uu.(*ssa.Store); isSt && st.Addr == ssa.Value(u) {
								if mc := chanOf(st.Val, d+1); mc != nil {
									out = mc
								}
							}
						}
					case *ssa.Store:
						if u.Addr == ssa.Value(x) { // the whole struct is assigned
							if mc := structField(u.Val, field, d+1); mc != nil {
								out = mc
							}
						}
					}
				}
				return out
			}
			return nil
		}
		chanOf = func(v ssa.Value, d int) *ssa.MakeChan {
			if d > 14 || v == nil {
				return nil
			}
			r := core.Resolve(v)
			if mc, ok := r.(*ssa.MakeChan); ok {
				return mc
			}
			if _, isP := r.(*ssa.Parameter); isP {
				// the wait moved into a helper shared by several callers: the channel this function passes to it
				for _, alt := range core.ResolveAll(v) {
					if mc, ok := alt.(*ssa.MakeChan); ok && mc.Parent() == f {
						return mc
					}
				}
			}
			var base ssa.Value
			field := -1
			switch x := r.(type) {
			case *ssa.Field:
				base, field = x.X, x.Field
			case *ssa.UnOp:
				if fa, ok := x.X.(*ssa.FieldAddr); ok && x.Op == token.MUL {
					base, field = fa.X, fa.Field
				}
			}
			if field < 0 {
				return nil
			}
			return structField(base, field, d)
		}
		var sel *ssa.Select
		core.Instrs(cont, func(in ssa.Instruction) {
			if s, ok := in.(*ssa.Select); ok {
				sel = s
			}
		})
		// the channel: what the continuation sends the message on
		var ch *ssa.MakeChan
		if sel != nil {
			for _, st := range sel.States {
				if st.Dir == types.SendOnly && core.Resolve(st.Send) == ssa.Value(msg) {
					ch = chanOf(st.Chan, 0)
				}
			}
		}
		if ch == nil {
			e.R.Fail(rule, q+":response-channel", e.fpos(f), "no response channel")
			continue
		}
		k, isC := core.ConstInt(ch.Size)
		e.R.Check(isC && k >= 1, rule, q+":channel-buffered", e.pos(ch), fmt.Sprintf("response channel has constant capacity %d ≥ 1 (the sender never blocks, one response is kept)", k), "the response channel is unbuffered or of unknown capacity: the receive path could block or drop the response")
		hij := core.CallsNamed(cont, "message/pool.Message.Hijack")
		okSend := sel != nil && !sel.Blocking
		sendsMsg := false
		if sel != nil {
			for _, st := range sel.States {
				if st.Dir == types.SendOnly && core.Resolve(st.Send) == ssa.Value(msg) && chanOf(st.Chan, 0) == ch {
					sendsMsg = true
				}
			}
		}
		e.R.Check(okSend && sendsMsg, rule, q+":non-blocking-send", e.fpos(cont), "the continuation sends the received message on the request's own channel inside a select with default", "the continuation's send can block the receive path or does not deliver the received message on the request's channel")
		okH := len(hij) == 1 && core.Arg(hij[0], 0) == ssa.Value(msg) && sel != nil && core.Dominates(hij[0].(ssa.Instruction), sel)
		e.R.Check(okH, rule, q+":hijack-before-send", e.fpos(cont), "Hijack() on the received message dominates the send (the receive path will not recycle it)", "the response is handed over without being hijacked first")
		// the waiter receives from the channel and returns that value
		okRecv := false
		core.Instrs(f, func(in ssa.Instruction) {
			s, ok := in.(*ssa.Select)
			if !ok || !s.Blocking {
				return
			}
			for _, st := range s.States {
				if st.Dir == types.RecvOnly && chanOf(st.Chan, 0) == ch {
					okRecv = true
				}
			}
		})
		e.R.Check(okRecv, rule, q+":waiter-receives", e.fpos(f), "the blocking select of the caller receives from the same channel", "the caller does not wait on the channel the continuation sends to")
	}
	c03OneShotAs(e, rule)
}

// c03OneShotAs: dispatch is one-shot: handle() takes the continuation with LoadAndDelete.
func c03OneShotAs(e *Env, rule string) {
	for _, q := range []string{"udp/client.Conn.handle", "tcp/client.Conn.handle"} {
		f := e.fn(rule, q)
		if f == nil {
			continue
		}
		n, bad := 0, 0
		for _, g := range core.WithAnon(f) {
			for _, c := range core.Calls(g, func(nm string, ci ssa.CallInstruction) bool {
				return strings.HasPrefix(nm, "pkg/sync.Map.") && strings.HasSuffix(tableOf(ci), ".tokenHandlerContainer")
			}) {
				n++
				if core.CalleeName(c) != "pkg/sync.Map.LoadAndDelete" {
					bad++
				}
			}
		}
		e.R.Check(n > 0 && bad == 0, rule, q+":one-shot-dispatch", e.fpos(f), fmt.Sprintf("all %d dispatch lookups take the continuation out of the table (LoadAndDelete)", n), "a dispatch lookup leaves the continuation registered: a duplicated response would be delivered twice")
	}
}

// ---------------------------------------------------------------------------

func c03Extra(e *Env) {
	r := e.R
	r.Rule("C03.R6", "paths", "a hijacked response stays the waiter's: the hijack flag is monotone (never cleared by Reset); the stream buffer is advanced by exactly what was decoded (no message delivered twice)", 3)
	if e.want("C03.R6") {
		c12HijackMonotoneAs(e, "C03.R6")
		c07ConsumptionAs(e, "C03.R6")
	}
}

func runC13(e *Env) {
	r := e.R
	r.Rule("C13.R1", "paths", "every registration is paired with its removal / expiry; every site classified; error-cell cleanups see the returned error", 30)
	r.Rule("C13.R2", "flows", "the sweep reaches every cache and the pending table", 6)
	r.Rule("C13.R3", "locks+paths", "per-ID lock map deletes at zero under its lock", 2)
	r.Rule("C13.R4", "paths", "semaphore / endpoint / per-ID lock acquisitions are released on every exit", 8)
	if e.want("C13.R1") {
		for _, sp := range pairSpecs {
			checkPairing(e, "C13.R1", sp)
		}
		checkInventory(e, "C13.R1", pairSpecs)
		checkCleanupCallers(e, "C13.R1")
		for _, q := range []string{"net/observation.Handler.NewObservation", "net/blockwise.BlockWise.processReceivedMessage"} {
			checkErrCell(e, "C13.R1", q)
		}
		// a removal closure handed out to the caller must not compute its key from a message that is recycled when the function returns
		c12Containers(e, releaserParams(e), "C13.R1", "c")
	}
	if e.want("C13.R2") {
		c13Sweeps(e)
	}
	if e.want("C13.R3") {
		c13MutexMap(e)
	}
	if e.want("C13.R4") {
		c13Acquisitions(e)
		sendingEntryDroppedByTokenTest(e, "C13.R4")
	}
}

// checkErrCell: a deferred closure decides cleanup by reading an error cell; every return of a possibly non-nil error
// must return the cell's content (assigned just before), or the cleanup must already have happened on every path to it.
func checkErrCell(e *Env, rule, q string) {
	f := e.fn(rule, q)
	if f == nil {
		return
	}
	type errDefer struct {
		d        *ssa.Defer
		cell     *ssa.Alloc
		cleanups []string
	}
	var eds []errDefer
	core.Instrs(f, func(in ssa.Instruction) {
		d, ok := in.(*ssa.Defer)
		if !ok {
			return
		}
		body := core.StaticFn(d)
		if body == nil || (body.Parent() == nil && !core.IsAbsorbed(body)) {
			return
		}
		// the cell: an *error argument or a captured error variable that the body compares with nil
		var cell *ssa.Alloc
		for _, a := range d.Call.Args {
			if al, ok := a.(*ssa.Alloc); ok && core.IsErrorType(al.Type().Underlying().(*types.Pointer).Elem()) {
				cell = al
			}
		}
		if cell == nil {
			for _, fv := range body.FreeVars {
				if al := core.CellOf(fv); al != nil && core.IsErrorType(al.Type().Underlying().(*types.Pointer).Elem()) {
					// must be tested against nil in the body
					for _, i := range core.IfsOf(body) {
						if ev, _, ok := core.ErrNilEdge(i); ok {
							if ld, isLd := ev.(*ssa.UnOp); isLd && ld.X == ssa.Value(fv) {
								cell = al
							}
						}
					}
				}
			}
		}
		if cell == nil {
			return
		}
		var names []string
		for _, h := range core.WithAnon(body) {
			core.Instrs(h, func(in2 ssa.Instruction) {
				if c, ok := in2.(*ssa.Call); ok {
					if n := core.CalleeName(c); n != "" && !strings.HasPrefix(n, "builtin.") {
						names = append(names, n)
					}
				}
			})
		}
		eds = append(eds, errDefer{d, cell, names})
	})
	if len(eds) == 0 {
		// no deferred clean-up that reads an error cell: the clean-up is then explicit on the error exits, which the pairing obligation
		// of this registration site decides ("every error exit after the registration removes the same key")
		e.R.OkTrivial(rule, q+":error-cell-cleanup", e.fpos(f), "no deferred error-cell clean-up in this function; explicit clean-up on error exits is decided by the pairing obligation of the site")
		return
	}
	for _, ed := range eds {
		bad := ""
		n := 0
		for _, ret := range core.ReturnsOf(f) {
			if len(ret.Results) == 0 {
				continue
			}
			rv := core.RetVal(ret, len(ret.Results)-1)
			if !core.IsErrorType(rv.Type()) || core.IsNilConst(rv) {
				continue
			}
			if !core.Dominates(ed.d, ret) {
				continue
			}
			n++
			if ld, ok := rv.(*ssa.UnOp); ok && ld.Op == token.MUL && core.CellOf(ld.X) == ed.cell {
				continue // returns the cell's content
			}
			// a wrap of the variable: the return is control-dependent on `variable != nil`, so the cleanup will see it
			if _, g := core.GuardedBy(ret, func(cond ssa.Value) core.CondMatch {
				cmp, isCmp := core.AsCmp(cond)
				if !isCmp {
					return core.CondMatch{}
				}
				isCell := func(v ssa.Value) bool {
					ld, ok := v.(*ssa.UnOp)
					return ok && ld.Op == token.MUL && core.CellOf(ld.X) == ed.cell
				}
				if (isCell(cmp.X) && core.IsNilConst(cmp.Y)) || (isCell(cmp.Y) && core.IsNilConst(cmp.X)) {
					return core.CondMatch{Match: true, Branch: cmp.Op == token.NEQ}
				}
				return core.CondMatch{}
			}); g {
				continue
			}
			// otherwise the cleanup must already have run on every path from the defer to this return
			q2 := &core.PathQuery{Fn: f, From: ed.d, Stop: core.CallPred(ed.cleanups...), Target: func(in ssa.Instruction) bool { return in == ssa.Instruction(ret) }}
			if w := q2.Find(); w != nil {
				bad = fmt.Sprintf("the return at %s yields an error that was never assigned to the variable the deferred cleanup inspects (it sees nil and skips the cleanup)", e.pos(ret))
			}
		}
		// polarity: inside the deferred body nothing runs only where the inspected error is nil (the clean-up belongs to the failure edge)
		if body := core.StaticFn(ed.d); body != nil && bad == "" {
			for _, i := range core.IfsOf(body) {
				ev, nilBranch, isE := core.ErrNilEdge(i)
				if !isE || i.Parent() != body {
					continue
				}
				if ld, isLd := ev.(*ssa.UnOp); !isLd || ld.Op != token.MUL {
					continue
				}
				core.InstrsOwn(body, func(in ssa.Instruction) {
					if c, isC := in.(*ssa.Call); isC && !strings.HasPrefix(core.CalleeName(c), "builtin.") && core.OnlyViaEdge(i, nilBranch, c) {
						bad = fmt.Sprintf("the deferred clean-up at %s runs only when the inspected error is nil: a failed call keeps its state and a successful one loses it", e.pos(c))
					}
				})
			}
		}
		e.R.Check(bad == "" && n > 0, rule, fmt.Sprintf("%s:error-cell-cleanup", q), e.pos(ed.d), fmt.Sprintf("all %d error returns after the defer return the inspected variable itself (or the cleanup already ran)", n), bad)
	}
}

func c13Sweeps(e *Env) {
	rule := "C13.R2"
	// blockwise: every cache-typed field is swept
	if f := e.fn(rule, "net/blockwise.BlockWise.CheckExpirations"); f != nil {
		n := e.P.NamedType("net/blockwise.BlockWise")
		want := map[string]bool{}
		if n != nil {
			if st, ok := n.Underlying().(*types.Struct); ok {
				for i := 0; i < st.NumFields(); i++ {
					if strings.Contains(st.Field(i).Type().String(), "pkg/cache.Cache") {
						want[st.Field(i).Name()] = false
					}
				}
			}
		}
		for _, c := range core.CallsNamed(f, "pkg/cache.Cache.CheckExpirations") {
			if ld, ok := core.Arg(c, 0).(*ssa.UnOp); ok {
				if _, fl, ok := core.FieldOf(ld.X); ok {
					if _, has := want[fl]; has && core.Unwrap(core.Arg(c, 1)) == ssa.Value(f.Params[1]) {
						want[fl] = true
					}
				}
			}
		}
		var missing []string
		for k, v := range want {
			if !v {
				missing = append(missing, k)
			}
		}
		e.R.Check(len(missing) == 0 && len(want) >= 2, rule, "net/blockwise.BlockWise.CheckExpirations:all-caches", e.fpos(f), fmt.Sprintf("all %d cache fields are swept with the tick's time", len(want)), "cache field(s) not swept: "+strings.Join(missing, ","))
	}
	// udp Conn.CheckExpirations: reply cache, blockwise, pending table
	if f := e.fn(rule, "udp/client.Conn.CheckExpirations"); f != nil {
		has := func(pred func(string, ssa.CallInstruction) bool) bool {
			for _, g := range core.WithAnon(f) {
				if len(core.Calls(g, pred)) > 0 {
					return true
				}
			}
			return false
		}
		cacheSwept := has(func(n string, c ssa.CallInstruction) bool {
			return strings.HasSuffix(n, ".CheckExpirations") && strings.Contains(core.AccessPath(core.Arg(c, 0)), "responseMsgCache")
		})
		bwSwept := has(func(n string, _ ssa.CallInstruction) bool { return n == "net/blockwise.BlockWise.CheckExpirations" })
		pendSwept := has(func(n string, c ssa.CallInstruction) bool {
			return n == "pkg/sync.Map.Range" && strings.HasSuffix(tableOf(c), ".midHandlerContainer")
		})
		monSwept := has(func(n string, _ ssa.CallInstruction) bool { return strings.HasSuffix(n, ".CheckInactivity") })
		e.R.Check(cacheSwept, rule, "udp/client.Conn.CheckExpirations:reply-cache", e.fpos(f), "the reply cache is swept", "the reply cache is not swept")
		e.R.Check(bwSwept, rule, "udp/client.Conn.CheckExpirations:blockwise", e.fpos(f), "block-wise caches are swept", "block-wise caches are not swept")
		e.R.Check(pendSwept, rule, "udp/client.Conn.CheckExpirations:pending", e.fpos(f), "the pending-confirmable table is iterated", "the pending-confirmable table is not iterated")
		e.R.Check(monSwept, rule, "udp/client.Conn.CheckExpirations:monitor", e.fpos(f), "the inactivity monitor is checked", "the inactivity monitor is not checked")
	}
	if f := e.fn(rule, "tcp/client.Conn.CheckExpirations"); f != nil {
		ok := len(core.CallsNamed(f, "net/blockwise.BlockWise.CheckExpirations")) == 1
		e.R.Check(ok, rule, "tcp/client.Conn.CheckExpirations:blockwise", e.fpos(f), "block-wise caches are swept", "block-wise caches are not swept")
	}
	// expired pending entries are deleted and released
	if f := e.fn(rule, "udp/client.Conn.checkMidHandlerContainer"); f != nil {
		var exp *ssa.If
		for _, i := range core.IfsOf(f) {
			cond, _ := core.StripNot(i.Cond)
			if _, ok := core.CondCall(cond, "udp/client.midElement.IsExpired"); ok {
				exp = i
			}
		}
		ok := false
		if exp != nil {
			// on the expired edge every path deletes the entry before returning
			guard := exp
			q := &core.PathQuery{Fn: f, From: guard, Target: core.IsReturn,
				Stop: func(in ssa.Instruction) bool {
					c, isC := in.(*ssa.Call)
					if !isC {
						return false
					}
					n := core.CalleeName(c)
					return (n == "pkg/sync.Map.Delete" || n == "pkg/sync.Map.LoadAndDelete") && strings.HasSuffix(tableOf(c), ".midHandlerContainer")
				},
				EdgeOK: func(x *ssa.If, br bool) bool { return x != guard || br }}
			ok = q.Find() == nil
		}
		e.R.Check(ok, rule, "udp/client.Conn.checkMidHandlerContainer:expired-deleted", e.fpos(f), "an expired pending entry is deleted from the table on the IsExpired edge", "an expired pending confirmable is not deleted")
	}
}

func c13MutexMap(e *Env) {
	rule := "C13.R3"
	f := e.fn(rule, "udp/client.mutexMapEntry.Unlock")
	if f == nil {
		return
	}
	la := core.AnalyzeLocks(f)
	ok, why := false, "no delete of the entry found"
	core.Instrs(f, func(in ssa.Instruction) {
		c, isC := in.(*ssa.Call)
		if !isC {
			return
		}
		b, isB := c.Call.Value.(*ssa.Builtin)
		if !isB || b.Name() != "delete" {
			return
		}
		held := la.At(c)
		locked := false
		for p, h := range held {
			if strings.HasSuffix(p, ".ml") && h.Write {
				locked = true
			}
		}
		_, guarded := core.GuardedBy(c, func(cond ssa.Value) core.CondMatch {
			cmp, isCmp := core.AsCmp(cond)
			if !isCmp {
				return core.CondMatch{}
			}
			k, isK := core.ConstInt(cmp.Y)
			if !isK {
				return core.CondMatch{}
			}
			switch {
			case cmp.Op == token.LSS && k == 1, cmp.Op == token.EQL && k == 0, cmp.Op == token.LEQ && k == 0:
				return core.CondMatch{Match: true, Branch: true}
			}
			return core.CondMatch{}
		})
		if locked && guarded {
			ok = true
		} else {
			why = fmt.Sprintf("delete at %s: under map lock=%v, guarded by count<1=%v", e.pos(c), locked, guarded)
		}
	})
	e.R.Check(ok, rule, "udp/client.mutexMapEntry.Unlock:delete-at-zero", e.fpos(f), "the entry is deleted under the map lock exactly when the reference count dropped below 1", why)
	// the decrement is unconditional on the found-entry path
	dec := false
	core.Instrs(f, func(in ssa.Instruction) {
		if b, ok := in.(*ssa.BinOp); ok && b.Op == token.SUB {
			if k, isK := core.ConstInt(b.Y); isK && k == 1 {
				dec = true
			}
		}
	})
	e.R.Check(dec, rule, "udp/client.mutexMapEntry.Unlock:decrements", e.fpos(f), "every Unlock decrements the reference count", "Unlock does not decrement the reference count")
}

// c13Acquisitions: acquire ⇒ release on every exit.
func c13Acquisitions(e *Env) {
	rule := "C13.R4"
	type acq struct {
		fn, acquire, release string
		errResult            bool // acquire returns an error: only the nil edge owns the resource
	}
	for _, a := range []acq{
		{"net/client/limitParallelRequests.LimitParallelRequests.Do", "net/client/limitParallelRequests.LimitParallelRequests.acquireEndpoint", "net/client/limitParallelRequests.LimitParallelRequests.releaseEndpoint", true},
		{"net/client/limitParallelRequests.LimitParallelRequests.DoObserve", "net/client/limitParallelRequests.LimitParallelRequests.acquireEndpoint", "net/client/limitParallelRequests.LimitParallelRequests.releaseEndpoint", true},
		{"net/client/limitParallelRequests.LimitParallelRequests.Do", "golang.org/x/sync/semaphore.Weighted.Acquire", "golang.org/x/sync/semaphore.Weighted.Release", true},
		{"net/client/limitParallelRequests.LimitParallelRequests.DoObserve", "golang.org/x/sync/semaphore.Weighted.Acquire", "golang.org/x/sync/semaphore.Weighted.Release", true},
		{"udp/client.Conn.handleReq", "udp/client.MutexMap.Lock", "udp/client.Unlocker.Unlock", false},
	} {
		f := e.fn(rule, a.fn)
		if f == nil {
			continue
		}
		calls := core.CallsNamed(f, a.acquire)
		if len(calls) == 0 {
			e.R.Undecided(rule, a.fn+":"+shortType(a.acquire), e.fpos(f), "acquisition not found")
			continue
		}
		for _, c := range calls {
			call := c.(*ssa.Call)
			construct := fmt.Sprintf("%s:%s⇒%s", a.fn, shortType(a.acquire), shortType(a.release))
			sameKeyRel := func(rc ssa.CallInstruction) bool {
				if core.CalleeName(rc) != a.release {
					return false
				}
				switch a.release {
				case "udp/client.Unlocker.Unlock":
					return core.Resolve(core.Arg(rc, 0)) == ssa.Value(call)
				case "golang.org/x/sync/semaphore.Weighted.Release":
					return core.AccessPath(core.Arg(rc, 0)) == core.AccessPath(core.Arg(call, 0)) && exprEq(core.Arg(rc, 1), core.Arg(call, 2), 0)
				default:
					return exprEq(core.Arg(rc, 1), core.Arg(call, 2), 0)
				}
			}
			q := &core.PathQuery{Fn: f, From: call,
				Stop: func(in ssa.Instruction) bool { rc, ok := in.(*ssa.Call); return ok && sameKeyRel(rc) },
				DeferStop: func(d *ssa.Defer) bool {
					if sameKeyRel(d) {
						return true
					}
					// a deferred release closure (written in place, or returned by the helper that acquired): its body releases the same key
					if body := core.StaticFn(d); body != nil && body.Parent() != nil {
						for _, g := range core.WithAnon(body) {
							for _, rc := range core.CallsNamed(g, a.release) {
								if sameKeyRel(rc) {
									return true
								}
							}
						}
					}
					return false
				},
				Target: core.IsReturn}
			if a.errResult {
				q.EdgeOK = func(i *ssa.If, branch bool) bool {
					ev, nilBranch, ok := core.ErrNilEdge(i)
					if ok && core.Resolve(ev) == ssa.Value(call) {
						return branch == nilBranch
					}
					if ok {
						if ld, isLd := ev.(*ssa.UnOp); isLd {
							if al := core.CellOf(ld.X); al != nil {
								for _, st := range core.StoresToCell(al) {
									if st.Val == ssa.Value(call) && core.Dominates(st, i) && st.Block() == i.Block() {
										return branch == nilBranch
									}
								}
							}
						}
					}
					return true
				}
			}
			w := q.Find()
			e.R.Check(w == nil, rule, construct, e.pos(call), "after a successful acquisition every path to a return releases the same resource (deferred)", "a path keeps the resource: "+e.trace(w))
		}
	}
	// NSTART semaphore: acquired in prepareWriteMessage, release appended to the cleanup list (handed to the caller – see cleanup callers)
	if f := e.fn(rule, "udp/client.Conn.prepareWriteMessage"); f != nil {
		acqs := core.CallsNamed(f, "udp/client.Conn.acquireOutstandingInteraction")
		ok := len(acqs) == 1
		if ok {
			found := false
			for _, g := range core.WithAnon(f) {
				if g != f && len(core.CallsNamed(g, "udp/client.Conn.releaseOutstandingInteraction")) > 0 {
					found = true
				}
			}
			// or the method value itself is put on the list: closeFns = append(closeFns, cc.releaseOutstandingInteraction)
			core.Instrs(f, func(in ssa.Instruction) {
				if mk, isMk := in.(*ssa.MakeClosure); isMk {
					if fn, isFn := mk.Fn.(*ssa.Function); isFn && strings.HasPrefix(fn.Synthetic, "bound method wrapper") {
						if obj, isObj := fn.Object().(*types.Func); isObj && core.QName(obj) == "udp/client.Conn.releaseOutstandingInteraction" {
							found = true
						}
					}
				}
			})
			ok = found
		}
		e.R.Check(ok, rule, "udp/client.Conn.prepareWriteMessage:nstart-release-queued", e.fpos(f), "the NSTART slot's release is put on the cleanup list right after a successful acquire", "the NSTART slot is not released by the cleanup list")
		nstartReleasedOnError(e, rule)
	}
	// NSTART arithmetic: Acquire(n) then Release(n-1); the remaining 1 is released by releaseOutstandingInteraction
	if f := e.fn(rule, "udp/client.Conn.acquireOutstandingInteraction"); f != nil {
		acqs := core.CallsNamed(f, "golang.org/x/sync/semaphore.Weighted.Acquire")
		rels := core.CallsNamed(f, "golang.org/x/sync/semaphore.Weighted.Release")
		ok := len(acqs) == 1 && len(rels) == 1
		if ok {
			n := core.Arg(acqs[0], 2)
			sub, isSub := core.Arg(rels[0], 1).(*ssa.BinOp)
			k := int64(0)
			if isSub {
				k, _ = core.ConstInt(sub.Y)
			}
			ok = isSub && sub.Op == token.SUB && sub.X == n && k == 1
		}
		g := e.fn(rule, "udp/client.Conn.releaseOutstandingInteraction")
		ok2 := false
		if g != nil {
			for _, c := range core.CallsNamed(g, "golang.org/x/sync/semaphore.Weighted.Release") {
				if k, isK := core.ConstInt(core.Arg(c, 1)); isK && k == 1 {
					ok2 = true
				}
			}
		}
		e.R.Check(ok && ok2, rule, "udp/client.Conn.acquireOutstandingInteraction:balance", e.fpos(f), "Acquire(n), Release(n−1) and the final Release(1) sum to zero", "NSTART semaphore weights do not balance (Acquire(n) / Release(n−1) / Release(1))")
	}
	// endpoint queue deleted at zero
	if f := e.fn(rule, "net/client/limitParallelRequests.LimitParallelRequests.releaseEndpoint"); f != nil {
		ok := false
		for _, c := range core.CallsNamed(f, "pkg/sync.Map.ReplaceWithFunc") {
			cb := core.FuncArgClosure(core.Arg(c, 2))
			if cb == nil {
				continue
			}
			for _, ret := range core.ReturnsOf(cb) {
				if b, isC := core.ConstBool(core.RetVal(ret, 1)); isC && b {
					if _, g := core.GuardedBy(ret, func(cond ssa.Value) core.CondMatch {
						cmp, isCmp := core.AsCmp(cond)
						if !isCmp {
							return core.CondMatch{}
						}
						if k, isK := core.ConstInt(cmp.Y); isK && k == 0 && (cmp.Op == token.EQL || cmp.Op == token.NEQ) {
							return core.CondMatch{Match: true, Branch: cmp.Op == token.EQL}
						}
						return core.CondMatch{}
					}); g {
						ok = true
					}
				}
			}
			// … and ALWAYS then: from the counter==0 edge no path keeps the entry (an extra condition would strand entries for ever,
			// the map has no sweep)
			for _, i := range core.IfsOf(cb) {
				cmp, isCmp := core.AsCmp(i.Cond)
				if !isCmp || (cmp.Op != token.EQL && cmp.Op != token.NEQ) {
					continue
				}
				if k, isK := core.ConstInt(cmp.Y); !isK || k != 0 {
					continue
				}
				if _, isLen := core.Unwrap(cmp.X).(*ssa.Call); isLen {
					continue // len(queue) == 0, not the counter
				}
				zeroBranch := cmp.Op == token.EQL
				guard := i
				q := &core.PathQuery{Fn: cb, From: guard,
					Target: func(in ssa.Instruction) bool {
						ret, isRet := in.(*ssa.Return)
						if !isRet {
							return false
						}
						b, isC := core.ConstBool(core.RetVal(ret, 1))
						return !isC || !b
					},
					EdgeOK: func(x *ssa.If, branch bool) bool { return x != guard || branch == zeroBranch }}
				w := q.Find()
				e.R.Check(w == nil, rule, "net/client/limitParallelRequests.LimitParallelRequests.releaseEndpoint:always-deleted-at-zero", e.pos(guard), "every path from counter == 0 returns delete=true", "with the in-flight counter at zero the queue entry can still be kept: "+e.trace(w))
			}
		}
		e.R.Check(ok, rule, "net/client/limitParallelRequests.LimitParallelRequests.releaseEndpoint:delete-at-zero", e.fpos(f), "the queue entry is deleted when its in-flight counter reaches zero", "the endpoint queue entry is never deleted at zero")
	}
	// reassembly entry's expiry removes the paired sending entry
	if f := e.fn(rule, "net/blockwise.BlockWise.getCachedReceivedMessage"); f != nil {
		ok := false
		for _, c := range core.CallsNamed(f, "pkg/cache.NewElement") {
			cb := core.FuncArgClosure(core.Arg(c, 2))
			if cb == nil {
				continue
			}
			for _, d := range core.CallsNamed(cb, "pkg/sync.Map.Delete") {
				if strings.HasSuffix(tableOf(d), ".sendingMessagesCache") {
					ok = true
				}
			}
		}
		e.R.Check(ok, rule, "net/blockwise.BlockWise.getCachedReceivedMessage:onExpire-drops-sending", e.fpos(f), "the reassembly entry's onExpire deletes the paired sending entry", "an expired reassembly entry leaves its paired sending entry behind")
	}
}

// nstartReleasedOnError: once prepareWriteMessage holds an NSTART slot (successful acquireOutstandingInteraction), every return with
// an error gives it back first – by calling releaseOutstandingInteraction (directly or through a function value bound to it) or
// by executing the clean-up list. A slot kept by a failed request is lost for the life of the connection: with NSTART = 1 every
// later request waits for ever.
func nstartReleasedOnError(e *Env, rule string) {
	f := e.fn(rule, "udp/client.Conn.prepareWriteMessage")
	if f == nil {
		return
	}
	for _, a := range core.CallsNamed(f, "udp/client.Conn.acquireOutstandingInteraction") {
		acq, ok := a.(*ssa.Call)
		if !ok {
			continue
		}
		q := &core.PathQuery{Fn: f, From: acq,
			Stop: func(in ssa.Instruction) bool {
				c, isC := in.(*ssa.Call)
				if !isC {
					return false
				}
				n := core.CalleeName(c)
				if n == "udp/client.Conn.releaseOutstandingInteraction" || n == "pkg/fn.FuncList.Execute" {
					return true
				}
				// a local clean-up closure that releases the slot (possibly under the flag that says whether one was taken)
				if mk, isMk := core.Resolve(c.Call.Value).(*ssa.MakeClosure); isMk {
					if body, isF := mk.Fn.(*ssa.Function); isF && len(core.CallsNamedDeep(body, "udp/client.Conn.releaseOutstandingInteraction")) > 0 {
						return true
					}
				}
				return false
			},
			Target: func(in ssa.Instruction) bool {
				ret, isRet := in.(*ssa.Return)
				if !isRet || len(ret.Results) == 0 {
					return false
				}
				rv := core.RetVal(ret, len(ret.Results)-1)
				return core.IsErrorType(rv.Type()) && !core.IsNilConst(rv)
			},
			EdgeOK: func(i *ssa.If, branch bool) bool {
				// only the successful acquisition owns a slot
				ev, nilBranch, isErr := core.ErrNilEdge(i)
				if isErr && core.Resolve(ev) == ssa.Value(acq) {
					return branch == nilBranch
				}
				return true
			}}
		w := q.Find()
		e.R.Check(w == nil, rule, "udp/client.Conn.prepareWriteMessage:nstart-released-on-error", e.pos(acq), "every error return after a successful acquisition releases the slot first", "an error path keeps the NSTART slot: "+e.trace(w))
	}
}

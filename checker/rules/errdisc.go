package rules

import (
	"fmt"
	"go/ast"
	"go/token"
	"go/types"
	"sort"
	"strings"

	"coapcheck/internal/core"

	"golang.org/x/tools/go/ssa"
)

// ErrDiscipline is the error-discipline rule every property runs over the functions it is anchored in (the functions its own
// rules look up, the helpers analysed as part of them and their closures):
//
//	E1a  a result delivered together with an error is not consumed where that error is known to be NON-nil
//	E1b  the error itself is not consumed (wrapped, returned, logged) where it is known to BE nil
//
// Both are contradictions in Engler's sense: the code tests the error and then acts as if the test had come out the other way.
// An inverted or misplaced error test in a function a property is anchored in makes the function fail on success and continue
// with zero values on failure, which breaks whatever the function contributes to the property. Exempt are results that are
// meaningful together with a non-nil error by the callee's documented contract (io.Reader-style byte counts, see errDiscExempt).
func ErrDiscipline(e *Env, id string) {
	rule := id + ".E1"
	if !e.want(rule) {
		return
	}
	e.R.Rule(rule, "contradiction", "in the functions this property is anchored in, a result paired with an error is not consumed where the error is known non-nil, and the error is not consumed where it is known nil", 0)
	var names []string
	for n := range e.P.Looked {
		names = append(names, n)
	}
	sort.Strings(names)
	seenFn := map[*ssa.Function]bool{}
	nsites := 0
	// same-package callers of the anchored functions: whoever calls an anchored function has to honour its refusal
	callersOf := map[*ssa.Function][]*ssa.Function{}
	for _, g := range e.P.AllSrcFuncs(false) {
		top := g
		for top.Parent() != nil {
			top = top.Parent()
		}
		core.InstrsOwn(g, func(in ssa.Instruction) {
			if c, ok := in.(ssa.CallInstruction); ok {
				if callee := core.StaticFn(c); callee != nil && callee.Pkg != nil && callee.Pkg == top.Pkg && callee != top {
					callersOf[callee] = append(callersOf[callee], top)
				}
			}
		})
	}
	for _, n := range names {
		obj := lookupQuiet(e.P, n)
		if obj == nil {
			continue
		}
		var fam []*ssa.Function
		fam = append(fam, core.WithAnon(obj)...)
		for _, h := range core.AbsorbedInto(obj) {
			fam = append(fam, h)
		}
		// … and the functions of the same package it calls statically (two levels): what they compute is what the anchor acts on
		level := []*ssa.Function{obj}
		for d := 0; d < 2; d++ {
			var next []*ssa.Function
			for _, g := range level {
				for _, h := range core.WithAnon(g) {
					core.InstrsOwn(h, func(in ssa.Instruction) {
						c, ok := in.(ssa.CallInstruction)
						if !ok {
							return
						}
						callee := core.StaticFn(c)
						if callee == nil || len(callee.Blocks) == 0 || callee.Pkg == nil || obj.Pkg == nil || callee.Pkg != obj.Pkg || callee.Parent() != nil {
							return
						}
						if e.P.IsTestPos(callee.Pos()) {
							return
						}
						next = append(next, callee)
						fam = append(fam, core.WithAnon(callee)...)
					})
				}
			}
			level = next
		}
		for _, caller := range callersOf[obj] {
			if !strings.HasPrefix(core.FnName(caller), "examples/") && !e.P.IsTestPos(caller.Pos()) {
				fam = append(fam, core.WithAnon(caller)...)
			}
		}
		for _, f := range fam {
			if seenFn[f] || len(f.Blocks) == 0 {
				continue
			}
			seenFn[f] = true
			nsites += errDiscFunc(e, rule, n, f)
			errDiscDropped(e, rule, f)
		}
	}
	e.R.Infof(rule, "coverage", "-", "%d anchored functions (with helpers and closures), %d tested (value, error) sites", len(seenFn), nsites)
}

// lookupQuiet resolves a role name without recording it as looked-up.
func lookupQuiet(p *core.Prog, q string) *ssa.Function {
	had := p.Looked[q]
	f := p.Func(q)
	if !had {
		delete(p.Looked, q)
	}
	return f
}

// results that are meaningful together with a non-nil error (callee contract), by callee name suffix.
var errDiscExempt = []string{
	".Read", ".ReadFrom", ".ReadFromUDP", ".ReadMsgUDP", ".Write", ".WriteTo", ".ReadWithContext", ".ReadFull", "io.ReadFull", "io.ReadAtLeast", "io.Copy", "io.CopyN",
}

// one named (function, callee) pair per line, with the reason; confirmed by reading.
var errDiscKnownShape = map[string]string{
	// upstream tests presence of the two ETags the wrong way round, so the two "only one side has an ETag" arms look at the value
	// that is nil by construction and are dead; the arm that matters to reassembly (both present, different → restart) is the
	// third one. Not a clause of C04 (the property does not speak about ETags); recorded in DESIGN §6 as an observation.
	"net/blockwise.BlockWise.getPayloadFromCachedReceivedMessage:pool.Message.GetOptionBytes": "dead sanity arms (upstream)",
}

func errDiscFunc(e *Env, rule, anchor string, f *ssa.Function) int {
	n := 0
	perCallee := map[string]int{}
	for _, i := range core.IfsOf(f) {
		if i.Parent() != f {
			continue
		}
		ev, nilBranch, ok := core.ErrNilEdge(i)
		if !ok {
			continue
		}
		call := errSource(ev)
		if call == nil || call.Parent() != f {
			continue
		}
		callee := core.CalleeName(call)
		if callee == "" {
			callee = "dynamic"
		}
		short := callee
		if k := strings.LastIndex(short, "/"); k >= 0 {
			short = short[k+1:]
		}
		perCallee[short]++
		key := fmt.Sprintf("%s:%s", core.FnName(f), short)
		if perCallee[short] > 1 {
			key += fmt.Sprintf("#%d", perCallee[short])
		}
		n++
		exempt := false
		for _, s := range errDiscExempt {
			if strings.HasSuffix(callee, s) {
				exempt = true
			}
		}
		bad := ""
		// E1a: companions of the error
		if !exempt {
			for _, ref := range core.Referrers(call) {
				ex, isEx := ref.(*ssa.Extract)
				if !isEx || core.IsErrorType(ex.Type()) {
					continue
				}
				for _, u := range core.Referrers(ex) {
					if skipUse(u) || u.Parent() != f {
						continue
					}
					if core.OnlyViaEdge(i, !nilBranch, u) {
						bad = fmt.Sprintf("result #%d of %s is consumed at %s, which is reachable only where its error is non-nil (test at %s)", ex.Index, short, e.pos(u), e.pos(i))
					}
				}
			}
		}
		// E1b: the error where it is known nil (register form only)
		if _, isLoad := ev.(*ssa.UnOp); !isLoad && bad == "" {
			for _, u := range core.Referrers(ev) {
				if skipUse(u) || u.Parent() != f {
					continue
				}
				if b, isB := u.(*ssa.BinOp); isB && (b.Op == token.EQL || b.Op == token.NEQ) {
					continue
				}
				if core.OnlyViaEdge(i, nilBranch, u) {
					bad = fmt.Sprintf("the error of %s is consumed at %s, which is reachable only where it is nil (test at %s)", short, e.pos(u), e.pos(i))
				}
			}
		}
		if why, isKnown := errDiscKnownShape[core.FnName(f)+":"+short]; isKnown && bad != "" {
			e.R.OkTrivial(rule, key, e.pos(i), "exempt shape: "+why)
			continue
		}
		e.R.Check(bad == "", rule, key, e.pos(i), "tested error of "+short+": companions used only off the non-nil edge, error not used on its nil edge", bad)
	}
	return n
}

// errDiscDropped (E1c): an error delivered together with other results that are used is itself never looked at – it was
// assigned to a variable that is overwritten before it is tested (`v, err := f(); if err = g(v); err != nil`). The value is then
// used although the call that produced it may have refused.
func errDiscDropped(e *Env, rule string, f *ssa.Function) int {
	n := 0
	core.InstrsOwn(f, func(in ssa.Instruction) {
		call, ok := in.(*ssa.Call)
		if !ok {
			return
		}
		tup, isT := call.Type().(*types.Tuple)
		if !isT || tup.Len() < 2 || !core.IsErrorType(tup.At(tup.Len()-1).Type()) {
			return
		}
		var errEx *ssa.Extract
		usedOthers := false
		for _, ref := range core.Referrers(call) {
			ex, isEx := ref.(*ssa.Extract)
			if !isEx {
				continue
			}
			live := false
			for _, u := range core.Referrers(ex) {
				if _, isDbg := u.(*ssa.DebugRef); !isDbg {
					live = true
				}
			}
			if ex.Index == tup.Len()-1 {
				errEx = ex
				if live {
					errEx = nil
					return
				}
			} else if live {
				usedOthers = true
			}
		}
		if errEx == nil || !usedOthers {
			return
		}
		if errDiscardedExplicitly(e, call) {
			return // `v, _ := f()`: a visible decision, not an accident
		}
		n++
		callee := core.CalleeName(call)
		if k := strings.LastIndex(callee, "/"); k >= 0 {
			callee = callee[k+1:]
		}
		e.R.Fail(rule, fmt.Sprintf("%s:%s:error-never-tested", core.FnName(f), callee), e.pos(call), "the error of "+callee+" is assigned but overwritten before anything looks at it, while its other results are used: a refusal goes unnoticed and the zero value is processed")
	})
	return n
}

func skipUse(u ssa.Instruction) bool {
	switch u.(type) {
	case *ssa.DebugRef, *ssa.Phi, *ssa.Return:
		return true // a return hands value and error on together; the caller's test is checked at the caller
	}
	return false
}

// errDiscardedExplicitly: the call is the right-hand side of an assignment whose last left-hand side is the blank identifier.
func errDiscardedExplicitly(e *Env, call *ssa.Call) bool {
	_, file := e.P.FileOf(call.Pos())
	if file == nil {
		return false
	}
	found := false
	ast.Inspect(file, func(n ast.Node) bool {
		as, ok := n.(*ast.AssignStmt)
		if !ok || len(as.Rhs) != 1 || len(as.Lhs) < 2 {
			return true
		}
		ce, isCall := as.Rhs[0].(*ast.CallExpr)
		if !isCall || ce.Lparen != call.Pos() {
			return true
		}
		if id, isID := as.Lhs[len(as.Lhs)-1].(*ast.Ident); isID && id.Name == "_" {
			found = true
		}
		return false
	})
	return found
}

package rules

import (
	"fmt"
	"go/token"
	"math/big"
	"strings"

	"coapcheck/internal/core"

	"golang.org/x/tools/go/ssa"
)

func init() {
	register(&Property{
		ID:    "C07",
		Title: "Stream framing is independent of how bytes are segmented",
		Level: "other",
		Explain: "Decided (the structural reasons framing is a function of the concatenated bytes only): (R1) in the re-framing loop the size-limit check on the announced length dominates the 'need more bytes' exit and the decode, and its failing edge returns an error that ends Run (the deferred close); " +
			"(R2) nothing consumes from the accumulation buffer before the frame is known to be complete (every consuming call is control-dependent on the not-incomplete edge); (R3) the decoder is given exactly Bytes()[:MessageLength] and the buffer is advanced by exactly the decoder's count; " +
			"(R4) for every proper prefix of every header shape (length nibble class × token length) the header parser returns ErrShortRead – abstract interpretation with symbolic content – and the loop maps exactly that error to 'wait for more bytes'; (R5) the announced frame length cannot wrap (shared with C02.R3); " +
			"(R6) each read appends exactly readBuf[:n] of what ReadWithContext returned; (R7) complete messages are handed over synchronously in arrival order, signalling codes are handled inline before the queue.",
		NotDecided: "The universally quantified claim over all segmentations and message sequences is not executed; what is shown is that no step of the loop depends on where a read ended.",
		Run:        runC07,
	})
}

func runC07(e *Env) {
	r := e.R
	r.Rule("C07.R1", "paths", "size-limit check precedes the incomplete-frame exit and the decode; failing edge returns an error", 3)
	r.Rule("C07.R2", "paths", "no consumption from the buffer before the frame is complete", 1)
	r.Rule("C07.R3", "flows", "decoder receives Bytes()[:MessageLength]; buffer advanced by the decoder's count", 2)
	r.Rule("C07.R4", "absint", "every proper prefix of a header yields ErrShortRead, which the loop maps to 'wait'", 9)
	r.Rule("C07.R5", "absint", "frame length cannot wrap", 17)
	r.Rule("C07.R6", "flows", "Run appends exactly the bytes read", 1)
	r.Rule("C07.R7", "paths", "synchronous in-order hand-over; signals inline", 3)
	r.Rule("C07.R9", "locks", "a frame is written to the socket in one critical section: the writers' lock is taken outside the partial-write loop", 1)
	if e.want("C07.R9") {
		c07WriteAtomic(e)
	}
	r.Rule("C07.R8", "absint+flows", "the sender's length header is what the receiver's framing reads back (all length classes); the configured size limit reaches the framing loop", 12)

	pb := e.fn("C07.R1", "tcp/client.Session.processBuffer")
	if pb != nil {
		c07Loop(e, pb)
	}
	if e.want("C07.R4") {
		c07Prefixes(e)
	}
	if e.want("C07.R5") {
		// same obligation as C02.R3, reported under this property's rule id
		sub := *e
		c02HeaderAbsintAs(&sub, "C07.R5")
	}
	if e.want("C07.R6") {
		c07Run(e)
	}
	if e.want("C07.R7") {
		c07Handover(e, pb)
	}
	if e.want("C07.R8") {
		// same obligation as C01.R1's stream part: a frame whose announced length differs from its real length desynchronises the stream
		c01StreamLength(e, "C07.R8")
		checkConfigCopy(e, "C07.R8", "tcp/server.Server.createConn", []string{"MaxMessageSize", "ConnectionCacheSize"})
		checkArgPlumbing(e, "C07.R8", []argPlumb{
			{"tcp/client.NewConnWithOpts", "tcp/client.NewSession", "maxMessageSize", "MaxMessageSize"},
			{"tcp/client.NewConnWithOpts", "tcp/client.NewSession", "connectionCacheSize", "ConnectionCacheSize"},
		})
		checkCtorInit(e, "C07.R8", "tcp/client.NewSession", map[string]string{"maxMessageSize": "maxMessageSize", "connectionCacheSize": "connectionCacheSize"})
	}
}

func isFieldLoad(v ssa.Value, field string) bool {
	ld, ok := core.Unwrap(v).(*ssa.UnOp)
	if !ok || ld.Op != token.MUL {
		return false
	}
	_, fl, ok := core.FieldOf(ld.X)
	return ok && fl == field
}

func stripCastCalls(v ssa.Value) ssa.Value {
	for i := 0; i < 4; i++ {
		v = core.Unwrap(v)
		if c, ok := v.(*ssa.Call); ok && core.CalleeName(c) == "pkg/math.CastTo" && len(c.Call.Args) == 1 {
			v = c.Call.Args[0]
			continue
		}
		break
	}
	return v
}

func c07Loop(e *Env, f *ssa.Function) {
	var oversize, incomplete *ssa.If
	oversizeBranch, incompleteBranch := true, true
	for _, i := range core.IfsOf(f) {
		cond, neg := core.StripNot(i.Cond)
		cmp, ok := core.AsCmp(cond)
		if !ok {
			continue
		}
		x, y := stripCastCalls(cmp.X), stripCastCalls(cmp.Y)
		// a check moved into a small helper compares the helper's parameters: the arguments of its call
		if _, isP := x.(*ssa.Parameter); isP {
			x = stripCastCalls(core.Resolve(x))
		}
		if _, isP := y.(*ssa.Parameter); isP {
			y = stripCastCalls(core.Resolve(y))
		}
		isLen := func(v ssa.Value) bool {
			c, ok := v.(*ssa.Call)
			if ok && core.CalleeName(c) == "bytes.Buffer.Len" {
				return true
			}
			// len(buffer.Bytes()) – possibly through a helper's parameter
			if ok {
				if b, isB := c.Call.Value.(*ssa.Builtin); isB && b.Name() == "len" && len(c.Call.Args) == 1 {
					if bc, isC := core.Resolve(c.Call.Args[0]).(*ssa.Call); isC && core.CalleeName(bc) == "bytes.Buffer.Bytes" {
						return true
					}
				}
			}
			return false
		}
		switch {
		case isFieldLoad(x, "MessageLength") && isFieldLoad(y, "maxMessageSize") && (cmp.Op == token.GTR || cmp.Op == token.GEQ):
			oversize, oversizeBranch = i, !neg
		case isFieldLoad(y, "MessageLength") && isFieldLoad(x, "maxMessageSize") && (cmp.Op == token.LSS || cmp.Op == token.LEQ):
			oversize, oversizeBranch = i, !neg
		case isLen(x) && isFieldLoad(y, "MessageLength") && cmp.Op == token.LSS:
			incomplete, incompleteBranch = i, !neg
		case isLen(y) && isFieldLoad(x, "MessageLength") && cmp.Op == token.GTR:
			incomplete, incompleteBranch = i, !neg
		}
	}
	decodes := core.CallsNamed(f, "message/pool.Message.UnmarshalWithDecoder")
	if e.want("C07.R1") {
		rule := "C07.R1"
		if oversize == nil || incomplete == nil || len(decodes) != 1 {
			e.R.Fail(rule, "tcp/client.Session.processBuffer:checks-present", e.fpos(f), fmt.Sprintf("size-limit check found=%v, incomplete-frame check found=%v, decode calls=%d", oversize != nil, incomplete != nil, len(decodes)))
		} else {
			e.R.Check(core.Dominates(oversize, incomplete), rule, "tcp/client.Session.processBuffer:limit-before-wait", e.pos(oversize),
				"the MessageLength > maxMessageSize test dominates the 'buffer shorter than the frame ⇒ wait' exit", "an oversized header can reach the wait-for-more-bytes exit before the size limit is applied: the oversized body would be buffered")
			e.R.Check(core.Dominates(oversize, decodes[0].(ssa.Instruction)) && core.Dominates(incomplete, decodes[0].(ssa.Instruction)), rule, "tcp/client.Session.processBuffer:checks-before-decode", e.pos(decodes[0].(ssa.Instruction)),
				"both checks dominate the decode", "the decode is reachable without the size/completeness checks")
			// on the oversize edge every way out is an error return, and neither the decode nor a consuming call is reached
			ovIf, ovBr := oversize, oversizeBranch
			q := &core.PathQuery{Fn: f, From: ovIf,
				EdgeOK: func(x *ssa.If, br bool) bool { return x != ovIf || br == ovBr },
				Target: func(in ssa.Instruction) bool {
					if ret, isRet := in.(*ssa.Return); isRet {
						return core.IsNilConst(core.RetVal(ret, len(ret.Results)-1))
					}
					return in == decodes[0].(ssa.Instruction)
				}}
			w := q.Find()
			e.R.Check(w == nil, rule, "tcp/client.Session.processBuffer:limit-returns-error", e.pos(oversize), "the oversize edge leads only to error returns", "the oversize edge does not end in an error: "+e.trace(w))
		}
	}
	if e.want("C07.R2") && incomplete != nil {
		rule := "C07.R2"
		consuming := core.Calls(f, func(n string, _ ssa.CallInstruction) bool {
			switch n {
			case "tcp/client.seekBufferToNextMessage", "bytes.Buffer.Read", "bytes.Buffer.Next", "bytes.Buffer.ReadByte", "bytes.Buffer.Reset", "bytes.Buffer.Truncate", "bytes.Buffer.ReadBytes", "bytes.Buffer.WriteTo":
				return true
			}
			return false
		})
		ok := len(consuming) > 0
		for _, c := range consuming {
			if !core.OnlyViaEdge(incomplete, !incompleteBranch, c.(ssa.Instruction)) {
				ok = false
			}
		}
		e.R.Check(ok, rule, "tcp/client.Session.processBuffer:consume-after-complete", e.fpos(f), fmt.Sprintf("all %d consuming calls lie on the frame-complete edge", len(consuming)), "the buffer can be consumed before the frame is known to be complete")
	}
	if e.want("C07.R3") && len(decodes) == 1 {
		rule := "C07.R3"
		arg := core.Arg(decodes[0], 2)
		sl, isSl := arg.(*ssa.Slice)
		ok := isSl && sl.Low == nil && sl.High != nil && isFieldLoad(core.Resolve(sl.High), "MessageLength")
		if ok {
			c, isCall := core.ThroughHelpers(sl.X).(*ssa.Call)
			ok = isCall && core.CalleeName(c) == "bytes.Buffer.Bytes"
		}
		e.R.Check(ok, rule, "tcp/client.Session.processBuffer:decoder-gets-frame", e.pos(decodes[0].(ssa.Instruction)), "the decoder is given buffer.Bytes()[:header.MessageLength]", "the decoder is not given exactly the announced frame")
		ok2 := false
		for _, c := range core.CallsNamed(f, "tcp/client.seekBufferToNextMessage") {
			if ex, isEx := core.Arg(c, 1).(*ssa.Extract); isEx && ex.Tuple == decodes[0].(ssa.Value) && ex.Index == 0 {
				ok2 = true
			}
		}
		e.R.Check(ok2, rule, "tcp/client.Session.processBuffer:advance-by-decoded", e.fpos(f), "the buffer is advanced by the decoder's own count", "the buffer is advanced by something other than the decoder's count")
	}
	// the loop maps ErrShortRead (and only it) to 'wait'
	if e.want("C07.R4") {
		rule := "C07.R4"
		ok := false
		for _, i := range core.IfsOf(f) {
			cond, neg := core.StripNot(i.Cond)
			c, is := core.CondCall(cond, "errors.Is")
			if !is {
				continue
			}
			tgt, isLd := core.Arg(c, 1).(*ssa.UnOp)
			if !isLd {
				continue
			}
			g, isG := tgt.X.(*ssa.Global)
			if !isG || g.Name() != "ErrShortRead" {
				continue
			}
			// on the short-read edge the only way out is `return nil`, without decoding or consuming anything
			srIf, srBr := i, !neg
			reachesNilReturn := false
			q := &core.PathQuery{Fn: f, From: srIf,
				EdgeOK: func(x *ssa.If, br bool) bool { return x != srIf || br == srBr },
				Target: func(in ssa.Instruction) bool {
					if ret, isRet := in.(*ssa.Return); isRet {
						if core.IsNilConst(core.RetVal(ret, len(ret.Results)-1)) {
							reachesNilReturn = true
							return false
						}
						return true
					}
					if cc, isC := in.(*ssa.Call); isC {
						switch core.CalleeName(cc) {
						case "message/pool.Message.UnmarshalWithDecoder", "tcp/client.seekBufferToNextMessage", "bytes.Buffer.Next", "bytes.Buffer.Reset", "bytes.Buffer.Truncate":
							return true
						}
					}
					return false
				}}
			if q.Find() == nil && reachesNilReturn {
				ok = true
			}
		}
		e.R.Check(ok, rule, "tcp/client.Session.processBuffer:short-read-waits", e.fpos(f), "errors.Is(err, ErrShortRead) ⇒ return nil (wait for more bytes)", "ErrShortRead from the header parser is not mapped to 'wait for more bytes'")
	}
}

// c07Prefixes: every proper prefix of every header shape returns ErrShortRead.
func c07Prefixes(e *Env) {
	rule := "C07.R4"
	f := e.fn(rule, "tcp/coder.Coder.DecodeHeader")
	if f == nil {
		return
	}
	for _, nib := range []int64{5, 13, 14, 15} {
		ext := map[int64]int{5: 0, 13: 1, 14: 2, 15: 4}[nib]
		for _, tkl := range []int64{0, 8} {
			full := 1 + ext + 1 + int(tkl)
			okAll, why := true, ""
			for L := 0; L <= full; L++ {
				it := core.NewInterp(e.P)
				outs := it.RunWith(f, func(st *core.AState) []*core.AVal {
					var bs []*core.AVal
					for i := 0; i < L; i++ {
						if i == 0 {
							bs = append(bs, core.ConstAInt(big.NewInt(nib<<4|tkl), 8, false))
						} else if nib == 15 && i == 1 {
							// keep the announced length below the encoder's maximum so that the complete header is acceptable
							bs = append(bs, core.SymInt("e0", 8, false, big.NewInt(0), big.NewInt(0x3f), 6))
						} else {
							bs = append(bs, core.SymInt(fmt.Sprintf("b%d", i), 8, false, big.NewInt(0), big.NewInt(255), 8))
						}
					}
					return []*core.AVal{core.OpaqueV("coder"), st.NewArray(bs), core.OpaqueV("obj:h")}
				})
				for _, o := range outs {
					switch {
					case o.Abort || o.Panic || len(o.Ret) != 2 || o.Ret[1].K != core.AErr || o.Ret[1].ErrNil == -1:
						okAll, why = false, fmt.Sprintf("prefix %d/%d undecided: %s", L, full, core.SummarizeOutcomes([]core.Outcome{o}))
					case L < full && !(o.Ret[1].ErrNil == 0 && o.Ret[1].Tag == "global:message.ErrShortRead"):
						okAll, why = false, fmt.Sprintf("prefix of %d of %d header bytes returns %s instead of ErrShortRead", L, full, o.Ret[1])
					case L == full && o.Ret[1].ErrNil != 1:
						okAll, why = false, fmt.Sprintf("complete %d-byte header refused: %s", full, o.Ret[1])
					}
					if o.St != nil && len(o.St.Events) > 0 {
						okAll, why = false, strings.Join(o.St.Events, "; ")
					}
				}
				if len(outs) == 0 {
					okAll, why = false, "no outcome"
				}
			}
			e.R.Check(okAll, rule, fmt.Sprintf("tcp/coder.Coder.DecodeHeader:prefixes nib=%d tkl=%d", nib, tkl), e.fpos(f),
				fmt.Sprintf("all %d proper prefixes give ErrShortRead, the complete %d-byte header is accepted (symbolic content)", full, full), why)
		}
	}
}

func c07Run(e *Env) {
	rule := "C07.R6"
	f := e.fn(rule, "tcp/client.Session.Run")
	if f == nil {
		return
	}
	ok := false
	for _, w := range core.CallsNamed(f, "bytes.Buffer.Write") {
		sl, isSl := core.Arg(w, 1).(*ssa.Slice)
		if !isSl || sl.Low != nil || sl.High == nil {
			continue
		}
		ex, isEx := sl.High.(*ssa.Extract)
		if !isEx || ex.Index != 0 {
			continue
		}
		rc, isCall := ex.Tuple.(*ssa.Call)
		if !isCall || !strings.HasSuffix(core.CalleeName(rc), ".ReadWithContext") {
			continue
		}
		if core.SameValue(core.Arg(rc, 2), sl.X) || core.Resolve(core.Arg(rc, 2)) == core.Resolve(sl.X) {
			ok = true
		}
	}
	e.R.Check(ok, rule, "tcp/client.Session.Run:append-exactly-read", e.fpos(f), "buffer.Write(readBuf[:n]) with n and readBuf of the same ReadWithContext call", "the bytes appended to the accumulation buffer are not exactly readBuf[:n] of the read")
	// a processBuffer error ends Run
	ok2 := false
	for _, c := range core.CallsNamed(f, "tcp/client.Session.processBuffer") {
		for _, i := range core.IfsOf(f) {
			ev, nilBranch, isErr := core.ErrNilEdge(i)
			if !isErr || core.Resolve(ev) != c.(ssa.Value) && ev != c.(ssa.Value) {
				// err is stored into the named result cell: accept a load of the cell that was stored from the call
				if ld, isLd := ev.(*ssa.UnOp); isLd {
					if a := core.CellOf(ld.X); a != nil {
						for _, st := range core.StoresToCell(a) {
							if st.Val == c.(ssa.Value) && core.Dominates(st, i) {
								ev = c.(ssa.Value)
							}
						}
					}
				}
				if ev != c.(ssa.Value) {
					continue
				}
			}
			k := 0
			if nilBranch {
				k = 1
			}
			blk := i.Block().Succs[k]
			for _, in := range blk.Instrs {
				if _, isRet := in.(*ssa.Return); isRet {
					ok2 = true
				}
			}
		}
	}
	e.R.Check(ok2, rule, "tcp/client.Session.Run:error-ends-loop", e.fpos(f), "a framing error returns from Run (the deferred Close/shutdown then closes the connection)", "a framing error does not end Run")
}

func c07Handover(e *Env, pb *ssa.Function) {
	rule := "C07.R7"
	if pb != nil {
		n, sync := 0, true
		core.Instrs(pb, func(in ssa.Instruction) {
			c, ok := in.(ssa.CallInstruction)
			if !ok || core.CalleeName(c) != "tcp/client.Conn.pushToReceivedMessageQueue" {
				return
			}
			n++
			if _, isCall := in.(*ssa.Call); !isCall {
				sync = false
			}
		})
		e.R.Check(n == 1 && sync, rule, "tcp/client.Session.processBuffer:sync-handover", e.fpos(pb), "the decoded message is handed over by a plain call (not go/defer) inside the framing loop", "messages are not handed over synchronously from the framing loop")
	}
	if f := e.fn(rule, "tcp/client.Conn.pushToReceivedMessageQueue"); f != nil {
		sig := core.CallsNamed(f, "tcp/client.Conn.handleSignals")
		var sel *ssa.Select
		core.Instrs(f, func(in ssa.Instruction) {
			if s, ok := in.(*ssa.Select); ok {
				sel = s
			}
		})
		ok := len(sig) == 1 && sel != nil && core.Dominates(sig[0].(ssa.Instruction), sel)
		if ok {
			_, g := core.GuardedBy(sel, func(cond ssa.Value) core.CondMatch {
				if c, is := cond.(*ssa.Call); is && c == sig[0].(*ssa.Call) {
					return core.CondMatch{Match: true, Branch: false}
				}
				return core.CondMatch{}
			})
			ok = g
		}
		e.R.Check(ok, rule, "tcp/client.Conn.pushToReceivedMessageQueue:signals-inline", e.fpos(f), "signalling messages return before the queue send; everything else is sent to the queue", "signal handling no longer precedes the queue send")
		// the send case sends the message parameter on the reader's channel
		okSend := false
		if sel != nil {
			for _, st := range sel.States {
				if st.Dir == 1 /* SendOnly */ && st.Send == ssa.Value(f.Params[1]) {
					okSend = true
				}
			}
		}
		e.R.Check(okSend, rule, "tcp/client.Conn.pushToReceivedMessageQueue:sends-message", e.fpos(f), "the select sends the received message itself", "the queue send does not carry the received message")
	}
}

// c07WriteAtomic: net.Conn.WriteWithContext may need several socket writes for one frame. Concurrent writers (responses from
// handler goroutines, requests, pings) are serialised by c.lock; the lock must cover the whole loop, otherwise two frames
// interleave on the stream and the peer's framing is lost. Decided: every socket write in the function's region happens with
// c.lock held, and the acquisition that holds it lies outside every loop of the function.
func c07WriteAtomic(e *Env) {
	rule := "C07.R9"
	f := e.fn(rule, "net.Conn.WriteWithContext")
	if f == nil {
		return
	}
	la := core.AnalyzeLocks(f)
	lb := loopBlocks(f)
	n := 0
	bad := ""
	core.Instrs(f, func(in ssa.Instruction) {
		c, ok := in.(*ssa.Call)
		if !ok || !c.Call.IsInvoke() || c.Call.Method.Name() != "Write" {
			return
		}
		if _, fl, isF := core.FieldOf(derefLoad(c.Call.Value)); !isF || fl != "connection" {
			return
		}
		n++
		held := la.At(c)
		var h *core.Held
		for p, x := range held {
			if strings.HasSuffix(p, ".lock") {
				h = x
			}
		}
		if h == nil || !h.Write {
			bad = "the socket write at " + e.pos(c) + " is not under the writers' lock"
			return
		}
		for site := range h.Sites {
			// where the acquisition happens in terms of the function itself (a helper's Lock counts at the helper's call)
			at := site
			if site.Parent() != f {
				for _, ch := range core.CallChains(f, site.Parent()) {
					if len(ch) > 0 {
						at = ch[0].(ssa.Instruction)
					}
				}
			}
			if at.Parent() == f && lb[at.Block()] {
				bad = "the writers' lock is (re)acquired inside the partial-write loop (" + e.pos(site) + "): another writer's bytes can land between two parts of one frame"
			}
		}
	})
	e.R.Check(bad == "" && n >= 1, rule, "net.Conn.WriteWithContext:one-critical-section", e.fpos(f), fmt.Sprintf("%d socket write site(s), under c.lock acquired before the loop", n), bad)
}

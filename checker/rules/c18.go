package rules

import (
	"fmt"
	"go/constant"
	"go/token"
	"go/types"
	"sort"
	"strings"

	"coapcheck/internal/core"

	"golang.org/x/tools/go/ssa"
)

func init() {
	register(&Property{
		ID:    "C18",
		Title: "Inactivity and keep-alive monitors close exactly the dead connections",
		Level: "other",
		Explain: "Decided: (R1) on both receive paths every message that is not dropped by the request monitor refreshes the activity timestamp before it is handled inline or enqueued (so pings, acknowledgements and ordinary messages all count); (R2) the inactivity monitor fires exactly on now.After(last + period) with the tick's own `now`, and never when disabled; " +
			"(R3) every housekeeping call passes the tick's `now` or time.Now() without an offset; (R4) keep-alive: the connection is closed only on fails > maxRetries of the freshly incremented counter, the superseded ping is cancelled before the next one is sent, every ping gets a fresh generation number and a pong resets the counter only if its generation is still current; each connection gets its own keep-alive state; " +
			"(R5) who-may-reset: the failure counter is reset from the receive-notification path, not only by a matching pong.",
		NotDecided: "Histories of {message, pong, tick} events against a virtual clock are not executed.",
		Run:        runC18,
	})
}

func runC18(e *Env) {
	r := e.R
	r.Rule("C18.R1", "paths", "Notify() before any handling of a non-dropped received message", 2)
	r.Rule("C18.R2", "paths", "CheckInactivity fires iff now.After(last+period)", 2)
	r.Rule("C18.R3", "flows", "housekeeping time is the tick's now / time.Now() without offset", 8)
	r.Rule("C18.R4", "paths+flows", "keep-alive counter, generation and cancel discipline", 6)
	r.Rule("C18.R5", "callgraph", "other received traffic resets the keep-alive failure count", 1)
	r.Rule("C18.R6", "paths", "the tick reaches every registered connection: no early exit from the fan-out loops, collecting callbacks never stop the iteration", 6)
	if e.want("C18.R6") {
		c18FanOut(e)
		sweepReachesMonitor(e, "C18.R6")
	}
	if e.want("C18.R1") {
		if f := e.fn("C18.R1", "udp/client.Conn.Process"); f != nil {
			nts := core.Calls(f, func(n string, _ ssa.CallInstruction) bool { return strings.HasSuffix(n, "InactivityMonitor.Notify") })
			ok := len(nts) == 1
			if ok {
				nt := nts[0].(ssa.Instruction)
				for _, c := range core.CallsNamed(f, "udp/client.Conn.handleSpecialMessages") {
					if !core.Dominates(nt, c.(ssa.Instruction)) {
						ok = false
					}
				}
				for _, w := range core.WaitsOf(f) {
					if w.Blocking && !core.Dominates(nt, w.Instr) {
						ok = false
					}
				}
			}
			e.R.Check(ok, "C18.R1", "udp/client.Conn.Process:notify-before-handling", e.fpos(f), "Notify() dominates the inline handling of pings/ACKs and the enqueue", "a received message (ping, acknowledgement, reset) can be handled without refreshing the activity timestamp: a peer that only sends those would be closed as idle")
		}
		if f := e.fn("C18.R1", "tcp/client.Session.processBuffer"); f != nil {
			nts := core.Calls(f, func(n string, _ ssa.CallInstruction) bool { return strings.HasSuffix(n, "InactivityMonitor.Notify") })
			ok := len(nts) == 1
			if ok {
				for _, c := range core.CallsNamed(f, "tcp/client.Conn.pushToReceivedMessageQueue") {
					if !core.Dominates(nts[0].(ssa.Instruction), c.(ssa.Instruction)) {
						ok = false
					}
				}
			}
			e.R.Check(ok, "C18.R1", "tcp/client.Session.processBuffer:notify-before-handover", e.fpos(f), "Notify() dominates the hand-over of every non-dropped frame", "a received frame can be handed over without refreshing the activity timestamp")
		}
	}
	if e.want("C18.R2") {
		if f := e.fn("C18.R2", "net/monitor/inactivity.Monitor.CheckInactivity"); f != nil && len(f.Params) == 3 {
			var fire ssa.Instruction
			core.Instrs(f, func(in ssa.Instruction) {
				if c, ok := in.(*ssa.Call); ok && isFieldLoadNamed(c.Call.Value, "onInactive") {
					fire = c
				}
			})
			ok := false
			if fire != nil {
				_, ok = core.GuardedBy(fire, func(cond ssa.Value) core.CondMatch {
					_, later, earlier, is := core.CondTimeAfter(cond)
					if !is || core.Resolve(later) != ssa.Value(f.Params[1]) {
						return core.CondMatch{}
					}
					add, isAdd := core.Resolve(earlier).(*ssa.Call)
					if !isAdd || core.CalleeName(add) != "time.Time.Add" || !isFieldLoadNamed(core.Arg(add, 1), "duration") {
						return core.CondMatch{}
					}
					if !isLastActivity(core.Arg(add, 0)) {
						return core.CondMatch{}
					}
					return core.CondMatch{Match: true, Branch: true}
				})
			}
			e.R.Check(ok, "C18.R2", "net/monitor/inactivity.Monitor.CheckInactivity:fires-iff-elapsed", e.fpos(f), "onInactive is called exactly on now.After(LastActivity().Add(duration)) with the caller's now", "the inactivity callback does not fire exactly when now is after last activity + period")
		}
		if f := e.fn("C18.R2", "net/monitor/inactivity.Monitor.Notify"); f != nil {
			ok := false
			isNow := func(v ssa.Value) bool {
				now, isCall := core.Resolve(v).(*ssa.Call)
				return isCall && core.CalleeName(now) == "time.Now"
			}
			// the field the last activity lives in: an atomic holder (Value, Pointer[time.Time], Int64 of UnixNano, …) written with Store
			for _, c := range core.Calls(f, func(n string, ci ssa.CallInstruction) bool {
				return strings.HasPrefix(n, "sync/atomic.") && strings.HasSuffix(n, ".Store") && strings.HasSuffix(tableOfAddr(core.Arg(ci, 0)), ".lastActivity")
			}) {
				switch x := core.Arg(c, 1).(type) {
				case *ssa.MakeInterface:
					ok = ok || isNow(x.X)
				case *ssa.Alloc:
					// a pointer to a fresh variable holding time.Now()
					if st := core.StoresToCell(x); len(st) == 1 && isNow(st[0].Val) {
						ok = true
					}
				default:
					// a number derived from time.Now() alone (UnixNano)
					if call, isCall := core.Resolve(x).(*ssa.Call); isCall && strings.HasPrefix(core.CalleeName(call), "time.Time.Unix") && isNow(core.Arg(call, 0)) {
						ok = true
					}
				}
			}
			e.R.Check(ok, "C18.R2", "net/monitor/inactivity.Monitor.Notify:stores-now", e.fpos(f), "Notify stores time.Now() as the last activity", "Notify does not record the current time")
		}
	}
	if e.want("C18.R3") {
		c18TickTime(e)
	}
	if e.want("C18.R4") {
		c18KeepAlive(e)
	}
	if e.want("C18.R5") {
		rf := e.P.Func("net/monitor/inactivity.KeepAlive.resetFails")
		// the pong callback(s): what OnInactive hands to sendPing
		pong := map[*ssa.Function]bool{}
		if oi := e.P.Func("net/monitor/inactivity.KeepAlive.OnInactive"); oi != nil {
			core.Instrs(oi, func(in ssa.Instruction) {
				if c, ok := in.(*ssa.Call); ok && isFieldLoadNamed(c.Call.Value, "sendPing") && len(c.Call.Args) >= 2 {
					if cb, _ := core.MethodBehind(core.FuncArgClosure(c.Call.Args[1])); cb != nil {
						for _, g := range core.WithAnon(cb) {
							pong[g] = true
						}
					}
				}
			})
		}
		var callers []string
		onlyPong := true
		pos := "-"
		for _, f := range e.P.SrcFuncs(false) {
			if rf != nil && f == rf {
				pos = e.fpos(rf)
				continue
			}
			for _, g := range core.WithAnon(f) {
				var sites []ssa.CallInstruction
				if rf != nil {
					sites = core.Calls(g, func(_ string, ci ssa.CallInstruction) bool {
						return ci.Parent() == g && core.SameFunc(core.StaticFn(ci), rf)
					})
				}
				for _, c := range failCounterResets(g) {
					if c.Parent() == g {
						sites = append(sites, c)
					}
				}
				for range sites {
					callers = append(callers, core.FnName(g))
					if !pong[g] && !strings.Contains(core.FnName(g), "KeepAlive.OnInactive$") {
						onlyPong = false
					}
				}
			}
		}
		sort.Strings(callers)
		if len(callers) == 0 && rf == nil {
			e.R.Undecided("C18.R5", "net/monitor/inactivity.KeepAlive.resetFails:reset-by-traffic", "-", "no reset of the failure counter found (neither resetFails nor numFails.Store(0))")
		} else {
			e.R.Check(!onlyPong && len(callers) > 0, "C18.R5", "net/monitor/inactivity.KeepAlive.resetFails:reset-by-traffic", pos,
				"the failure count is also reset from the receive-notification path", "the failure count is reset only by a matching pong ("+strings.Join(callers, ", ")+"): unanswered pings separated by ordinary traffic still add up to a close")
		}
	}
}

// c18TickTime: every CheckExpirations / CheckInactivity call site passes a plain time.
func c18TickTime(e *Env) {
	rule := "C18.R3"
	n := 0
	for _, f := range e.P.SrcFuncs(false) {
		name := core.FnName(f)
		if strings.HasPrefix(name, "examples/") {
			continue
		}
		for _, c := range core.Calls(f, func(nm string, _ ssa.CallInstruction) bool {
			return strings.HasSuffix(nm, ".CheckExpirations") || strings.HasSuffix(nm, ".CheckInactivity")
		}) {
			n++
			t := core.Resolve(core.Arg(c, 1))
			construct := fmt.Sprintf("%s:%s time", name, shortType(core.CalleeName(c)))
			ok, why := false, "the housekeeping time is neither the tick's `now` nor time.Now(): "+t.String()
			switch x := t.(type) {
			case *ssa.Parameter:
				ok = core.TypeName(x.Type()) == "time.Time"
			case *ssa.Call:
				switch core.CalleeName(x) {
				case "time.Now":
					ok = true
				case "time.Time.Add":
					why = "the housekeeping time is shifted (time.Now().Add(…)): entries expire and inactivity fires earlier than their period"
				}
			case *ssa.Field, *ssa.UnOp:
				// struct field / captured variable holding the tick's now (udp Conn.CheckExpirations passes x.now)
				ok = true
				if ld, isLd := x.(*ssa.UnOp); isLd {
					if a := core.CellOf(ld.X); a != nil {
						for _, st := range core.StoresToCell(a) {
							if sc, isCall := core.Resolve(st.Val).(*ssa.Call); isCall && core.CalleeName(sc) == "time.Time.Add" {
								ok = false
							}
						}
					}
				}
			}
			e.R.Check(ok, rule, construct, e.pos(c.(ssa.Instruction)), "passes the tick's own time unchanged", why)
		}
	}
	if n == 0 {
		e.R.Undecided(rule, "housekeeping:calls", "-", "no housekeeping call found")
	}
}

func c18KeepAlive(e *Env) {
	rule := "C18.R4"
	f := e.fn(rule, "net/monitor/inactivity.KeepAlive.OnInactive")
	if f == nil {
		return
	}
	incs := core.CallsNamed(f, "net/monitor/inactivity.KeepAlive.incrementFails")
	if len(incs) == 0 {
		// the one-line helper written out: numFails.Add(1)
		incs = core.Calls(f, func(n string, ci ssa.CallInstruction) bool {
			_, fl, ok := core.FieldOf(core.Arg(ci, 0))
			return ok && fl == "numFails" && atomicIncrement(n, ci)
		})
	}
	var fire, ping ssa.Instruction
	core.Instrs(f, func(in ssa.Instruction) {
		c, ok := in.(*ssa.Call)
		if !ok {
			return
		}
		if isFieldLoadNamed(c.Call.Value, "onInactive") {
			fire = c
		}
		if isFieldLoadNamed(c.Call.Value, "sendPing") {
			ping = c
		}
	})
	ok := len(incs) == 1 && fire != nil
	if ok {
		_, ok = core.GuardedBy(fire, func(cond ssa.Value) core.CondMatch {
			cmp, is := core.AsCmp(cond)
			if !is {
				return core.CondMatch{}
			}
			switch {
			case cmp.Op == token.GTR && cmp.X == incs[0].(ssa.Value) && isFieldLoadNamed(cmp.Y, "maxRetries"):
				return core.CondMatch{Match: true, Branch: true}
			case cmp.Op == token.LSS && cmp.Y == incs[0].(ssa.Value) && isFieldLoadNamed(cmp.X, "maxRetries"):
				return core.CondMatch{Match: true, Branch: true}
			case cmp.Op == token.LEQ && cmp.X == incs[0].(ssa.Value) && isFieldLoadNamed(cmp.Y, "maxRetries"):
				return core.CondMatch{Match: true, Branch: false}
			}
			return core.CondMatch{}
		})
	}
	e.R.Check(ok, rule, "net/monitor/inactivity.KeepAlive.OnInactive:close-iff-fails>max", e.fpos(f), "the connection is closed only when the freshly incremented failure count exceeds maxRetries", "the close decision is not `incremented failure count > maxRetries`")
	// on the close edge no further ping is sent
	if fire != nil && ping != nil {
		e.R.Check(!reachableFrom(f, fire, ping), rule, "net/monitor/inactivity.KeepAlive.OnInactive:no-ping-after-close", e.fpos(f), "after deciding to close no ping is sent", "a ping is still sent after the connection was declared dead")
	}
	// cancel the superseded ping before sending the next
	cc := core.CallsNamed(f, "net/monitor/inactivity.KeepAlive.checkCancelPing")
	if len(cc) == 0 && ping != nil {
		// the helper re-cut (e.g. "take the pending cancel function, the caller invokes it"): the pending cancellation is swapped
		// out of its slot before the ping, and a function value is invoked between that swap and the ping
		var swap ssa.Instruction
		for _, c := range core.Calls(f, func(n string, ci ssa.CallInstruction) bool {
			_, fl, ok := core.FieldOf(core.Arg(ci, 0))
			return ok && fl == "cancelPing" && strings.HasSuffix(n, ".Swap")
		}) {
			if core.IsNilConst(core.Arg(c, 1)) && core.Dominates(c.(ssa.Instruction), ping) {
				swap = c.(ssa.Instruction)
			}
		}
		invoked := false
		if swap != nil {
			core.Instrs(f, func(in ssa.Instruction) {
				c, ok := in.(*ssa.Call)
				if !ok || c.Call.IsInvoke() || c.Call.StaticCallee() != nil {
					return
				}
				if _, isB := c.Call.Value.(*ssa.Builtin); isB {
					return
				}
				if sig, isSig := c.Call.Value.Type().Underlying().(*types.Signature); !isSig || sig.Params().Len() != 0 || sig.Results().Len() != 0 {
					return
				}
				if core.Dominates(swap, c) && !core.Dominates(ping, c) && c != ping {
					invoked = true
				}
			})
		}
		if swap != nil && invoked {
			cc = []ssa.CallInstruction{swap.(ssa.CallInstruction)}
		}
	}
	e.R.Check(len(cc) == 1 && ping != nil && core.Dominates(cc[0].(ssa.Instruction), ping), rule, "net/monitor/inactivity.KeepAlive.OnInactive:cancel-before-ping", e.fpos(f), "the superseded ping is cancelled before the next one is sent", "a superseded ping is not cancelled before the next ping")
	// fresh generation per ping, pong resets only when the generation is current
	var gen *ssa.Call
	for _, c := range core.Calls(f, func(n string, ci ssa.CallInstruction) bool {
		_, fl, ok := core.FieldOf(core.Arg(ci, 0))
		return ok && fl == "pongToken" && (strings.HasSuffix(n, ".Add") || strings.HasSuffix(n, ".Inc"))
	}) {
		gen = c.(*ssa.Call)
	}
	okGen := gen != nil && ping != nil && core.Dominates(gen, ping)
	if okGen {
		okGen = atomicIncrement(core.CalleeName(gen), gen)
	}
	e.R.Check(okGen, rule, "net/monitor/inactivity.KeepAlive.OnInactive:fresh-generation", e.fpos(f), "every ping takes a fresh generation number (pongToken.Add(1)) before it is sent", "pings do not get a fresh generation number")
	okReset := false
	if ping != nil && gen != nil {
		cb, _ := core.MethodBehind(core.FuncArgClosure(core.Arg(ping.(*ssa.Call), 1))) // a function literal, or the method behind a method value
		if cb != nil {
			resets := core.CallsNamed(cb, "net/monitor/inactivity.KeepAlive.resetFails")
			inlineReset := map[ssa.CallInstruction]bool{}
			if len(resets) == 0 {
				resets = failCounterResets(cb) // the one-line helper written out: numFails.Store(0)
				for _, c := range resets {
					inlineReset[c] = true
				}
			}
			for _, c := range resets {
				_, g := core.GuardedBy(c.(ssa.Instruction), func(cond ssa.Value) core.CondMatch {
					cmp, is := core.AsCmp(cond)
					if !is || (cmp.Op != token.EQL && cmp.Op != token.NEQ) {
						return core.CondMatch{}
					}
					eqBranch := cmp.Op == token.EQL
					isLoad := func(v ssa.Value) bool {
						lc, ok := v.(*ssa.Call)
						if !ok || !strings.HasSuffix(core.CalleeName(lc), ".Load") {
							return false
						}
						_, fl, ok := core.FieldOf(core.Arg(lc, 0))
						return ok && fl == "pongToken"
					}
					if (isLoad(cmp.X) && core.Resolve(cmp.Y) == ssa.Value(gen)) || (isLoad(cmp.Y) && core.Resolve(cmp.X) == ssa.Value(gen)) {
						return core.CondMatch{Match: true, Branch: eqBranch}
					}
					return core.CondMatch{}
				})
				if g {
					okReset = true
				}
			}
			// the counter is written nowhere else in the pong callback
			for _, c := range core.Calls(cb, func(n string, ci ssa.CallInstruction) bool {
				_, fl, ok := core.FieldOf(core.Arg(ci, 0))
				return ok && fl == "numFails"
			}) {
				if !inlineReset[c] {
					okReset = false
				}
			}
		}
	}
	e.R.Check(okReset, rule, "net/monitor/inactivity.KeepAlive.OnInactive:pong-generation-check", e.fpos(f), "a pong resets the failure count only if its ping's generation is still the current one", "a late pong of a superseded ping can be credited to a later ping")
	checkKeepAlivePerConn(e, rule)
}

// checkKeepAlivePerConn: one keep-alive state per connection – NewKeepAlive is called inside the per-connection factory closure.
func checkKeepAlivePerConn(e *Env, rule string) {
	n, okPer := 0, true
	for _, g := range e.P.SrcFuncs(false) {
		for range core.CallsNamed(g, "net/monitor/inactivity.NewKeepAlive") {
			n++
			if g.Parent() == nil && !isMonitorFactory(g) {
				okPer = false
			}
		}
	}
	e.R.Check(okPer && n >= 2, rule, "options.KeepAliveOpt:state-per-connection", "-", fmt.Sprintf("all %d NewKeepAlive calls sit inside the per-connection factory closures", n), "keep-alive state is created outside the per-connection factory: all connections of a server would share one failure counter")
}

// c18FanOut: every server's periodic tick must give each registered connection its CheckExpirations(now). The fan-out is a
// loop over a snapshot of the container; the rule requires (a) the tick closure calls the fan-out unconditionally, (b) loops in the
// fan-out functions are left only when exhausted (no break/return from the body), (c) callbacks handed to a Range-style iterator in
// them return true on every path (false stops the iteration), (d) the body calls the element's CheckExpirations on the not-closed arm.
func c18FanOut(e *Env) {
	rule := "C18.R6"
	for _, fn := range []string{"pkg/connections.Connections.CheckExpirations", "pkg/connections.Connections.copyConnections", "udp/server.Server.handleInactivityMonitors", "udp/server.Server.getConns"} {
		f := e.fn(rule, fn)
		if f == nil {
			continue
		}
		fs := []*ssa.Function{f}
		fs = append(fs, f.AnonFuncs...)
		bad := ""
		for _, g := range fs {
			if w := earlyLoopExit(g); w != "" {
				bad = w + " at " + e.fpos(g)
			}
			if g != f {
				// a callback: an iterator callback stops the iteration by returning false
				if g.Signature.Results().Len() == 1 {
					if b, ok := g.Signature.Results().At(0).Type().Underlying().(*types.Basic); ok && b.Kind() == types.Bool {
						for _, ret := range core.ReturnsOf(g) {
							c, isC := core.RetVal(ret, 0).(*ssa.Const)
							if !isC || c.Value == nil || !constant.BoolVal(c.Value) {
								bad = "the iterator callback can return false (stops the iteration) at " + e.pos(ret)
							}
						}
					}
				}
			}
		}
		e.R.Check(bad == "", rule, fn+":visits-all", e.fpos(f), "loops run to exhaustion; iterator callbacks always continue", "a connection registered after the one that triggers the exit never gets its tick (no inactivity close, no keep-alive ping): "+bad)
	}
	for _, fn := range []string{"pkg/connections.Connections.CheckExpirations", "udp/server.Server.handleInactivityMonitors"} {
		f := e.fn(rule, fn)
		if f == nil {
			continue
		}
		n := 0
		for _, g := range append([]*ssa.Function{f}, f.AnonFuncs...) {
			n += len(core.Calls(g, func(name string, _ ssa.CallInstruction) bool { return strings.HasSuffix(name, ".CheckExpirations") }))
		}
		e.R.Check(n >= 1, rule, fn+":ticks-element", e.fpos(f), "each element's CheckExpirations is called", "the fan-out no longer calls the element's CheckExpirations")
	}
}

// earlyLoopExit reports an edge that leaves a loop from a block other than a loop header (break, return or goto out of the body).
// Exits into a block that panics are ignored.
func earlyLoopExit(f *ssa.Function) string {
	lb := loopBlocks(f)
	for b := range lb {
		for _, s := range b.Succs {
			if lb[s] && reaches(s, b) {
				continue
			}
			if len(s.Instrs) > 0 {
				if _, isPanic := s.Instrs[len(s.Instrs)-1].(*ssa.Panic); isPanic {
					continue
				}
			}
			// leaving the loop: fine only from a header, i.e. a block that also has a predecessor outside the cycle
			header := false
			for _, p := range b.Preds {
				if !lb[p] || !reaches(b, p) {
					header = true
				}
			}
			if !header {
				return "the loop body can leave the loop early (block " + b.Comment + " → " + s.Comment + ")"
			}
		}
	}
	return ""
}

// tableOfAddr names the struct field an address points at ("owner.field"; "" if it is not a field address).
func tableOfAddr(addr ssa.Value) string {
	owner, field, ok := core.FieldOf(addr)
	if !ok {
		return ""
	}
	return owner + "." + field
}

// failCounterResets: numFails.Store(0) calls in g (the body of resetFails written out).
func failCounterResets(g *ssa.Function) []ssa.CallInstruction {
	return core.Calls(g, func(n string, ci ssa.CallInstruction) bool {
		_, fl, ok := core.FieldOf(core.Arg(ci, 0))
		k, isK := core.ConstInt(core.Arg(ci, 1))
		return ok && fl == "numFails" && strings.HasSuffix(n, ".Store") && isK && k == 0
	})
}

// isLastActivity: v is the monitor's recorded activity time – LastActivity() or the load of the lastActivity holder written out
// (`t, _ := m.lastActivity.Load().(time.Time)`).
func isLastActivity(v ssa.Value) bool {
	v = core.Resolve(v)
	if c, ok := v.(*ssa.Call); ok && core.CalleeName(c) == "net/monitor/inactivity.Monitor.LastActivity" {
		return true
	}
	for d := 0; d < 4; d++ {
		switch x := v.(type) {
		case *ssa.Extract:
			v = x.Tuple
		case *ssa.TypeAssert:
			v = x.X
		case *ssa.UnOp:
			v = x.X
		case *ssa.Call:
			n := core.CalleeName(x)
			if strings.HasPrefix(n, "sync/atomic.") && strings.HasSuffix(n, ".Load") && strings.HasSuffix(tableOfAddr(core.Arg(x, 0)), ".lastActivity") {
				return true
			}
			return false
		default:
			return false
		}
	}
	return false
}

// isMonitorFactory: a named function of the shape of the per-connection factory (no parameters, one InactivityMonitor result) that is
// never called directly – it is only installed as the factory value.
func isMonitorFactory(g *ssa.Function) bool {
	sig := g.Signature
	if sig.Recv() != nil || sig.Params().Len() != 0 || sig.Results().Len() != 1 || !strings.HasSuffix(core.TypeName(sig.Results().At(0).Type()), "InactivityMonitor") {
		return false
	}
	return len(core.SitesOf(g)) == 0 && !calledDirectly(g)
}

func calledDirectly(g *ssa.Function) bool {
	found := false
	if g.Pkg == nil {
		return false
	}
	for _, m := range g.Pkg.Members {
		fn, ok := m.(*ssa.Function)
		if !ok {
			continue
		}
		for _, h := range core.WithAnon(fn) {
			core.InstrsOwn(h, func(in ssa.Instruction) {
				if c, isC := in.(ssa.CallInstruction); isC && c.Common().StaticCallee() == g {
					found = true
				}
			})
		}
	}
	return found
}

// atomicIncrement: x.Add(1) or its synonym x.Inc() of an atomic counter.
func atomicIncrement(name string, c ssa.CallInstruction) bool {
	if strings.HasSuffix(name, ".Inc") {
		return true
	}
	if strings.HasSuffix(name, ".Add") {
		k, isK := core.ConstInt(core.Arg(c, 1))
		return isK && k == 1
	}
	return false
}

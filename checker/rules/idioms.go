package rules

import (
	"strings"

	"coapcheck/internal/core"

	"golang.org/x/tools/go/ssa"
)

// freshCopyOf recognises the idioms that produce a private copy of a byte slice and returns the slice that is copied:
//
//	dst := make([]byte, n); copy(dst, src)      bytes.Clone(src)      slices.Clone(src)      append([]byte(nil), src...)
func freshCopyOf(v ssa.Value) (src ssa.Value, ok bool) {
	v = core.Resolve(v)
	switch x := v.(type) {
	case *ssa.MakeSlice:
		for _, ref := range core.Referrers(x) {
			if cp, isCall := ref.(*ssa.Call); isCall {
				if b, isB := cp.Call.Value.(*ssa.Builtin); isB && b.Name() == "copy" && cp.Call.Args[0] == ssa.Value(x) {
					return core.Resolve(cp.Call.Args[1]), true
				}
			}
		}
	case *ssa.Call:
		n := core.CalleeName(x)
		if (n == "bytes.Clone" || strings.HasSuffix(n, "slices.Clone")) && len(x.Call.Args) == 1 {
			return core.Resolve(x.Call.Args[0]), true
		}
		if b, isB := x.Call.Value.(*ssa.Builtin); isB && b.Name() == "append" && len(x.Call.Args) == 2 {
			base := core.Resolve(x.Call.Args[0])
			fresh := core.IsNilConst(base)
			if ms, isMk := base.(*ssa.MakeSlice); isMk {
				if k, isK := core.ConstInt(ms.Len); isK && k == 0 {
					fresh = true
				}
			}
			if sl, isSl := base.(*ssa.Slice); isSl {
				// []byte{}: a zero-length array literal sliced
				if a, isA := sl.X.(*ssa.Alloc); isA {
					if n, isArr := byteArrayLen(a); isArr && n == 0 {
						fresh = true
					}
				}
			}
			if fresh {
				return core.Resolve(x.Call.Args[1]), true
			}
		}
	}
	return nil, false
}

func byteArrayLen(a *ssa.Alloc) (int64, bool) {
	return core.ByteArrayLen(a.Type())
}

package rules

import (
	"fmt"
	"go/token"
	"math/big"
	"strings"

	"coapcheck/internal/core"

	"golang.org/x/tools/go/ssa"
)

func init() {
	register(&Property{
		ID:    "C08",
		Title: "Observers only ever see a resource move forward in time",
		Level: "other",
		Explain: "Decided: (R1) the freshness predicate equals RFC 7641 §3.4 – (V1<V2 ∧ V2−V1<2^23) ∨ (V1>V2 ∧ V1−V2>2^23) ∨ (T2>T1+128 s) – by abstract interpretation over relational cells: for EVERY old value s the new value s±d with d at and around the boundaries (1, 2^23−1, 2^23, 2^23+1, 2^31), for old value 0 every distance class as an interval, each crossed with the elapsed-time classes ≤128 s / >128 s; the constants are 2^23 and 128 s; " +
			"(R2) the observation's last sequence / last time / ETag are accessed only under its mutex and written only on the accepted edge of the predicate; (R3) the application callback is invoked only on the accepted edge of wantBeNotified, for every message including the first; " +
			"(R4) registration: the table entry is removed on every failing exit (error-cell cleanup sees the returned error), and success is returned only for 2.05 / 2.03; (R5) Cancel removes the table entry before it sends the deregistration and returns early if the entry was already gone; notifications are routed by the token hash.",
		NotDecided: "Arrival histories (permutations, duplicates) and 'no callback after Cancel returned' under races between Cancel and a notification already past the table lookup are not decided.",
		Run:        runC08,
	})
}

func runC08(e *Env) {
	r := e.R
	r.Rule("C08.R1", "absint", "ValidSequenceNumber = RFC 7641 §3.4 on relational cells", 30)
	r.Rule("C08.R2", "locks+paths", "observation state under its mutex, written only when accepted", 5)
	r.Rule("C08.R3", "paths", "callback only on the accepted edge", 1)
	r.Rule("C08.R4", "paths", "registration cleanup and success codes", 3)
	r.Rule("C08.R5", "paths", "Cancel removes before deregistering and never re-registers; routing by whole-token hash", 5)
	if e.want("C08.R1") {
		c08Predicate(e)
	}
	want := e.fn("C08.R2", "net/observation.Observation.wantBeNotified")
	if e.want("C08.R2") && want != nil {
		la := core.AnalyzeLocks(want)
		var valid *ssa.If
		validBranch := true
		for _, i := range core.IfsOf(want) {
			cond, neg := core.StripNot(i.Cond)
			if _, ok := core.CondCall(cond, "net/observation.ValidSequenceNumber"); ok {
				valid, validBranch = i, !neg
			}
		}
		if valid == nil {
			e.R.Fail("C08.R2", "net/observation.Observation.wantBeNotified:uses-predicate", e.fpos(want), "the freshness predicate is not consulted")
		}
		for _, fld := range []string{"obsSequence", "lastEvent", "etag"} {
			for _, a := range core.FieldAccesses(want, func(_ string, fl string, fa ssa.Value) bool {
				return fl == fld && strings.Contains(core.AccessPath(fa), ".private.")
			}) {
				held := la.At(a.Instr)
				ok := len(held) == 1
				kind := "read"
				if a.Write {
					kind = "write"
					if valid != nil && fld != "etag" {
						ok = ok && core.OnlyViaEdge(valid, validBranch, a.Instr)
					}
				}
				e.R.Check(ok, "C08.R2", fmt.Sprintf("net/observation.Observation.wantBeNotified:%s private.%s", kind, fld), e.pos(a.Instr),
					"under the observation's mutex"+map[bool]string{true: " and only on the accepted edge of the predicate", false: ""}[a.Write && fld != "etag"],
					"observation state is accessed without the mutex or updated for a notification that was not accepted")
			}
		}
		// the predicate is applied to (stored sequence, new sequence, stored time, now)
		if valid != nil {
			cond, _ := core.StripNot(valid.Cond)
			c := cond.(*ssa.Call)
			okArgs := isFieldLoadNamed(core.Arg(c, 0), "obsSequence") && isFieldLoadNamed(core.Arg(c, 2), "lastEvent")
			if ex, isEx := core.Resolve(core.Arg(c, 1)).(*ssa.Extract); isEx {
				if oc, isCall := ex.Tuple.(*ssa.Call); !isCall || core.CalleeName(oc) != "message/pool.Message.Observe" {
					okArgs = false
				}
			} else {
				okArgs = false
			}
			if nc, isCall := core.Resolve(core.Arg(c, 3)).(*ssa.Call); !isCall || core.CalleeName(nc) != "time.Now" {
				okArgs = false
			}
			e.R.Check(okArgs, "C08.R2", "net/observation.Observation.wantBeNotified:predicate-args", e.pos(c), "ValidSequenceNumber(stored sequence, message's Observe value, stored time, time.Now())", "the predicate is not applied to (stored sequence, new sequence, stored time, now)")
			// the stored sequence becomes the accepted message's sequence
			okSt := false
			core.Instrs(want, func(in ssa.Instruction) {
				if st, ok := in.(*ssa.Store); ok {
					if _, fl, isF := core.FieldOf(st.Addr); isF && fl == "obsSequence" && core.Resolve(st.Val) == core.Resolve(core.Arg(c, 1)) {
						okSt = true
					}
				}
			})
			e.R.Check(okSt, "C08.R2", "net/observation.Observation.wantBeNotified:stores-accepted-seq", e.fpos(want), "the accepted notification's sequence number becomes the stored one", "the stored sequence number is not the accepted notification's")
		}
	}
	if e.want("C08.R3") {
		if f := e.fn("C08.R3", "net/observation.Observation.handle"); f != nil {
			n, ok := 0, true
			core.Instrs(f, func(in ssa.Instruction) {
				c, isC := in.(*ssa.Call)
				if !isC || !isFieldLoadNamed(c.Call.Value, "observeFunc") {
					return
				}
				n++
				_, g := core.GuardedBy(c, func(cond ssa.Value) core.CondMatch {
					if _, is := core.CondCall(cond, "net/observation.Observation.wantBeNotified"); is {
						return core.CondMatch{Match: true, Branch: true}
					}
					return core.CondMatch{}
				})
				if !g {
					ok = false
				}
			})
			e.R.Check(ok && n >= 1, "C08.R3", "net/observation.Observation.handle:callback-gated", e.fpos(f), fmt.Sprintf("all %d invocations of the application callback are on the wantBeNotified() == true edge", n), "the application callback can be invoked for a notification that did not pass the freshness check (e.g. the first response, leaving no sequence/time recorded)")
		}
	}
	if e.want("C08.R6") {
		e.R.Rule("C08.R6", "flows+tables", "a notification keeps its Observe option on the way to the freshness check: reassembly options set once; the option registry admits 0–3 bytes", 2)
		reassemblyHeaderSetOnce(e, "C08.R6")
		observeDefAllows3Bytes(e, "C08.R6")
	}
	if e.want("C08.R4") {
		checkErrCell(e, "C08.R4", "net/observation.Handler.NewObservation")
		for _, sp := range pairSpecs {
			if sp.Fn == "net/observation.Handler.NewObservation" {
				checkPairing(e, "C08.R4", sp)
			}
		}
		if f := e.fn("C08.R4", "net/observation.Handler.NewObservation"); f != nil {
			// success return only after code ∈ {Content(69), Valid(67)}
			saw := map[int64]bool{}
			core.Instrs(f, func(in ssa.Instruction) {
				if b, ok := in.(*ssa.BinOp); ok && (b.Op == token.NEQ || b.Op == token.EQL) { // `!= a && != b` or its De Morgan dual
					if k, isK := core.ConstInt(b.Y); isK {
						saw[k] = true
					}
				}
			})
			// or membership in a package-level table of codes: slices.Contains(table[:], code)
			for _, c := range core.Calls(f, func(n string, _ ssa.CallInstruction) bool { return strings.HasSuffix(n, "slices.Contains") }) {
				var g *ssa.Global
				v := core.Arg(c, 0)
				for i := 0; i < 4 && v != nil; i++ {
					switch x := v.(type) {
					case *ssa.Slice:
						v = x.X
					case *ssa.UnOp:
						v = x.X
					case *ssa.Global:
						g, v = x, nil
					default:
						v = nil
					}
				}
				if g == nil {
					continue
				}
				if pk := e.P.Pkg("net/observation"); pk != nil {
					if lit, _ := core.VarLiteral(pk, g.Name()); lit != nil {
						if vals, ok := core.EvalIntSlice(pk, lit); ok && len(vals) == 2 {
							for _, k := range vals {
								saw[k] = true
							}
						}
					}
				}
			}
			e.R.Check(saw[69] && saw[67], "C08.R4", "net/observation.Handler.NewObservation:success-codes", e.fpos(f), "registration succeeds only for 2.05 Content (69) or 2.03 Valid (67)", "the first response's code is not restricted to 2.05/2.03")
		}
	}
	if e.want("C08.R5") {
		if f := e.fn("C08.R5", "net/observation.Observation.Cancel"); f != nil {
			cl := core.CallsNamed(f, "net/observation.Observation.cleanUp")
			var do ssa.Instruction
			core.Instrs(f, func(in ssa.Instruction) {
				if c, ok := in.(*ssa.Call); ok && isFieldLoadNamed(c.Call.Value, "do") {
					do = c
				}
			})
			ok := len(cl) == 1 && do != nil && core.Dominates(cl[0].(ssa.Instruction), do)
			e.R.Check(ok, "C08.R5", "net/observation.Observation.Cancel:remove-before-deregister", e.fpos(f), "the table entry is removed before the deregistration request is sent", "Cancel sends the deregistration while the observation is still registered")
			okEarly := false
			for _, i := range core.IfsOf(f) {
				cond, neg := core.StripNot(i.Cond)
				if c, is := cond.(*ssa.Call); is && len(cl) == 1 && c == cl[0].(*ssa.Call) {
					k := 1
					if neg {
						k = 0
					}
					blk := i.Block().Succs[k]
					if do != nil && !reachableFrom(f, blk.Instrs[0], do) {
						okEarly = true
					}
				}
			}
			e.R.Check(okEarly, "C08.R5", "net/observation.Observation.Cancel:idempotent", e.fpos(f), "if the entry was already gone Cancel returns without sending anything", "a second Cancel sends another deregistration")
		}
		// Cancel never puts the observation back: after the removal nothing in Cancel stores into the observation table
		if f := e.fn("C08.R5", "net/observation.Observation.Cancel"); f != nil {
			bad := ""
			for _, g := range core.WithAnon(f) {
				for _, c := range core.Calls(g, func(n string, ci ssa.CallInstruction) bool {
					_, isStore := storingMethods[n]
					return (isStore || n == "pkg/sync.Map.ReplaceWithFunc") && strings.HasSuffix(tableOf(ci), ".observations")
				}) {
					bad = "Cancel stores into the observation table at " + e.pos(c.(ssa.Instruction)) + ": after Cancel returned (with an error) notifications would still reach the callback"
				}
			}
			e.R.Check(bad == "", "C08.R5", "net/observation.Observation.Cancel:never-re-registers", e.fpos(f), "no path of Cancel registers the observation again", bad)
		}
		// observations are keyed by a checksum of the whole token (shared with C03.R3)
		if f := e.fn("C08.R5", "message.Token.Hash"); f != nil {
			ok, n := true, 0
			for _, ret := range core.ReturnsOf(f) {
				n++
				c, isCall := core.RetVal(ret, 0).(*ssa.Call)
				if !isCall || !strings.HasPrefix(core.CalleeName(c), "hash/") || core.Unwrap(core.Arg(c, 0)) != ssa.Value(f.Params[0]) {
					ok = false
				}
			}
			e.R.Check(ok && n > 0, "C08.R5", "message.Token.Hash:checksum-of-whole-token", e.fpos(f), "every return is a hash/* checksum of the whole token (length included)", "Token.Hash has a path that does not checksum the whole token: observations with different tokens can share a table key and receive each other's notifications")
		}
		if f := e.fn("C08.R5", "net/observation.Handler.Handle"); f != nil && len(f.Params) == 3 {
			ok := false
			core.Instrs(f, func(in ssa.Instruction) {
				c, isCall := in.(*ssa.Call)
				if !isCall {
					return
				}
				if key, isLookup := observationLookup(e, c); isLookup {
					if m, is := isTokenHash(key); is && m == ssa.Value(f.Params[2]) {
						ok = true
					}
				}
			})
			e.R.Check(ok, "C08.R5", "net/observation.Handler.Handle:routes-by-token", e.fpos(f), "a notification is routed to the observation stored under its own token hash", "notifications are not routed by the received message's token")
		}
	}
}

// c08Predicate: R1.
func c08Predicate(e *Env) {
	rule := "C08.R1"
	f := e.fn(rule, "net/observation.ValidSequenceNumber")
	if f == nil || len(f.Params) != 4 {
		return
	}
	if v, pos, ok := e.P.ConstValue("net/observation", "ObservationSequenceTimeout"); true {
		e.R.Check(ok && v == 128*1000000000, rule, "net/observation.ObservationSequenceTimeout:128s", e.P.Pos(pos), "timeout constant is 128 s", fmt.Sprintf("timeout constant is %d ns", v))
	}
	two23 := int64(1) << 23
	timeCells := []struct {
		name   string
		lo, hi int64
		gt     bool
	}{{"Δt≤128s", 0, 128 * 1000000000, false}, {"Δt>128s", 128*1000000000 + 1, 1 << 62, true}}
	run := func(name string, v1, v2 *core.AVal, lt, gt bool, dLt, dGt bool) {
		for _, tc := range timeCells {
			it := core.NewInterp(e.P)
			it.Models["time.Time.Sub"] = func(_ *core.Interp, _ *core.AState, _ []*core.AVal) []*core.AVal {
				return []*core.AVal{core.SymInt("dt", 64, true, big.NewInt(tc.lo), big.NewInt(tc.hi), 0)}
			}
			outs := it.Run(f, []*core.AVal{v1, v2, core.OpaqueV("last"), core.OpaqueV("now")}, nil)
			want := (lt && dLt) || (gt && dGt) || tc.gt
			ok, why := len(outs) > 0, ""
			for _, o := range outs {
				if o.Abort || o.Panic || len(o.Ret) != 1 || o.Ret[0].K != core.ABool || (o.Ret[0].B.K != core.B0 && o.Ret[0].B.K != core.B1) {
					ok, why = false, "undecided: "+core.SummarizeOutcomes([]core.Outcome{o})
				} else if (o.Ret[0].B.K == core.B1) != want {
					ok, why = false, fmt.Sprintf("returns %v, RFC 7641 §3.4 says %v", o.Ret[0].B.K == core.B1, want)
				}
			}
			construct := "net/observation.ValidSequenceNumber:" + name + " " + tc.name
			if ok {
				e.R.Ok(rule, construct, e.fpos(f), fmt.Sprintf("fresh=%v on all %d abstract paths", want, len(outs)))
			} else if strings.HasPrefix(why, "undecided") {
				e.R.Undecided(rule, construct, e.fpos(f), why)
			} else {
				e.R.Fail(rule, construct, e.fpos(f), why)
			}
		}
	}
	max32 := (int64(1) << 32) - 1
	// every old value s, new value s+d / old value s+d, new value s
	for _, d := range []int64{1, two23 - 1, two23, two23 + 1, 1 << 31} {
		s := core.SymInt("s", 32, false, big.NewInt(0), big.NewInt(max32-d), 0)
		sd, _ := core.AddConst(s, d)
		run(fmt.Sprintf("V1=s,V2=s+%d", d), s, sd, true, false, d < two23, false)
		run(fmt.Sprintf("V1=s+%d,V2=s", d), sd, s, false, true, false, d > two23)
	}
	s := core.SymInt("s", 32, false, big.NewInt(0), big.NewInt(max32), 0)
	run("V1=V2=s", s, s, false, false, false, false)
	// old value 0, every distance class as an interval
	zero := core.ConstAInt(big.NewInt(0), 32, false)
	run("V1=0,V2∈[1,2^23−1]", zero, core.SymInt("v2", 32, false, big.NewInt(1), big.NewInt(two23-1), 0), true, false, true, false)
	run("V1=0,V2∈[2^23,2^32−1]", zero, core.SymInt("v2", 32, false, big.NewInt(two23), big.NewInt(max32), 0), true, false, false, false)
	run("V2=0,V1∈[1,2^23]", core.SymInt("v1", 32, false, big.NewInt(1), big.NewInt(two23), 0), zero, false, true, false, false)
	run("V2=0,V1∈[2^23+1,2^32−1]", core.SymInt("v1", 32, false, big.NewInt(two23+1), big.NewInt(max32), 0), zero, false, true, false, true)
}

// observationLookup: c looks a key up in the observation table – observations.Load(key) itself, or the exported accessor
// GetObservation(key) whose body is exactly that load of its own parameter. Returns the key.
func observationLookup(e *Env, c *ssa.Call) (ssa.Value, bool) {
	switch core.CalleeName(c) {
	case "pkg/sync.Map.Load":
		if strings.HasSuffix(tableOf(c), ".observations") {
			return core.Arg(c, 1), true
		}
	case "net/observation.Handler.GetObservation":
		g := core.StaticFn(c)
		if g == nil || len(g.Params) != 2 {
			return nil, false
		}
		n, okBody := 0, true
		for _, lc := range core.Calls(g, func(nm string, _ ssa.CallInstruction) bool { return strings.HasPrefix(nm, "pkg/sync.Map.") }) {
			n++
			if core.CalleeName(lc) != "pkg/sync.Map.Load" || !strings.HasSuffix(tableOf(lc), ".observations") || core.Resolve(core.Arg(lc, 1)) != ssa.Value(g.Params[1]) {
				okBody = false
			}
		}
		if n == 1 && okBody {
			return core.Arg(c, 1), true
		}
	}
	return nil, false
}

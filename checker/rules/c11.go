package rules

import (
	"fmt"
	"go/token"
	"go/types"
	"sort"
	"strings"

	"coapcheck/internal/core"

	"golang.org/x/tools/go/ssa"
)

func init() {
	register(&Property{
		ID:    "C11",
		Title: "Each received message is processed once; handlers may call back",
		Level: "other",
		Explain: "Decided: (R1) replace-before-wait – every client-operation wait whose wake-up is produced by the reader loop (request, acknowledgement, first notification) is dominated by a call that lets another loop take over the queue (TryToReplaceLoop), in the waiting function itself or, for the observation registration, in each transport's doObserve before it calls NewObservation; " +
			"(R2) single dispatcher – ProcessReceivedMessage is invoked only by the reader loop, the queue is received from only there and sent to only by the socket readers' hand-over functions; (R3) the reader's state (current stop channel, reading flag) is accessed only under its mutex; " +
			"(R4) the loop clears its reading flag before dispatch and sets it again under the mutex afterwards; a replacement loop always gets a fresh stop channel and a fresh flag, both published under the mutex, after the old stop channel was closed; " +
			"(R5) one fate per decoded message – in both receive entry points every path after a successful decode releases the message, handles it inline, or enqueues it, and never two of those.",
		NotDecided: "The loop-replacement protocol under interleavings is not decided: Go's select has no priority, a replaced loop can still win one more dequeue, so arrival ORDER under nested blocking handlers is out of reach of a static argument and is stated as such, not as holding.",
		Run:        runC11,
	})
}

func runC11(e *Env) {
	r := e.R
	r.Rule("C11.R1", "paths", "TryToReplaceLoop dominates every wait that is fed by the reader loop", 5)
	r.Rule("C11.R2", "callgraph", "single dispatcher and single consumer of the receive queue", 3)
	r.Rule("C11.R3", "locks", "reader state only under its mutex", 4)
	r.Rule("C11.R4", "paths+flows", "flag discipline in the loop; fresh channel and flag for a replacement loop", 4)
	r.Rule("C11.R5", "paths", "one fate per decoded message", 4)
	r.Rule("C11.R6", "locks", "application callbacks run with no library mutex held (a nested request's reply is dispatched by another goroutine through the same code)", 3)
	r.Rule("C11.R7", "flows", "the own message-ID counter is moved away from the ID of a confirmable request in progress (a nested request must not share its per-ID lock)", 3)
	if e.want("C11.R6") {
		c11NoLockAcrossCallback(e)
	}
	if e.want("C11.R7") {
		c11OwnMID(e)
	}
	r.Rule("C11.R8", "flows+paths", "a continuation is taken out of the table when it is dispatched (never two messages into one response slot); the stream buffer is advanced by exactly what was decoded", 4)
	if e.want("C11.R8") {
		c03OneShotAs(e, "C11.R8")
		c07ConsumptionAs(e, "C11.R8")
	}
	if e.want("C11.R1") {
		// the wait for the acknowledgement, wherever it lives (own function or inlined into the writer)
		for _, aw := range udpAckWaits(e) {
			f := aw.root
			rep := core.CallsNamed(f, "net/client.ReceivedMessageReader.TryToReplaceLoop")
			ok := false
			for _, c := range rep {
				if core.Dominates(c.(ssa.Instruction), aw.w.Instr) {
					ok = true
				}
			}
			e.R.Check(ok, "C11.R1", core.FnName(f)+":replace-before-ack-wait", e.pos(aw.w.Instr), "TryToReplaceLoop dominates the blocking select", "the wait is reachable without asking for a replacement reader loop: called from a handler, the only reader would be the blocked caller itself")
		}
		for _, q := range []string{"udp/client.Conn.doInternal", "tcp/client.Conn.doInternal"} {
			f := e.fn("C11.R1", q)
			if f == nil {
				continue
			}
			var sel ssa.Instruction
			for _, w := range core.WaitsOf(f) {
				if w.Blocking && w.Kind == "select" {
					sel = w.Instr
				}
			}
			rep := core.CallsNamed(f, "net/client.ReceivedMessageReader.TryToReplaceLoop")
			ok := sel != nil && len(rep) >= 1
			if ok {
				ok = false
				for _, c := range rep {
					if core.Dominates(c.(ssa.Instruction), sel) {
						ok = true
					}
				}
			}
			e.R.Check(ok, "C11.R1", q+":replace-before-wait", e.fpos(f), "TryToReplaceLoop dominates the blocking select", "the wait is reachable without asking for a replacement reader loop: called from a handler, the only reader would be the blocked caller itself")
		}
		for _, q := range []string{"udp/client.Conn.doObserve", "tcp/client.Conn.doObserve"} {
			f := e.fn("C11.R1", q)
			if f == nil {
				continue
			}
			obs := core.CallsNamed(f, "net/observation.Handler.NewObservation")
			rep := core.CallsNamed(f, "net/client.ReceivedMessageReader.TryToReplaceLoop")
			ok := len(obs) == 1 && len(rep) >= 1
			if ok {
				ok = core.Dominates(rep[0].(ssa.Instruction), obs[0].(ssa.Instruction))
			}
			e.R.Check(ok, "C11.R1", q+":replace-before-NewObservation", e.fpos(f), "TryToReplaceLoop dominates the call that waits for the first notification", "Observe from inside a handler would stall the connection: the registration waits for a response only the blocked reader could deliver")
		}
	}
	if e.want("C11.R2") {
		c11WhoMayCall(e)
	}
	loop := e.fn("C11.R3", "net/client.ReceivedMessageReader.loop")
	try := e.fn("C11.R3", "net/client.ReceivedMessageReader.TryToReplaceLoop")
	if e.want("C11.R3") {
		for _, f := range []*ssa.Function{loop, try} {
			if f == nil {
				continue
			}
			la := core.AnalyzeLocks(f)
			for _, fld := range []string{"loopDone", "readingMessages"} {
				accs := core.FieldAccesses(f, func(owner, field string, fa ssa.Value) bool {
					return field == fld && strings.Contains(core.AccessPath(fa), ".private.")
				})
				for _, a := range accs {
					held := la.At(a.Instr)
					_, ok := held[a.Base+".mutex"]
					for base := a.Base; !ok && strings.Contains(base, "."); {
						base = base[:strings.LastIndex(base, ".")] // the state may be grouped in a sub-struct next to the mutex
						_, ok = held[base+".mutex"]
					}
					e.R.Check(ok, "C11.R3", fmt.Sprintf("%s:private.%s", core.FnName(f), fld), e.pos(a.Instr), "accessed with the reader's mutex held "+held.String(), "reader state accessed without its mutex; held="+held.String())
				}
			}
		}
		// lock pairing of the reader's mutex
		for _, f := range []*ssa.Function{loop, try} {
			if f != nil {
				checkLockPairing(e, "C11.R3", f, nil)
			}
		}
	}
	if e.want("C11.R4") {
		c11Flag(e, loop, try)
	}
	if e.want("C11.R5") {
		c11OneFate(e)
	}
}

func c11WhoMayCall(e *Env) {
	rule := "C11.R2"
	// (a) ProcessReceivedMessage through the reader-client interface: only in loop
	var callers []string
	for _, f := range e.P.SrcFuncs(false) {
		core.Instrs(f, func(in ssa.Instruction) {
			c, ok := in.(ssa.CallInstruction)
			if !ok {
				return
			}
			cc := c.Common()
			if cc.IsInvoke() && cc.Method.Name() == "ProcessReceivedMessage" {
				callers = append(callers, core.FnName(f))
			}
			if n := core.CalleeName(c); n == "udp/client.Conn.ProcessReceivedMessage" || n == "tcp/client.Conn.ProcessReceivedMessage" {
				callers = append(callers, core.FnName(f))
			}
		})
	}
	sort.Strings(callers)
	ok := len(callers) >= 1
	for _, c := range callers {
		if c != "net/client.ReceivedMessageReader.loop" {
			ok = false
		}
	}
	e.R.Check(ok, rule, "ProcessReceivedMessage:only-from-loop", "-", "the per-message dispatch is invoked only by the reader loop", "ProcessReceivedMessage is also invoked by "+strings.Join(callers, ", "))
	// (b) receives from the queue field only in loop
	var receivers, senders []string
	for _, f := range e.P.SrcFuncs(false) {
		for _, w := range core.WaitsOf(f) {
			for _, c := range w.Cases {
				if c.Class != "queue" {
					continue
				}
				if c.Dir == types.RecvOnly {
					receivers = append(receivers, core.FnName(f))
				} else if c.Dir == types.SendOnly {
					senders = append(senders, core.FnName(f))
				}
			}
		}
	}
	sort.Strings(receivers)
	sort.Strings(senders)
	e.R.Check(len(receivers) == 1 && receivers[0] == "net/client.ReceivedMessageReader.loop", rule, "receive-queue:single-consumer", "-", "only the reader loop receives from the queue", "queue consumers: "+strings.Join(receivers, ", "))
	okS := len(senders) == 2 && senders[0] == "tcp/client.Conn.pushToReceivedMessageQueue" && senders[1] == "udp/client.Conn.Process"
	e.R.Check(okS, rule, "receive-queue:producers", "-", "only the two socket-reader hand-over functions send to the queue", "queue producers: "+strings.Join(senders, ", "))
}

func c11Flag(e *Env, loop, try *ssa.Function) {
	rule := "C11.R4"
	if loop != nil && len(loop.Params) == 3 {
		flag := loop.Params[2]
		var disp ssa.Instruction
		core.Instrs(loop, func(in ssa.Instruction) {
			if c, ok := in.(*ssa.Call); ok && c.Call.IsInvoke() && c.Call.Method.Name() == "ProcessReceivedMessage" {
				disp = c
			}
		})
		var storeF, storeT, innerT ssa.Instruction
		for _, fs := range flagStores(loop) {
			if core.Resolve(fs.target) != ssa.Value(flag) {
				continue
			}
			// order is decided where the dispatch lives: inside the helper when store and dispatch moved there together
			at := fs.site
			if disp != nil && fs.inner.Parent() == disp.Parent() {
				at = fs.inner
			}
			if !fs.val {
				storeF = at
			} else {
				storeT, innerT = at, fs.inner
			}
		}
		ok := disp != nil && storeF != nil && storeT != nil && core.Dominates(storeF, disp) && core.Dominates(disp, storeT)
		if ok {
			la := core.AnalyzeLocks(loop)
			ok = len(la.At(innerT)) == 1 && len(la.At(disp)) == 0
		}
		e.R.Check(ok, rule, "net/client.ReceivedMessageReader.loop:flag-discipline", e.fpos(loop), "own flag: Store(false) → dispatch (no lock held) → Store(true) under the mutex", "the loop does not clear its own reading flag before dispatch and set it again under the mutex afterwards")
	}
	if try != nil {
		var goI *ssa.Go
		core.Instrs(try, func(in ssa.Instruction) {
			if g, ok := in.(*ssa.Go); ok && core.CalleeName(g) == "net/client.ReceivedMessageReader.loop" {
				goI = g
			}
		})
		if goI == nil {
			e.R.Fail(rule, "net/client.ReceivedMessageReader.TryToReplaceLoop:starts-loop", e.fpos(try), "no replacement loop is started")
			return
		}
		// the arguments may be read back from the fields they were just published into (same critical section)
		ch, isCh := core.Resolve(core.ForwardFieldLoad(core.Arg(goI, 1))).(*ssa.MakeChan)
		fl := core.Resolve(core.ForwardFieldLoad(core.Arg(goI, 2)))
		isFl := freshTrueFlag(fl)
		fresh := isCh && isFl
		e.R.Check(fresh, rule, "net/client.ReceivedMessageReader.TryToReplaceLoop:fresh-state", e.pos(goI), "the replacement loop gets a stop channel and a reading flag (true) created in this call", "the replacement loop shares its stop channel or reading flag with the loop it replaces: the old loop's late Store(true) would make the next nested request skip the replacement")
		// both published into private.* and the old channel closed before
		pubCh, pubFl := false, false
		core.Instrs(try, func(in ssa.Instruction) {
			st, ok := in.(*ssa.Store)
			if !ok {
				return
			}
			_, f, isF := core.FieldOf(st.Addr)
			if !isF {
				return
			}
			if f == "loopDone" && isCh && core.Resolve(st.Val) == ssa.Value(ch) {
				pubCh = true
			}
			if f == "readingMessages" && isFl && core.Resolve(st.Val) == ssa.Value(fl) {
				pubFl = true
			}
		})
		closed := false
		core.Instrs(try, func(in ssa.Instruction) {
			c, ok := in.(*ssa.Call)
			if !ok {
				return
			}
			if b, isB := c.Call.Value.(*ssa.Builtin); isB && b.Name() == "close" && core.Dominates(c, goI) {
				if ld, isLd := c.Call.Args[0].(*ssa.UnOp); isLd {
					if _, f, isF := core.FieldOf(ld.X); isF && f == "loopDone" {
						closed = true
					}
				}
			}
		})
		e.R.Check(pubCh && pubFl && closed, rule, "net/client.ReceivedMessageReader.TryToReplaceLoop:publish", e.fpos(try), "the old stop channel is closed, then the new channel and flag are published and the new loop started", "the replacement does not close the old loop's channel and publish the new channel and flag")
		// replaces only when the current loop is busy: early return on readingMessages.Load() == true
		okBusy := false
		for _, i := range core.IfsOf(try) {
			cond, neg := core.StripNot(i.Cond)
			cond = core.Resolve(cond) // the flag may be read through a small helper predicate
			c, is := cond.(*ssa.Call)
			isFlagRead := is && strings.HasSuffix(core.CalleeName(c), "atomic.Bool.Load")
			if ld, isLd := cond.(*ssa.UnOp); isLd && ld.Op == token.MUL && fieldNameOf(ld.X) == "readingMessages" {
				isFlagRead = true // a plain bool behind the pointer, read under the mutex
			}
			if isFlagRead {
				k := 0
				if neg {
					k = 1
				}
				blk := i.Block().Succs[k]
				for _, in := range blk.Instrs {
					if _, isRet := in.(*ssa.Return); isRet {
						okBusy = true
					}
				}
			}
		}
		e.R.Check(okBusy, rule, "net/client.ReceivedMessageReader.TryToReplaceLoop:only-when-busy", e.fpos(try), "returns without replacing while the current loop is reading (one consumer at a time)", "a second loop can be started while the first is still reading from the queue")
	}
}

// c11OneFate: after a successful decode, release | inline | enqueue – exactly one.
func c11OneFate(e *Env) {
	rule := "C11.R5"
	for _, spec := range []struct {
		fn      string
		enqueue func(in ssa.Instruction, req ssa.Value) bool
	}{
		{"udp/client.Conn.Process", func(in ssa.Instruction, req ssa.Value) bool {
			if s, ok := in.(*ssa.Select); ok {
				for _, st := range s.States {
					if st.Dir == types.SendOnly && core.Resolve(st.Send) == req {
						return true
					}
				}
			}
			if c, ok := in.(*ssa.Call); ok && core.CalleeName(c) == "udp/client.Conn.handleSpecialMessages" {
				return true // handled inline (or falls through to the queue, which is the next event on that path)
			}
			return false
		}},
		{"tcp/client.Session.processBuffer", func(in ssa.Instruction, req ssa.Value) bool {
			c, ok := in.(*ssa.Call)
			return ok && core.CalleeName(c) == "tcp/client.Conn.pushToReceivedMessageQueue" && core.Resolve(core.Arg(c, 1)) == req
		}},
	} {
		f := e.fn(rule, spec.fn)
		if f == nil {
			continue
		}
		var dec *ssa.Call
		for _, c := range core.CallsNamed(f, "message/pool.Message.UnmarshalWithDecoder") {
			dec = c.(*ssa.Call)
		}
		if dec == nil {
			e.R.Fail(rule, spec.fn+":decode", e.fpos(f), "no decode call")
			continue
		}
		req := core.Resolve(core.Arg(dec, 0))
		isRelease := func(in ssa.Instruction) bool {
			c, ok := in.(*ssa.Call)
			return ok && strings.HasSuffix(core.CalleeName(c), ".ReleaseMessage") && core.Resolve(core.Arg(c, 1)) == req
		}
		isFate := func(in ssa.Instruction) bool { return isRelease(in) || spec.enqueue(in, req) }
		// at least one: no path from the decode to a return (or to the next iteration's decode) without a fate
		q := &core.PathQuery{Fn: f, From: dec, Stop: isFate, Target: func(in ssa.Instruction) bool {
			if _, ok := in.(*ssa.Return); ok {
				return true
			}
			return in == ssa.Instruction(dec)
		}}
		w := q.Find()
		e.R.Check(w == nil, rule, spec.fn+":every-message-has-a-fate", e.pos(dec), "after the decode every path releases the message, handles it inline or enqueues it", "a decoded message can be dropped without release or dispatch: "+e.trace(w))
		// at most one: after a release, no enqueue/inline and no second release of the same message in this iteration
		bad := ""
		core.Instrs(f, func(in ssa.Instruction) {
			if !isRelease(in) {
				return
			}
			q2 := &core.PathQuery{Fn: f, From: in, Stop: func(x ssa.Instruction) bool { return x == ssa.Instruction(dec) }, Target: isFate}
			if w2 := q2.Find(); w2 != nil {
				bad = "after the release at " + e.pos(in) + " the same message is dispatched or released again: " + e.trace(w2)
			}
		})
		e.R.Check(bad == "", rule, spec.fn+":at-most-one-fate", e.pos(dec), "a released message is never dispatched or released again in the same iteration", bad)
	}
}

// c11NoLockAcrossCallback: the functions that hand a received message to application code (observe callback, request handler,
// token continuation) do so with no sync.Mutex / RWMutex held on any path. While the callback waits for a nested request's
// reply, the replacement reader loop runs the same function for the next message; a mutex held across the callback would
// stop it (the per-message-ID MutexMap of handleReq is keyed and documented separately: C05.R1).
func c11NoLockAcrossCallback(e *Env) {
	rule := "C11.R6"
	for _, fn := range []string{"net/observation.Observation.handle", "net/observation.Handler.Handle", "udp/client.Conn.handleReq", "tcp/client.Conn.handleReq", "udp/client.Conn.handle", "tcp/client.Conn.handle", "udp/client.Conn.ProcessReceivedMessageWithHandler", "tcp/client.Conn.ProcessReceivedMessageWithHandler", "udp/client.Conn.processReceivedMessage", "tcp/client.Conn.processReceivedMessage"} {
		f := e.P.Func(fn)
		if f == nil {
			continue
		}
		la := core.AnalyzeLocksMay(f)
		n := 0
		bad := ""
		core.Instrs(f, func(in ssa.Instruction) {
			c, ok := in.(*ssa.Call)
			if !ok || c.Call.IsInvoke() {
				return
			}
			if core.StaticFn(c) != nil {
				// static library call: only follow the ones that are themselves in the list
				return
			}
			// dynamic call of a func value taking a *pool.Message: a callback
			sig, isSig := c.Call.Value.Type().Underlying().(*types.Signature)
			if !isSig {
				return
			}
			takesMsg := false
			for i := 0; i < sig.Params().Len(); i++ {
				if core.TypeName(sig.Params().At(i).Type()) == "*message/pool.Message" {
					takesMsg = true
				}
			}
			if !takesMsg {
				return
			}
			n++
			if held := la.At(c); len(held) > 0 {
				bad = "callback at " + e.pos(c) + " may run with " + held.String() + " held"
			}
		})
		if n == 0 {
			continue
		}
		e.R.Check(bad == "", rule, fn+":callback-without-lock", e.fpos(f), fmt.Sprintf("%d callback invocation(s), no mutex held on any path", n), "a handler that issues a blocking request stalls the connection: the next message for the same object blocks the only reader on this mutex: "+bad)
	}
}

// c11OwnMID: checkMyMessageID compares (peer − own) mod 2^16 against a threshold and jumps the own counter ahead when the peer's
// ID is close in front of it. The operand order matters: own − peer is large exactly when the own counter is about to reach the
// peer's ID.
func c11OwnMID(e *Env) {
	rule := "C11.R7"
	f := e.fn(rule, "udp/client.Conn.checkMyMessageID")
	if f == nil {
		return
	}
	var thr int64 = -1
	okOrder, found := false, false
	var guard *ssa.If
	for _, i := range core.IfsOf(f) {
		cmp, ok := core.AsCmp(i.Cond)
		if !ok || (cmp.Op != token.GEQ && cmp.Op != token.GTR) {
			continue
		}
		k, isK := core.ConstInt(cmp.Y)
		sub, isSub := core.Resolve(core.Unwrap(cmp.X)).(*ssa.BinOp) // (through a small distance helper)
		if !isK || !isSub || sub.Op != token.SUB {
			continue
		}
		found = true
		thr = k
		guard = i
		x := core.Resolve(stripCastCalls(sub.X))
		y := core.Resolve(stripCastCalls(sub.Y))
		xc, xIs := x.(*ssa.Call)
		okOrder = xIs && strings.HasSuffix(core.CalleeName(xc), "pool.Message.MessageID") && isAtomicLoadOf(y, "msgID")
	}
	e.R.Check(found && okOrder, rule, "udp/client.Conn.checkMyMessageID:distance", e.fpos(f), "distance tested is uint16(peer) − uint16(own)", "the distance between the peer's and the own message ID is not computed as peer − own: the counter is left alone exactly when it is about to meet the peer's ID")
	if !found {
		return
	}
	// the early return is on the far edge; the near edge moves the counter by a step that lands far away again
	rets := 0
	for _, ret := range core.ReturnsOf(f) {
		if core.OnlyViaEdge(guard, true, ret) {
			rets++
		}
	}
	e.R.Check(rets >= 1, rule, "udp/client.Conn.checkMyMessageID:far-returns", e.fpos(f), "returns without touching the counter only on the far edge", "no return on the far edge")
	okStep := false
	for _, c := range core.Calls(f, func(n string, _ ssa.CallInstruction) bool {
		return strings.HasSuffix(n, "atomic.Uint32.CompareAndSwap")
	}) {
		if add, isAdd := core.Unwrap(core.Arg(c, 2)).(*ssa.BinOp); isAdd && add.Op == token.ADD {
			if k, isK := core.ConstInt(add.Y); isK && k >= thr && k <= 0xffff-thr && core.OnlyViaEdge(guard, false, c.(ssa.Instruction)) {
				okStep = true
			}
		}
	}
	e.R.Check(okStep, rule, "udp/client.Conn.checkMyMessageID:step", e.fpos(f), fmt.Sprintf("near edge: compare-and-swap to old + k with %d ≤ k ≤ %d", thr, 0xffff-thr), "on the near edge the counter is not moved by a step that takes it out of the near window")
}

// freshTrueFlag: v is a boolean flag object created here and set to true before it is shared: atomic.NewBool(true), or a fresh
// atomic.Bool variable (new / &local, zero = false) on which Store(true) is called in the creating function.
func freshTrueFlag(v ssa.Value) bool {
	switch x := v.(type) {
	case *ssa.Call:
		if strings.HasSuffix(core.CalleeName(x), "atomic.NewBool") {
			b, isB := core.ConstBool(core.Arg(x, 0))
			return isB && b
		}
	case *ssa.Alloc:
		if pt, isP := x.Type().Underlying().(*types.Pointer); isP {
			if b, isB := pt.Elem().Underlying().(*types.Basic); isB && b.Kind() == types.Bool {
				// a plain bool on the heap, initialised to true
				for _, u := range core.Referrers(x) {
					if st, ok := u.(*ssa.Store); ok && st.Addr == ssa.Value(x) {
						if v, isC := core.ConstBool(st.Val); isC && v {
							return true
						}
					}
				}
				return false
			}
		}
		if !strings.HasSuffix(core.TypeName(x.Type()), "atomic.Bool") {
			return false
		}
		set := false
		for _, u := range core.Referrers(x) {
			if c, ok := u.(*ssa.Call); ok && strings.HasSuffix(core.CalleeName(c), "atomic.Bool.Store") && len(c.Call.Args) == 2 && c.Call.Args[0] == ssa.Value(x) {
				if b, isB := core.ConstBool(c.Call.Args[1]); isB && b {
					set = true
				}
			}
		}
		return set
	}
	return false
}

// flagStore is a store of a constant into a boolean flag: an atomic Store call, a plain `*p = k`, or a call of a helper analysed
// as part of the function that does one of the two with its parameters (site = the call, inner = the store in the helper).
type flagStore struct {
	site, inner ssa.Instruction
	target      ssa.Value
	val         bool
}

func flagStores(f *ssa.Function) []flagStore {
	var out []flagStore
	direct := func(in ssa.Instruction) (target, val ssa.Value, ok bool) {
		switch x := in.(type) {
		case *ssa.Call:
			if strings.HasSuffix(core.CalleeName(x), "atomic.Bool.Store") && len(x.Call.Args) == 2 {
				return x.Call.Args[0], x.Call.Args[1], true
			}
		case *ssa.Store:
			if pt, isP := x.Addr.Type().Underlying().(*types.Pointer); isP {
				if b, isB := pt.Elem().Underlying().(*types.Basic); isB && b.Kind() == types.Bool {
					return x.Addr, x.Val, true
				}
			}
		}
		return nil, nil, false
	}
	core.InstrsOwn(f, func(in ssa.Instruction) {
		if t, v, ok := direct(in); ok {
			if b, isB := core.ConstBool(v); isB {
				out = append(out, flagStore{in, in, t, b})
			}
			return
		}
		c, ok := in.(*ssa.Call)
		if !ok {
			return
		}
		h := c.Call.StaticCallee()
		if h == nil || !core.IsAbsorbed(h) {
			return
		}
		if o := h.Origin(); o != nil && len(o.Blocks) > 0 {
			h = o
		}
		core.InstrsOwn(h, func(hin ssa.Instruction) {
			t, v, isSt := direct(hin)
			if !isSt {
				return
			}
			argOf := func(x ssa.Value) ssa.Value {
				for i, p := range h.Params {
					if core.Unwrap(x) == ssa.Value(p) && i < len(c.Call.Args) {
						return c.Call.Args[i]
					}
				}
				return nil
			}
			ta, va := argOf(t), argOf(v)
			if ta == nil {
				return
			}
			if va == nil {
				va = v
			}
			if b, isB := core.ConstBool(va); isB {
				out = append(out, flagStore{in, hin, ta, b})
			}
		})
	})
	return out
}

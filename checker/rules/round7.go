package rules

import (
	"fmt"
	"go/token"
	"go/types"
	"sort"
	"strings"

	"coapcheck/internal/core"

	"golang.org/x/tools/go/ssa"
)

// Rules added after the seventh round of independently seeded changes: "wrong sibling" mistakes (a near-synonym call, accessor or
// field) and lifecycle / state mistakes (a one-shot made repeatable, state that survives the event that should end it).

// Round7 is called for every configuration after the property's own rules (main.go).
func Round7(e *Env, id string) {
	r := e.R
	reg := func(rule, engine, text string, min int, run func(rule string)) {
		r.Rule(rule, engine, text, min)
		if e.want(rule) {
			run(rule)
		}
	}
	switch id {
	case "C01":
		reg("C01.H1", "shared", "a recycled message starts empty: Reset clears every wire field, the payload included (= C02.R8) – the stream decoder assigns the payload only when the frame has one", 1, func(rule string) { resetClearsEverything(e, rule) })
	case "C09":
		reg("C09.H2", "shared+who-may-write", "a sweep that removes entries iterates with the lock released (= C10.R10: a Range2 callback never mutates the same map – it would deadlock the housekeeping goroutine); a server's context and cancel function are set by its constructor only (Stop is final)", 2, func(rule string) {
			range2CallbackReadsOnly(e, rule)
			serverContextSetOnce(e, rule)
		})
	case "C07":
		reg("C07.H16", "shared+ownership", "a frame that follows a response is delivered: the response's continuation is consumed by the response (= C03.R4 one-shot dispatch); after a handler ran, the response released is the writer's current message, never the one the writer was created with (SetMessage already released that one – a second release lets two frames decode into one pooled object)", 3, func(rule string) {
			c03OneShotAs(e, rule)
			releaseWritersCurrentMessage(e, rule)
		})
	case "C12":
		reg("C12.H18", "flows+paths", "an observation keeps a deep copy of the request's options (Options.Clone – the values of a shallow copy live in the pooled request message); a deferred removal of a table entry runs unconditionally (or under the function's error only)", 3, func(rule string) {
			observationKeepsDeepCopy(e, rule)
			deferredRemovalUnconditional(e, rule)
		})
		reg("C12.H16", "ownership", "after a handler ran, the response released is the writer's current message, never the one the writer was created with", 1, func(rule string) { releaseWritersCurrentMessage(e, rule) })
	case "C08":
		reg("C08.H11", "paths", "giving an observation up removes its entry unconditionally: every path through cleanUp takes the entry out of the table (a registration abandoned before its answer must not keep receiving notifications)", 1, func(rule string) { cleanUpRemovesAlways(e, rule) })
	case "C06":
		reg("C06.H10", "paths", "an acknowledgement that matches a pending message completes it on every path: nothing between the removal of the pending entry and the wake-up of the writer can drop it", 1, func(rule string) { matchedAckAlwaysWakes(e, rule) })
		reg("C06.H2", "shared", "the sweep over the pending confirmable messages removes entries, so it iterates with the map's lock released (= C10.R10)", 1, func(rule string) { range2CallbackReadsOnly(e, rule) })
	case "C10":
		reg("C10.H3", "shared+flows", "the reply cache keeps a private copy (= C05.R6): no peer is answered from a buffer another exchange reuses; the local half of the connection key is the datagram's destination address", 2, func(rule string) {
			borrow(e, "C05", "C05.R6", rule)
			localAddrIsDestination(e, rule)
		})
	case "C13":
		reg("C13.H18", "paths", "a deferred removal of a table entry runs unconditionally (or under the function's error only): no state of the table can make the exchange's own entry survive its exchange", 2, func(rule string) { deferredRemovalUnconditional(e, rule) })
		reg("C13.H4", "who-may-write", "a cached reply's expiry is fixed when it is stored: only element constructors write ValidUntil (a lookup never extends the lifetime)", 1, func(rule string) { validUntilWrittenAtCreationOnly(e, rule) })
	case "C03":
		reg("C03.H9", "truth-table", "a finished block-wise response leaves the sending table with its last block (whatever the type of the request for it): a later request reusing the token is not answered from the old transfer", 1, func(rule string) { finishedResponseLeavesTable(e, rule) })
	case "C02":
		reg("C02.H17", "flows+paths", "the stream decoder refuses a truncated frame: the short-read guard of Decode compares the bytes at hand with the announced length of the whole frame (MessageLength, not the header length); a decoded message never keeps the body reader of its previous use (UnmarshalWithDecoder clears it on every path)", 2, func(rule string) {
			truncationGuardUsesFrameLength(e, rule)
			unmarshalClearsBodyAlways(e, rule)
		})
	case "C04":
		reg("C04.H12", "flows+ownership", "a body that fits one block is read completely (io.ReadFull / ReadAll – a reader may return short reads); the block-wise layer never releases a message it takes out of the sending table (the request registered by Do belongs to Do's caller)", 2, func(rule string) {
			readBodyReadsAll(e, rule)
			sendingTableNeverReleases(e, rule)
		})
	case "C20":
		reg("C20.H15", "shared", "what reaches the wire is the response that was accepted: a stale reply is not replayed after its exchange lifetime (= C05.R8: the reply cache's lookup honours expiry) and an expired transfer does not turn the accepted response into an error (= C14.R5: LoadOrStore replaces an expired entry)", 6, func(rule string) {
			replayWheneverStored(e, rule)
			checkExpiryPredicateAs(e, rule)
		})
	case "C11":
		reg("C11.H13", "shared", "a request's continuation leaves the token table on every exit of the request (= C03.R2): a stale continuation would hijack a later message that no caller waits for", 2, func(rule string) { borrowMatching(e, "C03", "C03.R2", rule, "doInternal") })
	case "C05":
		reg("C05.H14", "truth-table+who-may-call", "a reply is exempt from the cache exactly when it is a pong or a reset (modified ∧ (type Reset ∨ code Empty)); the reply cache loses entries only by expiry (its sweep does nothing but the expiry sweep)", 2, func(rule string) {
			pongOrResetPredicate(e, rule)
			replyCacheSweepOnlyExpires(e, rule)
		})
		reg("C05.H4", "who-may-write", "a cached reply's expiry is fixed when it is stored (a duplicate does not restart the exchange lifetime)", 1, func(rule string) { validUntilWrittenAtCreationOnly(e, rule) })
	case "C15":
		reg("C15.H5", "paths", "every Setup… of a pooled message replaces the whole option list: setupCommon resets the options on every path", 1, func(rule string) { setupResetsOptionsAlways(e, rule) })
	case "C16":
		reg("C16.H6", "shared", "the queue's update callback is applied atomically (= C14.R3 for ReplaceWithFunc: decision and removal are one critical section); the deregistration request of Cancel is built on the caller's context (= C09.R7) so that the limiter sees its cancellation", 3, func(rule string) {
			borrowMatching(e, "C14", "C14.R3", rule, "ReplaceWithFunc")
			borrowMatching(e, "C09", "C09.R7", rule, "Observation.Cancel")
		})
	case "C18":
		reg("C18.H7", "paths", "the housekeeping ticker runs for the life of its runner: the ticker goroutine is started by periodic.New itself, unconditionally", 1, func(rule string) { tickerStartedByConstructor(e, rule) })
	case "C19":
		reg("C19.H8", "shared+paths", "the typed setters' retry repeats the first attempt (= C15.R1: Set… is not retried as Add…); a block is placed by the size exponent it carries: the clamp to the own maximum is applied to a received block only when a transfer starts", 5, func(rule string) {
			borrowMatching(e, "C15", "C15.R1", rule, "retry-agrees")
			clampOnlyAtTransferStart(e, rule)
		})
	}
}

// serverContextSetOnce (C09): the ctx / cancel fields of the servers are assigned by constructors only.
func serverContextSetOnce(e *Env, rule string) {
	owners := map[string]bool{"udp/server.Server": true, "tcp/server.Server": true, "dtls/server.Server": true}
	n := 0
	var bad []string
	for _, f := range e.P.AllSrcFuncs(false) {
		name := core.FnName(f)
		core.InstrsOwn(f, func(in ssa.Instruction) {
			st, ok := in.(*ssa.Store)
			if !ok {
				return
			}
			o, fl, isF := core.FieldOf(st.Addr)
			if !isF || !owners[o] || (fl != "ctx" && fl != "cancel") {
				return
			}
			n++
			if al, isAl := core.Resolve(st.Addr.(*ssa.FieldAddr).X).(*ssa.Alloc); isAl && al.Parent() == f {
				return // the object under construction
			}
			if strings.HasSuffix(name, ".New") {
				return
			}
			bad = append(bad, name+" at "+e.pos(st))
		})
	}
	sort.Strings(bad)
	e.R.Check(n >= 3 && len(bad) == 0, rule, "servers:context-set-by-constructor-only", "-", fmt.Sprintf("%d assignments of a server's ctx/cancel, all in its constructor", n), "a server's context is replaced after construction – a Stop that completed is undone and Serve never returns: "+strings.Join(bad, ", "))
}

// localAddrIsDestination (C10): in the datagram server's read loop the IP written into the local address comes from the control
// message's Dst field.
func localAddrIsDestination(e *Env, rule string) {
	q := "udp/server.Server.Serve"
	f := e.fn(rule, q)
	if f == nil {
		return
	}
	n, bad := 0, ""
	for _, g := range core.WithAnon(f) {
		core.Instrs(g, func(in ssa.Instruction) {
			st, ok := in.(*ssa.Store)
			if !ok {
				return
			}
			o, fl, isF := core.FieldOf(st.Addr)
			if !isF || o != "net.UDPAddr" || fl != "IP" {
				return
			}
			ld, isLd := core.Resolve(st.Val).(*ssa.UnOp)
			if !isLd {
				return
			}
			so, sf, isSF := core.FieldOf(ld.X)
			if !isSF || !strings.HasSuffix(so, "ControlMessage") {
				return
			}
			n++
			if sf != "Dst" {
				bad = "the local address at " + e.pos(st) + " is taken from the control message's " + sf + " (on receive only Dst is the address the datagram was sent to): peers talking to different local addresses share one connection"
			}
		})
	}
	e.R.Check(n >= 1 && bad == "", rule, q+":local-address-is-destination", e.fpos(f), "the local half of the connection key is the received datagram's destination (ControlMessage.Dst)", bad)
}

// validUntilWrittenAtCreationOnly (C13, C05): Element.ValidUntil is stored by pkg/cache constructors only.
func validUntilWrittenAtCreationOnly(e *Env, rule string) {
	n := 0
	var bad []string
	for _, f := range e.P.AllSrcFuncs(false) {
		name := core.FnName(f)
		if strings.HasPrefix(name, "examples/") {
			continue
		}
		core.InstrsOwn(f, func(in ssa.Instruction) {
			c, ok := in.(*ssa.Call)
			if !ok || !strings.HasSuffix(core.CalleeName(c), ".Store") {
				return
			}
			o, fl, isF := core.FieldOf(core.ArgRaw(c, 0))
			if !isF || o != "pkg/cache.Element" || fl != "ValidUntil" {
				return
			}
			n++
			okSite := strings.HasPrefix(name, "pkg/cache.New")
			if !okSite && core.IsAbsorbed(f) {
				// an initialisation step of the constructor split out into an unexported helper nothing else calls
				roots := core.RootsOf(f)
				okSite = len(roots) > 0
				for _, r := range roots {
					if !strings.HasPrefix(core.FnName(r), "pkg/cache.New") {
						okSite = false
					}
				}
			}
			if !okSite {
				bad = append(bad, name+" at "+e.pos(c))
			}
		})
	}
	sort.Strings(bad)
	e.R.Check(len(bad) == 0, rule, "pkg/cache.Element.ValidUntil:written-at-creation-only", "-", fmt.Sprintf("%d writes of an element's expiry, all in its constructor", n), "the expiry of a stored element is rewritten after creation – an entry that is looked up again outlives the exchange lifetime: "+strings.Join(bad, ", "))
}

// setupResetsOptionsAlways (C15): every path through setupCommon calls ResetOptionsTo.
func setupResetsOptionsAlways(e *Env, rule string) {
	q := "message/pool.Message.setupCommon"
	f := e.P.FuncQuiet(q)
	if f == nil {
		// merged into the Setup… functions: each of them resets
		ok, n := true, 0
		for _, s := range []string{"SetupGet", "SetupPost", "SetupPut", "SetupDelete"} {
			g := e.fn(rule, "message/pool.Message."+s)
			if g == nil {
				continue
			}
			n++
			if okAll, _ := core.MustCallOnAllReturns(g, nil, "message/pool.Message.ResetOptionsTo"); !okAll {
				ok = false
			}
		}
		e.R.Check(ok && n == 4, rule, q+":resets-options-always", "-", "every Setup… resets the option list on every path", "a Setup… can return with the options of the message's previous use still in place")
		return
	}
	okAll, w := core.MustCallOnAllReturns(f, nil, "message/pool.Message.ResetOptionsTo")
	e.R.Check(okAll, rule, q+":resets-options-always", e.fpos(f), "every path through setupCommon replaces the option list (ResetOptionsTo)", "a Setup… can return with the options of the message's previous use still in place: "+e.trace(w))
}

// tickerStartedByConstructor (C18): periodic.New has a go statement in its own body that every path to its return passes.
func tickerStartedByConstructor(e *Env, rule string) {
	q := "pkg/runner/periodic.New"
	f := e.fn(rule, q)
	if f == nil {
		return
	}
	var goI *ssa.Go
	core.InstrsOwn(f, func(in ssa.Instruction) {
		if g, ok := in.(*ssa.Go); ok {
			goI = g
		}
	})
	ok := goI != nil
	if ok {
		for _, ret := range core.ReturnsOf(f) {
			if ret.Parent() == f && !core.Dominates(goI, ret) {
				ok = false
			}
		}
	}
	e.R.Check(ok, rule, q+":ticker-started-unconditionally", e.fpos(f), "the ticker goroutine is started by New on every path", "the ticker goroutine is not started by the constructor itself (started lazily or conditionally): after an idle period nothing registered later is ever ticked – no inactivity check, no keep-alive, no expiry sweep")
}

// clampOnlyAtTransferStart (C19, C04): in processReceivedMessage the received block's size exponent is clamped to the own maximum
// (getSzx) only (a) under the "no partial body yet" test, or (b) after the block was placed (copied into the partial body).
func clampOnlyAtTransferStart(e *Env, rule string) {
	q := bw + ".processReceivedMessage"
	f := e.fn(rule, q)
	if f == nil {
		return
	}
	var copies []ssa.Instruction
	core.Instrs(f, func(in ssa.Instruction) {
		if c, ok := in.(*ssa.Call); ok {
			switch n := core.CalleeName(c); {
			case n == "net/blockwise.copyToPayloadFromOffset", n == "io.Copy", strings.HasSuffix(n, "memfile.File.Seek"), strings.HasSuffix(n, "memfile.File.Write"):
				copies = append(copies, c)
			}
		}
	})
	n, bad := 0, ""
	core.Instrs(f, func(in ssa.Instruction) {
		c, ok := in.(*ssa.Call)
		if !ok {
			return
		}
		isClamp := core.StaticFn(c) != nil && core.StaticFn(c).Name() == "getSzx"
		if b, isB := c.Call.Value.(*ssa.Builtin); isB && b.Name() == "min" && strings.HasSuffix(core.TypeName(c.Type()), "SZX") {
			isClamp = true // the helper written out with the builtin
		}
		if !isClamp {
			return
		}
		n++
		// (a) guarded by "no cached message"
		_, atStart := core.GuardedBy(c, func(cond ssa.Value) core.CondMatch {
			cmp, isCmp := core.AsCmp(cond)
			if !isCmp || (cmp.Op != token.EQL && cmp.Op != token.NEQ) || !(core.IsNilConst(cmp.X) || core.IsNilConst(cmp.Y)) {
				return core.CondMatch{}
			}
			other := cmp.X
			if core.IsNilConst(other) {
				other = cmp.Y
			}
			if core.IsErrorType(other.Type()) || !strings.Contains(core.TypeName(other.Type()), "essageGuard") {
				return core.CondMatch{} // only the test of the partial-body entry counts, not an error check
			}
			return core.CondMatch{Match: true, Branch: cmp.Op == token.EQL}
		})
		if atStart {
			return
		}
		// (b) no placement of the block is reachable afterwards
		for _, cp := range copies {
			cp := cp
			if (&core.PathQuery{Fn: f, From: c, Target: func(x ssa.Instruction) bool { return x == cp }}).Find() != nil {
				bad = "the size exponent of a received block is clamped at " + e.pos(c) + " before the block is placed at " + e.pos(cp) + ", outside the start of a transfer: a later block that carries a bigger size than our maximum is placed at the wrong offset and silently dropped"
			}
		}
	})
	e.R.Check(bad == "", rule, q+":clamp-only-at-transfer-start", e.fpos(f), fmt.Sprintf("%d clamp(s) of the size exponent: at the start of a transfer, or after the block was placed", n), bad)
}

// finishedResponseLeavesTable (C03, C04): the decision to drop a sending transfer's entry after a continuation – in Handle, or in
// continueSendingMessage when the decision was moved there – depends on three facts only: the continuation failed, more blocks
// follow, the kept message is a response (code above DELETE). Forced-edge path queries with every other condition free:
// last block ∧ response ⇒ deleted on every path to a successful return; more blocks, or a request waiting for its response ⇒ never
// deleted; failed ⇒ deleted (where the failure is visible).
func finishedResponseLeavesTable(e *Env, rule string) {
	q := bw + ".Handle"
	handle := e.fn(rule, q)
	if handle == nil {
		return
	}
	key := q + ":finished-response-removed"
	var cont *ssa.Call
	for _, c := range core.CallsNamed(handle, bw+".continueSendingMessage") {
		cont, _ = c.(*ssa.Call)
	}
	if cont == nil {
		e.R.Undecided(rule, key, e.fpos(handle), "no continuation of a sending transfer in Handle")
		return
	}
	isDelete := func(in ssa.Instruction) bool {
		c, ok := in.(*ssa.Call)
		if !ok {
			return false
		}
		n := core.CalleeName(c)
		return (n == "pkg/sync.Map.Delete" || n == "pkg/sync.Map.LoadAndDelete") && strings.HasSuffix(tableOf(c), ".sendingMessagesCache")
	}
	// classification of a branch condition: which of the three facts it tests, and with which polarity
	atom := func(cond ssa.Value) (string, bool) {
		v, neg := core.StripNot(cond)
		r := core.Resolve(v)
		if ex, ok := r.(*ssa.Extract); ok {
			if c, isC := ex.Tuple.(*ssa.Call); isC {
				switch {
				case c == cont && ex.Index == 0 && isBoolValue(ex):
					return "more", neg
				case core.StaticFn(c) != nil && core.StaticFn(c).Name() == "createSendingMessage" && ex.Index == 1:
					return "more", neg
				}
			}
		}
		if isFieldLoadNamed(r, "more") || core.CellName(loadAddr(r)) == "more" {
			return "more", neg
		}
		b, ok := v.(*ssa.BinOp)
		if !ok {
			return "", false
		}
		if (b.Op == token.EQL || b.Op == token.NEQ) && core.IsNilConst(b.Y) && core.IsErrorType(b.X.Type()) {
			if src := errSource(b.X); src == cont {
				return "failed", (b.Op == token.EQL) != neg
			}
		}
		if k, isK := core.ConstInt(b.Y); isK && k == 4 && strings.HasSuffix(core.TypeName(b.X.Type()), "codes.Code") { // codes.DELETE
			switch b.Op {
			case token.GTR:
				return "response", neg
			case token.LEQ:
				return "response", !neg
			}
		}
		return "", false
	}
	// where the decision lives: the function with a removal that is guarded by the response test
	host := handle
	var from ssa.Instruction = cont
	guardedDelete := func(fn *ssa.Function) bool {
		found := false
		core.Instrs(fn, func(in ssa.Instruction) {
			if !isDelete(in) {
				return
			}
			for _, br := range []bool{true, false} {
				br := br
				if _, g := core.GuardedBy(in, func(cond ssa.Value) core.CondMatch {
					if n, _ := atom(cond); n == "response" {
						return core.CondMatch{Match: true, Branch: br}
					}
					return core.CondMatch{}
				}); g {
					found = true
				}
			}
		})
		return found
	}
	if !guardedDelete(handle) {
		if cs := core.StaticFn(cont); cs != nil && guardedDelete(cs) {
			host, from = cs, nil
		} else {
			e.R.Fail(rule, key, e.fpos(handle), "no removal of a finished response transfer found (neither in Handle nor in the continuation): the entry of a completed response stays until it times out and a later request with the same token is answered from it")
			return
		}
	}
	forced := func(as map[string]bool) func(*ssa.If, bool) bool {
		return func(i *ssa.If, br bool) bool {
			name, neg := atom(i.Cond)
			if name == "" {
				return true // every other condition is free
			}
			val, set := as[name]
			if !set {
				return true
			}
			return br == (val != neg)
		}
	}
	okReturn := func(in ssa.Instruction) bool {
		ret, ok := in.(*ssa.Return)
		return ok && !core.ReturnsNonNilError(ret)
	}
	bad := ""
	for _, c := range []struct {
		as   map[string]bool
		want bool
		what string
	}{
		{map[string]bool{"failed": true}, true, "a failed continuation"},
		{map[string]bool{"failed": false, "more": false, "response": true}, true, "the last block of a response"},
		{map[string]bool{"failed": false, "more": true}, false, "a transfer with more blocks to come"},
		{map[string]bool{"failed": false, "more": false, "response": false}, false, "a request waiting for its response"},
	} {
		if c.as["failed"] && host != handle {
			continue // the failure exits are error returns of the continuation itself; Handle's reaction is checked when it hosts the decision
		}
		if c.want {
			if w := (&core.PathQuery{Fn: host, From: from, EdgeOK: forced(c.as), Stop: isDelete, Target: okReturn}).Find(); w != nil {
				bad = "after " + c.what + " the entry can stay in the sending table (a later request with the same token is answered from the old transfer): " + e.trace(w)
			}
		} else if host == handle || !c.as["failed"] {
			if w := (&core.PathQuery{Fn: host, From: from, EdgeOK: forced(c.as), Target: func(in ssa.Instruction) bool { return isDelete(in) && (host == handle || okReachable(in)) }}).Find(); w != nil {
				bad = "for " + c.what + " the entry can be removed from the sending table: " + e.trace(w)
			}
		}
	}
	e.R.Check(bad == "", rule, key, e.fpos(host), "after a continuation the entry is deleted ⇔ it failed ∨ (last block ∧ the kept message is a response), whatever else holds", bad)
}

func okReachable(ssa.Instruction) bool { return true }

func isBoolValue(v ssa.Value) bool {
	b, ok := v.Type().Underlying().(*types.Basic)
	return ok && b.Info()&types.IsBoolean != 0
}

// loadAddr: the address a load reads from (nil for anything else).
func loadAddr(v ssa.Value) ssa.Value {
	if ld, ok := v.(*ssa.UnOp); ok && ld.Op == token.MUL {
		return ld.X
	}
	return nil
}

// cleanUpRemovesAlways (C08).
func cleanUpRemovesAlways(e *Env, rule string) {
	q := "net/observation.Observation.cleanUp"
	f := e.fn(rule, q)
	if f == nil {
		return
	}
	removes := func(in ssa.Instruction) bool {
		c, ok := in.(*ssa.Call)
		if !ok {
			return false
		}
		n := core.CalleeName(c)
		return (n == "pkg/sync.Map.LoadAndDelete" || n == "pkg/sync.Map.Delete" || n == "pkg/sync.Map.LoadAndDeleteWithFunc" || n == "pkg/sync.Map.DeleteWithFunc") && strings.HasSuffix(tableOf(c), ".observations")
	}
	w := (&core.PathQuery{Fn: f, Stop: removes, Target: core.IsReturn}).Find()
	e.R.Check(w == nil, rule, q+":removes-on-every-path", e.fpos(f), "every path through cleanUp removes the observation's entry from the table", "cleanUp can return without removing the entry (its failed registration keeps receiving the peer's notifications): "+e.trace(w))
}

// matchedAckAlwaysWakes (C06).
func matchedAckAlwaysWakes(e *Env, rule string) {
	q := "udp/client.Conn.handleSpecialMessages"
	f := e.fn(rule, q)
	if f == nil {
		return
	}
	var take *ssa.Call
	for _, c := range core.Calls(f, func(n string, ci ssa.CallInstruction) bool {
		return n == "pkg/sync.Map.LoadAndDelete" && strings.HasSuffix(tableOf(ci), ".midHandlerContainer")
	}) {
		take, _ = c.(*ssa.Call)
	}
	if take == nil {
		e.R.Undecided(rule, q+":matched-ack-wakes", e.fpos(f), "the pending entry is not taken with LoadAndDelete here")
		return
	}
	wake := func(in ssa.Instruction) bool {
		c, ok := in.(*ssa.Call)
		if !ok {
			return false
		}
		ld, isLd := c.Call.Value.(*ssa.UnOp)
		if !isLd {
			return false
		}
		_, fl, isF := core.FieldOf(ld.X)
		return isF && fl == "handler"
	}
	hit := func(i *ssa.If, br bool) bool {
		cond, neg := core.StripNot(i.Cond)
		if ex, ok := core.Resolve(cond).(*ssa.Extract); ok && ex.Tuple == ssa.Value(take) && ex.Index == 1 {
			return br == !neg
		}
		return true
	}
	w := (&core.PathQuery{Fn: f, From: take, EdgeOK: hit, Stop: wake, Target: core.IsReturn}).Find()
	e.R.Check(w == nil, rule, q+":matched-ack-wakes", e.pos(take), "once the pending entry was found and removed, every path invokes its handler (the writer is woken)", "a matching acknowledgement can be swallowed after its pending entry was removed – the call it answers stays blocked until its context ends: "+e.trace(w))
}

// readBodyReadsAll (C04): ReadBody fills its buffer with io.ReadFull / io.ReadAll / io.Copy…, not with a single Read.
func readBodyReadsAll(e *Env, rule string) {
	q := "message/pool.Message.ReadBody"
	f := e.fn(rule, q)
	if f == nil {
		return
	}
	full, bad := 0, ""
	lb := loopBlocks(f)
	core.Instrs(f, func(in ssa.Instruction) {
		c, ok := in.(*ssa.Call)
		if !ok {
			return
		}
		switch core.CalleeName(c) {
		case "io.ReadFull", "io.ReadAll", "io.ReadAtLeast", "io.Copy", "io.CopyN":
			full++
			return
		}
		if c.Call.IsInvoke() && c.Call.Method.Name() == "Read" && !lb[c.Block()] {
			bad = "the body is read with a single Read at " + e.pos(c) + ": a reader that returns short reads (allowed by io.Reader) delivers a truncated payload with a success code"
		}
	})
	e.R.Check(full >= 1 && bad == "", rule, q+":reads-whole-body", e.fpos(f), "the body is read to the end (io.ReadFull or equivalent)", bad)
}

// sendingTableNeverReleases (C04, C12): in net/blockwise no message that was taken out of (or looked up in) sendingMessagesCache is
// handed to ReleaseMessage – entries registered by Do are the caller's.
func sendingTableNeverReleases(e *Env, rule string) {
	n, bad := 0, ""
	for _, f := range e.P.AllSrcFuncs(false) {
		if !strings.HasPrefix(core.FnName(f), "net/blockwise.") {
			continue
		}
		core.InstrsOwn(f, func(in ssa.Instruction) {
			c, ok := in.(ssa.CallInstruction)
			if !ok || !strings.HasSuffix(core.CalleeName(c), ".ReleaseMessage") {
				return
			}
			n++
			args := c.Common().Args
			if len(args) == 0 {
				return
			}
			arg := args[len(args)-1]
			for _, l := range valueLeaves(core.Resolve(arg)) {
				dc, isCall := core.Resolve(l).(*ssa.Call)
				if !isCall || !strings.HasSuffix(core.CalleeName(dc), "cache.Element.Data") {
					continue
				}
				for _, src := range valueLeaves(core.Resolve(core.ArgRaw(dc, 0))) {
					if ex, isEx := src.(*ssa.Extract); isEx {
						src = ex.Tuple
					}
					if lc, isLC := src.(*ssa.Call); isLC && strings.HasPrefix(core.CalleeName(lc), "pkg/sync.Map.") && strings.HasSuffix(tableOf(lc), ".sendingMessagesCache") {
						bad = core.FnName(f) + " releases at " + e.pos(c.(ssa.Instruction)) + " a message it took out of the sending table: for a request registered by Do that message belongs to (and is released by) Do's caller"
					}
				}
			}
		})
	}
	e.R.Check(n >= 4 && bad == "", rule, "net/blockwise:sending-table-never-releases", "-", fmt.Sprintf("%d releases in the block-wise layer, none of a message taken from the sending table", n), bad)
}

// pongOrResetPredicate (C05): truth table of isPongOrResetResponse.
func pongOrResetPredicate(e *Env, rule string) {
	q := "udp/client.isPongOrResetResponse"
	f := e.fn(rule, q)
	if f == nil {
		return
	}
	callName := func(v ssa.Value) string {
		if c, ok := core.Resolve(v).(*ssa.Call); ok {
			return core.CalleeName(c)
		}
		return ""
	}
	bf := &core.BoolFn{Fn: f, AtomOf: func(v ssa.Value) (string, bool, bool) {
		if c, ok := v.(*ssa.Call); ok && core.CalleeName(c) == "message/pool.Message.IsModified" {
			return "modified", false, true
		}
		b, ok := v.(*ssa.BinOp)
		if !ok || (b.Op != token.EQL && b.Op != token.NEQ) {
			return "", false, false
		}
		k, isK := core.ConstInt(b.Y)
		if !isK {
			return "", false, false
		}
		switch callName(b.X) {
		case "message/pool.Message.Type":
			return fmt.Sprintf("type=%d", k), b.Op == token.NEQ, true
		case "message/pool.Message.Code":
			if k == 0 {
				return "code-empty", b.Op == token.NEQ, true
			}
		}
		return "", false, false
	}}
	checkTruth(e, rule, q+":modified-and-(reset-or-empty)", bf,
		func(r core.BoolRow) bool { return len(r.Rets) == 1 && r.Rets[0] == 1 },
		func(a map[string]bool) bool { return a["modified"] && (a["type=3"] || a["code-empty"]) },
		"pong-or-reset ⇔ modified ∧ (type Reset ∨ code 0.00)", "the predicate that exempts a reply from the reply cache is not `modified ∧ (reset ∨ empty)`: replies of another kind are sent without being cached (a duplicate runs the handler again), or resets are cached")
}

// replyCacheSweepOnlyExpires (C05): messageCache.CheckExpirations calls the cache's expiry sweep and nothing else on the cache.
func replyCacheSweepOnlyExpires(e *Env, rule string) {
	q := "udp/client.messageCache.CheckExpirations"
	f := e.fn(rule, q)
	if f == nil {
		return
	}
	n, bad := 0, ""
	for _, g := range core.WithAnon(f) {
		for _, c := range core.Calls(g, func(nm string, _ ssa.CallInstruction) bool {
			return strings.HasPrefix(nm, "pkg/sync.Map.") || strings.HasPrefix(nm, "pkg/cache.Cache.")
		}) {
			n++
			switch nm := core.CalleeName(c); nm {
			case "pkg/cache.Cache.CheckExpirations", "pkg/sync.Map.Length":
			default:
				bad = "the sweep of the reply cache also calls " + nm + " at " + e.pos(c.(ssa.Instruction)) + ": replies can leave the cache before their exchange lifetime is over (a retransmission is then handled as a new request)"
			}
		}
	}
	e.R.Check(n >= 1 && bad == "", rule, q+":only-expiry", e.fpos(f), "the reply cache's sweep is the expiry sweep and nothing else", bad)
}

// releaseWritersCurrentMessage (C07, C12): in a function that wraps a message m in a ResponseWriter and hands the writer to a
// handler, m itself is never passed to ReleaseMessage (directly or deferred): the writer may have replaced – and released – it.
func releaseWritersCurrentMessage(e *Env, rule string) {
	n, bad := 0, ""
	for _, f := range e.P.SrcFuncs(false) {
		name := core.FnName(f)
		if !strings.HasPrefix(name, "udp/client.") && !strings.HasPrefix(name, "tcp/client.") {
			continue
		}
		for _, nc := range core.CallsNamed(f, "net/responsewriter.New") {
			orig := core.Resolve(core.ArgRaw(nc, 0))
			w, isCall := nc.(*ssa.Call)
			if !isCall {
				continue
			}
			// the writer is handed to some call (a handler)
			handed := false
			for _, u := range core.Referrers(w) {
				if c, ok := u.(ssa.CallInstruction); ok {
					for _, a := range c.Common().Args {
						if a == ssa.Value(w) {
							handed = true
						}
					}
				}
				if _, isMk := u.(*ssa.MakeClosure); isMk {
					handed = true
				}
				if st, isSt := u.(*ssa.Store); isSt && st.Val == ssa.Value(w) {
					handed = true
				}
				if _, isRet := u.(*ssa.Return); isRet {
					handed = true // built by a small constructor helper: its callers hand it on
				}
			}
			if !handed {
				continue
			}
			n++
			for _, g := range core.WithAnon(f) {
				core.Instrs(g, func(in ssa.Instruction) {
					c, ok := in.(ssa.CallInstruction)
					if !ok || !strings.HasSuffix(core.CalleeName(c), ".ReleaseMessage") {
						return
					}
					args := c.Common().Args
					if len(args) == 0 {
						return
					}
					if core.Resolve(args[len(args)-1]) == orig {
						bad = name + " releases at " + e.pos(in) + " the message its response writer was created with: a handler that called SetMessage already released it, the pool then hands one object to two users"
					}
					// … and "current" means current after the handler: w.Message() read before the writer is handed to the handler
					// (the argument of a defer statement is evaluated at the defer) is the original message again
					if m, isM := core.Resolve(args[len(args)-1]).(*ssa.Call); isM && m.Parent() == f && strings.HasSuffix(core.CalleeName(m), "ResponseWriter.Message") {
						path := (&core.PathQuery{Fn: f, From: m, Target: func(x ssa.Instruction) bool {
							hc, isC := x.(ssa.CallInstruction)
							if !isC || x == ssa.Instruction(m) {
								return false
							}
							if _, isDefer := x.(*ssa.Defer); isDefer {
								return false
							}
							for _, a := range hc.Common().Args {
								if a == ssa.Value(w) && !strings.HasSuffix(core.CalleeName(hc), "ResponseWriter.Message") {
									return true
								}
							}
							return false
						}}).Find()
						if path != nil {
							bad = name + " reads w.Message() at " + e.pos(m) + " before the writer is handed to the handler and releases that value at " + e.pos(in) + ": a handler that calls SetMessage has already released it (the argument of a defer is evaluated at the defer statement)"
						}
					}
				})
			}
		}
	}
	e.R.Check(n >= 2 && bad == "", rule, "clients:release-writers-current-message", "-", fmt.Sprintf("%d functions wrap a message in a response writer and hand it to a handler; each releases w.Message(), none the original", n), bad)
}

// truncationGuardUsesFrameLength (C02).
func truncationGuardUsesFrameLength(e *Env, rule string) {
	q := "tcp/coder.Coder.Decode"
	f := e.fn(rule, q)
	if f == nil {
		return
	}
	n, ok := 0, false
	why := "no short-read guard on the frame length found"
	for _, i := range core.IfsOf(f) {
		cmp, is := core.AsCmp(i.Cond)
		if !is || (cmp.Op != token.LSS && cmp.Op != token.GTR && cmp.Op != token.LEQ && cmp.Op != token.GEQ) {
			continue
		}
		var fieldSide ssa.Value
		for _, side := range []ssa.Value{cmp.X, cmp.Y} {
			if ld, isLd := core.Resolve(core.Unwrap(side)).(*ssa.UnOp); isLd {
				if o, _, isF := core.FieldOf(ld.X); isF && strings.HasSuffix(o, "MessageHeader") {
					fieldSide = ld
				}
			}
		}
		if fieldSide == nil {
			continue
		}
		n++
		_, fl, _ := core.FieldOf(fieldSide.(*ssa.UnOp).X)
		if fl == "MessageLength" {
			ok = true
		} else {
			why = "the guard at " + e.pos(i) + " compares the bytes at hand with header." + fl + ", not with the length of the whole frame: a proper prefix of a frame is decoded as a (different) complete message"
		}
	}
	e.R.Check(ok && n >= 1, rule, q+":short-read-guard-on-frame-length", e.fpos(f), "len(data) is compared with header.MessageLength before the body is decoded", why)
}

// unmarshalClearsBodyAlways (C02).
func unmarshalClearsBodyAlways(e *Env, rule string) {
	q := "message/pool.Message.UnmarshalWithDecoder"
	f := e.fn(rule, q)
	if f == nil {
		return
	}
	setsBody := func(in ssa.Instruction) bool {
		st, ok := in.(*ssa.Store)
		if !ok {
			return false
		}
		_, fl, isF := core.FieldOf(st.Addr)
		return isF && fl == "body"
	}
	w := (&core.PathQuery{Fn: f, Stop: setsBody, Target: core.IsReturn}).Find()
	e.R.Check(w == nil, rule, q+":body-reassigned-on-every-path", e.fpos(f), "every path through UnmarshalWithDecoder assigns the body (nil, or the reader of the decoded payload)", "a decode can leave the body reader of the message's previous content attached (the message re-encodes with a stale payload): "+e.trace(w))
}

// observationKeepsDeepCopy (C12).
func observationKeepsDeepCopy(e *Env, rule string) {
	q := "net/observation.Handler.NewObservation"
	f := e.fn(rule, q)
	if f == nil {
		return
	}
	n, bad := 0, ""
	core.Instrs(f, func(in ssa.Instruction) {
		st, ok := in.(*ssa.Store)
		if !ok {
			return
		}
		o, fl, isF := core.FieldOf(st.Addr)
		if !isF || o != "message.Message" || fl != "Options" {
			return
		}
		n++
		deep := false
		if ex, isEx := core.Resolve(st.Val).(*ssa.Extract); isEx {
			if c, isC := ex.Tuple.(*ssa.Call); isC && core.CalleeName(c) == "message.Options.Clone" {
				deep = true
			}
		}
		if !deep {
			bad = "the options kept by the observation at " + e.pos(st) + " are not the result of Options.Clone: their values still point into the pooled request message, which the caller releases after registration"
		}
	})
	e.R.Check(n >= 1 && bad == "", rule, q+":keeps-deep-copy-of-options", e.fpos(f), "the observation's request keeps Options.Clone() of the request's options", bad)
}

// deferredRemovalUnconditional (C12, C13): a deferred function literal that removes an entry from one of the per-exchange tables
// does so on every path through the literal, unless the only conditions on the way are tests of an error.
func deferredRemovalUnconditional(e *Env, rule string) {
	tables := []string{".sendingMessagesCache", ".receivingMessagesCache", ".tokenHandlerContainer", ".midHandlerContainer", ".observations"}
	isRemoval := func(in ssa.Instruction) bool {
		c, ok := in.(*ssa.Call)
		if !ok {
			return false
		}
		switch core.CalleeName(c) {
		case "pkg/sync.Map.Delete", "pkg/sync.Map.LoadAndDelete", "pkg/sync.Map.DeleteWithFunc", "pkg/sync.Map.LoadAndDeleteWithFunc":
			t := tableOf(c)
			for _, s := range tables {
				if strings.HasSuffix(t, s) {
					return true
				}
			}
		}
		return false
	}
	n := 0
	for _, f := range e.P.SrcFuncs(false) {
		if strings.HasPrefix(core.FnName(f), "examples/") {
			continue
		}
		core.InstrsOwn(f, func(in ssa.Instruction) {
			d, ok := in.(*ssa.Defer)
			if !ok {
				return
			}
			g := core.FuncArgClosure(d.Call.Value)
			if g == nil || g.Parent() == nil {
				// the clean-up closure turned into a small named method of the same package: `defer cc.removeTokenHandler(key)`
				h := d.Call.StaticCallee()
				if h == nil || len(h.Blocks) == 0 || h.Pkg != f.Pkg || !core.IsAbsorbed(h) {
					return
				}
				if o := h.Origin(); o != nil && len(o.Blocks) > 0 {
					h = o
				}
				g = h
			}
			has := false
			core.Instrs(g, func(x ssa.Instruction) {
				if isRemoval(x) {
					has = true
				}
			})
			if !has {
				return
			}
			n++
			// conditions that test an error are the function's outcome; anything else must not decide about the removal
			onlyErr := func(i *ssa.If, br bool) bool {
				if _, _, isErr := core.ErrNilEdge(i); isErr {
					return false // do not search through error tests: those paths are the error-cell idiom (C13.R1 checkErrCell)
				}
				return true
			}
			w := (&core.PathQuery{Fn: g, EdgeOK: onlyErr, Stop: isRemoval, Target: core.IsReturn}).Find()
			e.R.Check(w == nil, rule, core.FnName(f)+":deferred-removal-unconditional", e.pos(d), "the deferred clean-up removes the entry on every path (conditions on the function's error aside)", "the deferred clean-up can return without removing the exchange's entry, depending on the state of the table: the entry (and the message it points to) outlives the exchange: "+e.trace(w))
		})
	}
	if n == 0 {
		e.R.OkTrivial(rule, "deferred-removals:none", "-", "no deferred function literal removes a per-exchange table entry (removals are direct or deferred calls)")
	}
}

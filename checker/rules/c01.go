package rules

import (
	"fmt"
	"go/token"
	"go/types"
	"math/big"
	"strings"

	"coapcheck/internal/core"

	"golang.org/x/tools/go/ssa"
)

func init() {
	register(&Property{
		ID:    "C01",
		Title: "Wire codecs are exact inverses on every well-formed message (UDP and TCP)",
		Level: "other",
		Explain: "Decided (structural necessary conditions of the round trip): (R1) the encoder's and the decoder's extension-class tables agree and compose to the identity – abstract interpretation of extendOpt → marshalOptionHeaderExt → parseExtOpt for the option delta/length classes 0-12 / 13-268 / 269-65804, and of getHeader → DecodeHeader for the stream length classes 0-12 / 13-268 / 269-65804 / 65805+, each over a symbolic value of the class (linear forms through the written bytes; the frame length the decoder announces is exactly the bytes the encoder produces); " +
			"(R2) header byte layouts: datagram byte 0 = version 01 | type | token length, bytes 2-3 = message ID big-endian, and the decoders extract the same bit ranges (bit provenance); stream byte 0 = length nibble | token length; option header byte = delta nibble | length nibble on both sides; " +
			"(R3) size and write share one code path: the datagram Encode returns Size's value on success and on ErrTooSmall, the stream Size is Encode(nil), every `buf == nil` arm pair calls the same callee with the same non-buffer arguments, and the payload marker is counted exactly when it is written; " +
			"(R4) encoders write only through the destination slice re-sliced by a low bound (never a high bound, 3-index slice or append), so Go's bounds checks confine every write to len(buf); " +
			"(R5) pre-condition validation (message ID, type, token length) dominates the first write and its failing edge returns an error; ValidateMID accepts exactly [0,65535].",
		NotDecided: "Equality of the decoded message with the original for every message (options multiset, payload bytes) and 'consumes exactly the bytes produced' beyond the per-field agreement of R1 need execution and are not decided.",
		Run:        runC01,
	})
}

func runC01(e *Env) {
	r := e.R
	r.Rule("C01.R1", "absint", "extension classes of encoder and decoder compose to the identity (options and stream length header)", 12)
	r.Rule("C01.R2", "absint+flows", "header byte layouts agree between encoder and decoder", 6)
	r.Rule("C01.R3", "paths+siblings", "size computation and write share one code path; marker counted iff written", 8)
	r.Rule("C01.R4", "flows", "encoders never extend the destination slice", 6)
	r.Rule("C01.R5", "paths+absint", "validation dominates the first write; validators accept exactly the legal range", 6)
	r.Rule("C01.R6", "paths+flows", "decoders store every header field on every successful return; consecutive sub-parsers each start where the previous one stopped", 8)
	if e.want("C01.R1") {
		c01OptionClasses(e, "C01.R1")
		c01StreamLength(e, "C01.R1")
	}
	if e.want("C01.R2") {
		c01Layouts(e)
		c01SignalRegistries(e, "C01.R2")
	}
	if e.want("C01.R3") {
		c01OneCodePath(e)
		c01ExactThreshold(e)
	}
	if e.want("C01.R4") {
		c01NoExtend(e)
	}
	if e.want("C01.R5") {
		c01Validation(e)
	}
	if e.want("C01.R6") {
		checkDecoderAssignsAll(e, "C01.R6")
		cursorLinearity(e, "C01.R6")
	}
}

func bigI(x int64) *big.Int { return big.NewInt(x) }

// c01OptionClasses: extendOpt / marshalOptionHeaderExt / parseExtOpt per class.
func c01OptionClasses(e *Env, rule string) {
	ext := e.fn(rule, "message.extendOpt")
	mar := e.fn(rule, "message.marshalOptionHeaderExt")
	par := e.fn(rule, "message.parseExtOpt")
	if ext == nil || mar == nil || par == nil {
		return
	}
	ib := e.P.Cfg.IntBit
	if ib == 0 {
		ib = 64
	}
	cells := []struct {
		name          string
		lo, hi        int64
		nib, extBytes int64
		extLo, extHi  int64
	}{
		{"0-12", 0, 12, -1, 0, 0, 0},
		{"13-268", 13, 268, 13, 1, 0, 255},
		{"269-65804", 269, 65804, 14, 2, 0, 65535},
	}
	for _, c := range cells {
		construct := "message.extendOpt↔parseExtOpt:class " + c.name
		// (a) extendOpt(v)
		it := core.NewInterp(e.P)
		v := core.SymInt("v", ib, true, bigI(c.lo), bigI(c.hi), 0)
		outs := it.Run(ext, []*core.AVal{v}, nil)
		if len(outs) != 1 || outs[0].Abort || outs[0].Panic || len(outs[0].Ret) != 2 {
			r := "extendOpt does not have a single abstract outcome on the class: " + core.SummarizeOutcomes(outs)
			e.R.Fail(rule, construct, e.fpos(ext), r)
			continue
		}
		nibV, extV := outs[0].Ret[0], outs[0].Ret[1]
		if c.nib < 0 {
			// no extension: nibble is the value itself, ext is 0
			okN := nibV.Lin != nil && nibV.Lin.Sym == "v" && nibV.Lin.A.Cmp(bigI(1)) == 0 && nibV.Lin.B.Sign() == 0
			k, isC := extV.IsConst()
			// decoder: parseExtOpt(data, nib) returns (0, nib)
			it2 := core.NewInterp(e.P)
			o2 := it2.RunWith(par, func(st *core.AState) []*core.AVal { return []*core.AVal{st.NewArray(nil), v} })
			okD := len(o2) > 0
			for _, o := range o2 {
				if o.Abort || o.Panic || len(o.Ret) != 3 || o.Ret[2].ErrNil != 1 {
					okD = false
					continue
				}
				p, isP := o.Ret[0].IsConst()
				if !isP || p.Sign() != 0 || o.Ret[1].Lin == nil || o.Ret[1].Lin.Sym != "v" || o.Ret[1].Lin.B.Sign() != 0 {
					okD = false
				}
			}
			e.R.Check(okN && isC && k.Sign() == 0 && okD, rule, construct, e.fpos(ext),
				"encoder: nibble = v, no extension bytes; decoder: value = nibble, 0 bytes consumed",
				fmt.Sprintf("class 0-12 is not the identity: encoder (%s, %s); decoder %s", nibV, extV, core.SummarizeOutcomes(o2)))
			continue
		}
		nk, isC := nibV.IsConst()
		okEnc := isC && nk.Int64() == c.nib && extV.Lin != nil && extV.Lin.Sym == "v" && extV.Lin.A.Cmp(bigI(1)) == 0 &&
			extV.Lo.Cmp(bigI(c.extLo)) >= 0 && extV.Hi.Cmp(bigI(c.extHi)) <= 0
		if !okEnc {
			e.R.Fail(rule, construct, e.fpos(ext), fmt.Sprintf("encoder maps the class to nibble %s, extension %s; expected nibble %d and an extension v−addend within [%d,%d] (what %d byte(s) can hold)", nibV, extV, c.nib, c.extLo, c.extHi, c.extBytes))
			continue
		}
		addendEnc := new(big.Int).Neg(extV.Lin.B)
		// (b)+(c) write ext with marshalOptionHeaderExt then read with parseExtOpt, on one abstract buffer
		itw := core.NewInterp(e.P)
		var buf *core.AVal
		ow := itw.RunWith(mar, func(st *core.AState) []*core.AVal {
			zero := make([]*core.AVal, 4)
			for i := range zero {
				zero[i] = core.ConstAInt(bigI(0), 8, false)
			}
			buf = st.NewArray(zero)
			ev := core.SymInt("e", ib, true, extV.Lo, extV.Hi, 0)
			return []*core.AVal{buf, nibV, ev}
		})
		wrote := len(ow) == 1 && !ow[0].Abort && !ow[0].Panic && len(ow[0].Ret) == 2 &&
			(ow[0].Ret[1].ErrNil == 1 || (ow[0].Ret[1].K == core.ABool && ow[0].Ret[1].B.K == core.B1)) // nil error, or "fits" reported as a bool
		if !wrote {
			e.R.Fail(rule, construct, e.fpos(mar), "writing the extension does not have a single successful abstract outcome: "+core.SummarizeOutcomes(ow))
			continue
		}
		wn, _ := ow[0].Ret[0].IsConst()
		evs := strings.Join(ow[0].St.Events, "; ")
		itr := core.NewInterp(e.P)
		or := itr.RunIn(ow[0].St, par, func(st *core.AState) []*core.AVal { return []*core.AVal{buf, nibV} })
		okDec, why := len(or) > 0, ""
		var addendDec *big.Int
		for _, o := range or {
			if o.Abort || o.Panic || len(o.Ret) != 3 || o.Ret[2].ErrNil != 1 {
				okDec, why = false, "decoder refuses/undecided: "+core.SummarizeOutcomes([]core.Outcome{o})
				continue
			}
			pn, isP := o.Ret[0].IsConst()
			val := o.Ret[1]
			if !isP || wn == nil || pn.Cmp(wn) != 0 {
				okDec, why = false, fmt.Sprintf("decoder consumes %s byte(s), encoder wrote %s", o.Ret[0], ow[0].Ret[0])
			}
			if val.Lin == nil || val.Lin.Sym != "e" || val.Lin.A.Cmp(bigI(1)) != 0 {
				okDec, why = false, "decoded value is not extension+addend: "+val.String()
			} else {
				addendDec = val.Lin.B
			}
			for _, ev := range o.St.Events {
				okDec, why = false, ev
			}
		}
		if evs != "" {
			okDec, why = false, "encoder truncates: "+evs
		}
		if okDec && addendDec.Cmp(addendEnc) != 0 {
			okDec, why = false, fmt.Sprintf("encoder subtracts %s but decoder adds %s", addendEnc, addendDec)
		}
		if okDec && wn.Int64() != c.extBytes {
			okDec, why = false, fmt.Sprintf("%s extension byte(s) written, RFC 7252 §3.1 says %d", wn, c.extBytes)
		}
		e.R.Check(okDec, rule, construct, e.fpos(ext),
			fmt.Sprintf("encoder: nibble %d, ext = v−%s in [%s,%s] written in %d byte(s); decoder reads them back as ext+%s and consumes %d: identity on the class", c.nib, addendEnc, extV.Lo, extV.Hi, c.extBytes, addendEnc, c.extBytes), why)
	}
	// boundaries of the classes are where RFC 7252 puts them: extendOpt on the single values 12,13,268,269
	for _, b := range []struct{ v, nib int64 }{{12, 12}, {13, 13}, {268, 13}, {269, 14}, {65804, 14}} {
		it := core.NewInterp(e.P)
		outs := it.Run(ext, []*core.AVal{core.ConstAInt(bigI(b.v), ib, true)}, nil)
		ok := len(outs) == 1 && len(outs[0].Ret) == 2
		if ok {
			k, isC := outs[0].Ret[0].IsConst()
			ok = isC && k.Int64() == b.nib
		}
		e.R.Check(ok, rule, fmt.Sprintf("message.extendOpt:boundary %d", b.v), e.fpos(ext), fmt.Sprintf("value %d is encoded with nibble %d", b.v, b.nib), fmt.Sprintf("value %d is not encoded with nibble %d: %s", b.v, b.nib, core.SummarizeOutcomes(outs)))
	}
	// the decoder refuses the reserved nibble 15 for both delta and length
	if f := e.fn(rule, "message.Options.Unmarshal"); f != nil {
		n := 0
		core.Instrs(f, func(in ssa.Instruction) {
			if b, ok := in.(*ssa.BinOp); ok && b.Op == token.EQL {
				if k, isC := core.ConstInt(b.Y); isC && k == 15 {
					n++
				}
			}
		})
		e.R.Check(n >= 2, rule, "message.Options.Unmarshal:nibble15-refused", e.fpos(f), "delta == 15 and length == 15 are both tested (payload marker / reserved)", "the reserved nibble 15 is not refused for both delta and length")
	}
}

// c01StreamLength: getHeader(n) → bytes → DecodeHeader gives MessageLength = total frame size, Length = header size.
func c01StreamLength(e *Env, rule string) {
	gh := e.fn(rule, "tcp/coder.getHeader")
	dh := e.fn(rule, "tcp/coder.Coder.DecodeHeader")
	if gh == nil || dh == nil {
		return
	}
	ib := e.P.Cfg.IntBit
	if ib == 0 {
		ib = 64
	}
	maxLen, _, okc := e.P.ConstValue("tcp/coder", "messageMaxLen")
	if !okc {
		e.R.Undecided(rule, "tcp/coder.messageMaxLen", "-", "constant not found")
		return
	}
	cells := []struct {
		name     string
		lo, hi   int64
		nib, ext int64
	}{
		{"0-12", 0, 12, -1, 0}, {"13-268", 13, 268, 13, 1}, {"269-65804", 269, 65804, 14, 2}, {"65805+", 65805, maxLen - 1, 15, 4},
	}
	for _, c := range cells {
		for _, tkl := range []int64{0, 8} {
			construct := fmt.Sprintf("tcp/coder.getHeader↔DecodeHeader:class %s tkl=%d", c.name, tkl)
			it := core.NewInterp(e.P)
			n := core.SymInt("n", ib, true, bigI(c.lo), bigI(c.hi), 0)
			og := it.Run(gh, padScratch(gh, []*core.AVal{n}), nil)
			if len(og) != 1 || og[0].Abort || og[0].Panic || len(og[0].Ret) != 2 {
				e.R.Fail(rule, construct, e.fpos(gh), "getHeader has no single abstract outcome on the class: "+core.SummarizeOutcomes(og))
				continue
			}
			nibV, extB := og[0].Ret[0], og[0].Ret[1]
			evs := strings.Join(og[0].St.Events, "; ")
			extBytes := og[0].St.Bytes(extB)
			okEnc, why := true, ""
			if c.nib < 0 {
				if nibV.Lin == nil || nibV.Lin.Sym != "n" || nibV.Lin.B.Sign() != 0 || len(extBytes) != 0 {
					okEnc, why = false, fmt.Sprintf("class 0-12 must be (n, no bytes), got (%s, %d bytes)", nibV, len(extBytes))
				}
			} else {
				k, isC := nibV.IsConst()
				if !isC || k.Int64() != c.nib || int64(len(extBytes)) != c.ext {
					okEnc, why = false, fmt.Sprintf("expected nibble %d with %d extension bytes, got %s with %d", c.nib, c.ext, nibV, len(extBytes))
				}
			}
			if evs != "" {
				okEnc, why = false, "encoder truncates: "+evs
			}
			if !okEnc {
				e.R.Fail(rule, construct, e.fpos(gh), why)
				continue
			}
			// frame: [nib<<4|tkl] ext… code token…  (n further bytes follow but are not examined by the header parser)
			itd := core.NewInterp(e.P)
			od := itd.RunIn(og[0].St, dh, func(st *core.AState) []*core.AVal {
				var first *core.AVal
				if c.nib < 0 {
					// nibble is symbolic: n in [0,12] → byte0 = n<<4 | tkl ; build through the same arithmetic the encoder uses is not needed:
					// use a symbolic byte whose high nibble carries n's linear form is out of reach, so enumerate the 13 constants
					first = nil
				} else {
					first = core.ConstAInt(bigI(c.nib<<4|tkl), 8, false)
				}
				var bs []*core.AVal
				if first != nil {
					bs = append(bs, first)
				} else {
					bs = append(bs, core.ConstAInt(bigI(c.lo<<4|tkl), 8, false))
				}
				bs = append(bs, extBytes...)
				bs = append(bs, core.SymInt("code", 8, false, bigI(0), bigI(255), 8))
				for i := int64(0); i < tkl; i++ {
					bs = append(bs, core.SymInt(fmt.Sprintf("tok%d", i), 8, false, bigI(0), bigI(255), 8))
				}
				return []*core.AVal{core.OpaqueV("coder"), st.NewArray(bs), core.OpaqueV("obj:h")}
			})
			hdrLen := 1 + c.ext + 1 + tkl
			okDec := len(od) > 0
			for _, o := range od {
				if o.Abort || o.Panic || len(o.Ret) != 2 || o.Ret[1].ErrNil != 1 {
					okDec, why = false, "decoder refuses the encoder's own header: "+core.SummarizeOutcomes([]core.Outcome{o})
					continue
				}
				hl, isC := o.Ret[0].IsConst()
				if !isC || hl.Int64() != hdrLen {
					okDec, why = false, fmt.Sprintf("header length %s, expected %d", o.Ret[0], hdrLen)
				}
				ml := o.St.PCells["h.MessageLength"]
				switch {
				case ml == nil:
					okDec, why = false, "MessageLength not set"
				case c.nib < 0:
					k, isK := ml.IsConst()
					if !isK || k.Int64() != hdrLen+c.lo {
						okDec, why = false, fmt.Sprintf("MessageLength %s, expected %d", ml, hdrLen+c.lo)
					}
				case ml.Lin == nil || ml.Lin.Sym != "n" || ml.Lin.A.Cmp(bigI(1)) != 0 || ml.Lin.B.Cmp(bigI(hdrLen)) != 0:
					okDec, why = false, fmt.Sprintf("MessageLength is %s, expected n+%d (header + the n bytes the encoder announced)", ml, hdrLen)
				}
				for _, ev := range o.St.Events {
					okDec, why = false, ev
				}
			}
			e.R.Check(okDec, rule, construct, e.fpos(dh), fmt.Sprintf("decoder recovers header length %d and frame length n+%d from the encoder's bytes for every n of the class", hdrLen, hdrLen), why)
		}
	}
	// class 0-12 for every n (nibble is the value itself): constants
	okAll, why := true, ""
	for nv := int64(0); nv <= 12; nv++ {
		it := core.NewInterp(e.P)
		og := it.Run(gh, padScratch(gh, []*core.AVal{core.ConstAInt(bigI(nv), ib, true)}), nil)
		if len(og) != 1 || len(og[0].Ret) != 2 {
			okAll, why = false, "no outcome"
			continue
		}
		k, isC := og[0].Ret[0].IsConst()
		if !isC || k.Int64() != nv {
			okAll, why = false, fmt.Sprintf("getHeader(%d) nibble %s", nv, og[0].Ret[0])
		}
	}
	e.R.Check(okAll, rule, "tcp/coder.getHeader:class 0-12 exhaustive", e.fpos(gh), "getHeader(n) = (n, nil) for n = 0…12", why)
	// beyond the maximum the encoder must not produce a frame at all (Encode refuses or header is impossible): informational structural check
	for _, b := range []struct{ v, nib int64 }{{12, 12}, {13, 13}, {268, 13}, {269, 14}, {65804, 14}, {65805, 15}} {
		it := core.NewInterp(e.P)
		og := it.Run(gh, padScratch(gh, []*core.AVal{core.ConstAInt(bigI(b.v), ib, true)}), nil)
		ok := len(og) == 1 && len(og[0].Ret) == 2
		if ok {
			k, isC := og[0].Ret[0].IsConst()
			ok = isC && k.Int64() == b.nib
		}
		e.R.Check(ok, rule, fmt.Sprintf("tcp/coder.getHeader:boundary %d", b.v), e.fpos(gh), fmt.Sprintf("length %d uses nibble %d", b.v, b.nib), fmt.Sprintf("length %d does not use nibble %d", b.v, b.nib))
	}
}

// c01Layouts: bit layouts of the fixed header bytes.
func c01Layouts(e *Env) {
	rule := "C01.R2"
	// option header byte: encoder
	if f := e.fn(rule, "message.marshalOptionHeader"); f != nil {
		ib := e.P.Cfg.IntBit
		it := core.NewInterp(e.P)
		var buf *core.AVal
		outs := it.RunWith(f, func(st *core.AState) []*core.AVal {
			z := make([]*core.AVal, 5)
			for i := range z {
				z[i] = core.ConstAInt(bigI(0), 8, false)
			}
			buf = st.NewArray(z)
			return []*core.AVal{buf, core.SymInt("d", ib, true, bigI(0), bigI(12), 4), core.SymInt("l", ib, true, bigI(0), bigI(12), 4)}
		})
		ok, why := len(outs) > 0, ""
		for _, o := range outs {
			if o.Abort || o.Panic || len(o.Ret) != 2 || o.Ret[1].ErrNil != 1 {
				ok, why = false, core.SummarizeOutcomes([]core.Outcome{o})
				continue
			}
			b0 := o.St.Bytes(buf)[0]
			if m := core.MatchBits(b0, o.St.Assume, core.BitField{Sym: "l", From: 0, N: 4}, core.BitField{Sym: "d", From: 0, N: 4}); m != "" {
				ok, why = false, m
			}
			if k, isC := o.Ret[0].IsConst(); !isC || k.Int64() != 1 {
				ok, why = false, "size of a header without extensions is "+o.Ret[0].String()
			}
		}
		e.R.Check(ok, rule, "message.marshalOptionHeader:byte0=delta|length", e.fpos(f), "first header byte bits are length[0..3] delta[0..3], size 1 for small values", why)
	}
	// option header byte: decoder takes delta = b>>4, length = b&15
	if f := e.fn(rule, "message.Options.Unmarshal"); f != nil {
		calls := core.CallsNamed(f, "message.parseExtOpt")
		ok := len(calls) == 2
		if ok {
			shape := func(v ssa.Value, op token.Token, k int64) bool {
				b, isB := core.Unwrap(v).(*ssa.BinOp)
				if !isB || b.Op != op {
					return false
				}
				c, isC := core.ConstInt(b.Y)
				return isC && c == k
			}
			ok = shape(core.Arg(calls[0], 1), token.SHR, 4) && shape(core.Arg(calls[1], 1), token.AND, 15)
		}
		e.R.Check(ok, rule, "message.Options.Unmarshal:delta=b>>4,length=b&15", e.fpos(f), "the first extension parse receives byte>>4 (delta), the second byte&0x0f (length)", "delta/length nibbles are not extracted as byte>>4 / byte&0x0f in that order")
	}
	c01UDPHeader(e)
	c01UDPDecodeLayout(e)
	c01TCPFirstByte(e)
}

func c01UDPHeader(e *Env) {
	rule := "C01.R2"
	f := e.fn(rule, "udp/coder.Coder.Encode")
	if f == nil {
		return
	}
	for _, tkl := range []int{0, 8} {
		for ci, typCell := range []struct {
			name   string
			lo, hi int64
			bits   int
		}{{"type 0-3", 0, 3, 2}, {"type 4-255", 4, 255, 0}} {
			if ci == 1 && tkl != 0 {
				continue // the refusal of illegal types is decided once
			}
			it := core.NewInterp(e.P)
			var buf *core.AVal
			outs := it.RunWith(f, func(st *core.AState) []*core.AVal {
				z := make([]*core.AVal, 4+tkl)
				for i := range z {
					z[i] = core.ConstAInt(bigI(0), 8, false)
				}
				buf = st.NewArray(z)
				tok := make([]*core.AVal, tkl)
				for i := range tok {
					tok[i] = core.SymInt(fmt.Sprintf("tok%d", i), 8, false, bigI(0), bigI(255), 8)
				}
				it.PathInputs["m.Token"] = st.NewArray(tok)
				if tkl == 0 {
					it.PathInputs["m.Token"] = &core.AVal{K: core.ABytes, Arr: -1}
				}
				it.PathInputs["m.Payload"] = &core.AVal{K: core.ABytes, Arr: -1}
				it.PathInputs["m.Options"] = &core.AVal{K: core.ABytes, Arr: -1}
				it.PathInputs["m.Type"] = core.SymInt("typ", 16, true, bigI(typCell.lo), bigI(typCell.hi), typCell.bits)
				it.PathInputs["m.MessageID"] = core.SymInt("mid", 32, true, bigI(0), bigI(65535), 16)
				it.PathInputs["m.Code"] = core.SymInt("code", 16, false, bigI(0), bigI(255), 8)
				return []*core.AVal{core.OpaqueV("coder"), core.OpaqueV("obj:m"), buf}
			})
			construct := fmt.Sprintf("udp/coder.Coder.Encode:header %s tkl=%d", typCell.name, tkl)
			accepted := 0
			ok, why := len(outs) > 0, ""
			for _, o := range outs {
				if o.Abort || o.Panic || len(o.Ret) != 2 || o.Ret[1].K != core.AErr || o.Ret[1].ErrNil == -1 {
					ok, why = false, "undecided: "+core.SummarizeOutcomes([]core.Outcome{o})
					continue
				}
				if o.Ret[1].ErrNil == 0 {
					continue
				}
				accepted++
				bs := o.St.Bytes(buf)
				if typCell.bits == 0 {
					continue
				}
				// byte0 = TKL[3:0] | T[1:0]<<4 | 01<<6
				want := []core.BitField{}
				for j := 0; j < 4; j++ {
					want = append(want, core.BitField{Const: (tkl >> j) & 1, N: 1})
				}
				want = append(want, core.BitField{Sym: "typ", From: 0, N: 2}, core.BitField{Const: 1, N: 1}, core.BitField{Const: 0, N: 1})
				if m := core.MatchBits(bs[0], o.St.Assume, want...); m != "" {
					ok, why = false, "byte 0: "+m
				}
				if m := core.MatchBits(bs[1], o.St.Assume, core.BitField{Sym: "code", From: 0, N: 8}); m != "" {
					ok, why = false, "byte 1: "+m
				}
				if m := core.MatchBits(bs[2], o.St.Assume, core.BitField{Sym: "mid", From: 8, N: 8}); m != "" {
					ok, why = false, "byte 2: "+m
				}
				if m := core.MatchBits(bs[3], o.St.Assume, core.BitField{Sym: "mid", From: 0, N: 8}); m != "" {
					ok, why = false, "byte 3: "+m
				}
				for i := 0; i < tkl; i++ {
					if m := core.MatchBits(bs[4+i], o.St.Assume, core.BitField{Sym: fmt.Sprintf("tok%d", i), From: 0, N: 8}); m != "" {
						ok, why = false, fmt.Sprintf("token byte %d: %s", i, m)
					}
				}
				if k, isC := o.Ret[0].IsConst(); !isC || k.Int64() != int64(4+tkl) {
					ok, why = false, "size "+o.Ret[0].String()
				}
			}
			if typCell.bits == 0 {
				// types outside 0..3 have no encoding in the 2-bit field: they must be refused
				if ok && accepted > 0 {
					e.R.Fail(rule, "udp/coder.Coder.Encode:type>3-refused", e.fpos(f), "a message type in 4…255 is encoded without error although the wire field has 2 bits (it spills into the version bits)")
				} else if ok {
					e.R.Ok(rule, "udp/coder.Coder.Encode:type>3-refused", e.fpos(f), "types 4…255 are refused")
				} else {
					e.R.Undecided(rule, "udp/coder.Coder.Encode:type>3-refused", e.fpos(f), why)
				}
				break
			}
			if ok && accepted == 0 {
				ok, why = false, "no accepting path for a legal message"
			}
			e.R.Check(ok, rule, construct, e.fpos(f), "bytes are 01|T|TKL, code, MID big-endian, token – by bit provenance on every accepting path", why)
		}
	}
}

// c01UDPDecodeLayout: the datagram decoder extracts the same bit ranges (structural on the SSA expressions).
func c01UDPDecodeLayout(e *Env) {
	rule := "C01.R2"
	f := e.fn(rule, "udp/coder.Coder.Decode")
	if f == nil {
		return
	}
	var ver, typ, tkl, mid bool
	core.Instrs(f, func(in ssa.Instruction) {
		switch x := in.(type) {
		case *ssa.BinOp:
			if x.Op == token.OR {
				// MID assembled by hand: uint16(b2)<<8 | uint16(b3)
				for _, pr := range [][2]ssa.Value{{x.X, x.Y}, {x.Y, x.X}} {
					if sh, ok := pr[0].(*ssa.BinOp); ok && sh.Op == token.SHL {
						if c, isK := core.ConstInt(sh.Y); isK && c == 8 && byteIndexOf(sh.X) == 2 && byteIndexOf(pr[1]) == 3 {
							mid = true
						}
					}
				}
			}
			k, isC := core.ConstInt(x.Y)
			if !isC {
				return
			}
			switch {
			case x.Op == token.SHR && k == 6:
				ver = true
			case x.Op == token.AND && k == 0xc0:
				ver = true // the same two bits tested in place: b0&0xc0 against 1<<6
			case x.Op == token.SHR && k == 4:
				if m, ok := x.X.(*ssa.BinOp); ok && m.Op == token.AND {
					if c, ok := core.ConstInt(m.Y); ok && c == 0x30 {
						typ = true // (b0&0x30)>>4
					}
				}
			case x.Op == token.AND && k == 3:
				if sh, ok := x.X.(*ssa.BinOp); ok && sh.Op == token.SHR {
					if c, ok := core.ConstInt(sh.Y); ok && c == 4 {
						typ = true
					}
				}
			case x.Op == token.AND && k == 15:
				tkl = true
			}
		case *ssa.Call:
			if strings.HasSuffix(core.CalleeName(x), "bigEndian.Uint16") {
				if sl, ok := core.Arg(x, 1).(*ssa.Slice); ok {
					lo, _ := core.ConstInt(sl.Low)
					hi, _ := core.ConstInt(sl.High)
					if sl.Low != nil && sl.High != nil && lo == 2 && hi == 4 {
						mid = true
					}
				}
			}
		}
	})
	e.R.Check(ver && typ && tkl && mid, rule, "udp/coder.Coder.Decode:field-extraction", e.fpos(f), "version = b0>>6, type = (b0>>4)&3, TKL = b0&15, MID = BE16(bytes 2..3)", "the decoder no longer extracts version/type/TKL/MID from the bit ranges the encoder writes")
}

func c01TCPFirstByte(e *Env) {
	rule := "C01.R2"
	// encoder: hdr[0] = TKL | lenNib<<4 ; decoder: lenNib = (b & 0xf0) >> 4, tkl = b & 0x0f
	if f := e.fn(rule, "tcp/coder.Coder.Encode"); f != nil {
		ok := false
		core.Instrs(f, func(in ssa.Instruction) {
			st, isSt := in.(*ssa.Store)
			if !isSt {
				return
			}
			or, isOr := st.Val.(*ssa.BinOp)
			if !isOr || or.Op != token.OR {
				return
			}
			for _, pr := range [][2]ssa.Value{{or.X, or.Y}, {or.Y, or.X}} {
				sh, isSh := pr[1].(*ssa.BinOp)
				if !isSh || sh.Op != token.SHL {
					continue
				}
				if k, isC := core.ConstInt(sh.Y); isC && k == 4 {
					ok = true
				}
			}
		})
		e.R.Check(ok, rule, "tcp/coder.Coder.Encode:byte0=lenNib<<4|TKL", e.fpos(f), "first byte is TKL | lenNib<<4", "the first stream byte is not TKL | lenNib<<4")
	}
	if f := e.fn(rule, "tcp/coder.Coder.DecodeHeader"); f != nil {
		var nib, tk bool
		core.Instrs(f, func(in ssa.Instruction) {
			b, ok := in.(*ssa.BinOp)
			if !ok {
				return
			}
			k, isC := core.ConstInt(b.Y)
			if !isC {
				return
			}
			if b.Op == token.SHR && k == 4 {
				nib = true
			}
			if b.Op == token.AND && k == 15 {
				tk = true
			}
		})
		e.R.Check(nib && tk, rule, "tcp/coder.Coder.DecodeHeader:byte0-extraction", e.fpos(f), "lenNib = b>>4, TKL = b&15", "first-byte fields are not extracted as b>>4 / b&15")
	}
}

// c01OneCodePath: R3.
func c01OneCodePath(e *Env) {
	rule := "C01.R3"
	// udp Encode: the value compared with len(buf) and returned (success and ErrTooSmall) is Size(m)'s result
	if f := e.fn(rule, "udp/coder.Coder.Encode"); f != nil {
		var size ssa.Value
		for _, c := range core.CallsNamed(f, "udp/coder.Coder.Size") {
			core.Instrs(f, func(in ssa.Instruction) {
				if ex, ok := in.(*ssa.Extract); ok && ex.Tuple == c.(ssa.Value) && ex.Index == 0 {
					size = ex
				}
			})
		}
		if size == nil {
			e.R.Fail(rule, "udp/coder.Coder.Encode:returns-Size", e.fpos(f), "Encode no longer obtains the announced size from Size(m)")
		} else {
			ok, n := true, 0
			for _, ret := range core.ReturnsOf(f) {
				if k, isC := core.ConstInt(core.RetVal(ret, 0)); isC && k == -1 {
					continue
				}
				n++
				if core.RetVal(ret, 0) != size {
					ok = false
				}
			}
			cmpOK := false
			core.Instrs(f, func(in ssa.Instruction) {
				if b, isB := in.(*ssa.BinOp); isB && (b.X == size || b.Y == size) {
					cmpOK = true
				}
			})
			e.R.Check(ok && n >= 2 && cmpOK, rule, "udp/coder.Coder.Encode:returns-Size", e.fpos(f), fmt.Sprintf("all %d non-error-sentinel returns yield Size(m), which is also what len(buf) is compared with", n), "a return of Encode yields something other than Size(m)")
		}
	}
	// tcp Size = Encode(m, nil)
	if f := e.fn(rule, "tcp/coder.Coder.Size"); f != nil {
		calls := core.CallsNamed(f, "tcp/coder.Coder.Encode")
		ok := len(calls) == 1 && core.IsNilConst(core.Arg(calls[0], 2))
		e.R.Check(ok, rule, "tcp/coder.Coder.Size:is-Encode(nil)", e.fpos(f), "Size is Encode(m, nil)", "Size is no longer computed by Encode(m, nil)")
	}
	// tcp Encode: bufLen compared with len(buf) is what is returned
	if f := e.fn(rule, "tcp/coder.Coder.Encode"); f != nil {
		var cmpV ssa.Value
		core.Instrs(f, func(in ssa.Instruction) {
			b, isB := in.(*ssa.BinOp)
			if !isB || b.Op != token.LSS {
				return
			}
			if c, isCall := b.X.(*ssa.Call); isCall {
				if bi, isBi := c.Call.Value.(*ssa.Builtin); isBi && bi.Name() == "len" && c.Call.Args[0] == ssa.Value(f.Params[2]) {
					cmpV = b.Y
				}
			}
		})
		ok, n := cmpV != nil, 0
		for _, ret := range core.ReturnsOf(f) {
			if k, isC := core.ConstInt(core.RetVal(ret, 0)); isC && k == -1 {
				continue
			}
			n++
			if core.RetVal(ret, 0) != cmpV {
				ok = false
			}
		}
		e.R.Check(ok && n >= 2, rule, "tcp/coder.Coder.Encode:returns-compared-size", e.fpos(f), "the size compared with len(buf) is the size returned on success and on ErrTooSmall", "the returned size differs from the size compared with len(buf)")
	}
	// sibling arms on buf == nil
	for _, q := range []string{"message.Options.Marshal", "message.Option.Marshal", "message.marshalOptionHeader"} {
		f := e.fn(rule, q)
		if f == nil {
			continue
		}
		n := 0
		bad := ""
		for _, i := range core.IfsOf(f) {
			cond, _ := core.StripNot(i.Cond)
			cmp, ok := core.AsCmp(cond)
			if !ok || !(core.IsNilConst(cmp.X) || core.IsNilConst(cmp.Y)) {
				continue
			}
			other := cmp.X
			if core.IsNilConst(cmp.X) {
				other = cmp.Y
			}
			if _, isSlice := other.Type().Underlying().(*types.Slice); !isSlice {
				continue
			}
			ca, cb := armCalls(i.Block().Succs[0]), armCalls(i.Block().Succs[1])
			if len(ca) == 0 && len(cb) == 0 {
				continue
			}
			n++
			if len(ca) != 1 || len(cb) != 1 || core.CalleeName(ca[0]) != core.CalleeName(cb[0]) || core.CalleeName(ca[0]) == "" {
				bad = fmt.Sprintf("at %s the two arms do not call the same function", e.pos(i))
				continue
			}
			for k := 0; k < core.NArgs(ca[0]); k++ {
				x, y := core.Arg(ca[0], k), core.Arg(cb[0], k)
				if _, isSl := x.Type().Underlying().(*types.Slice); isSl {
					continue
				}
				if !sameArg(x, y) {
					bad = fmt.Sprintf("at %s the arms pass different non-buffer arguments to %s", e.pos(i), core.CalleeName(ca[0]))
				}
			}
		}
		// no arm pair at all means the length computation and the write already share a single call
		e.R.Check(bad == "", rule, q+":nil-arm-agreement", e.fpos(f), fmt.Sprintf("%d `buf == nil` arm pair(s): same callee, same non-buffer arguments (length is independent of the buffer)", n), bad)
	}
	// payload marker: counted iff written
	c01Marker(e)
}

func sameArg(x, y ssa.Value) bool {
	if x == y || core.SameValue(x, y) {
		return true
	}
	cx, ok1 := x.(*ssa.Const)
	cy, ok2 := y.(*ssa.Const)
	if ok1 && ok2 {
		return cx.Value == cy.Value || (cx.Value != nil && cy.Value != nil && cx.Value.ExactString() == cy.Value.ExactString())
	}
	return false
}

func armCalls(b *ssa.BasicBlock) []*ssa.Call {
	var out []*ssa.Call
	if len(b.Preds) != 1 {
		return nil
	}
	for _, in := range b.Instrs {
		if c, ok := in.(*ssa.Call); ok {
			if _, isBuiltin := c.Call.Value.(*ssa.Builtin); !isBuiltin {
				out = append(out, c)
			}
		}
	}
	return out
}

// isLenPayloadPositive: cond is len(<x>.Payload) > 0 (or ≥ 1, != 0), possibly via a local holding len(Payload).
func lenPayloadPositive(cond ssa.Value) core.CondMatch {
	cmp, ok := core.AsCmp(cond)
	if !ok {
		return core.CondMatch{}
	}
	isLenPayload := func(v ssa.Value) bool {
		c, ok := core.Unwrap(v).(*ssa.Call)
		if !ok {
			return false
		}
		b, ok := c.Call.Value.(*ssa.Builtin)
		if !ok || b.Name() != "len" {
			return false
		}
		a := c.Call.Args[0]
		if ld, ok := a.(*ssa.UnOp); ok {
			_, fl, ok := core.FieldOf(ld.X)
			return ok && fl == "Payload"
		}
		if fv, ok := a.(*ssa.Field); ok {
			_, fl, _ := core.FieldOf(fv)
			return fl == "Payload"
		}
		return false
	}
	// a counter derived from len(Payload) that is zero exactly when the payload is empty: len(Payload) (+1 for the marker on the
	// non-empty edge) merged in a φ
	var derived func(v ssa.Value, d int) bool
	derived = func(v ssa.Value, d int) bool {
		if d > 4 {
			return false
		}
		if isLenPayload(v) {
			return true
		}
		switch x := core.Unwrap(v).(type) {
		case *ssa.Phi:
			for _, ed := range x.Edges {
				if !derived(ed, d+1) {
					return false
				}
			}
			return len(x.Edges) > 0
		case *ssa.BinOp:
			if c, isK := core.ConstInt(x.Y); isK && x.Op == token.ADD && c >= 0 {
				// len+c is positive whenever len is; it is zero only if reached with len == 0 and c == 0 – the +1 sits on the len > 0 edge
				if _, g := core.GuardedBy(x, func(cond ssa.Value) core.CondMatch {
					cm, ok := core.AsCmp(cond)
					if ok && isLenPayload(cm.X) {
						if k0, isC0 := core.ConstInt(cm.Y); isC0 && k0 == 0 && cm.Op == token.GTR {
							return core.CondMatch{Match: true, Branch: true}
						}
					}
					return core.CondMatch{}
				}); g {
					return derived(x.X, d+1)
				}
			}
		}
		return false
	}
	k, isC := core.ConstInt(cmp.Y)
	if !isC || !derived(cmp.X, 0) {
		return core.CondMatch{}
	}
	switch {
	case cmp.Op == token.GTR && k == 0, cmp.Op == token.GEQ && k == 1, cmp.Op == token.NEQ && k == 0:
		return core.CondMatch{Match: true, Branch: true}
	case cmp.Op == token.EQL && k == 0, cmp.Op == token.LSS && k == 1, cmp.Op == token.LEQ && k == 0:
		return core.CondMatch{Match: true, Branch: false}
	}
	return core.CondMatch{}
}

func c01Marker(e *Env) {
	rule := "C01.R3"
	for _, q := range []string{"udp/coder.Coder.Size", "tcp/coder.Coder.Encode"} {
		f := e.fn(rule, q)
		if f == nil {
			continue
		}
		// the +1 for the marker
		n, ok := 0, true
		core.Instrs(f, func(in ssa.Instruction) {
			b, isB := in.(*ssa.BinOp)
			if !isB || b.Op != token.ADD {
				return
			}
			k, isC := core.ConstInt(b.Y)
			if !isC || k != 1 {
				return
			}
			if _, isLen := core.Unwrap(b.X).(*ssa.Call); !isLen {
				return
			}
			n++
			if _, g := core.GuardedBy(in, lenPayloadPositive); !g {
				ok = false
			}
		})
		e.R.Check(ok && n == 1, rule, q+":marker-counted-iff-payload", e.fpos(f), "the marker byte is counted exactly on the len(Payload) > 0 edge", "the payload marker is not counted exactly when len(Payload) > 0")
	}
	for _, q := range []string{"udp/coder.Coder.Encode", "tcp/coder.Coder.Encode"} {
		f := e.fn(rule, q)
		if f == nil {
			continue
		}
		n, ok := 0, true
		core.Instrs(f, func(in ssa.Instruction) {
			isMarker := false
			switch x := in.(type) {
			case *ssa.Store:
				if k, isC := core.ConstInt(x.Val); isC && k == 255 {
					if _, isIdx := x.Addr.(*ssa.IndexAddr); isIdx {
						isMarker = true
					}
				}
			}
			if !isMarker {
				return
			}
			n++
			if _, g := core.GuardedBy(in, lenPayloadPositive); !g {
				ok = false
			}
		})
		e.R.Check(ok && n >= 1, rule, q+":marker-written-iff-payload", e.fpos(f), "the 0xff marker is written exactly on the len(Payload) > 0 edge", "the payload marker is not written exactly when len(Payload) > 0")
	}
}

// c01NoExtend: R4.
func c01NoExtend(e *Env) {
	rule := "C01.R4"
	for _, it := range []struct {
		q   string
		arg int
	}{{"udp/coder.Coder.Encode", 2}, {"tcp/coder.Coder.Encode", 2}, {"message.Options.Marshal", 1}, {"message.Option.Marshal", 1}, {"message.Option.MarshalValue", 1}, {"message.marshalOptionHeader", 0}, {"message.marshalOptionHeaderExt", 0}} {
		f := e.fn(rule, it.q)
		if f == nil || it.arg >= len(f.Params) {
			continue
		}
		bad := ""
		seen := map[ssa.Value]bool{}
		var visit func(v ssa.Value)
		visit = func(v ssa.Value) {
			if seen[v] {
				return
			}
			seen[v] = true
			for _, ref := range core.Referrers(v) {
				switch u := ref.(type) {
				case *ssa.Slice:
					if u.X != v {
						continue
					}
					if u.Max != nil || (u.High != nil && !highWithinLen(e, u)) {
						bad = fmt.Sprintf("destination re-sliced with an upper bound that is not provably within its length at %s", e.pos(u))
					}
					visit(u)
				case *ssa.Phi:
					visit(u)
				case *ssa.Store:
					// buf spilled to a cell (closure capture): follow loads of the cell
					if a, ok := u.Addr.(*ssa.Alloc); ok && u.Val == v {
						for _, r2 := range core.Referrers(a) {
							if ld, ok := r2.(*ssa.UnOp); ok {
								visit(ld)
							}
						}
					}
				case *ssa.Call:
					if b, ok := u.Call.Value.(*ssa.Builtin); ok && b.Name() == "append" && len(u.Call.Args) > 0 && u.Call.Args[0] == v {
						bad = fmt.Sprintf("append to the destination at %s", e.pos(u))
					}
				}
			}
		}
		visit(f.Params[it.arg])
		e.R.Check(bad == "", rule, it.q+":dst-only-low-resliced", e.fpos(f), fmt.Sprintf("%d values derived from the destination: only re-slices within its length, no append", len(seen)), bad)
	}
}

// c01Validation: R5.
func c01Validation(e *Env) {
	rule := "C01.R5"
	if f := e.fn(rule, "udp/coder.Coder.Encode"); f != nil && len(f.Params) == 3 {
		// first store into the destination
		var stores []ssa.Instruction
		core.Instrs(f, func(in ssa.Instruction) {
			if st, ok := in.(*ssa.Store); ok {
				if ia, ok := st.Addr.(*ssa.IndexAddr); ok && rootedAt(ia.X, f.Params[2]) {
					stores = append(stores, in)
				}
			}
			if c, ok := in.(*ssa.Call); ok {
				if b, ok := c.Call.Value.(*ssa.Builtin); ok && b.Name() == "copy" && rootedAt(c.Call.Args[0], f.Params[2]) {
					stores = append(stores, in)
				}
			}
		})
		for _, v := range []string{"message.ValidateMID", "message.ValidateType", "udp/coder.Coder.Size"} {
			calls := core.CallsNamed(f, v)
			ok := len(calls) >= 1 && len(stores) > 0
			for _, s := range stores {
				dom := false
				for _, c := range calls {
					if core.Dominates(c.(ssa.Instruction), s) {
						dom = true
					}
				}
				if !dom {
					ok = false
				}
			}
			// failing edge returns an error
			if ok && v != "udp/coder.Coder.Size" {
				ok = false
				for _, i := range core.IfsOf(f) {
					cond, neg := core.StripNot(i.Cond)
					if c, is := core.CondCall(cond, v); is && c == calls[0].(*ssa.Call) {
						k := 1 // false edge of the validator
						if neg {
							k = 0
						}
						blk := i.Block().Succs[k]
						if ret, isRet := blk.Instrs[len(blk.Instrs)-1].(*ssa.Return); isRet && core.ReturnsNonNilError(ret) {
							ok = true
						}
					}
				}
			}
			e.R.Check(ok, rule, "udp/coder.Coder.Encode:"+shortType(v)+"-before-write", e.fpos(f), fmt.Sprintf("%s dominates all %d writes into the destination and its failure returns an error", shortType(v), len(stores)), shortType(v)+" does not dominate every write into the destination (or its failure is not returned)")
		}
	}
	// token length checks
	for _, q := range []string{"udp/coder.Coder.Size", "tcp/coder.Coder.Encode"} {
		f := e.fn(rule, q)
		if f == nil {
			continue
		}
		ok := false
		for _, i := range core.IfsOf(f) {
			cmp, isCmp := core.EdgeFacts(i, true)
			if !isCmp || cmp.Op != token.GTR {
				continue
			}
			k, isC := core.ConstInt(cmp.Y)
			if !isC || k != 8 {
				continue
			}
			blk := i.Block().Succs[0]
			if ret, isRet := blk.Instrs[len(blk.Instrs)-1].(*ssa.Return); isRet && core.ReturnsNonNilError(ret) && i.Block() == f.Blocks[0] {
				ok = true
			}
		}
		e.R.Check(ok, rule, q+":token>8-refused-first", e.fpos(f), "len(Token) > 8 is refused in the entry block, before anything is computed or written", "an oversized token is not refused up front")
	}
	// ValidateMID accepts exactly [0,65535]
	if f := e.fn(rule, "message.ValidateMID"); f != nil {
		cells := []struct {
			name   string
			lo, hi *big.Int
			want   bool
		}{{"[0,65535]", bigI(0), bigI(65535), true}, {"<0", new(big.Int).Neg(big2(31)), bigI(-1), false}, {">65535", bigI(65536), bigm1(big2(31)), false}}
		for _, c := range cells {
			it := core.NewInterp(e.P)
			outs := it.Run(f, []*core.AVal{core.SymInt("mid", 32, true, c.lo, c.hi, 0)}, nil)
			ok := len(outs) > 0
			for _, o := range outs {
				if o.Abort || len(o.Ret) != 1 || o.Ret[0].K != core.ABool || (o.Ret[0].B.K == core.B1) != c.want || (o.Ret[0].B.K != core.B0 && o.Ret[0].B.K != core.B1) {
					ok = false
				}
			}
			e.R.Check(ok, rule, "message.ValidateMID:"+c.name, e.fpos(f), fmt.Sprintf("returns %v on the whole cell", c.want), fmt.Sprintf("does not return %v on the whole cell: %s", c.want, core.SummarizeOutcomes(outs)))
		}
	}
}

func rootedAt(v ssa.Value, root ssa.Value) bool {
	for i := 0; i < 10; i++ {
		if v == root {
			return true
		}
		switch x := v.(type) {
		case *ssa.Slice:
			v = x.X
		case *ssa.Phi:
			for _, ed := range x.Edges {
				if ed != ssa.Value(x) && rootedAt(ed, root) {
					return true
				}
			}
			return false
		default:
			return false
		}
	}
	return false
}

// c01ExactThreshold (R3): a writer succeeds exactly when the buffer has at least as many bytes as it reports, and reports
// the same size when it refuses – abstract interpretation for every buffer length 0 … size+1 (content symbolic).
func c01ExactThreshold(e *Env) {
	rule := "C01.R3"
	ib := e.P.Cfg.IntBit
	if ib == 0 {
		ib = 64
	}
	type arg func(st *core.AState, it *core.Interp, buf *core.AVal) []*core.AVal
	runLens := func(name string, f *ssa.Function, want int, mk arg) {
		if f == nil {
			return
		}
		ok, why := true, ""
		for L := 0; L <= want+1; L++ {
			it := core.NewInterp(e.P)
			outs := it.RunWith(f, func(st *core.AState) []*core.AVal {
				z := make([]*core.AVal, L)
				for i := range z {
					z[i] = core.ConstAInt(bigI(0), 8, false)
				}
				var buf *core.AVal
				if L == 0 {
					buf = st.NewArray(nil)
				} else {
					buf = st.NewArray(z)
				}
				return mk(st, it, buf)
			})
			if len(outs) == 0 {
				ok, why = false, "no outcome"
			}
			for _, o := range outs {
				if !o.Abort && !o.Panic && len(o.Ret) == 2 && o.Ret[1].K == core.ABool && (o.Ret[1].B.K == core.B1 || o.Ret[1].B.K == core.B0) {
					// an unexported writer that reports "fits" as a bool instead of nil / ErrTooSmall
					fits := o.Ret[1].B.K == core.B1
					n, isC := o.Ret[0].IsConst()
					if !isC || n.Int64() != int64(want) {
						ok, why = false, fmt.Sprintf("len(buf)=%d: reports size %s, expected %d", L, o.Ret[0], want)
					}
					if fits != (L >= want) {
						ok, why = false, fmt.Sprintf("with a %d-byte buffer and %d bytes to write the result is fits=%v", L, want, fits)
					}
					if o.St != nil {
						for _, ev := range o.St.Events {
							ok, why = false, ev
						}
					}
					continue
				}
				if o.Abort || o.Panic || len(o.Ret) != 2 || o.Ret[1].K != core.AErr || o.Ret[1].ErrNil == -1 {
					ok, why = false, fmt.Sprintf("len(buf)=%d undecided: %s", L, core.SummarizeOutcomes([]core.Outcome{o}))
					continue
				}
				n, isC := o.Ret[0].IsConst()
				if !isC || n.Int64() != int64(want) {
					ok, why = false, fmt.Sprintf("len(buf)=%d: reports size %s, expected %d", L, o.Ret[0], want)
				}
				succeeded := o.Ret[1].ErrNil == 1
				if succeeded != (L >= want) {
					ok, why = false, fmt.Sprintf("with a %d-byte buffer and %d bytes to write the result is %s", L, want, o.Ret[1])
				} else if !succeeded && o.Ret[1].Tag != "global:message.ErrTooSmall" {
					ok, why = false, fmt.Sprintf("refuses a %d-byte buffer with %s instead of ErrTooSmall", L, o.Ret[1])
				}
				if o.St != nil {
					for _, ev := range o.St.Events {
						ok, why = false, ev
					}
				}
			}
		}
		if strings.Contains(why, "undecided") {
			e.R.Undecided(rule, name+":exact-threshold", e.fpos(f), why)
			return
		}
		e.R.Check(ok, rule, name+":exact-threshold", e.fpos(f), fmt.Sprintf("for every buffer length 0…%d: succeeds iff len(buf) ≥ %d, always reports %d, refuses with ErrTooSmall, never writes out of range", want+1, want, want), why)
	}
	ext := e.fn(rule, "message.marshalOptionHeaderExt")
	for _, c := range []struct {
		nib  int64
		want int
	}{{5, 0}, {13, 1}, {14, 2}} {
		c := c
		runLens(fmt.Sprintf("message.marshalOptionHeaderExt nibble=%d", c.nib), ext, c.want, func(st *core.AState, it *core.Interp, buf *core.AVal) []*core.AVal {
			return []*core.AVal{buf, core.ConstAInt(bigI(c.nib), ib, true), core.SymInt("e", ib, true, bigI(0), bigI(255), 0)}
		})
	}
	hdr := e.fn(rule, "message.marshalOptionHeader")
	for _, c := range []struct {
		d, l int64
		want int
	}{{5, 5, 1}, {100, 5, 2}, {300, 5, 3}, {5, 300, 3}, {300, 300, 5}, {100, 100, 3}} {
		c := c
		runLens(fmt.Sprintf("message.marshalOptionHeader delta=%d length=%d", c.d, c.l), hdr, c.want, func(st *core.AState, it *core.Interp, buf *core.AVal) []*core.AVal {
			return []*core.AVal{buf, core.ConstAInt(bigI(c.d), ib, true), core.ConstAInt(bigI(c.l), ib, true)}
		})
	}
	om := e.fn(rule, "message.Option.Marshal")
	for _, c := range []struct {
		id   int64
		vlen int
		want int
	}{{300, 0, 3}, {300, 3, 6}, {11, 2, 3}, {20, 0, 2}} {
		c := c
		runLens(fmt.Sprintf("message.Option.Marshal id=%d len=%d", c.id, c.vlen), om, c.want, func(st *core.AState, it *core.Interp, buf *core.AVal) []*core.AVal {
			v := make([]*core.AVal, c.vlen)
			for i := range v {
				v[i] = core.SymInt(fmt.Sprintf("v%d", i), 8, false, bigI(0), bigI(255), 8)
			}
			if c.vlen == 0 {
				it.PathInputs["o.Value"] = &core.AVal{K: core.ABytes, Arr: -1}
			} else {
				it.PathInputs["o.Value"] = st.NewArray(v)
			}
			it.PathInputs["o.ID"] = core.ConstAInt(bigI(c.id), 16, false)
			return []*core.AVal{core.OpaqueV("obj:o"), buf, core.ConstAInt(bigI(0), 16, false)}
		})
	}
	// whole datagram / stream encoders on option-less messages
	for _, tkl := range []int{0, 8} {
		tkl := tkl
		mkMsg := func(st *core.AState, it *core.Interp) {
			tok := make([]*core.AVal, tkl)
			for i := range tok {
				tok[i] = core.SymInt(fmt.Sprintf("tok%d", i), 8, false, bigI(0), bigI(255), 8)
			}
			if tkl == 0 {
				it.PathInputs["m.Token"] = &core.AVal{K: core.ABytes, Arr: -1}
			} else {
				it.PathInputs["m.Token"] = st.NewArray(tok)
			}
			it.PathInputs["m.Payload"] = &core.AVal{K: core.ABytes, Arr: -1}
			it.PathInputs["m.Options"] = &core.AVal{K: core.ABytes, Arr: -1}
			it.PathInputs["m.Type"] = core.SymInt("typ", 16, true, bigI(0), bigI(3), 2)
			it.PathInputs["m.MessageID"] = core.SymInt("mid", 32, true, bigI(0), bigI(65535), 16)
			it.PathInputs["m.Code"] = core.SymInt("code", 16, false, bigI(0), bigI(255), 8)
		}
		runLens(fmt.Sprintf("udp/coder.Coder.Encode tkl=%d", tkl), e.fn(rule, "udp/coder.Coder.Encode"), 4+tkl, func(st *core.AState, it *core.Interp, buf *core.AVal) []*core.AVal {
			mkMsg(st, it)
			return []*core.AVal{core.OpaqueV("coder"), core.OpaqueV("obj:m"), buf}
		})
		runLens(fmt.Sprintf("tcp/coder.Coder.Encode tkl=%d", tkl), e.fn(rule, "tcp/coder.Coder.Encode"), 2+tkl, func(st *core.AState, it *core.Interp, buf *core.AVal) []*core.AVal {
			mkMsg(st, it)
			return []*core.AVal{core.OpaqueV("coder"), core.OpaqueV("obj:m"), buf}
		})
	}
}

// c01SignalRegistries (R2): the stream decoder parses each signalling code with that code's own option registry.
func c01SignalRegistries(e *Env, rule string) {
	f := e.fn(rule, "tcp/coder.Coder.DecodeWithHeader")
	if f == nil {
		return
	}
	want := map[int64]string{225: "TCPSignalCSMOptionDefs", 226: "TCPSignalPingPongOptionDefs", 227: "TCPSignalPingPongOptionDefs", 228: "TCPSignalReleaseOptionDefs", 229: "TCPSignalAbortOptionDefs",
		1: "CoapOptionDefs", 69: "CoapOptionDefs", 132: "CoapOptionDefs", 0: "CoapOptionDefs"}
	for code, reg := range want {
		it := core.NewInterp(e.P)
		got := ""
		it.Models["message.Options.Unmarshal"] = func(_ *core.Interp, _ *core.AState, args []*core.AVal) []*core.AVal {
			if len(args) >= 3 {
				got = args[2].Tag
			}
			return []*core.AVal{core.ConstAInt(bigI(0), it.IntBits, true), core.NilErrV()}
		}
		it.PathInputs["header.Code"] = core.ConstAInt(bigI(code), 16, false)
		it.PathInputs["header.Length"] = core.ConstAInt(bigI(2), 32, false)
		_ = it.RunWith(f, func(st *core.AState) []*core.AVal {
			return []*core.AVal{core.OpaqueV("coder"), st.NewArray(nil), core.OpaqueV("obj:header"), core.OpaqueV("obj:m")}
		})
		e.R.Check(got == "global:message."+reg, rule, fmt.Sprintf("tcp/coder.Coder.DecodeWithHeader:registry code=%d", code), e.fpos(f),
			"options of code "+fmt.Sprint(code)+" are parsed with message."+reg, fmt.Sprintf("code %d is parsed with %q instead of message.%s: options legal for this signalling message are dropped", code, got, reg))
	}
}

// highWithinLen: the slice expression's upper bound is proven ≤ len(operand) by the bounds engine (so it cannot reach into spare capacity).
func highWithinLen(e *Env, sl *ssa.Slice) bool {
	if _, isConst := core.ConstInt(sl.High); isConst {
		// a fixed-size window (header fields): it sits inside the part whose presence the length check before the first write
		// (C01.R5) established; it cannot be a re-slice up to capacity
		return true
	}
	b := core.NewBounds(e.P, sl.Parent(), nil)
	for _, o := range b.Obligations() {
		if o.Instr == ssa.Instruction(sl) && o.Kind == "slice-high" {
			if _, isMake := sl.X.(*ssa.MakeSlice); isMake {
				return false
			}
			return o.OK
		}
	}
	return false
}

// padScratch: an encoder helper that was given an extra scratch-buffer parameter (`getHeader(n, scratch []byte)`) is run with a nil
// slice for it (append then allocates): the rule speaks about the bytes produced, not about where they are put.
func padScratch(fn *ssa.Function, args []*core.AVal) []*core.AVal {
	for i := len(args); i < len(fn.Params); i++ {
		if sl, ok := fn.Params[i].Type().Underlying().(*types.Slice); ok {
			if b, isB := sl.Elem().Underlying().(*types.Basic); isB && b.Kind() == types.Uint8 {
				args = append(args, &core.AVal{K: core.ABytes, Arr: -1})
				continue
			}
		}
		return args
	}
	return args
}

// byteIndexOf: v is (a widening of) the byte at a constant index of a slice; -1 otherwise.
func byteIndexOf(v ssa.Value) int64 {
	for i := 0; i < 4; i++ {
		switch x := v.(type) {
		case *ssa.Convert:
			v = x.X
			continue
		case *ssa.UnOp:
			if ia, ok := x.X.(*ssa.IndexAddr); ok && x.Op == token.MUL {
				if k, isK := core.ConstInt(ia.Index); isK {
					return k
				}
			}
		}
		break
	}
	return -1
}

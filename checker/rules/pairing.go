package rules

import (
	"fmt"
	"go/token"
	"sort"
	"strings"

	"coapcheck/internal/core"

	"golang.org/x/tools/go/ssa"
)

// Registration pairing ("registered ⇒ checked ⇒ removed on every exit"): shared by C03, C13 and others.

var storingMethods = map[string]int{ // callee → index of the `loaded` result (-1: none)
	"pkg/sync.Map.LoadOrStore":         1,
	"pkg/sync.Map.LoadOrStoreWithFunc": 1,
	"pkg/cache.Cache.LoadOrStore":      1,
	"pkg/sync.Map.Store":               -1,
	"pkg/sync.Map.StoreWithFunc":       -1,
	"pkg/sync.Map.Replace":             -1,
}

var removingMethods = map[string]bool{
	"pkg/sync.Map.Delete": true, "pkg/sync.Map.LoadAndDelete": true, "pkg/sync.Map.DeleteWithFunc": true,
	"pkg/sync.Map.LoadAndDeleteWithFunc": true, "pkg/sync.Map.LoadAndDeleteAll": true,
}

// tableOf names the table a Map/Cache method call operates on: "<owner type>.<field>" (embedded Cache.Map is looked through).
func tableOf(c ssa.CallInstruction) string {
	return tableOfValue(core.Arg(c, 0))
}

func tableOfValue(recv ssa.Value) string {
	for i := 0; i < 4; i++ {
		ld, ok := recv.(*ssa.UnOp)
		if !ok || ld.Op != token.MUL {
			return ""
		}
		owner, field, ok := core.FieldOf(ld.X)
		if !ok {
			return ""
		}
		if owner == "pkg/cache.Cache" && field == "Map" {
			recv = ld.X.(*ssa.FieldAddr).X
			continue
		}
		return owner + "." + field
	}
	return ""
}

// exprEq: structural equality of two key expressions (pure method chains on the same values, e.g. token.Hash()).
func exprEq(a, b ssa.Value, depth int) bool {
	if depth > 6 {
		return false
	}
	a, b = core.Resolve(a), core.Resolve(b)
	if a == b {
		return true
	}
	switch x := a.(type) {
	case *ssa.Const:
		if y, ok := b.(*ssa.Const); ok {
			return x.Value == y.Value || (x.Value != nil && y.Value != nil && x.Value.ExactString() == y.Value.ExactString())
		}
	case *ssa.Call:
		y, ok := b.(*ssa.Call)
		if !ok || core.CalleeName(x) == "" || core.CalleeName(x) != core.CalleeName(y) || core.NArgs(x) != core.NArgs(y) {
			return false
		}
		for i := 0; i < core.NArgs(x); i++ {
			if !exprEq(core.Arg(x, i), core.Arg(y, i), depth+1) {
				return false
			}
		}
		return true
	case *ssa.UnOp:
		if y, ok := b.(*ssa.UnOp); ok && x.Op == token.MUL && y.Op == token.MUL {
			// loads of the same variable cell (re-assigned variables are assumed not to change between registration and removal)
			if ca, cb := core.CellOf(x.X), core.CellOf(y.X); ca != nil && ca == cb {
				return true
			}
			if fa, ok := x.X.(*ssa.FieldAddr); ok {
				if fb, ok := y.X.(*ssa.FieldAddr); ok && fa.Field == fb.Field {
					return exprEq(fa.X, fb.X, depth+1)
				}
			}
		}
	case *ssa.Extract:
		if y, ok := b.(*ssa.Extract); ok && x.Index == y.Index {
			return x.Tuple == y.Tuple
		}
	}
	return false
}

// removalPred builds predicates recognising a removal from `table` of `key` (direct call, call of a local closure
// whose body removes, or – for DeferStop – a deferred call/closure that removes).
func removalPred(table string, key ssa.Value) (func(ssa.Instruction) bool, func(*ssa.Defer) bool) {
	isRemovalK := func(c ssa.CallInstruction, key ssa.Value) bool {
		n := core.CalleeName(c)
		if removingMethods[n] && tableOf(c) == table {
			return key == nil || core.NArgs(c) < 2 || exprEq(core.Arg(c, 1), key, 0)
		}
		if n == "pkg/sync.Map.ReplaceWithFunc" && tableOf(c) == table {
			return key == nil || exprEq(core.Arg(c, 1), key, 0)
		}
		return false
	}
	isRemoval := func(c ssa.CallInstruction) bool { return isRemovalK(c, key) }
	// argsOf: what a helper's parameters stand for at this call (so that `helper(key)` → `table.Delete(k)` is seen as a removal of key)
	argsOf := func(c ssa.CallInstruction, sf *ssa.Function, outer map[ssa.Value]ssa.Value) map[ssa.Value]ssa.Value {
		m := map[ssa.Value]ssa.Value{}
		if c.Common().IsInvoke() {
			return m
		}
		for i, p := range sf.Params {
			if i < len(c.Common().Args) {
				a := core.Resolve(c.Common().Args[i])
				if o, ok := outer[a]; ok {
					a = o
				}
				m[p] = a
			}
		}
		return m
	}
	var inClosure func(fn *ssa.Function, depth int, subst map[ssa.Value]ssa.Value) bool
	inClosure = func(fn *ssa.Function, depth int, subst map[ssa.Value]ssa.Value) bool {
		if fn == nil || depth > 4 {
			return false
		}
		found := false
		for _, g := range core.WithAnon(fn) {
			core.Instrs(g, func(in ssa.Instruction) {
				c, ok := in.(ssa.CallInstruction)
				if !ok {
					return
				}
				if isRemoval(c) || (depth >= 2 && isRemovalK(c, nil)) {
					// inside a module helper (o.cleanUp → pullOutObservation) the key is the helper's own view of the same token
					found = true
				}
				// the helper removes the key it was given: Delete(param) with param bound to the registration key at the call
				if n := core.CalleeName(c); key != nil && (removingMethods[n] || n == "pkg/sync.Map.ReplaceWithFunc") && tableOf(c) == table && core.NArgs(c) >= 2 {
					if a, ok := subst[core.Resolve(core.Arg(c, 1))]; ok && exprEq(a, key, 0) {
						found = true
					}
				}
				// one level through module helpers such as o.cleanUp() → pullOutObservation → LoadAndDelete
				if sf := core.StaticFn(c); sf != nil && sf.Parent() == nil && depth < 4 && strings.Contains(sf.String(), core.Module) {
					d2 := depth + 1
					if d2 < 2 {
						d2 = 2
					}
					if inClosure(sf, d2, argsOf(c, sf, subst)) {
						found = true
					}
				}
			})
		}
		return found
	}
	stop := func(in ssa.Instruction) bool {
		c, ok := in.(*ssa.Call)
		if !ok {
			return false
		}
		if isRemoval(c) {
			return true
		}
		if sf := core.StaticFn(c); sf != nil && (sf.Parent() != nil || strings.Contains(sf.String(), core.Module)) {
			return inClosure(sf, 1, argsOf(c, sf, nil))
		}
		return false
	}
	dstop := func(d *ssa.Defer) bool {
		if isRemoval(d) {
			return true
		}
		if sf := core.StaticFn(d); sf != nil {
			return inClosure(sf, 1, argsOf(d, sf, nil))
		}
		return false
	}
	return stop, dstop
}

// PairSpec describes how one registration site must be paired.
type PairSpec struct {
	Fn     string // role name of the function containing the registration (closures included)
	Table  string // "<owner>.<field>"
	Policy string // strict | live-on-success | cleanup-returned | expiring | join-or-expiring | first-wins
	Why    string
}

// loadedEdges finds the If on the `loaded` result of a register-if-absent call.
func loadedIf(site ssa.CallInstruction, idx int) (*ssa.If, bool) {
	v, ok := site.(ssa.Value)
	if !ok {
		return nil, false
	}
	var ext *ssa.Extract
	for _, r := range core.Referrers(v) {
		if ex, ok := r.(*ssa.Extract); ok && ex.Index == idx {
			ext = ex
		}
	}
	if ext == nil {
		return nil, false
	}
	fn := site.Parent()
	for _, i := range core.IfsOf(fn) {
		cond, neg := core.StripNot(i.Cond)
		if core.Resolve(cond) == ssa.Value(ext) || cond == ssa.Value(ext) {
			return i, !neg
		}
		// loaded stored into a cell and re-loaded
		if ld, ok := cond.(*ssa.UnOp); ok && ld.Op == token.MUL {
			if a := core.CellOf(ld.X); a != nil {
				for _, st := range core.StoresToCell(a) {
					if st.Val == ssa.Value(ext) {
						return i, !neg
					}
				}
			}
		}
	}
	return nil, false
}

// checkPairing applies a spec to every matching registration call in its function.
func checkPairing(e *Env, rule string, sp PairSpec) int {
	f := e.fn(rule, sp.Fn)
	if f == nil {
		return 0
	}
	n := 0
	for _, g := range core.WithAnon(f) {
		for _, site := range core.Calls(g, func(nm string, c ssa.CallInstruction) bool {
			_, ok := storingMethods[nm]
			if !ok && sp.Policy == "first-wins" && nm == "pkg/sync.Map.ReplaceWithFunc" {
				ok = true // create-or-join written with the general update primitive (one critical section, the callback decides)
			}
			return ok && tableOf(c) == sp.Table
		}) {
			n++
			checkPairSite(e, rule, g, site, sp)
		}
	}
	if n == 0 {
		e.R.Undecided(rule, sp.Fn+":"+shortType(sp.Table)+" registration", e.fpos(f), "no registration on "+sp.Table+" found in this function any more; update the site table")
	}
	return n
}

func checkPairSite(e *Env, rule string, g *ssa.Function, site ssa.CallInstruction, sp PairSpec) {
	name := core.FnName(g)
	construct := fmt.Sprintf("%s:%s %s", name, shortType(core.CalleeName(site)), shortType(sp.Table))
	pos := e.pos(site.(ssa.Instruction))
	key := core.Arg(site, 1)
	idx := storingMethods[core.CalleeName(site)]
	stop, dstop := removalPred(sp.Table, key)
	var from ssa.Instruction = site.(ssa.Instruction)
	if sp.Policy == "first-wins" {
		e.R.OkTrivial(rule, construct, pos, "listed: "+sp.Why)
		return
	}
	if sp.Policy == "first-wins-expiring" {
		ok, why := elementExpires(e, core.Arg(site, 2), 0)
		e.R.Check(ok, rule, construct+":expires", pos, "first entry wins ("+sp.Why+"); its deadline is always set so the sweep removes it", why)
		return
	}
	if idx >= 0 {
		i, loadedBranch := loadedIf(site, idx)
		if i == nil {
			e.R.Fail(rule, construct+":checked", pos, "the `loaded` result of the register-if-absent call is not branched on: a duplicate key would go unnoticed")
			return
		}
		lk, sk := 0, 1
		if !loadedBranch {
			lk, sk = 1, 0
		}
		loadedBlk, storedBlk := i.Block().Succs[lk], i.Block().Succs[sk]
		if sp.Policy != "join-or-expiring" {
			// loaded edge: an error is returned and nothing is stored over the existing entry
			q := &core.PathQuery{Fn: g, From: loadedBlk.Instrs[0], Target: func(in ssa.Instruction) bool {
				if ret, ok := in.(*ssa.Return); ok {
					return !core.ReturnsNonNilError(ret)
				}
				if c, ok := in.(*ssa.Call); ok {
					if _, isStore := storingMethods[core.CalleeName(c)]; isStore && tableOf(c) == sp.Table {
						return true
					}
				}
				return false
			}}
			// the first instruction of the block itself may be the return
			w := q.Find()
			if ret, ok := loadedBlk.Instrs[0].(*ssa.Return); ok && !core.ReturnsNonNilError(ret) {
				w = []ssa.Instruction{ret}
			}
			e.R.Check(w == nil, rule, construct+":duplicate-rejected", pos, "on the already-registered edge every path returns a non-nil error without storing over the existing entry",
				"a duplicate key is not rejected (or the existing entry is overwritten): "+e.trace(w))
			// … and the rejected caller must not remove the owner's entry: no removal of the key on that edge, no deferred removal armed before the registration
			var rm []ssa.Instruction
			qr := &core.PathQuery{Fn: g, From: loadedBlk.Instrs[0], Target: func(in ssa.Instruction) bool {
				// a removal executed, or armed by defer, on the rejected caller's way out
				if d, isD := in.(*ssa.Defer); isD && dstop(d) {
					return true
				}
				return stop(in)
			}}
			if stop(loadedBlk.Instrs[0]) {
				rm = []ssa.Instruction{loadedBlk.Instrs[0]}
			} else {
				rm = qr.Find()
			}
			armed := ""
			core.Instrs(g, func(in ssa.Instruction) {
				if d, ok := in.(*ssa.Defer); ok && dstop(d) && core.Dominates(d, site.(ssa.Instruction)) {
					// an error-cell cleanup armed before the registration is fine only if it cannot fire for the duplicate error… it can: flag unless it is conditional on a cell that the duplicate path leaves nil
					if !deferGuardedByErrCellLeftNil(g, d, loadedBlk) {
						armed = e.pos(d)
					}
				}
			})
			e.R.Check(rm == nil && armed == "", rule, construct+":duplicate-keeps-owner", pos, "the rejected duplicate neither removes the key on its exit path nor has a removal deferred before the registration",
				"a request rejected as duplicate removes the entry of the request that owns the key (deferred removal armed at "+armed+" / "+e.trace(rm)+")")
		}
		from = storedBlk.Instrs[0]
		if stop(from) {
			e.R.Ok(rule, construct+":removed", pos, "removed immediately on the stored edge")
			return
		}
	}
	switch sp.Policy {
	case "strict", "live-on-success", "cleanup-returned":
		target := core.IsReturn
		if sp.Policy != "strict" {
			target = func(in ssa.Instruction) bool {
				ret, ok := in.(*ssa.Return)
				if !ok {
					return false
				}
				// success exits keep the entry (live registration / cleanup handed to the caller)
				if len(ret.Results) > 0 && core.IsErrorType(core.RetVal(ret, len(ret.Results)-1).Type()) && core.IsNilConst(core.RetVal(ret, len(ret.Results)-1)) {
					return false
				}
				return true
			}
		}
		q := &core.PathQuery{Fn: g, From: from, Stop: stop, DeferStop: dstop, Target: target}
		w := q.Find()
		if w == nil && !dstopArmedAtFrom(g, from, dstop) {
			// `from` itself may be a return / nothing between
		}
		what := "every exit"
		if sp.Policy != "strict" {
			what = "every error exit"
		}
		e.R.Check(w == nil, rule, construct+":removed", pos, what+" after the registration removes the same key from the table (directly or by defer)",
			"an exit keeps the entry registered: "+e.trace(w))
		if sp.Policy == "cleanup-returned" {
			// success exits return a function that performs the removal
			ok, why := true, ""
			for _, ret := range core.ReturnsOf(g) {
				if len(ret.Results) < 2 || !core.IsNilConst(core.RetVal(ret, len(ret.Results)-1)) {
					continue
				}
				// only returns reachable after the registration
				if !reachableFrom(g, from, ret) {
					continue
				}
				if !returnsCleanup(core.RetVal(ret, 0), stop, dstop, g) {
					ok, why = false, "success return at "+e.pos(ret)+" does not hand the removal to the caller"
				}
			}
			e.R.Check(ok, rule, construct+":cleanup-handed-over", pos, "successful exits return a function containing the removal of the same key", why)
		}
	case "expiring", "join-or-expiring":
		// the element must carry a non-zero deadline so that the sweep removes it
		el := core.Arg(site, 2)
		ok, why := elementExpires(e, el, 0)
		e.R.Check(ok, rule, construct+":expires", pos, "the stored element's deadline is always set (time.Now().Add(…) or a context deadline taken only when present): the sweep will remove it", why)
	default:
		e.R.Undecided(rule, construct, pos, "unknown policy "+sp.Policy)
	}
}

// deferGuardedByErrCellLeftNil: the deferred closure removes only when an error cell is non-nil. (NewObservation arms its cleanup before
// registering; the duplicate path sets the cell, so its cleanup DOES run – against its own, not-stored observation: pullOutObservation by
// token would remove the owner's entry.) Only accept when the closure's removal is keyed by an object identity, which it is not here: always false.
func deferGuardedByErrCellLeftNil(g *ssa.Function, d *ssa.Defer, loadedBlk *ssa.BasicBlock) bool {
	return false
}

func dstopArmedAtFrom(g *ssa.Function, from ssa.Instruction, dstop func(*ssa.Defer) bool) bool {
	return false
}

func reachableFrom(g *ssa.Function, from ssa.Instruction, to ssa.Instruction) bool {
	q := &core.PathQuery{Fn: g, From: from, Target: func(in ssa.Instruction) bool { return in == to }}
	return q.Find() != nil || from == to
}

// returnsCleanup: the returned func value is a closure containing the removal, or FuncList.ToFunction() of a list a removing closure was appended to.
func returnsCleanup(v ssa.Value, stop func(ssa.Instruction) bool, dstop func(*ssa.Defer) bool, g *ssa.Function) bool {
	v = core.Resolve(v)
	closureRemoves := func(mc *ssa.MakeClosure) bool {
		fn, ok := mc.Fn.(*ssa.Function)
		if !ok {
			return false
		}
		rem := false
		for _, h := range core.WithAnon(fn) {
			core.Instrs(h, func(in ssa.Instruction) {
				if stop(in) {
					rem = true
				}
			})
		}
		return rem
	}
	switch x := v.(type) {
	case *ssa.MakeClosure:
		return closureRemoves(x)
	case *ssa.Call:
		if strings.HasSuffix(core.CalleeName(x), "FuncList.ToFunction") {
			found := false
			core.Instrs(g, func(in ssa.Instruction) {
				if mc, ok := in.(*ssa.MakeClosure); ok && closureRemoves(mc) {
					// must be stored into a slice element (appended), not merely created
					for _, r := range core.Referrers(mc) {
						if _, isStore := r.(*ssa.Store); isStore {
							found = true
						}
					}
				}
			})
			return found
		}
	case *ssa.UnOp:
		// load of a multi-assignment cell: every stored value must be a cleanup
		if a := core.CellOf(x.X); a != nil {
			sts := core.StoresToCell(a)
			if len(sts) == 0 {
				return false
			}
			for _, st := range sts {
				if !returnsCleanup(st.Val, stop, dstop, g) {
					return false
				}
			}
			return true
		}
	}
	return false
}

// elementExpires: the value is cache.NewElement(_, t, _) with t provably non-zero.
func elementExpires(e *Env, el ssa.Value, depth int) (bool, string) {
	el = core.Resolve(el)
	c, ok := el.(*ssa.Call)
	if !ok || core.CalleeName(c) != "pkg/cache.NewElement" {
		return false, "the stored element is not built by cache.NewElement at the call site"
	}
	return nonZeroTime(e, core.Arg(c, 1), c, 0)
}

// nonZeroTime: v is never the zero time.Time at instruction `at`.
func nonZeroTime(e *Env, v ssa.Value, at ssa.Instruction, depth int) (bool, string) {
	return nonZeroTimeE(e, v, at, depth, nil, false)
}

// nonZeroTimeE: viaIf/viaBranch name the conditional edge the value travels along (phi inputs), if any.
func nonZeroTimeE(e *Env, v ssa.Value, at ssa.Instruction, depth int, viaIf *ssa.If, viaBranch bool) (bool, string) {
	if depth > 6 {
		return false, "too deep"
	}
	v0 := v
	v = core.Resolve(v)
	switch x := v.(type) {
	case *ssa.Call:
		n := core.CalleeName(x)
		switch n {
		case "time.Now":
			return true, ""
		case "time.Time.Add":
			return nonZeroTime(e, core.Arg(x, 0), x, depth+1)
		}
		if sf := core.StaticFn(x); sf != nil && strings.Contains(sf.String(), core.Module) {
			// module helper: every return must be non-zero
			for _, ret := range core.ReturnsOf(sf) {
				for _, rv := range ret.Results {
					if core.TypeName(rv.Type()) == "time.Time" {
						if ok, why := nonZeroTime(e, rv, ret, depth+1); !ok {
							return false, core.FnName(sf) + ": " + why
						}
					}
				}
			}
			return true, ""
		}
		return false, "deadline comes from an unrecognised call " + n
	case *ssa.Extract:
		tc, ok := x.Tuple.(*ssa.Call)
		if !ok {
			return false, "unrecognised tuple"
		}
		n := core.CalleeName(tc)
		if n == "context.Context.Deadline" && x.Index == 0 {
			// only on the ok == true edge
			var okExt *ssa.Extract
			for _, r := range core.Referrers(tc) {
				if ex, is := r.(*ssa.Extract); is && ex.Index == 1 {
					okExt = ex
				}
			}
			if okExt != nil && viaIf != nil {
				cond, neg := core.StripNot(viaIf.Cond)
				if cond == ssa.Value(okExt) && (viaBranch != neg) {
					return true, ""
				}
			}
			if okExt != nil {
				if _, g := core.GuardedBy(at, func(cond ssa.Value) core.CondMatch {
					if cond == ssa.Value(okExt) {
						return core.CondMatch{Match: true, Branch: true}
					}
					return core.CondMatch{}
				}); g {
					return true, ""
				}
			}
			return false, "a context deadline is used without checking that the context has one (zero time = never expires) at " + e.pos(at)
		}
		if sf := core.StaticFn(tc); sf != nil && strings.Contains(sf.String(), core.Module) {
			for _, ret := range core.ReturnsOf(sf) {
				if core.ReturnsNonNilError(ret) {
					continue
				}
				if x.Index < len(ret.Results) {
					if ok, why := nonZeroTime(e, core.RetVal(ret, x.Index), ret, depth+1); !ok {
						return false, core.FnName(sf) + ": " + why
					}
				}
			}
			return true, ""
		}
		return false, "deadline comes from " + n
	case *ssa.Phi:
		for k, ed := range x.Edges {
			pred := x.Block().Preds[k]
			last := pred.Instrs[len(pred.Instrs)-1]
			var vi *ssa.If
			vb := false
			if i, isIf := last.(*ssa.If); isIf {
				vi = i
				vb = pred.Succs[0] == x.Block()
			}
			if ok, why := nonZeroTimeE(e, ed, last, depth+1, vi, vb); !ok {
				return false, why
			}
		}
		return true, ""
	case *ssa.UnOp:
		if x.Op == token.MUL {
			if a := core.CellOf(x.X); a != nil {
				sts := core.StoresToCell(a)
				if len(sts) == 0 {
					return false, "deadline variable never assigned"
				}
				for _, st := range sts {
					if ok, why := nonZeroTime(e, st.Val, st, depth+1); !ok {
						return false, why
					}
				}
				return true, ""
			}
		}
	case *ssa.Parameter:
		// value handed in by the callers: check each static caller in the module
		fn := x.Parent()
		idx := -1
		for i, p := range fn.Params {
			if p == x {
				idx = i
			}
		}
		n := 0
		for _, caller := range e.P.SrcFuncs(false) {
			for _, c := range core.Calls(caller, func(_ string, ci ssa.CallInstruction) bool { return core.SameFunc(core.StaticFn(ci), fn) }) {
				n++
				if ok, why := nonZeroTime(e, core.Arg(c, idx), c.(ssa.Instruction), depth+1); !ok {
					return false, "via " + core.FnName(caller) + ": " + why
				}
			}
		}
		if n > 0 {
			return true, ""
		}
		return false, "deadline is a parameter without analysable callers"
	}
	_ = v0
	return false, "deadline expression not recognised: " + v.String()
}

// allRegistrationSites enumerates every storing call on a Map/Cache-typed struct field in the module (outside pkg/sync, pkg/cache).
func allRegistrationSites(e *Env) map[string][]string {
	out := map[string][]string{} // "fn|table" → positions
	for _, f := range e.P.SrcFuncs(false) {
		n := core.FnName(f)
		if strings.HasPrefix(n, "pkg/sync.") || strings.HasPrefix(n, "pkg/cache.") || strings.HasPrefix(n, "examples/") {
			continue
		}
		for _, c := range core.Calls(f, func(nm string, _ ssa.CallInstruction) bool { _, ok := storingMethods[nm]; return ok }) {
			t := tableOf(c)
			root := f
			for root.Parent() != nil {
				root = root.Parent()
			}
			k := core.FnName(root) + "|" + t
			out[k] = append(out[k], e.pos(c.(ssa.Instruction)))
		}
	}
	return out
}

// checkInventory: every registration site in the module is covered by a spec.
func checkInventory(e *Env, rule string, specs []PairSpec) {
	cover := map[string]bool{}
	for _, s := range specs {
		cover[s.Fn+"|"+s.Table] = true
	}
	sites := allRegistrationSites(e)
	var keys []string
	for k := range sites {
		keys = append(keys, k)
	}
	sort.Strings(keys)
	for _, k := range keys {
		parts := strings.SplitN(k, "|", 2)
		if cover[k] {
			e.R.OkTrivial(rule, "inventory:"+parts[0]+":"+shortType(parts[1]), sites[k][0], "registration site is classified")
		} else {
			e.R.Fail(rule, "inventory:"+parts[0]+":"+shortType(parts[1]), sites[k][0], "unclassified registration into "+parts[1]+": a new per-exchange entry must be shown to be removed on every exit (add it to the site table after triage)")
		}
	}
}

package rules

import (
	"fmt"
	"go/token"
	"go/types"
	"strings"

	"coapcheck/internal/core"

	"golang.org/x/tools/go/ssa"
)

func init() {
	register(&Property{
		ID:    "C05",
		Title: "Datagram duplicates never re-execute a handler (MID de-duplication)",
		Level: "other",
		Explain: "Decided: (R1) handleReq takes the per-message-ID lock keyed by the request's own message ID before anything else and releases it on every exit; (R2) the reply-cache lookup happens under that lock and dominates the dispatch; a hit returns without dispatch, answers with the duplicate's own message ID and ACK/NON type; " +
			"(R3) on every reply-producing arm (bare ACK, piggybacked/NON reply) the reply is stored in the cache on every path; (R4) key agreement: store and lookup keys are both the decimal string of the REQUEST's message ID (never of the reply's); " +
			"(R5) EXCHANGE_LIFETIME is 247 s and the cached element expires at now + EXCHANGE_LIFETIME; expired means absent (C14.R5); (R6) the cached bytes are a private copy, not the pooled message's marshal buffer.",
		NotDecided: "Concurrent duplicate schedules (rests on R1 + C14), byte equality of replayed replies and the 247 s boundary in real time are not executed.",
		Run:        runC05,
	})
	register(&Property{
		ID:    "C06",
		Title: "Confirmable requests are retransmitted correctly and boundedly",
		Level: "other",
		Explain: "Decided: (R1) the retransmitting write is control-dependent on 'not expired' and on Retransmit() == true; (R2) expiry is 'deadline passed ∨ count ≥ MAX_RETRANSMIT' and the k-th copy is due after start + ACK_TIMEOUT·(count+1) with the counter incremented exactly on the true result; the timer origin is taken after the NSTART wait; " +
			"(R3) retransmitted bytes come from a clone of the private clone taken when the request was written (never the caller's message), and Clone rewinds the source body before copying; (R4) every removal from the pending table releases the element's copy, and the ACK/RST arm removes and releases before it wakes the writer, after which GetMessage yields nothing to send; " +
			"(R5) the NSTART semaphore weights balance; (R6) the writer waits on acknowledgement, request context and connection context.",
		NotDecided: "Spacing in real time, byte identity of the copies on the wire and loss patterns need execution with a clock and are not decided.",
		Run:        runC06,
	})
}

func runC05(e *Env) {
	r := e.R
	r.Rule("C05.R1", "paths", "per-MID lock on the request's MID, first and on all exits", 2)
	r.Rule("C05.R2", "paths", "cache lookup under the lock dominates dispatch; hit returns without dispatch", 4)
	r.Rule("C05.R3", "paths", "reply stored on every reply-producing arm and not modified afterwards", 4)
	r.Rule("C05.R4", "flows", "store key and lookup key derive from the request's message ID", 4)
	r.Rule("C05.R5", "tables+flows+paths", "247 s lifetime; an expired reply is hidden on lookup and replaced on store", 5)
	r.Rule("C05.R6", "flows", "cached reply is a private copy", 1)
	r.Rule("C05.R7", "paths", "the replay decodes the cached reply into the response completely (every header field overwritten, incl. an absent token)", 5)
	if e.want("C05.R7") {
		checkDecoderAssignsAll(e, "C05.R7")
	}
	hr := e.fn("C05.R1", "udp/client.Conn.handleReq")
	if hr != nil && len(hr.Params) == 3 {
		req := hr.Params[2]
		locks := core.CallsNamed(hr, "udp/client.MutexMap.Lock")
		// the cache lookup: through the checkResponseCache wrapper when it exists, else the cache call itself (the wrapper is
		// analysed as part of handleReq, so both spellings give the getResponseFromCache call)
		lookups := core.CallsNamed(hr, "udp/client.Conn.getResponseFromCache")
		if len(lookups) == 0 {
			// the wrapper written out: the load from the reply cache itself (same result shape: found, error)
			lookups = core.Calls(hr, func(n string, ci ssa.CallInstruction) bool {
				return strings.HasSuffix(n, "MessageCache.Load") && strings.HasSuffix(tableOf(ci), ".responseMsgCache")
			})
		}

		handles := core.CallsNamed(hr, "udp/client.Conn.handle")
		if e.want("C05.R1") {
			ok := len(locks) == 1
			if ok {
				k := core.Resolve(core.Arg(locks[0], 1))
				mc, isCall := core.Unwrap(k).(*ssa.Call)
				ok = isCall && core.CalleeName(mc) == "message/pool.Message.MessageID" && core.Resolve(core.Arg(mc, 0)) == ssa.Value(req)
			}
			e.R.Check(ok, "C05.R1", "udp/client.Conn.handleReq:lock-keyed-by-request-MID", e.fpos(hr), "msgIDMutex.Lock(req.MessageID())", "the per-ID lock is not keyed by the request's message ID")
			if len(locks) == 1 {
				call := locks[0].(*ssa.Call)
				q := &core.PathQuery{Fn: hr, From: call,
					Stop: func(in ssa.Instruction) bool {
						c, ok := in.(*ssa.Call)
						return ok && core.CalleeName(c) == "udp/client.Unlocker.Unlock" && core.Resolve(core.Arg(c, 0)) == ssa.Value(call)
					},
					DeferStop: func(d *ssa.Defer) bool {
						return core.CalleeName(d) == "udp/client.Unlocker.Unlock" && core.Resolve(core.Arg(d, 0)) == ssa.Value(call)
					},
					Target: core.IsReturn}
				w := q.Find()
				e.R.Check(w == nil, "C05.R1", "udp/client.Conn.handleReq:lock-released", e.pos(call), "every exit releases the per-ID lock (deferred)", "an exit keeps the per-ID lock: "+e.trace(w))
			}
		}
		if e.want("C05.R2") {
			ok := len(locks) == 1 && len(lookups) == 1 && len(handles) == 1
			if !ok {
				e.R.Fail("C05.R2", "udp/client.Conn.handleReq:shape", e.fpos(hr), fmt.Sprintf("expected one lock, one cache lookup, one dispatch; found %d/%d/%d", len(locks), len(lookups), len(handles)))
			} else {
				lk, lu, hd := locks[0].(ssa.Instruction), lookups[0].(ssa.Instruction), handles[0].(ssa.Instruction)
				e.R.Check(core.Dominates(lk, lu), "C05.R2", "udp/client.Conn.handleReq:lookup-under-lock", e.pos(lu), "the cache lookup that guards dispatch happens with the per-ID lock held", "the reply cache is consulted before the per-ID lock is taken: a concurrent duplicate misses the cache, waits for the lock and then runs the handler again")
				// for a confirmable request (the type tests forced that way) no path reaches the dispatch without the lookup
				isReqType := func(v ssa.Value) bool {
					c, isC := core.Resolve(v).(*ssa.Call)
					return isC && core.CalleeName(c) == "message/pool.Message.Type" && core.Resolve(core.Arg(c, 0)) == ssa.Value(req)
				}
				qd := &core.PathQuery{Fn: hr, Stop: func(in ssa.Instruction) bool { return in == lu }, Target: func(in ssa.Instruction) bool { return in == hd },
					EdgeOK: core.ForcedEdges(func(i *ssa.If) int {
						cond, neg := core.StripNot(i.Cond)
						cmp, isCmp := core.AsCmp(cond)
						if !isCmp || (cmp.Op != token.EQL && cmp.Op != token.NEQ) || !isReqType(cmp.X) {
							if typeOnly(cond, isReqType, 0) {
								return 2 // decided by the request's type alone through a table: not a path this rule judges
							}
							return 0
						}
						k, isK := core.ConstInt(cmp.Y)
						if !isK {
							return 0
						}
						s := -1
						if k == 0 {
							s = 1
						}
						if cmp.Op == token.NEQ {
							s = -s
						}
						if neg {
							s = -s
						}
						return s
					})}
				wd := qd.Find()
				e.R.Check(wd == nil, "C05.R2", "udp/client.Conn.handleReq:lookup-before-dispatch", e.pos(hd), "for a confirmable request the lookup precedes the dispatch on every path", "dispatch is reachable without a cache lookup: "+e.trace(wd))
				// hit edge: handle not reachable
				var hitIf *ssa.If
				hitNeg := false
				for _, i := range core.IfsOf(hr) {
					cond, neg := core.StripNot(i.Cond)
					if ex, isEx := core.Resolve(cond).(*ssa.Extract); isEx && ex.Tuple == lookups[0].(ssa.Value) && ex.Index == 0 {
						hitIf, hitNeg = i, neg
					}
				}
				okHit := false
				if hitIf != nil {
					hi := hitIf
					qh := &core.PathQuery{Fn: hr, From: hi, Target: func(in ssa.Instruction) bool { return in == hd },
						EdgeOK: func(x *ssa.If, br bool) bool { return x != hi || br == !hitNeg }}
					okHit = qh.Find() == nil
				}
				e.R.Check(okHit, "C05.R2", "udp/client.Conn.handleReq:hit-skips-dispatch", e.pos(hd), "dispatch is reachable only on the cache-miss edge", "a cache hit can still reach the dispatch")
			}
			// the duplicate's reply carries the duplicate's own MID
			{
				// on the hit edge the replayed reply gets the duplicate request's own message ID
				ok2 := false
				for _, c := range core.CallsNamed(hr, "message/pool.Message.SetMessageID") {
					if mc, isCall := core.Resolve(core.Arg(c, 1)).(*ssa.Call); isCall && core.CalleeName(mc) == "message/pool.Message.MessageID" && core.Resolve(core.Arg(mc, 0)) == ssa.Value(req) {
						ok2 = true
					}
				}
				e.R.Check(ok2, "C05.R2", "udp/client.Conn.handleReq:reply-gets-duplicate-MID", e.fpos(hr), "a replayed reply is given the duplicate request's message ID", "a replayed reply is not matched to the duplicate's message ID")
			}
		}
	}
	pr := e.fn("C05.R3", "udp/client.Conn.processResponse")
	if pr != nil && len(pr.Params) == 4 {
		adds := core.CallsNamed(pr, "udp/client.Conn.addResponseToCache")
		if e.want("C05.R3") {
			// the bare-ACK arm is where the response's code is set to 0.00 (Empty)
			var arm ssa.Instruction
			for _, c := range core.CallsNamed(pr, "message/pool.Message.SetCode") {
				if k, isC := core.ConstInt(core.Arg(c, 1)); isC && k == 0 {
					arm = c.(ssa.Instruction)
				}
			}
			if arm == nil {
				e.R.Fail("C05.R3", "udp/client.Conn.processResponse:bare-ack-cached", e.fpos(pr), "no bare-ACK arm")
			} else {
				q := &core.PathQuery{Fn: pr, From: arm, Stop: core.CallPred("udp/client.Conn.addResponseToCache"), Target: func(in ssa.Instruction) bool {
					ret, ok := in.(*ssa.Return)
					return ok && !core.ReturnsNonNilError(ret)
				}}
				w := q.Find()
				e.R.Check(w == nil, "C05.R3", "udp/client.Conn.processResponse:bare-ack-cached", e.pos(arm), "every path through the bare-ACK arm stores the reply in the cache", "the bare ACK can be produced without being cached: "+e.trace(w))
			}
			// piggyback / NON reply: with a modified, non-pong response, both for CON and for NON requests every path to a return stores the reply
			for _, sc := range []struct {
				name string
				con  int // forced outcome of reqType == Confirmable
				non  int
			}{{"CON", 1, 0}, {"NON", -1, 1}} {
				q := &core.PathQuery{Fn: pr, Stop: core.CallPred("udp/client.Conn.addResponseToCache"), Target: func(in ssa.Instruction) bool {
					ret, ok := in.(*ssa.Return)
					return ok && !core.ReturnsNonNilError(ret)
				}, EdgeOK: core.ForcedEdges(func(i *ssa.If) int {
					cond, neg := core.StripNot(i.Cond)
					s := 0
					if _, ok := core.CondCall(cond, "udp/client.isPongOrResetResponse"); ok {
						s = -1
					} else if _, ok := core.CondCall(cond, "udp/client.sendJustAcknowledgeMessage"); ok {
						s = -1
					} else if _, ok := core.CondCall(cond, "message/pool.Message.IsModified"); ok {
						s = 1
					} else if cmp, ok := core.AsCmp(cond); ok && (cmp.Op == token.EQL || cmp.Op == token.NEQ) && core.Unwrap(cmp.X) == ssa.Value(pr.Params[1]) {
						if k, isK := core.ConstInt(cmp.Y); isK && k == 0 {
							s = sc.con
						} else if isK && k == 1 {
							s = sc.non
						}
						if cmp.Op == token.NEQ {
							s = -s // x != k is the negation of x == k
						}
					}
					if neg {
						s = -s
					}
					return s
				})}
				w := q.Find()
				e.R.Check(w == nil && len(adds) >= 1, "C05.R3", "udp/client.Conn.processResponse:reply-cached "+sc.name, e.fpos(pr), "a produced reply to a "+sc.name+" request is stored in the cache on every path", "a reply to a "+sc.name+" request can be sent without being cached: "+e.trace(w))
			}
		}
		if e.want("C05.R4") {
			ok := len(adds) > 0
			for _, c := range adds {
				for _, v := range core.ResolveAll(core.Arg(c, 1)) {
					if v != ssa.Value(pr.Params[2]) {
						ok = false
					}
				}
			}
			e.R.Check(ok, "C05.R4", "udp/client.Conn.processResponse:store-key-is-request-MID", e.fpos(pr), "every store passes processResponse's reqMessageID parameter as the key", "a reply is cached under something other than the request's message ID")
			if hr != nil {
				ok2 := false
				for _, c := range core.CallsNamed(hr, "udp/client.Conn.processResponse") {
					if mc, isCall := core.Resolve(core.Arg(c, 2)).(*ssa.Call); isCall && core.CalleeName(mc) == "message/pool.Message.MessageID" && core.Resolve(core.Arg(mc, 0)) == ssa.Value(hr.Params[2]) {
						ok2 = true
					}
				}
				e.R.Check(ok2, "C05.R4", "udp/client.Conn.handleReq:passes-request-MID", e.fpos(hr), "processResponse receives req.MessageID() taken from the request", "processResponse is not given the request's own message ID")
			}
		}
	}
	if e.want("C05.R4") {
		for _, q := range []string{"udp/client.Conn.addResponseToCache", "udp/client.Conn.getResponseFromCache"} {
			f := e.fn("C05.R4", q)
			if f == nil || len(f.Params) < 2 {
				continue
			}
			ok := false
			// the helper's own message-ID parameter – or, when the lookup is written into the request handler itself, the message ID
			// read from the request being handled
			src := func(x ssa.Value) bool { return x == ssa.Value(f.Params[1]) }
			wantCall := ""
			if core.FnName(f) != q {
				if hr == nil || len(hr.Params) != 3 {
					continue
				}
				req := hr.Params[2]
				src = func(x ssa.Value) bool {
					mc, isCall := x.(*ssa.Call)
					return isCall && core.CalleeName(mc) == "message/pool.Message.MessageID" && core.Resolve(core.Arg(mc, 0)) == ssa.Value(req)
				}
				wantCall = "MessageCache.Load"
				if strings.HasSuffix(q, "addResponseToCache") {
					wantCall = "MessageCache.Store"
				}
			}
			for _, c := range core.Calls(f, func(n string, _ ssa.CallInstruction) bool {
				if wantCall != "" {
					return strings.HasSuffix(n, wantCall)
				}
				return strings.HasSuffix(n, "MessageCache.Store") || strings.HasSuffix(n, "MessageCache.Load")
			}) {
				if keyFromPred(core.Arg(c, 1), src, 0) {
					ok = true
				}
			}
			e.R.Check(ok, "C05.R4", q+":key=Itoa(mid-param)", e.fpos(f), "the cache key is an injective rendering (strconv.Itoa / FormatInt base 10) of the message-ID parameter alone", "the cache key does not derive from the message-ID parameter alone")
		}
	}
	if e.want("C05.R5") {
		v, pos, ok := e.P.ConstValue("udp/client", "ExchangeLifetime")
		e.R.Check(ok && v == 247*1000000000, "C05.R5", "udp/client.ExchangeLifetime:247s", e.P.Pos(pos), "ExchangeLifetime = 247 s (RFC 7252 §4.8.2)", fmt.Sprintf("ExchangeLifetime = %d ns", v))
		if f := e.fn("C05.R5", "udp/client.messageCache.Store"); f != nil {
			ok2 := false
			for _, c := range core.CallsNamed(f, "pkg/cache.NewElement") {
				if add, isCall := core.Arg(c, 1).(*ssa.Call); isCall && core.CalleeName(add) == "time.Time.Add" {
					if now, isNow := core.Arg(add, 0).(*ssa.Call); isNow && core.CalleeName(now) == "time.Now" {
						if k, isK := core.ConstInt(core.Arg(add, 1)); isK && k == 247*1000000000 {
							ok2 = true
						}
						// the lifetime kept in a field of the cache that its constructor sets once, to the constant
						if k, isK := fieldWrittenOnce(e, core.Arg(add, 1)); isK && k == 247*1000000000 {
							ok2 = true
						}
					}
				}
			}
			e.R.Check(ok2, "C05.R5", "udp/client.messageCache.Store:expires-at-now+lifetime", e.fpos(f), "the cached reply expires at time.Now() + ExchangeLifetime", "the cached reply does not expire at now + EXCHANGE_LIFETIME")
		}
	}
	if e.want("C05.R5") {
		// "once the lifetime has elapsed the ID is treated as fresh again": the cache hides an expired reply on lookup and replaces it on store
		sub := *e
		rep := core.NewReport("tmp", e.Tier, "other")
		sub.R = rep
		checkExpiryPredicateAs(&sub, "C05.R5")
		for _, o := range rep.Obls {
			if strings.Contains(o.Key, "Cache.LoadOrStore") || strings.Contains(o.Key, "Cache.Load:") || strings.Contains(o.Key, "IsExpired") {
				k := strings.TrimPrefix(o.Key, "C05.R5:")
				if o.Status == core.Discharged {
					e.R.Ok("C05.R5", k, o.Pos, o.Detail)
				} else {
					e.R.Fail("C05.R5", k, o.Pos, o.Detail)
				}
			}
		}
	}
	if e.want("C05.R3") && pr != nil {
		// what is cached is what is sent: the response is not modified between the store and the return
		bad := ""
		for _, c := range core.CallsNamed(pr, "udp/client.Conn.addResponseToCache") {
			q := &core.PathQuery{Fn: pr, From: c.(ssa.Instruction), Target: func(in ssa.Instruction) bool {
				sc, ok := in.(*ssa.Call)
				if !ok {
					return false
				}
				n := core.CalleeName(sc)
				return strings.HasPrefix(n, "message/pool.Message.Set") || strings.HasPrefix(n, "message/pool.Message.Add") || strings.HasPrefix(n, "message/pool.Message.Remove") || strings.HasPrefix(n, "message/pool.Message.Reset")
			}}
			if w := q.Find(); w != nil {
				bad = "the reply is modified after it was stored in the cache: a duplicate is answered with a different message than the first copy: " + e.trace(w)
			}
		}
		e.R.Check(bad == "", "C05.R3", "udp/client.Conn.processResponse:cached-reply-is-final", e.fpos(pr), "after a reply is stored nothing modifies it before it is sent", bad)
	}
	if e.want("C05.R6") {
		if f := e.fn("C05.R6", "udp/client.messageCache.Store"); f != nil {
			ok := false
			why := "the cached bytes are not a freshly allocated copy"
			for _, c := range core.CallsNamed(f, "pkg/cache.NewElement") {
				src, isCopy := freshCopyOf(core.Arg(c, 0))
				if !isCopy {
					why = "the cached value is not a fresh slice: it aliases the pooled message's marshal buffer, which later traffic overwrites"
					continue
				}
				if ex, isEx := src.(*ssa.Extract); isEx {
					if mc, isM := ex.Tuple.(*ssa.Call); isM && core.CalleeName(mc) == "message/pool.Message.MarshalWithEncoder" {
						ok = true
					}
				}
			}
			e.R.Check(ok, "C05.R6", "udp/client.messageCache.Store:private-copy", e.fpos(f), "the marshalled reply is copied into a fresh slice before it is cached", why)
		}
	}
}

// controllingIfs lists the Ifs through one of whose edges `in` is exclusively reachable.
func controllingIfs(f *ssa.Function, in ssa.Instruction) []*ssa.If {
	var out []*ssa.If
	for _, i := range core.IfsOf(f) {
		if core.OnlyViaEdge(i, true, in) || core.OnlyViaEdge(i, false, in) {
			out = append(out, i)
		}
	}
	return out
}

// dependsOnlyOn: the condition is a comparison of v (modulo conversions) with a constant.
func dependsOnlyOn(cond ssa.Value, v ssa.Value) bool {
	c, _ := core.StripNot(cond)
	cmp, ok := core.AsCmp(c)
	if !ok {
		return false
	}
	_, isK1 := core.ConstInt(cmp.X)
	_, isK2 := core.ConstInt(cmp.Y)
	return (core.Unwrap(cmp.X) == v && isK2) || (core.Unwrap(cmp.Y) == v && isK1)
}

func runC06(e *Env) {
	r := e.R
	r.Rule("C06.R1", "paths", "retransmission only while not expired and due; a failed copy does not give the request up", 3)
	r.Rule("C06.R2", "flows", "expiry and due-time predicates; timer origin after the NSTART wait", 5)
	r.Rule("C06.R3", "flows", "retransmitted bytes come from the private clone; Clone rewinds the body", 4)
	r.Rule("C06.R4", "siblings", "every removal from the pending table releases the copy; ACK arm releases before waking the writer; the writer runs the cleanup on every exit", 7)
	r.Rule("C06.R5", "flows", "NSTART weights balance", 1)
	r.Rule("C06.R6", "waits", "the writer's wait has all three exits", 1)
	r.Rule("C06.R7", "flows", "the transmission parameters reach the predicates: server config → per-peer config → Transmission → CheckExpirations → IsExpired/Retransmit", 13)
	chk := e.fn("C06.R1", "udp/client.Conn.checkMidHandlerContainer")
	if chk != nil && e.want("C06.R1") {
		var exp, due *ssa.If
		for _, i := range core.IfsOf(chk) {
			cond, _ := core.StripNot(i.Cond)
			if _, ok := core.CondCall(cond, "udp/client.midElement.IsExpired"); ok {
				exp = i
			}
			if _, ok := core.CondCall(cond, "udp/client.midElement.Retransmit"); ok {
				due = i
			}
		}
		writes := core.Calls(chk, func(n string, _ ssa.CallInstruction) bool { return strings.HasSuffix(n, "Session.WriteMessage") })
		ok := exp != nil && due != nil && len(writes) == 1
		if ok {
			w := writes[0].(ssa.Instruction)
			_, negDue := core.StripNot(due.Cond)
			e.R.Check(core.OnlyViaEdge(exp, false, w), "C06.R1", "udp/client.Conn.checkMidHandlerContainer:not-expired", e.pos(w), "the retransmitting write is reachable only on the not-expired edge", "a copy can be sent although the entry is expired (attempts exhausted / deadline passed)")
			e.R.Check(core.OnlyViaEdge(due, !negDue, w), "C06.R1", "udp/client.Conn.checkMidHandlerContainer:due", e.pos(w), "… and only when Retransmit() reported the next copy due", "a copy can be sent before it is due")
			// a failed write of one copy does not give the request up: after the write nothing removes the pending entry
			qa := &core.PathQuery{Fn: chk, From: w, Target: func(in ssa.Instruction) bool {
				c, isC := in.(*ssa.Call)
				if !isC {
					return false
				}
				n := core.CalleeName(c)
				return (n == "pkg/sync.Map.Delete" || n == "pkg/sync.Map.LoadAndDelete" || n == "pkg/sync.Map.DeleteWithFunc") && strings.HasSuffix(tableOf(c), ".midHandlerContainer")
			}}
			wa := qa.Find()
			e.R.Check(wa == nil, "C06.R1", "udp/client.Conn.checkMidHandlerContainer:write-error-keeps-entry", e.pos(w), "the entry stays pending after a copy was written (or failed to be written): the remaining attempts and a late acknowledgement still count", "a transient write error of one retransmission abandons the request: "+e.trace(wa))
		} else {
			e.R.Fail("C06.R1", "udp/client.Conn.checkMidHandlerContainer:shape", e.fpos(chk), "expiry test, due test or the single retransmitting write not found")
		}
	}
	if e.want("C06.R2") {
		c06Predicates(e)
	}
	if e.want("C06.R3") {
		c06CloneSource(e, chk)
	}
	if e.want("C06.R4") {
		c06Removals(e)
		checkCleanupCallers(e, "C06.R4")
	}
	if e.want("C06.R7") {
		c06ParamChain(e, chk)
	}
	if e.want("C06.R5") {
		// same obligation as C13.R4's NSTART balance
		sub := *e
		rep := core.NewReport("tmp", e.Tier, "other")
		sub.R = rep
		c13Acquisitions(&sub)
		ok, why := false, "NSTART balance obligation not found"
		for _, o := range rep.Obls {
			if strings.Contains(o.Key, "acquireOutstandingInteraction:balance") {
				ok, why = o.Status == core.Discharged, o.Detail
			}
		}
		e.R.Check(ok, "C06.R5", "udp/client.Conn.acquireOutstandingInteraction:balance", "-", "Acquire(n), Release(n−1), Release(1) sum to zero", why)
	}
	if e.want("C06.R6") {
		aws := udpAckWaits(e)
		if len(aws) == 0 {
			e.R.Undecided("C06.R6", "udp/client:ack-wait", "-", "no blocking select that waits on the acknowledgement signal found in udp/client")
		}
		for _, aw := range aws {
			f := aw.root
			ws := []core.Wait{aw.w}
			ok := ws[0].Blocking && ws[0].HasReqCtx && ws[0].HasConnCtx
			d := ws[0].String()
			e.R.Check(ok, "C06.R6", core.FnName(f)+":ack-wait-exits", e.pos(aw.w.Instr), "select on {ack channel, request context, connection context}", "the wait for the acknowledgement lacks an exit: "+d)
		}
	}
}

func c06Predicates(e *Env) {
	rule := "C06.R2"
	if f := e.fn(rule, "udp/client.midElement.IsExpired"); f != nil && len(f.Params) == 3 {
		// some return is retransmit.Load() >= maxRetransmit
		ok := false
		for _, ret := range core.ReturnsOf(f) {
			v := core.RetVal(ret, 0)
			for _, cand := range phiLeaves(v) {
				if b, isB := cand.(*ssa.BinOp); isB {
					switch {
					case b.Op == token.GEQ && core.Unwrap(b.Y) == ssa.Value(f.Params[2]) && isAtomicLoadOf(b.X, "retransmit"):
						ok = true
					case b.Op == token.LEQ && core.Unwrap(b.X) == ssa.Value(f.Params[2]) && isAtomicLoadOf(b.Y, "retransmit"):
						ok = true
					}
				}
			}
		}
		e.R.Check(ok, rule, "udp/client.midElement.IsExpired:count≥max", e.fpos(f), "expired whenever the retransmit count ≥ MAX_RETRANSMIT", "expiry is no longer 'count ≥ MAX_RETRANSMIT' (one copy more or fewer would be sent)")
		okD := false
		for _, c := range core.CallsNamed(f, "time.Time.After", "time.Time.Before") {
			if later, _, isA := core.TimeAfter(c); isA && core.Unwrap(later) == ssa.Value(f.Params[1]) {
				okD = true
			}
		}
		e.R.Check(okD, rule, "udp/client.midElement.IsExpired:deadline", e.fpos(f), "… or now.After(deadline) when a deadline is set", "the caller's deadline no longer expires the entry")
	}
	if f := e.fn(rule, "udp/client.midElement.Retransmit"); f != nil && len(f.Params) == 3 {
		// now.After(start.Add(ackTimeout * Duration(count+1)))
		okMul := false
		core.Instrs(f, func(in ssa.Instruction) {
			m, isM := in.(*ssa.BinOp)
			if !isM || m.Op != token.MUL {
				return
			}
			for _, pr := range [][2]ssa.Value{{m.X, m.Y}, {m.Y, m.X}} {
				if core.Unwrap(pr[0]) != ssa.Value(f.Params[2]) {
					continue
				}
				add, isAdd := core.Unwrap(pr[1]).(*ssa.BinOp)
				if !isAdd || add.Op != token.ADD {
					continue
				}
				if k, isK := core.ConstInt(add.Y); isK && k == 1 && isAtomicLoadOf(add.X, "retransmit") {
					okMul = true
				}
			}
		})
		e.R.Check(okMul, rule, "udp/client.midElement.Retransmit:multiplier", e.fpos(f), "the k-th copy is due after ACK_TIMEOUT·(count+1)", "the due time is not ACK_TIMEOUT·(count+1)")
		okStart := false
		for _, c := range core.CallsNamed(f, "time.Time.Add") {
			if ld, isLd := core.Arg(c, 0).(*ssa.UnOp); isLd {
				if _, fl, ok := core.FieldOf(ld.X); ok && fl == "start" {
					okStart = true
				}
			}
		}
		e.R.Check(okStart, rule, "udp/client.midElement.Retransmit:from-start", e.fpos(f), "measured from the entry's start time", "the due time is not measured from the first transmission")
		// Inc only on the true result
		okInc := false
		var afterIf *ssa.If
		for _, i := range core.IfsOf(f) {
			cond, _ := core.StripNot(i.Cond)
			if _, _, _, ok := core.CondTimeAfter(cond); ok {
				afterIf = i
			}
		}
		if afterIf != nil {
			for _, c := range core.Calls(f, func(n string, _ ssa.CallInstruction) bool {
				return strings.HasSuffix(n, "atomic.Uint32.Inc") || strings.HasSuffix(n, "atomic.Uint32.Add")
			}) {
				if core.OnlyViaEdge(afterIf, true, c.(ssa.Instruction)) {
					okInc = true
				}
			}
		}
		e.R.Check(okInc, rule, "udp/client.midElement.Retransmit:inc-on-true", e.fpos(f), "the counter is incremented exactly when a copy is due", "the retransmit counter is not incremented exactly on the due edge")
	}
	// timer origin after the NSTART wait
	if f := e.fn(rule, "udp/client.Conn.prepareWriteMessage"); f != nil {
		acqs := core.CallsNamed(f, "udp/client.Conn.acquireOutstandingInteraction")
		ok, why := false, "start time of the pending entry not found"
		core.Instrs(f, func(in ssa.Instruction) {
			st, isSt := in.(*ssa.Store)
			if !isSt {
				return
			}
			if _, fl, isF := core.FieldOf(st.Addr); !isF || fl != "start" {
				return
			}
			var now *ssa.Call
			for _, v := range core.ResolveIn(f, st.Val) {
				c, isCall := v.(*ssa.Call)
				if !isCall || core.CalleeName(c) != "time.Now" {
					why = "start is not time.Now()"
					return
				}
				now = c
			}
			if now == nil {
				return
			}
			ok = len(acqs) == 1
			if ok {
				// time.Now() must not be evaluated before the wait: the acquire call must not be reachable after it
				q := &core.PathQuery{Fn: f, From: now, Target: func(x ssa.Instruction) bool { return x == acqs[0].(ssa.Instruction) }}
				if q.Find() != nil {
					ok, why = false, "the retransmission timer origin is taken before the wait for an NSTART slot: copies come early by the waiting time"
				}
			}
		})
		e.R.Check(ok, rule, "udp/client.Conn.prepareWriteMessage:start-after-nstart", e.fpos(f), "the entry's start time is time.Now() evaluated after the NSTART wait", why)
	}
}

func phiLeaves(v ssa.Value) []ssa.Value { return phiLeavesOpt(v, false) }

// phiLeavesCells also looks through result cells (named results of a function with defers): the values stored into them.
func phiLeavesCells(v ssa.Value) []ssa.Value { return phiLeavesOpt(v, true) }

func phiLeavesOpt(v ssa.Value, cells bool) []ssa.Value {
	seen := map[ssa.Value]bool{}
	var out []ssa.Value
	var walk func(x ssa.Value)
	walk = func(x ssa.Value) {
		if seen[x] {
			return
		}
		seen[x] = true
		if p, ok := x.(*ssa.Phi); ok {
			for _, ed := range p.Edges {
				walk(ed)
			}
			return
		}
		// a result of a helper analysed as part of this function: whatever the helper can return there
		var call *ssa.Call
		idx := 0
		switch y := x.(type) {
		case *ssa.Extract:
			call, _ = y.Tuple.(*ssa.Call)
			idx = y.Index
		case *ssa.Call:
			call = y
		}
		if call != nil {
			if h := core.AbsorbedCallee(call); h != nil {
				n := 0
				for _, r := range core.ReturnsOf(h) {
					if idx < len(r.Results) {
						walk(core.RetVal(r, idx))
						n++
					}
				}
				if n > 0 {
					return
				}
			}
		}
		// a load of a result cell (named results with defers): the values stored into it
		if ld, ok := x.(*ssa.UnOp); ok && cells && ld.Op == token.MUL {
			if a, isA := ld.X.(*ssa.Alloc); isA && !core.CellEscapes(a) {
				sts := core.StoresToCell(a)
				if len(sts) > 0 {
					for _, st := range sts {
						walk(st.Val)
					}
					return
				}
			}
		}
		out = append(out, x)
	}
	walk(v)
	return out
}

func isAtomicLoadOf(v ssa.Value, field string) bool {
	c, ok := core.Unwrap(v).(*ssa.Call)
	if !ok || !strings.HasSuffix(core.CalleeName(c), ".Load") {
		return false
	}
	recv := core.Arg(c, 0)
	if ld, isLd := recv.(*ssa.UnOp); isLd && ld.Op == token.MUL {
		recv = ld.X // pointer-typed field: the receiver is the loaded pointer
	}
	_, fl, ok := core.FieldOf(recv)
	return ok && fl == field
}

func c06CloneSource(e *Env, chk *ssa.Function) {
	rule := "C06.R3"
	if chk != nil {
		ok := false
		for _, w := range core.Calls(chk, func(n string, _ ssa.CallInstruction) bool { return strings.HasSuffix(n, "Session.WriteMessage") }) {
			if ex, isEx := core.Resolve(core.Arg(w, 1)).(*ssa.Extract); isEx && ex.Index == 0 {
				if gc, isCall := ex.Tuple.(*ssa.Call); isCall && core.CalleeName(gc) == "udp/client.midElement.GetMessage" {
					ok = true
				}
			}
		}
		e.R.Check(ok, rule, "udp/client.Conn.checkMidHandlerContainer:sends-GetMessage-clone", e.fpos(chk), "the message retransmitted is the one GetMessage returned", "the retransmitted message is not obtained from the pending entry's GetMessage")
	}
	if f := e.fn(rule, "udp/client.midElement.GetMessage"); f != nil {
		ok := false
		for _, c := range core.CallsNamed(f, "message/pool.Message.Clone") {
			src := core.Arg(c, 0)
			if ld, isLd := src.(*ssa.UnOp); isLd {
				if _, fl, isF := core.FieldOf(ld.X); isF && fl == "msg" {
					if ac, isCall := core.Resolve(core.Arg(c, 1)).(*ssa.Call); isCall && strings.HasSuffix(core.CalleeName(ac), ".AcquireMessage") {
						ok = true
					}
				}
			}
		}
		e.R.Check(ok, rule, "udp/client.midElement.GetMessage:clone-of-private", e.fpos(f), "GetMessage clones the entry's private copy into a freshly acquired message", "GetMessage does not hand out a fresh clone of the private copy")
	}
	if f := e.fn(rule, "udp/client.Conn.prepareWriteMessage"); f != nil && len(f.Params) == 3 {
		ok := false
		core.Instrs(f, func(in ssa.Instruction) {
			st, isSt := in.(*ssa.Store)
			if !isSt {
				return
			}
			if _, fl, isF := core.FieldOf(st.Addr); !isF || fl != "msg" {
				return
			}
			// the stored message is the target of req.Clone(msg) (for every way the store is reached from this function)
			vs := core.ResolveIn(f, st.Val)
			all := len(vs) > 0
			for _, v := range vs {
				isClone := false
				for _, c := range core.CallsNamed(f, "message/pool.Message.Clone") {
					if core.Resolve(core.Arg(c, 0)) == ssa.Value(f.Params[1]) && core.Resolve(core.Arg(c, 1)) == v {
						isClone = true
					}
				}
				if v == ssa.Value(f.Params[1]) || !isClone {
					all = false
				}
			}
			if all {
				ok = true
			}
		})
		e.R.Check(ok, rule, "udp/client.Conn.prepareWriteMessage:stores-private-clone", e.fpos(f), "the pending entry holds req.Clone(msg) of a freshly acquired message, not the caller's message", "the pending entry holds the caller's message (later edits would change retransmissions)")
	}
	if f := e.fn(rule, "message/pool.Message.Clone"); f != nil {
		var cp ssa.Instruction
		for _, c := range core.Calls(f, func(n string, _ ssa.CallInstruction) bool { return n == "io.Copy" || n == "io.ReadAll" }) {
			cp = c.(ssa.Instruction)
		}
		ok := false
		if cp != nil {
			core.Instrs(f, func(in ssa.Instruction) {
				c, isCall := in.(*ssa.Call)
				if !isCall || !c.Call.IsInvoke() || c.Call.Method.Name() != "Seek" {
					return
				}
				off, isK := core.ConstInt(c.Call.Args[0])
				wh, isW := core.ConstInt(c.Call.Args[1])
				if isK && isW && off == 0 && wh == 0 && core.Dominates(c, cp) {
					ok = true
				}
			})
		}
		e.R.Check(ok, rule, "message/pool.Message.Clone:rewinds-body", e.fpos(f), "Seek(0, io.SeekStart) on the source body dominates the copy", "Clone copies the body from the reader's current offset: a retransmission would carry a truncated payload")
	}
}

// c06Removals: every removal from midHandlerContainer is followed by ReleaseMessage of the removed element.
func c06Removals(e *Env) {
	rule := "C06.R4"
	n := 0
	for _, f := range e.P.SrcFuncs(false) {
		for _, c := range core.Calls(f, func(nm string, ci ssa.CallInstruction) bool {
			return (nm == "pkg/sync.Map.LoadAndDelete" || nm == "pkg/sync.Map.Delete") && strings.HasSuffix(tableOf(ci), "Conn.midHandlerContainer")
		}) {
			n++
			construct := core.FnName(f) + ":" + shortType(core.CalleeName(c)) + " pending ⇒ release"
			call := c.(*ssa.Call)
			rel := func(in ssa.Instruction) bool {
				rc, ok := in.(*ssa.Call)
				return ok && core.CalleeName(rc) == "udp/client.midElement.ReleaseMessage"
			}
			q := &core.PathQuery{Fn: f, From: call, Stop: rel, Target: core.IsReturn}
			if core.CalleeName(c) == "pkg/sync.Map.LoadAndDelete" {
				// only the found edge has something to release
				q.EdgeOK = func(i *ssa.If, branch bool) bool {
					cond, neg := core.StripNot(i.Cond)
					if ex, isEx := cond.(*ssa.Extract); isEx && ex.Tuple == ssa.Value(call) && ex.Index == 1 {
						return branch != neg
					}
					return true
				}
			}
			w := q.Find()
			e.R.Check(w == nil, rule, construct, e.pos(call), "after the removal every path releases the element's retransmission copy", "an entry is removed from the pending table but its copy is kept (a sweep that already holds the element could still retransmit it): "+e.trace(w))
		}
	}
	if n < 4 {
		e.R.Undecided(rule, "pending-table:removals", "-", fmt.Sprintf("only %d removal sites found, 5 were confirmed by hand", n))
	}
	// ACK/RST arm: release before the handler that wakes the writer
	if f := e.fn(rule, "udp/client.Conn.handleSpecialMessages"); f != nil {
		rels := core.CallsNamed(f, "udp/client.midElement.ReleaseMessage")
		var wake ssa.Instruction
		core.Instrs(f, func(in ssa.Instruction) {
			c, ok := in.(*ssa.Call)
			if !ok {
				return
			}
			if ld, isLd := c.Call.Value.(*ssa.UnOp); isLd {
				if _, fl, isF := core.FieldOf(ld.X); isF && fl == "handler" {
					wake = c
				}
			}
		})
		ok := len(rels) == 1 && wake != nil && core.Dominates(rels[0].(ssa.Instruction), wake)
		e.R.Check(ok, rule, "udp/client.Conn.handleSpecialMessages:release-before-wake", e.fpos(f), "the copy is released before the entry's handler wakes the writer", "the writer can be woken (and return) before the retransmission copy is released")
	}
	// GetMessage yields nothing after release
	if f := e.fn(rule, "udp/client.midElement.GetMessage"); f != nil {
		ok := false
		for _, i := range core.IfsOf(f) {
			cmp, isCmp := core.EdgeFacts(i, true)
			if !isCmp || cmp.Op != token.EQL {
				continue
			}
			if ld, isLd := cmp.X.(*ssa.UnOp); isLd && core.IsNilConst(cmp.Y) {
				if _, fl, isF := core.FieldOf(ld.X); isF && fl == "msg" {
					blk := i.Block().Succs[0]
					if ret, isRet := blk.Instrs[len(blk.Instrs)-1].(*ssa.Return); isRet {
						// "nothing to send" is the false flag or, in a signature without a flag, the nil message
						hasFlag := false
						for k := range ret.Results {
							if b, isB := core.ConstBool(core.RetVal(ret, k)); isB {
								hasFlag = true
								if !b {
									ok = true
								}
							}
						}
						if !hasFlag && len(ret.Results) >= 1 && core.IsNilConst(core.RetVal(ret, 0)) {
							ok = true
						}
					}
				}
			}
		}
		e.R.Check(ok, rule, "udp/client.midElement.GetMessage:nothing-after-release", e.fpos(f), "a released entry (msg == nil) yields no message to send", "a released entry can still yield a message")
	}
	// ReleaseMessage nils the copy in the same critical section (C12.R5)
	if f := e.fn(rule, "udp/client.midElement.ReleaseMessage"); f != nil {
		la := core.AnalyzeLocks(f)
		okNil := false
		core.Instrs(f, func(in ssa.Instruction) {
			st, isSt := in.(*ssa.Store)
			if !isSt || !core.IsNilConst(st.Val) {
				return
			}
			if _, fl, isF := core.FieldOf(st.Addr); isF && fl == "msg" && len(la.At(st)) > 0 {
				okNil = true
			}
		})
		e.R.Check(okNil, rule, "udp/client.midElement.ReleaseMessage:nils-under-lock", e.fpos(f), "the copy pointer is set to nil under the entry's lock when released", "the released copy is not forgotten under the lock: it can be released or used again")
	}
}

// c06ParamChain follows MAX_RETRANSMIT, ACK_TIMEOUT and NSTART from the configuration a user sets to the comparison that
// uses them. Each link is a field-to-field copy visible in the code; a dropped link leaves the default in force silently.
func c06ParamChain(e *Env, chk *ssa.Function) {
	rule := "C06.R7"
	params := []string{"TransmissionNStart", "TransmissionAcknowledgeTimeout", "TransmissionMaxRetransmit"}
	// link 1: the servers copy their own setting into the per-peer connection's config
	for _, fn := range []string{"udp/server.Server.getOrCreateConn", "dtls/server.Server.createConn"} {
		f := e.fn(rule, fn)
		if f == nil {
			continue
		}
		for _, p := range params {
			ok := false
			core.Instrs(f, func(in ssa.Instruction) {
				st, isSt := in.(*ssa.Store)
				if !isSt {
					return
				}
				if own, fl, isF := core.FieldOf(st.Addr); !isF || fl != p || own != "udp/client.Config" {
					return
				}
				ld, isLd := core.Unwrap(st.Val).(*ssa.UnOp)
				if !isLd || ld.Op != token.MUL {
					return
				}
				fa, isFA := ld.X.(*ssa.FieldAddr)
				if !isFA {
					return
				}
				if _, fl2, ok2 := core.FieldOf(fa); !ok2 || fl2 != p {
					return
				}
				base := fa.X
				if bl, isBl := base.(*ssa.UnOp); isBl && bl.Op == token.MUL {
					base = bl.X // s.cfg is a pointer
				}
				if _, fl3, ok3 := core.FieldOf(base); ok3 && fl3 == "cfg" {
					ok = true
				}
			})
			e.R.Check(ok, rule, fn+":copies "+p, e.fpos(f), "cfg."+p+" = s.cfg."+p, "the per-peer connection no longer receives the server's "+p+": the default stays in force whatever the user configured")
		}
	}
	// link 2: the connection's Transmission is built from the same-named config fields, in the struct's own order
	if f := e.fn(rule, "udp/client.NewConnWithOpts"); f != nil {
		want := map[string]string{"nStart": "TransmissionNStart", "acknowledgeTimeout": "TransmissionAcknowledgeTimeout", "maxRetransmit": "TransmissionMaxRetransmit"}
		got := map[string]bool{}
		core.Instrs(f, func(in ssa.Instruction) {
			st, isSt := in.(*ssa.Store)
			if !isSt {
				return
			}
			own, fl, isF := core.FieldOf(st.Addr)
			if !isF || own != "udp/client.Transmission" {
				return
			}
			c, isC := core.Unwrap(st.Val).(*ssa.Call)
			if !isC || len(c.Call.Args) != 1 {
				return
			}
			ld, isLd := core.Unwrap(c.Call.Args[0]).(*ssa.UnOp)
			if !isLd {
				return
			}
			if _, src, ok := core.FieldOf(ld.X); ok && src == want[fl] {
				got[fl] = true
			}
		})
		for _, fl := range []string{"nStart", "acknowledgeTimeout", "maxRetransmit"} {
			e.R.Check(got[fl], rule, "udp/client.NewConnWithOpts:"+fl, e.fpos(f), "Transmission."+fl+" initialised from cfg."+want[fl], "Transmission."+fl+" is not initialised from cfg."+want[fl])
		}
	}
	// link 3: CheckExpirations reads the live values and hands them to checkMidHandlerContainer
	if f := e.fn(rule, "udp/client.Conn.CheckExpirations"); f != nil {
		for _, fl := range []string{"maxRetransmit", "acknowledgeTimeout"} {
			ok := false
			core.Instrs(f, func(in ssa.Instruction) {
				if c, isC := in.(*ssa.Call); isC && isAtomicLoadOf(c, fl) {
					ok = true
				}
			})
			e.R.Check(ok, rule, "udp/client.Conn.CheckExpirations:loads "+fl, e.fpos(f), "the pass reads transmission."+fl+" atomically", "the pass does not read transmission."+fl)
		}
	}
	// link 4: checkMidHandlerContainer passes its own parameters to the predicates
	if chk != nil && len(chk.Params) >= 2 {
		// "the pass's X": the parameter named X, or the field named X of a parameter that groups the values of one pass
		passValue := func(v ssa.Value, name string) bool {
			v = core.Unwrap(v)
			if p, isP := v.(*ssa.Parameter); isP {
				return p.Parent() == chk && p.Name() == name
			}
			var base ssa.Value
			var fl string
			var okF bool
			switch x := v.(type) {
			case *ssa.Field:
				_, fl, okF = core.FieldOf(x)
				base = x.X
			case *ssa.UnOp:
				if fa, isFA := x.X.(*ssa.FieldAddr); isFA && x.Op == token.MUL {
					_, fl, okF = core.FieldOf(fa)
					base = fa.X
				}
			}
			if !okF || fl != name {
				return false
			}
			for i := 0; i < 4 && base != nil; i++ {
				switch b := base.(type) {
				case *ssa.Parameter:
					return b.Parent() == chk
				case *ssa.UnOp:
					base = b.X
				case *ssa.Alloc:
					// a parameter spilled to a local cell
					for _, st := range core.StoresToCell(b) {
						if pp, isP := st.Val.(*ssa.Parameter); isP && pp.Parent() == chk {
							return true
						}
					}
					return false
				default:
					return false
				}
			}
			return false
		}
		for _, l := range []struct {
			callee string
			what   string
		}{{"udp/client.midElement.IsExpired", "maxRetransmit"}, {"udp/client.midElement.Retransmit", "acknowledgeTimeout"}} {
			cs := core.CallsNamed(chk, l.callee)
			ok := len(cs) > 0
			for _, c := range cs {
				if !passValue(core.Arg(c, 2), l.what) {
					ok = false
				}
			}
			e.R.Check(ok, rule, "udp/client.Conn.checkMidHandlerContainer:passes "+l.what, e.fpos(chk), shortType(l.callee)+" receives the pass's "+l.what, shortType(l.callee)+" is not given the "+l.what+" the pass read")
		}
	}
}

// keyFromOnly: v is the decimal rendering of p and of nothing else: strconv.Itoa(int(p)), strconv.FormatInt(int64(p), 10),
// possibly through a helper analysed as part of the caller.
func keyFromOnly(v ssa.Value, p ssa.Value, d int) bool {
	return keyFromPred(v, func(x ssa.Value) bool { return x == p }, d)
}

// keyFromPred: v is an injective rendering (decimal string, conversions) of a value satisfying src, and of nothing else.
func keyFromPred(v ssa.Value, src func(ssa.Value) bool, d int) bool {
	if d > 4 {
		return false
	}
	v = core.Unwrap(v)
	if src(v) {
		return true
	}
	c, ok := v.(*ssa.Call)
	if !ok {
		r := core.Resolve(v)
		return r != v && keyFromPred(r, src, d+1)
	}
	switch core.CalleeName(c) {
	case "strconv.Itoa":
		return keyFromPred(c.Call.Args[0], src, d+1)
	case "strconv.FormatInt", "strconv.FormatUint":
		base, isK := core.ConstInt(c.Call.Args[1])
		return isK && base == 10 && keyFromPred(c.Call.Args[0], src, d+1)
	}
	if h := core.AbsorbedCallee(c); h != nil {
		for _, r := range core.ReturnsOf(h) {
			if len(r.Results) != 1 {
				return false
			}
			okRet := false
			for k, hp := range h.Params {
				if k < len(c.Call.Args) && keyFromOnly(core.RetVal(r, 0), hp, d+1) && keyFromPred(c.Call.Args[k], src, d+1) {
					okRet = true
				}
			}
			if !okRet {
				return false
			}
		}
		return true
	}
	return false
}

// typeOnly: v is computed from the request's type and constants / package-level tables only.
func typeOnly(v ssa.Value, isType func(ssa.Value) bool, d int) bool {
	if d > 5 {
		return false
	}
	v = core.Unwrap(v)
	if isType(v) {
		return true
	}
	switch x := v.(type) {
	case *ssa.Const:
		return true
	case *ssa.Extract:
		return typeOnly(x.Tuple, isType, d+1)
	case *ssa.Lookup:
		return globalLoad(x.X) && typeOnly(x.Index, isType, d+1)
	case *ssa.BinOp:
		return typeOnly(x.X, isType, d+1) && typeOnly(x.Y, isType, d+1)
	case *ssa.UnOp:
		if x.Op == token.MUL {
			if ia, ok := x.X.(*ssa.IndexAddr); ok {
				return globalLoad(ia.X) && typeOnly(ia.Index, isType, d+1)
			}
			r := core.Resolve(x)
			return r != ssa.Value(x) && typeOnly(r, isType, d+1)
		}
		return typeOnly(x.X, isType, d+1)
	}
	return false
}

func globalLoad(v ssa.Value) bool {
	if ld, ok := v.(*ssa.UnOp); ok && ld.Op == token.MUL {
		_, isG := ld.X.(*ssa.Global)
		return isG
	}
	_, isG := v.(*ssa.Global)
	return isG
}

type ackWait struct {
	root *ssa.Function
	w    core.Wait
}

// udpAckWaits: the blocking selects of udp/client that wait for the acknowledgement signal – a receive from a chan struct{}
// that is neither a context's Done channel nor a timer. Found by role, wherever the select lives (its own function, or inlined
// into the writer).
func udpAckWaits(e *Env) []ackWait {
	var out []ackWait
	seen := map[ssa.Instruction]bool{}
	for _, f := range e.P.SrcFuncs(false) {
		if !strings.HasPrefix(core.FnName(f), "udp/client.") {
			continue
		}
		for _, w := range core.WaitsOf(f) {
			if w.Kind != "select" || !w.Blocking || seen[w.Instr] {
				continue
			}
			for _, c := range w.Cases {
				if c.Dir != types.RecvOnly || c.Chan == nil {
					continue
				}
				isSignal := func(t types.Type) bool {
					ct, ok := t.Underlying().(*types.Chan)
					if !ok {
						return false
					}
					st, isStruct := ct.Elem().Underlying().(*types.Struct)
					return isStruct && st.NumFields() == 0
				}
				sig := isSignal(c.Chan.Type())
				if !sig {
					// the wait lives in a generic helper (`<-chan T`): the channels its callers pass
					for _, alt := range core.ResolveAll(c.Chan) {
						if alt != nil && isSignal(alt.Type()) {
							sig = true
						}
					}
				}
				if !sig {
					continue
				}
				if c.Class == "req-ctx" || c.Class == "conn-ctx" || c.Class == "ctx" || c.Class == "timer" {
					continue
				}
				if c.Class == "done" && !fieldOfOtherObject(f, c.Chan) {
					continue
				}
				seen[w.Instr] = true
				out = append(out, ackWait{f, w})
			}
		}
	}
	return out
}

// fieldOfOtherObject: the channel is a field of an object other than the receiver of the waiting method (a per-request waiter
// struct handed in or built locally, whatever its field is called) – the connection's own done/stop channels are fields of the receiver.
func fieldOfOtherObject(f *ssa.Function, ch ssa.Value) bool {
	ld, ok := core.Resolve(ch).(*ssa.UnOp)
	if !ok || ld.Op != token.MUL {
		return false
	}
	fa, ok := ld.X.(*ssa.FieldAddr)
	if !ok {
		return false
	}
	base := core.Resolve(fa.X)
	if f.Signature.Recv() != nil && len(f.Params) > 0 && base == ssa.Value(f.Params[0]) {
		return false
	}
	if _, isFA := base.(*ssa.UnOp); isFA {
		// a field of a field of something: not a per-request object
		return false
	}
	return true
}

// fieldWrittenOnce: v is a load of a struct field that is stored exactly once in the whole module, and that store writes an integer
// constant: the constant. (A configuration constant moved into a field the constructor initialises.)
func fieldWrittenOnce(e *Env, v ssa.Value) (int64, bool) {
	ld, ok := core.Unwrap(v).(*ssa.UnOp)
	if !ok || ld.Op != token.MUL {
		return 0, false
	}
	owner, field, ok := core.FieldOf(ld.X)
	if !ok {
		return 0, false
	}
	n := 0
	var val ssa.Value
	for _, f := range e.P.AllSrcFuncs(false) {
		core.InstrsOwn(f, func(in ssa.Instruction) {
			st, isSt := in.(*ssa.Store)
			if !isSt {
				return
			}
			if o, fl, isF := core.FieldOf(st.Addr); isF && o == owner && fl == field {
				n++
				val = st.Val
			}
		})
	}
	if n != 1 {
		return 0, false
	}
	return core.ConstInt(val)
}

package rules

import (
	"fmt"
	"go/token"
	"go/types"
	"strings"

	"coapcheck/internal/core"

	"golang.org/x/tools/go/ssa"
)

// Rules added after the mutation sweep (DESIGN §7.1): the functions in which the most single-token mutants went unreported.
// Each obligation is a necessary condition of the property it is reported under.

// edgeHolds reports what is known on an If edge: either a comparison (normalised) or a boolean call / value being true or false.
type edgeFact struct {
	cmp    core.Cmp
	isCmp  bool
	val    ssa.Value // the (un-negated) boolean condition when it is not a comparison
	isTrue bool      // val holds / does not hold on this edge
}

func factOf(i *ssa.If, br bool) edgeFact {
	if c, ok := core.EdgeFacts(i, br); ok {
		return edgeFact{cmp: c, isCmp: true}
	}
	cond, neg := core.StripNot(i.Cond)
	t := br
	if neg {
		t = !t
	}
	return edgeFact{val: cond, isTrue: t}
}

func isCallTo(v ssa.Value, suffix string) (*ssa.Call, bool) {
	c, ok := core.Resolve(core.Unwrap(v)).(*ssa.Call)
	if !ok {
		return nil, false
	}
	return c, strings.HasSuffix(core.CalleeName(c), suffix)
}

func isLenOfCall(v ssa.Value, suffix string) bool {
	c, ok := core.Resolve(core.Unwrap(v)).(*ssa.Call)
	if !ok {
		return false
	}
	if b, isB := c.Call.Value.(*ssa.Builtin); !isB || b.Name() != "len" {
		return false
	}
	_, is := isCallTo(c.Call.Args[0], suffix)
	return is
}

// c04Dispositions (C04.R13): the reassembly step of the block-wise layer disposes of every message it accepts.
//
//	disposed       every return without an error has handed the message on (next) or answered it (SetMessage)
//	no-bypass      the received message itself is handed on only where the layer has nothing to do with it: no token, a GET/DELETE,
//	               no block option, or the only block of a body (M = 0) – never a block that has M = 1
//	first-only     … and then only when no transfer is in progress for the token (a last block is not a whole body)
//	rewound        the reassembled body is handed on rewound to offset 0
//	next-step      the message that asks for the next block carries the token, a code and the block option, and – when it copies the
//	               original request – neither its Observe nor its Block1/Size1 options
func c04Dispositions(e *Env, rule string) {
	q := bw + ".processReceivedMessage"
	f := e.fn(rule, q)
	if f == nil {
		return
	}
	var nextParam, rParam *ssa.Parameter
	for _, p := range f.Params {
		if _, isSig := p.Type().Underlying().(*types.Signature); isSig && nextParam == nil {
			nextParam = p
		}
		if core.IsNamed(p.Type(), "message/pool.Message") && rParam == nil {
			rParam = p
		}
	}
	if nextParam == nil || rParam == nil {
		e.R.Undecided(rule, q+":shape", e.fpos(f), "no continuation parameter / received-message parameter")
		return
	}
	isNext := func(in ssa.Instruction) bool {
		c, ok := in.(*ssa.Call)
		return ok && core.Resolve(c.Call.Value) == ssa.Value(nextParam)
	}
	isSet := func(in ssa.Instruction) bool {
		c, ok := in.(*ssa.Call)
		return ok && strings.HasSuffix(core.CalleeName(c), "ResponseWriter.SetMessage")
	}
	passesOwn := func(in ssa.Instruction) bool {
		c, ok := in.(*ssa.Call)
		return ok && isNext(in) && len(c.Call.Args) == 2 && core.Resolve(c.Call.Args[1]) == ssa.Value(rParam)
	}
	// disposed
	w := (&core.PathQuery{Fn: f, Stop: func(in ssa.Instruction) bool { return isNext(in) || isSet(in) },
		Target: func(in ssa.Instruction) bool {
			ret, ok := in.(*ssa.Return)
			return ok && len(ret.Results) == 1 && core.IsNilConst(core.RetVal(ret, 0))
		}}).Find()
	e.R.Check(w == nil, rule, q+":disposed", e.fpos(f), "every return without an error has handed the message on or answered it", "a message is accepted (nil error) but neither handed on nor answered – it is silently dropped: "+e.trace(w))

	var decode *ssa.Call
	for _, c := range core.CallsNamed(f, "net/blockwise.DecodeBlockOption") {
		decode, _ = c.(*ssa.Call)
	}
	isMore := func(v ssa.Value) bool {
		ex, ok := core.Resolve(v).(*ssa.Extract)
		return ok && decode != nil && ex.Tuple == ssa.Value(decode) && ex.Index == 2
	}
	legit := func(i *ssa.If, br bool) bool {
		fct := factOf(i, br)
		if fct.isCmp {
			c := fct.cmp
			if c.Op != token.EQL {
				return false
			}
			for _, xy := range [][2]ssa.Value{{c.X, c.Y}, {c.Y, c.X}} {
				k, isK := core.ConstInt(xy[1])
				if !isK {
					continue
				}
				if k == 0 && isLenOfCall(xy[0], "pool.Message.Token") {
					return true // no token
				}
				if _, is := isCallTo(xy[0], "pool.Message.Code"); is && (k == 1 || k == 4) {
					return true // GET / DELETE
				}
			}
			return false
		}
		if c, ok := fct.val.(*ssa.Call); ok && fct.isTrue && core.CalleeName(c) == "errors.Is" {
			if g, isG := core.Unwrap(core.Arg(c, 1)).(*ssa.UnOp); isG {
				if gl, isGl := g.X.(*ssa.Global); isGl && gl.Name() == "ErrOptionNotFound" {
					return true // no block option
				}
			}
		}
		if isMore(fct.val) && !fct.isTrue {
			return true // M = 0
		}
		return false
	}
	w = (&core.PathQuery{Fn: f, Target: passesOwn, EdgeOK: func(i *ssa.If, br bool) bool { return !legit(i, br) }}).Find()
	e.R.Check(w == nil && decode != nil, rule, q+":no-bypass", e.fpos(f), "the received message itself is handed on only without token, for GET/DELETE, without a block option or with M = 0", "a message that is one block of a larger body can be handed to the application as if it were the whole body: "+e.trace(w))

	// first-only: after the option was decoded, handing the received message on needs `no transfer in progress` (the guard looked up is nil)
	if decode != nil {
		w = (&core.PathQuery{Fn: f, From: decode, Target: passesOwn, EdgeOK: func(i *ssa.If, br bool) bool {
			c, ok := core.EdgeFacts(i, br)
			if !ok || c.Op != token.EQL {
				return true
			}
			for _, xy := range [][2]ssa.Value{{c.X, c.Y}, {c.Y, c.X}} {
				if core.IsNilConst(xy[1]) && strings.Contains(xy[0].Type().String(), "messageGuard") {
					return false
				}
			}
			return true
		}}).Find()
		e.R.Check(w == nil, rule, q+":first-only", e.pos(decode), "a received block is handed on as a whole body only when no reassembly is in progress for its token", "the last block of a transfer in progress can be handed on alone (the bytes collected so far are lost): "+e.trace(w))
	}

	// rewound
	n, bad := 0, ""
	core.Instrs(f, func(in ssa.Instruction) {
		c, ok := in.(*ssa.Call)
		if !ok || !isNext(in) || passesOwn(in) || len(c.Call.Args) != 2 {
			return
		}
		n++
		msg := core.Resolve(c.Call.Args[1])
		okSeek := false
		core.Instrs(f, func(in2 ssa.Instruction) {
			s, isC := in2.(*ssa.Call)
			if !isC || !s.Call.IsInvoke() || s.Call.Method.Name() != "Seek" || len(s.Call.Args) != 2 {
				return
			}
			body, isB := isCallTo(s.Call.Value, "pool.Message.Body")
			if !isB || core.Resolve(core.Arg(body, 0)) != msg {
				return
			}
			off, ok1 := core.ConstInt(s.Call.Args[0])
			wh, ok2 := core.ConstInt(s.Call.Args[1])
			if ok1 && ok2 && off == 0 && wh == 0 && core.Dominates(s, c) {
				okSeek = true
			}
		})
		if !okSeek {
			bad = "the reassembled message handed on at " + e.pos(c) + " is not rewound with Body().Seek(0, io.SeekStart) first"
		}
	})
	e.R.Check(bad == "" && n >= 1, rule, q+":rewound", e.fpos(f), fmt.Sprintf("%d hand-off(s) of the reassembled message, each after Seek(0, SeekStart) on its body", n), bad)

	// next-step message
	core.Instrs(f, func(in ssa.Instruction) {
		if !isSet(in) {
			return
		}
		c := in.(*ssa.Call)
		msg := valueKey(core.Arg(c, 1))
		acq, isAcq := msg.(*ssa.Call)
		if a, isCell := msg.(*ssa.Alloc); isCell {
			for _, st := range core.StoresToCell(a) {
				if cl, ok := core.Resolve(st.Val).(*ssa.Call); ok && strings.HasSuffix(core.CalleeName(cl), "AcquireMessage") {
					acq, isAcq = cl, true
				}
			}
		}
		if !isAcq {
			e.R.Undecided(rule, q+":next-step", e.pos(c), "the answer is not a message acquired in this function")
			return
		}
		onMsg := func(method string, arg1 func(ssa.Value) bool) func(ssa.Instruction) bool {
			return func(x ssa.Instruction) bool {
				cc, ok := x.(*ssa.Call)
				if !ok || !strings.HasSuffix(core.CalleeName(cc), "pool.Message."+method) || valueKey(core.Arg(cc, 0)) != msg {
					return false
				}
				return arg1 == nil || arg1(core.Arg(cc, 1))
			}
		}
		isConst := func(k int64) func(ssa.Value) bool {
			return func(v ssa.Value) bool { x, ok := core.ConstInt(v); return ok && x == k }
		}
		var missing []string
		for _, m := range []struct {
			name string
			pred func(ssa.Instruction) bool
		}{{"SetToken", onMsg("SetToken", nil)}, {"SetCode", onMsg("SetCode", nil)}, {"SetOptionUint32(block option)", onMsg("SetOptionUint32", nil)}} {
			if w := (&core.PathQuery{Fn: f, From: acq, Stop: m.pred, Target: func(x ssa.Instruction) bool { return x == ssa.Instruction(c) }}).Find(); w != nil {
				missing = append(missing, m.name)
			}
		}
		core.Instrs(f, func(x ssa.Instruction) {
			if !onMsg("ResetOptionsTo", nil)(x) {
				return
			}
			for _, m := range []struct {
				name string
				id   int64
			}{{"Remove(Observe)", 6}, {"Remove(Block1)", 27}, {"Remove(Size1)", 60}} {
				if w := (&core.PathQuery{Fn: f, From: x, Stop: onMsg("Remove", isConst(m.id)), Target: func(y ssa.Instruction) bool { return y == ssa.Instruction(c) }}).Find(); w != nil {
					missing = append(missing, m.name)
				}
			}
		})
		e.R.Check(len(missing) == 0, rule, q+":next-step", e.pos(c), "the request for the next block carries token, code and block option and drops the original request's Observe/Block1/Size1", "the request for the next block lacks: "+strings.Join(missing, ", "))
	})
}

// sizeSide classifies a comparison against the body size: returns the comparison normalised to (other OP size).
func sizeSide(c core.Cmp) (other ssa.Value, op token.Token, ok bool) {
	isSize := func(v ssa.Value) bool {
		v = core.Resolve(core.Unwrap(v))
		if cv, isCv := v.(*ssa.Convert); isCv {
			v = core.Resolve(cv.X)
		}
		ex, isEx := v.(*ssa.Extract)
		if !isEx {
			return false
		}
		cl, isC := ex.Tuple.(*ssa.Call)
		return isC && core.CalleeName(cl) == "message/pool.Message.BodySize"
	}
	switch {
	case isSize(c.Y) && !isSize(c.X):
		return c.X, c.Op, true
	case isSize(c.X) && !isSize(c.Y):
		return c.Y, core.SwapOp(c.Op), true
	}
	return nil, 0, false
}

// moreOf: what a comparison (other OP size) says about "more blocks follow": other < size / other != size ⇒ more; == / >= ⇒ last.
func moreOf(op token.Token) (more, ok bool) {
	switch op {
	case token.LSS, token.NEQ:
		return true, true
	case token.EQL, token.GEQ:
		return false, true
	}
	return false, false
}

// c04MorePolarity (C04.R6): the M flag is TRUE exactly when the end of the block sent lies before the end of the body – not merely
// "dependent on" the body size. A flag with the inverse sense announces every block but the last as last (the receiver hands on a
// partial body) and the last one as incomplete (the exchange hangs). The end of the block is a sum (offset + bytes read).
func c04MorePolarity(e *Env, rule string) {
	for _, q := range []string{bw + ".Do", bw + ".createSendingMessage"} {
		f := e.fn(rule, q)
		if f == nil {
			continue
		}
		bad, n := "", 0
		checkCmp := func(c core.Cmp, wantMoreWhenTrue bool, at ssa.Instruction) {
			other, op, ok := sizeSide(c)
			if !ok {
				return
			}
			n++
			m, okM := moreOf(op)
			if !okM || m != wantMoreWhenTrue {
				bad = fmt.Sprintf("at %s the M flag is %v where `end-of-block %s body size` holds", e.pos(at), wantMoreWhenTrue, op)
			}
			if b, isB := core.Resolve(core.Unwrap(other)).(*ssa.BinOp); isB && b.Op != token.ADD && b.Op != token.MUL {
				bad = fmt.Sprintf("at %s the end of the block is computed with %s, not as offset + length", e.pos(at), b.Op)
			}
		}
		for _, cl := range core.CallsNamed(f, "net/blockwise.EncodeBlockOption") {
			more := core.Resolve(core.Arg(cl, 2))
			switch x := more.(type) {
			case *ssa.BinOp:
				if c, ok := core.AsCmp(x); ok {
					checkCmp(c, true, x)
				}
			case *ssa.UnOp:
				// a `more` variable kept in a cell (named result of a function with a deferred epilogue)
				a := core.CellOf(x.X)
				if x.Op != token.MUL || a == nil {
					break
				}
				for _, st := range core.StoresToCell(a) {
					st := st
					if st.Parent() != f || (&core.PathQuery{Fn: f, From: st, Target: func(y ssa.Instruction) bool { return y == cl.(ssa.Instruction) }}).Find() == nil {
						continue // does not reach this block (e.g. the spilled results of an error return)
					}
					if b, isB := core.Resolve(st.Val).(*ssa.BinOp); isB {
						if c, ok := core.AsCmp(b); ok {
							checkCmp(c, true, b)
						}
						continue
					}
					kv, isK := core.ConstBool(st.Val)
					if !isK {
						continue
					}
					var bestIf *ssa.If
					var bestBr bool
					for _, i := range core.IfsOf(f) {
						if i.Parent() != f {
							continue
						}
						c0, isC := core.EdgeFacts(i, true)
						if !isC {
							continue
						}
						if _, _, isS := sizeSide(c0); !isS {
							continue
						}
						for _, br := range []bool{true, false} {
							if core.OnlyViaEdge(i, br, st) && (bestIf == nil || bestIf.Block().Dominates(i.Block())) {
								bestIf, bestBr = i, br
							}
						}
					}
					if bestIf != nil {
						c, _ := core.EdgeFacts(bestIf, bestBr)
						checkCmp(c, kv, bestIf)
					}
				}
			case *ssa.Phi:
				for k, edge := range x.Edges {
					kv, isK := core.ConstBool(edge)
					if !isK {
						if b, isB := core.Resolve(edge).(*ssa.BinOp); isB {
							if c, ok := core.AsCmp(b); ok {
								checkCmp(c, true, b)
							}
						}
						continue
					}
					pred := x.Block().Preds[k]
					// the test that selects this edge: the nearest size comparison one side of which alone leads to pred (or pred's own If)
					var bestIf *ssa.If
					var bestBr bool
					for _, i := range core.IfsOf(f) {
						if i.Parent() != f {
							continue
						}
						c0, isC := core.EdgeFacts(i, true)
						if !isC {
							continue
						}
						if _, _, isS := sizeSide(c0); !isS {
							continue
						}
						var br, found bool
						if i.Block() == pred {
							br, found = pred.Succs[0] == x.Block(), true
						} else if len(pred.Instrs) > 0 && i.Block().Dominates(pred) {
							last := pred.Instrs[len(pred.Instrs)-1]
							if core.OnlyViaEdge(i, true, last) {
								br, found = true, true
							} else if core.OnlyViaEdge(i, false, last) {
								br, found = false, true
							}
						}
						if found && (bestIf == nil || bestIf.Block().Dominates(i.Block())) {
							bestIf, bestBr = i, br
						}
					}
					if bestIf != nil {
						c, _ := core.EdgeFacts(bestIf, bestBr)
						checkCmp(c, kv, bestIf)
					}
				}
			}
		}
		// every other test against the body size in these functions that looks at a computed end uses offset + length
		for _, i := range core.IfsOf(f) {
			c, ok := core.EdgeFacts(i, true)
			if !ok {
				continue
			}
			if other, _, isS := sizeSide(c); isS {
				if b, isB := core.Resolve(core.Unwrap(other)).(*ssa.BinOp); isB && b.Op != token.ADD && b.Op != token.MUL {
					bad = fmt.Sprintf("at %s the end of the block is computed with %s, not as offset + length", e.pos(i), b.Op)
				}
			}
		}
		e.R.Check(bad == "" && n >= 1, rule, q+":more-polarity", e.fpos(f), fmt.Sprintf("%d size comparison(s) select the M flag: set exactly when the block ends before the body does", n), bad)
	}
}

// c04InheritHeader (C04.R10): a block built from a template also takes over its code, token and type.
func c04InheritHeader(e *Env, rule string) {
	for _, fn := range []string{bw + ".cloneMessage", bw + ".createSendingMessage", bw + ".getSentRequest", bw + ".getCachedReceivedMessage"} {
		f := e.fn(rule, fn)
		if f == nil {
			continue
		}
		n := 0
		var missing []string
		want := []string{"SetCode", "SetToken", "SetType"}
		if strings.HasSuffix(fn, "getCachedReceivedMessage") {
			want = []string{"SetCode", "SetToken", "SetBody"} // the type is taken from the last block at hand-off
		}
		for _, g := range core.WithAnon(f) {
			core.Instrs(g, func(in ssa.Instruction) {
				c, ok := in.(*ssa.Call)
				if !ok || !strings.HasSuffix(core.CalleeName(c), "pool.Message.ResetOptionsTo") {
					return
				}
				n++
				msg := valueKey(core.Arg(c, 0))
				for _, m := range want {
					found := false
					core.Instrs(g, func(x ssa.Instruction) {
						cc, isC := x.(*ssa.Call)
						if isC && strings.HasSuffix(core.CalleeName(cc), "pool.Message."+m) && valueKey(core.Arg(cc, 0)) == msg {
							found = true
						}
					})
					if !found {
						missing = append(missing, m)
					}
				}
			})
		}
		if n == 0 && delegatesToClone(f) && !strings.HasSuffix(fn, ".cloneMessage") {
			e.R.Ok(rule, fn+":inherits-header", e.fpos(f), "built by cloneMessage, which takes over code, token and type")
			continue
		}
		e.R.Check(len(missing) == 0 && n >= 1, rule, fn+":inherits-header", e.fpos(f), "the copy takes over code, token and type of its template", "the message built from the template lacks: "+strings.Join(missing, ", "))
	}
}

// c04BlockOptionSet (C04.R10): every block option value that is encoded is put into a message (SetOptionUint32) – an encoded value
// that goes nowhere means a block leaves without its Block option.
func c04BlockOptionSet(e *Env, rule string) {
	n := 0
	for _, f := range e.P.SrcFuncs(false) {
		if !strings.HasPrefix(core.FnName(f), "net/blockwise.") {
			continue
		}
		for _, g := range core.WithAnon(f) {
			for _, cl := range core.CallsNamed(g, "net/blockwise.EncodeBlockOption") {
				call, isCall := cl.(*ssa.Call)
				if !isCall {
					continue
				}
				n++
				used := false
				core.Instrs(g, func(x ssa.Instruction) {
					cc, isC := x.(*ssa.Call)
					if !isC || !strings.HasSuffix(core.CalleeName(cc), "pool.Message.SetOptionUint32") {
						return
					}
					if ex, isEx := core.Resolve(core.Arg(cc, 2)).(*ssa.Extract); isEx && ex.Tuple == ssa.Value(call) && ex.Index == 0 {
						used = true
					}
				})
				// … or handed to the function that builds the block (which decodes it again)
				var consumed func(v ssa.Value, d int) bool
				consumed = func(v ssa.Value, d int) bool {
					for _, u := range core.Referrers(v) {
						switch x := u.(type) {
						case ssa.CallInstruction:
							if strings.HasSuffix(core.CalleeName(x), "fmt.Errorf") {
								continue
							}
							for _, a := range x.Common().Args {
								if a == v {
									return true
								}
							}
						case *ssa.Phi:
							if d < 3 && consumed(x, d+1) {
								return true
							}
						case *ssa.Store:
							if x.Val == v {
								return true
							}
						case *ssa.Return:
							return true // handed to the caller
						}
					}
					return false
				}
				for _, ref := range core.Referrers(call) {
					if ex, isEx := ref.(*ssa.Extract); isEx && ex.Index == 0 && consumed(ex, 0) {
						used = true
					}
				}
				e.R.Check(used, rule, core.FnName(f)+":block-option-set", e.pos(call), "the encoded block option value is stored in a message", "the block option value encoded here is never put into a message")
			}
		}
	}
}

// rootOf strips loads, field accesses and conversions: the variable cell, parameter or defining value an access path starts from.
func rootOf(v ssa.Value) ssa.Value {
	for i := 0; i < 10 && v != nil; i++ {
		switch x := v.(type) {
		case *ssa.UnOp:
			if x.Op != token.MUL {
				return v
			}
			if a := core.CellOf(x.X); a != nil {
				return a
			}
			v = x.X
		case *ssa.FieldAddr:
			v = x.X
		case *ssa.Field:
			v = x.X
		case *ssa.ChangeType:
			v = x.X
		case *ssa.FreeVar:
			if a := core.CellOf(x); a != nil {
				return a
			}
			return v
		default:
			return v
		}
	}
	return v
}

// c04GuardDiscipline (C04.R4): the per-token reassembly guard is a semaphore of capacity 1.
//
//	weight        every NewWeighted / Acquire / Release in the block-wise package uses the same constant (a smaller weight excludes
//	              nobody, a larger one can never be acquired)
//	registered    a guard acquired successfully is, on every path to a successful return, registered for release
//	error-exits   … and on every path to an error return the release function handed out on success has been run
func c04GuardDiscipline(e *Env, rule string) {
	weights := map[int64]int{}
	n := 0
	kinds := map[string]bool{}
	seenFn := map[*ssa.Function]bool{}
	for _, f := range e.P.AllSrcFuncs(false) {
		if !strings.HasPrefix(core.FnName(f), "net/blockwise.") {
			continue
		}
		for _, g := range core.WithAnon(f) {
			if seenFn[g] {
				continue
			}
			seenFn[g] = true
			core.InstrsOwn(g, func(in ssa.Instruction) {
				c, ok := in.(ssa.CallInstruction)
				if !ok {
					return
				}
				var w ssa.Value
				switch core.CalleeName(c) {
				case "golang.org/x/sync/semaphore.NewWeighted":
					w = core.Arg(c, 0)
				case "golang.org/x/sync/semaphore.Weighted.Acquire":
					w = core.Arg(c, 2)
				case "golang.org/x/sync/semaphore.Weighted.Release", "golang.org/x/sync/semaphore.Weighted.TryAcquire":
					w = core.Arg(c, 1)
				default:
					return
				}
				n++
				kinds[core.CalleeName(c)] = true
				if k, isK := core.ConstInt(w); isK {
					weights[k]++
				} else {
					weights[-1]++
				}
			})
		}
	}
	e.R.Check(len(weights) == 1 && weights[-1] == 0 && n >= 3 && len(kinds) >= 3, rule, "net/blockwise:guard-weight", "-", fmt.Sprintf("all %d semaphore operations of the reassembly guard use one constant weight", n), fmt.Sprintf("the reassembly guard is created / acquired / released with different weights %v: it excludes nobody or can never be taken", weights))

	q := bw + ".getCachedReceivedMessage"
	f := e.fn(rule, q)
	if f == nil {
		return
	}
	// the release function handed out on success that is also what the error exits run (called inside the function itself)
	var closeFn ssa.Value
	listReleased, listCalled := false, false
	for _, ret := range core.ReturnsOf(f) {
		if len(ret.Results) == 3 && core.IsNilConst(core.RetVal(ret, 2)) {
			if mk, ok := core.Resolve(core.RetVal(ret, 1)).(*ssa.MakeClosure); ok {
				called := false
				core.InstrsOwn(f, func(in ssa.Instruction) {
					if c, isC := in.(*ssa.Call); isC && core.Resolve(c.Call.Value) == ssa.Value(mk) {
						called = true
					}
				})
				if called {
					closeFn = mk
					if fn, _ := mk.Fn.(*ssa.Function); fn != nil && len(core.CallsNamedDeep(fn, "golang.org/x/sync/semaphore.Weighted.Release")) > 0 {
						listReleased = true // it releases the elements of a list itself
					}
					if fn, _ := mk.Fn.(*ssa.Function); fn != nil && callsListElements(fn) {
						listCalled = true // it runs the release functions collected in a list
					}
				}
			}
		}
	}
	badReg, badErr, na := "", "", 0
	for _, ac := range guardAcquisitions(f) {
		na++
		root := rootOf(core.Arg(ac, 0))
		// the release function an acquiring helper hands back (nil for a plain Acquire)
		handed := func(v ssa.Value) bool {
			ex, ok := core.Unwrap(v).(*ssa.Extract)
			if !ok {
				if ld, isLd := v.(*ssa.UnOp); isLd && ld.Op == token.MUL {
					if src := errSourceVal(ld); src != nil {
						ex, ok = src.(*ssa.Extract)
					}
				}
			}
			return ok && ex.Tuple == ssa.Value(ac) && isFuncType(ex.Type())
		}
		onNil := func(i *ssa.If, br bool) bool {
			ev, nilBranch, ok := core.ErrNilEdge(i)
			if ok && (errSource(ev) == ac || errSourceDirect(ev) == ac) {
				return br == nilBranch
			}
			return true
		}
		registers := func(in ssa.Instruction) bool {
			switch x := in.(type) {
			case *ssa.Call:
				if mk, isMk := core.Resolve(x.Call.Value).(*ssa.MakeClosure); isMk {
					if fn, _ := mk.Fn.(*ssa.Function); fn == nil || len(core.CallsNamedDeep(fn, "golang.org/x/sync/semaphore.Weighted.Release")) == 0 {
						return false // registers nothing that releases
					}
					for _, arg := range x.Call.Args {
						if rootOf(arg) == root {
							return true
						}
					}
				}
			case *ssa.MakeClosure:
				fn, _ := x.Fn.(*ssa.Function)
				if fn == nil || len(core.CallsNamedDeep(fn, "golang.org/x/sync/semaphore.Weighted.Release")) == 0 {
					return false
				}
				for _, b := range x.Bindings {
					if rootOf(b) == root {
						return true
					}
				}
			case *ssa.Store:
				// recorded in the list of locked guards that the release function walks
				if _, isIdx := x.Addr.(*ssa.IndexAddr); isIdx && rootOf(x.Val) == root && listReleased {
					return true
				}
				// the release function handed back by the acquiring helper goes into the list the returned function runs
				if _, isIdx := x.Addr.(*ssa.IndexAddr); isIdx && handed(x.Val) && listCalled {
					return true
				}
			}
			return false
		}
		w := (&core.PathQuery{Fn: f, From: ac, EdgeOK: onNil, Stop: registers, Target: func(in ssa.Instruction) bool {
			ret, ok := in.(*ssa.Return)
			if ok && len(ret.Results) == 3 && handed(core.RetVal(ret, 1)) {
				return false // the helper's release function is what the caller gets
			}
			return ok && len(ret.Results) == 3 && core.IsNilConst(core.RetVal(ret, 2))
		}}).Find()
		if w != nil {
			badReg = "a guard acquired at " + e.pos(ac) + " reaches a successful return without being registered for release – the next block of the transfer waits for it for ever: " + e.trace(w)
		}
		if closeFn != nil {
			w = (&core.PathQuery{Fn: f, From: ac, EdgeOK: onNil,
				Stop: func(in ssa.Instruction) bool {
					c, ok := in.(*ssa.Call)
					return ok && core.Resolve(c.Call.Value) == closeFn
				},
				Target: func(in ssa.Instruction) bool {
					ret, ok := in.(*ssa.Return)
					return ok && len(ret.Results) == 3 && !core.IsNilConst(core.RetVal(ret, 2))
				}}).Find()
			if w != nil {
				badErr = "after the guard was acquired at " + e.pos(ac) + " an error return is reachable without running the release function: " + e.trace(w)
			}
		}
	}
	e.R.Check(badReg == "" && na >= 2, rule, q+":acquired-guard-registered", e.fpos(f), fmt.Sprintf("%d acquisitions, each registered for release before a successful return", na), badReg)
	if closeFn != nil {
		e.R.Check(badErr == "", rule, q+":error-exits-release", e.fpos(f), "error exits after an acquisition run the accumulated release list", badErr)
	} else {
		e.R.OkTrivial(rule, q+":error-exits-release", e.fpos(f), "no accumulated release list in this shape; the deferred/paired release is decided by :acquired-guard-registered")
	}
}

// c04CopyAtOffset (C04.R1): the block is appended by (1) positioning the body file at the block's offset, (2) rewinding the
// block's own body, (3) copying it, and (4) cutting the file at position + bytes copied, which is also the size reported back.
func c04CopyAtOffset(e *Env, rule string) {
	q := "net/blockwise.copyToPayloadFromOffset"
	f := e.fn(rule, q)
	if f == nil {
		return
	}
	var fileP, offP, msgP *ssa.Parameter
	for _, p := range f.Params {
		switch {
		case strings.HasSuffix(p.Type().String(), "memfile.File"):
			fileP = p
		case core.IsNamed(p.Type(), "message/pool.Message"):
			msgP = p
		case p.Type().String() == "int64":
			offP = p
		}
	}
	var missing []string
	var fileSeek, copyCall *ssa.Call
	bodySeek := false
	core.Instrs(f, func(in ssa.Instruction) {
		c, ok := in.(*ssa.Call)
		if !ok {
			return
		}
		name := core.CalleeName(c)
		switch {
		case strings.HasSuffix(name, "memfile.File.Seek") && core.Resolve(core.Arg(c, 0)) == ssa.Value(fileP):
			if wh, isK := core.ConstInt(core.Arg(c, 2)); isK && wh == 0 && core.Resolve(core.Arg(c, 1)) == ssa.Value(offP) {
				fileSeek = c
			}
		case name == "io.Copy":
			copyCall = c
		case c.Call.IsInvoke() && c.Call.Method.Name() == "Seek":
			if b, isB := isCallTo(c.Call.Value, "pool.Message.Body"); isB && core.Resolve(core.Arg(b, 0)) == ssa.Value(msgP) {
				o, ok1 := core.ConstInt(c.Call.Args[0])
				wh, ok2 := core.ConstInt(c.Call.Args[1])
				if ok1 && ok2 && o == 0 && wh == 0 {
					bodySeek = true
				}
			}
		}
	})
	if fileSeek == nil {
		missing = append(missing, "the body file is not positioned at the block's offset (Seek(offset, SeekStart))")
	}
	if copyCall == nil {
		missing = append(missing, "no io.Copy of the block")
	}
	if !bodySeek {
		missing = append(missing, "the block's body is not rewound (Seek(0, SeekStart)) before it is copied")
	}
	if fileSeek != nil && copyCall != nil {
		if !core.Dominates(fileSeek, copyCall) {
			missing = append(missing, "the copy is not preceded by the positioning")
		}
		if core.Resolve(core.Unwrap(core.Arg(copyCall, 0))) != ssa.Value(fileP) {
			if mi, isMi := core.Arg(copyCall, 0).(*ssa.MakeInterface); !isMi || core.Resolve(mi.X) != ssa.Value(fileP) {
				missing = append(missing, "the copy does not write into the body file")
			}
		}
		// new size = position + copied
		var isSum func(v ssa.Value) bool
		isSum = func(v ssa.Value) bool {
			rv := core.Resolve(core.Unwrap(v))
			if ph, isPhi := rv.(*ssa.Phi); isPhi {
				// "position", and "position + copied" where something was copied
				sums := 0
				for _, l := range rawPhiLeaves(ph) {
					if ex, isEx := l.(*ssa.Extract); isEx && ex.Tuple == ssa.Value(fileSeek) && ex.Index == 0 {
						continue
					}
					if !isSum(l) {
						return false
					}
					sums++
				}
				return sums >= 1
			}
			b, ok := rv.(*ssa.BinOp)
			if !ok || b.Op != token.ADD {
				return false
			}
			from := func(v ssa.Value, call *ssa.Call) bool {
				found := false
				for _, l := range phiLeaves(core.Resolve(v)) {
					if ex, isEx := l.(*ssa.Extract); isEx && ex.Tuple == ssa.Value(call) && ex.Index == 0 {
						found = true
					} else if k, isK := core.ConstInt(l); !isK || k != 0 {
						return false // "nothing copied" counts as 0 bytes, nothing else
					}
				}
				return found
			}
			return (from(b.X, fileSeek) && from(b.Y, copyCall)) || (from(b.Y, fileSeek) && from(b.X, copyCall))
		}
		trunc := false
		for _, c := range core.Calls(f, func(n string, _ ssa.CallInstruction) bool { return strings.HasSuffix(n, "memfile.File.Truncate") }) {
			if isSum(core.Arg(c, 1)) {
				trunc = true
			}
		}
		if !trunc {
			missing = append(missing, "the file is not cut at position + bytes copied")
		}
		okRet := false
		for _, ret := range core.ReturnsOf(f) {
			if len(ret.Results) == 2 && core.IsNilConst(core.RetVal(ret, 1)) && isSum(core.RetVal(ret, 0)) {
				okRet = true
			}
		}
		if !okRet {
			missing = append(missing, "the size reported back is not position + bytes copied")
		}
	}
	e.R.Check(len(missing) == 0, rule, q+":append-at-offset", e.fpos(f), "position at offset, rewind the block, copy, cut and report position + copied", strings.Join(missing, "; "))
}

// c04ETagRestart (C04.R1): when both the block and the bytes held carry an ETag, they are compared, and a different ETag restarts
// the reassembly (new ETag stored, file cut to 0) – otherwise blocks of two representations are mixed into one body.
func c04ETagRestart(e *Env, rule string) {
	q := bw + ".getPayloadFromCachedReceivedMessage"
	f := e.fn(rule, q)
	if f == nil {
		return
	}
	var etagCalls []*ssa.Call
	for _, c := range core.Calls(f, func(n string, _ ssa.CallInstruction) bool { return strings.HasSuffix(n, "pool.Message.GetOptionBytes") }) {
		if k, isK := core.ConstInt(core.Arg(c, 1)); isK && k == 4 {
			if cc, isC := c.(*ssa.Call); isC {
				etagCalls = append(etagCalls, cc)
			}
		}
	}
	var eq *ssa.Call
	for _, c := range core.CallsNamed(f, "bytes.Equal") {
		eq, _ = c.(*ssa.Call)
	}
	if len(etagCalls) != 2 || eq == nil {
		e.R.Undecided(rule, q+":etag-restart", e.fpos(f), fmt.Sprintf("%d ETag reads and no bytes.Equal: the comparison of the two ETags has another shape", len(etagCalls)))
		return
	}
	// value of a boolean expression over the two "ETag present" facts when both ETags are present
	var evalBoth func(v ssa.Value, d int) (bool, bool)
	evalBoth = func(v ssa.Value, d int) (bool, bool) {
		if d > 6 {
			return false, false
		}
		if b, isK := core.ConstBool(v); isK {
			return b, true
		}
		switch x := v.(type) {
		case *ssa.UnOp:
			if x.Op == token.NOT {
				r, known := evalBoth(x.X, d+1)
				return !r, known
			}
		case *ssa.BinOp:
			if x.Op != token.EQL && x.Op != token.NEQ {
				return false, false
			}
			if core.IsErrorType(x.X.Type()) && (core.IsNilConst(x.Y) || core.IsNilConst(x.X)) {
				ev := x.X
				if core.IsNilConst(ev) {
					ev = x.Y
				}
				src := errSource(ev)
				for _, c := range etagCalls {
					if src == c {
						return x.Op == token.EQL, true // err == nil holds: the ETag is present
					}
				}
				return false, false
			}
			l, okL := evalBoth(x.X, d+1)
			r, okR := evalBoth(x.Y, d+1)
			if okL && okR {
				return (l == r) == (x.Op == token.EQL), true
			}
		}
		return false, false
	}
	bothPresent := func(i *ssa.If, br bool) bool {
		if v, known := evalBoth(i.Cond, 0); known {
			return br == v
		}
		ev, nilBranch, ok := core.ErrNilEdge(i)
		if !ok {
			return true
		}
		src := errSource(ev)
		for _, c := range etagCalls {
			if src == c {
				return br == nilBranch
			}
		}
		return true
	}
	bad := ""
	later := etagCalls[1]
	if core.Dominates(etagCalls[1], etagCalls[0]) {
		later = etagCalls[0]
	}
	if w := (&core.PathQuery{Fn: f, From: later, EdgeOK: bothPresent, Stop: func(in ssa.Instruction) bool { return in == ssa.Instruction(eq) }, Target: core.IsReturn}).Find(); w != nil {
		bad = "with both ETags present the function can return without comparing them: " + e.trace(w)
	}
	// on the "different" edge: new ETag stored and file cut to 0
	differ := func(i *ssa.If, br bool) bool {
		cond, neg := core.StripNot(i.Cond)
		if cond == ssa.Value(eq) {
			t := br
			if neg {
				t = !t
			}
			return !t
		}
		return true
	}
	for _, want := range []struct {
		what string
		pred func(ssa.Instruction) bool
	}{
		{"store the new ETag", func(in ssa.Instruction) bool {
			c, ok := in.(*ssa.Call)
			if !ok || !strings.HasSuffix(core.CalleeName(c), "pool.Message.SetOptionBytes") {
				return false
			}
			k, isK := core.ConstInt(core.Arg(c, 1))
			return isK && k == 4
		}},
		{"cut the body file to 0", func(in ssa.Instruction) bool {
			c, ok := in.(*ssa.Call)
			if !ok || !strings.HasSuffix(core.CalleeName(c), "memfile.File.Truncate") {
				return false
			}
			k, isK := core.ConstInt(core.Arg(c, 1))
			return isK && k == 0
		}},
	} {
		if w := (&core.PathQuery{Fn: f, From: eq, EdgeOK: differ, Stop: want.pred, Target: core.IsReturn}).Find(); w != nil && bad == "" {
			bad = "after the ETags were found to differ a return is reachable that does not " + want.what + ": " + e.trace(w)
		}
	}
	e.R.Check(bad == "", rule, q+":etag-restart", e.fpos(f), "two present ETags are always compared; a different ETag stores the new one and cuts the file to 0", bad)
}

// ---------------------------------------------------------------------------------------------------------------------------
// truth-table rules (core/boolfn.go)

// checkTruth runs the truth table of bf.Fn and compares every row with the specification: got(row) must equal want(assignment).
func checkTruth(e *Env, rule, key string, bf *core.BoolFn, got func(core.BoolRow) bool, want func(map[string]bool) bool, okText, failText string) {
	rows, err := bf.Table()
	if err != nil {
		e.R.Undecided(rule, key, e.fpos(bf.Fn), err.Error())
		return
	}
	for _, r := range rows {
		if r.Unknown != "" {
			e.R.Undecided(rule, key, e.fpos(bf.Fn), "truth table row ["+core.AssignString(r.Assign)+"]: "+r.Unknown)
			return
		}
		if g, w := got(r), want(r.Assign); g != w {
			e.R.Fail(rule, key, e.fpos(bf.Fn), fmt.Sprintf("%s: for [%s] the code gives %v, required is %v", failText, core.AssignString(r.Assign), g, w))
			return
		}
	}
	e.R.Ok(rule, key, e.fpos(bf.Fn), fmt.Sprintf("%s (truth table over %d facts: %s; %d rows)", okText, len(bf.Atoms()), strings.Join(bf.Atoms(), ","), len(rows)))
}

func timeAtom(v ssa.Value) (string, bool, bool) {
	if c, ok := v.(*ssa.Call); ok {
		switch core.CalleeName(c) {
		case "time.Time.IsZero":
			return "no-deadline", false, true
		case "time.Time.After":
			return "deadline-passed", false, true // now.After(deadline)
		case "time.Time.Before":
			return "deadline-passed", false, true // deadline.Before(now)
		}
	}
	return "", false, false
}

// giveUpPredicate (C06, C13): a pending confirmable exchange is given up exactly when its deadline (if it has one) has passed OR
// its retransmissions are used up – either alone suffices. With AND a request with a far deadline is re-sent without bound; with the
// exhaustion test under the deadline test a ping (no deadline) is never given up and its entry stays for ever.
func giveUpPredicate(e *Env, rule string) {
	q := "udp/client.midElement.IsExpired"
	f := e.fn(rule, q)
	if f == nil {
		return
	}
	var maxP ssa.Value
	for _, p := range f.Params {
		if bt, ok := p.Type().Underlying().(*types.Basic); ok && bt.Info()&types.IsInteger != 0 {
			maxP = p
		}
	}
	bf := &core.BoolFn{Fn: f, AtomOf: func(v ssa.Value) (string, bool, bool) {
		if n, ng, ok := timeAtom(v); ok {
			return n, ng, ok
		}
		if c, ok := core.AsCmp(v); ok && maxP != nil {
			x, y, op := core.Resolve(c.X), core.Resolve(c.Y), c.Op
			if y != maxP && x == maxP {
				x, y, op = y, x, core.SwapOp(op)
			}
			if y == maxP {
				if _, isLoad := isCallTo(x, ".Load"); isLoad {
					switch op {
					case token.GEQ:
						return "retransmissions-used-up", false, true
					case token.LSS:
						return "retransmissions-used-up", true, true
					}
				}
			}
		}
		return "", false, false
	}}
	checkTruth(e, rule, q+":deadline-or-exhausted", bf,
		func(r core.BoolRow) bool { return len(r.Rets) == 1 && r.Rets[0] == 1 },
		func(a map[string]bool) bool {
			return (!a["no-deadline"] && a["deadline-passed"]) || a["retransmissions-used-up"]
		},
		"given up ⇔ (has a deadline ∧ it passed) ∨ retransmissions used up", "the give-up predicate of a pending exchange is not `deadline passed OR retransmissions used up`")
}

// pongRecognised (C18): the keep-alive's ping on a datagram connection is answered by a Reset OR by an (empty) acknowledgement with
// its message ID; both are credited, with no further condition.
func pongRecognised(e *Env, rule string) {
	q := "udp/client.Conn.AsyncPing"
	f := e.fn(rule, q)
	if f == nil {
		return
	}
	var pong *ssa.Parameter
	for _, p := range f.Params {
		if _, ok := p.Type().Underlying().(*types.Signature); ok {
			pong = p
		}
	}
	n := 0
	for _, g := range core.WithAnon(f) {
		if g == f {
			continue
		}
		isPong := func(in ssa.Instruction) bool {
			c, ok := in.(*ssa.Call)
			return ok && pong != nil && core.Resolve(c.Call.Value) == ssa.Value(pong)
		}
		has := false
		core.InstrsOwn(g, func(in ssa.Instruction) {
			if isPong(in) {
				has = true
			}
		})
		if !has || len(g.Params) != 2 {
			continue
		}
		n++
		bf := &core.BoolFn{Fn: g,
			AtomOf: func(v ssa.Value) (string, bool, bool) {
				c, ok := core.AsCmp(v)
				if !ok || (c.Op != token.EQL && c.Op != token.NEQ) {
					return "", false, false
				}
				for _, xy := range [][2]ssa.Value{{c.X, c.Y}, {c.Y, c.X}} {
					if _, isT := isCallTo(xy[0], "pool.Message.Type"); isT {
						if k, isK := core.ConstInt(xy[1]); isK {
							switch k {
							case 3:
								return "is-reset", c.Op == token.NEQ, true
							case 2:
								return "is-ack", c.Op == token.NEQ, true
							}
						}
					}
				}
				return "", false, false
			},
			Event: func(in ssa.Instruction) string {
				if isPong(in) {
					return "pong"
				}
				return ""
			}}
		checkTruth(e, rule, q+":pong", bf,
			func(r core.BoolRow) bool { return r.Events["pong"] },
			func(a map[string]bool) bool { return a["is-reset"] || a["is-ack"] },
			"the ping is credited ⇔ the reply with its message ID is a Reset or an Acknowledgement", "a reply to the keep-alive ping is not credited exactly for Reset/Acknowledgement")
	}
	if n == 0 {
		e.R.Undecided(rule, q+":pong", e.fpos(f), "no continuation that calls the pong callback")
	}
}

// Round4 runs the rules of this file that are not wired into a property's own run function (called for every configuration).
func Round4(e *Env, id string) {
	r := e.R
	reg := func(rule, engine, text string, min int, run func(rule string)) {
		r.Rule(rule, engine, text, min)
		if e.want(rule) {
			run(rule)
		}
	}
	switch id {
	case "C03":
		reg("C03.R7", "truth-table+flows", "the reply cache reports every stored reply as a hit (a duplicate of an acknowledged separate response is not dispatched again); reassembly lookups honour expiry (an earlier exchange's partial body is not continued)", 2, func(rule string) {
			replayWheneverStored(e, rule)
			reassemblyLookupHonoursExpiry(e, rule)
		})
	case "C05":
		reg("C05.R8", "truth-table+paths", "the reply cache reports every stored reply as a hit; every replay carries the duplicate's message ID", 2, func(rule string) {
			replayWheneverStored(e, rule)
			replayCarriesDuplicateMID(e, rule)
		})
	case "C07":
		reg("C07.R10", "truth-table+paths", "the re-framing buffer is replaced only when empty; the end of the read loop always closes the session", 2, func(rule string) {
			shrinkOnlyWhenEmpty(e, rule)
			runAlwaysCloses(e, rule)
		})
	case "C02":
		reg("C02.R8", "flows", "Message.Reset clears every wire field (a recycled message decodes like a fresh one)", 1, func(rule string) { resetClearsEverything(e, rule) })
	case "C10":
		reg("C10.R9", "shared", "an oversized frame is refused on its header (= C07.R1); a replaced reader loop is told to stop, one consumer per connection (= C11.R4)", 4, func(rule string) {
			borrow(e, "C07", "C07.R1", rule)
			borrow(e, "C11", "C11.R4", rule)
		})
	case "C11":
		reg("C11.R9", "paths", "a datagram is handed only to a connection seen alive after the arrival's expiry check; the response decision is reached after every handler", 3, func(rule string) {
			deliveredOnlyToLiveConn(e, rule)
			responseDecisionReached(e, rule)
		})
	case "C12":
		reg("C12.R8", "paths+flows", "after the hand-over to the handler the dispatcher reads only the hijack flag of the request; Reset clears every wire field", 4, func(rule string) {
			nothingReadAfterHandOver(e, rule)
			resetClearsEverything(e, rule)
		})
	case "C15":
		reg("C15.R7", "flows", "grow-and-retry getters return a slice of the buffer filled last", 3, func(rule string) { growAndRetryUsesGrownBuffer(e, rule) })
	case "C16":
		reg("C16.R9", "shared", "the per-path entry is deleted exactly when its in-flight counter reaches zero (= C13.R4)", 1, func(rule string) { borrow(e, "C13", "C13.R4", rule) })
	case "C17":
		reg("C17.R5", "flows+truth-table", "one filtered key per route-table operation; FilterPath maps only the empty pattern to the root", 4, func(rule string) { routeKeyIsFilteredPattern(e, rule) })
	case "C19":
		reg("C19.P10", "flows", "the block builder uses the clamped size exponent for buffer, offsets and option alike", 1, func(rule string) { clampBeforeUse(e, rule) })
	case "C20":
		reg("C20.R6", "absint+paths", "the No-Response value travels in its minimal-length form (255 is one byte); the response decision is reached after every handler", 7, func(rule string) {
			uintCodecClasses(e, rule)
			responseDecisionReached(e, rule)
		})
	case "C04":
		reg("C04.R15", "flows", "clamped size exponent everywhere in the block builder; reassembly lookups honour expiry", 2, func(rule string) {
			clampBeforeUse(e, rule)
			reassemblyLookupHonoursExpiry(e, rule)
		})
		reg("C04.R14", "paths", "a request's deadline, when it has one, is the life time of its partial body", 1, func(rule string) { requestDeadlineGovernsReassembly(e, rule) })
	case "C08":
		reg("C08.R7", "paths", "freshness test and state update of an observation are one critical section", 1, func(rule string) { checkThenActOneSection(e, rule) })
	case "C09":
		reg("C09.R9", "paths", "a done context is noticed before every blocking socket call, unconditionally", 4, func(rule string) { ctxCheckedBeforeIO(e, rule) })
	case "C14":
		reg("C14.R6", "paths", "ReplaceWithFunc stores the callback's value unless deletion was asked for", 1, func(rule string) { replaceStoresUnlessDeleted(e, rule) })
	case "C06":
		reg("C06.R8", "truth-table+flows", "a pending exchange is given up ⇔ its deadline passed ∨ its retransmissions are used up; run-time setters store into their own parameter", 4, func(rule string) {
			giveUpPredicate(e, rule)
			settersStoreOwnField(e, rule)
		})
	case "C13":
		reg("C13.R5", "truth-table+shared", "a pending exchange is given up ⇔ its deadline passed ∨ its retransmissions are used up (an entry without deadline still ends); Cancel removes the observation before it deregisters (= C08.R5)", 3, func(rule string) {
			giveUpPredicate(e, rule)
			borrow(e, "C08", "C08.R5", rule)
		})
	case "C18":
		reg("C18.R7", "truth-table+callers", "the keep-alive ping is credited for a Reset or an Acknowledgement, nothing else is asked of the reply; the activity timestamp is refreshed only from receive paths", 2, func(rule string) {
			pongRecognised(e, rule)
			activityOnlyFromReceive(e, rule)
		})
	}
}

// lenAtom: a comparison of len(x) with a constant that is equivalent to "x is non-empty" (or its negation).
func lenNonEmpty(c core.Cmp, isX func(ssa.Value) bool) (neg bool, ok bool) {
	x, y, op := c.X, c.Y, c.Op
	if _, isK := core.ConstInt(x); isK {
		x, y, op = y, x, core.SwapOp(op)
	}
	k, isK := core.ConstInt(y)
	if !isK {
		return false, false
	}
	lc, isC := core.Resolve(core.Unwrap(x)).(*ssa.Call)
	if !isC {
		return false, false
	}
	if b, isB := lc.Call.Value.(*ssa.Builtin); !isB || b.Name() != "len" || !isX(lc.Call.Args[0]) {
		return false, false
	}
	switch {
	case (op == token.GTR && k == 0) || (op == token.NEQ && k == 0) || (op == token.GEQ && k == 1):
		return false, true
	case (op == token.EQL && k == 0) || (op == token.LEQ && k == 0) || (op == token.LSS && k == 1):
		return true, true
	}
	return false, false
}

// replayWheneverStored (C05, C03): the reply cache answers "hit" exactly when an entry exists, holds at least one byte and decodes –
// in particular for the 4-byte entries (a bare acknowledgement, a reply without token and options).
func replayWheneverStored(e *Env, rule string) {
	q := "udp/client.messageCache.Load"
	f := e.fn(rule, q)
	if f == nil {
		return
	}
	bf := &core.BoolFn{Fn: f, AtomOf: func(v ssa.Value) (string, bool, bool) {
		c, ok := core.AsCmp(v)
		if !ok {
			return "", false, false
		}
		if (c.Op == token.EQL || c.Op == token.NEQ) && (core.IsNilConst(c.X) || core.IsNilConst(c.Y)) {
			o := c.X
			if core.IsNilConst(o) {
				o = c.Y
			}
			if core.IsErrorType(o.Type()) {
				return "decode-fails", c.Op == token.EQL, true
			}
			if _, isLoad := isCallTo(o, "cache.Cache.Load"); isLoad {
				return "miss", c.Op == token.NEQ, true
			}
			return "", false, false
		}
		if neg, isL := lenNonEmpty(c, func(x ssa.Value) bool { _, is := isCallTo(x, ".Data"); return is }); isL {
			return "stored-bytes", neg, true
		}
		return "", false, false
	}}
	checkTruth(e, rule, q+":hit-iff-stored", bf,
		func(r core.BoolRow) bool { return len(r.Rets) == 2 && r.Rets[0] == 1 },
		func(a map[string]bool) bool { return !a["miss"] && a["stored-bytes"] && !a["decode-fails"] },
		"hit ⇔ entry present ∧ at least one byte stored ∧ it decodes", "the reply cache does not report a stored reply as a hit for every stored length")
}

// replayCarriesDuplicateMID (C05): on every cache hit the replayed reply gets the duplicate's message ID (CON and NON alike).
func replayCarriesDuplicateMID(e *Env, rule string) {
	q := "udp/client.Conn.handleReq"
	f := e.fn(rule, q)
	if f == nil {
		return
	}
	var req *ssa.Parameter
	for _, p := range f.Params {
		if core.IsNamed(p.Type(), "message/pool.Message") {
			req = p
		}
	}
	var hit *ssa.Call
	for _, c := range core.CallsNamedDeep(f, "udp/client.Conn.getResponseFromCache") {
		hit, _ = c.(*ssa.Call)
	}
	if hit == nil {
		// the wrapper written out: the load from the reply cache itself
		for _, c := range core.Calls(f, func(n string, ci ssa.CallInstruction) bool {
			return strings.HasSuffix(n, "MessageCache.Load") && strings.HasSuffix(tableOf(ci), ".responseMsgCache")
		}) {
			hit, _ = c.(*ssa.Call)
		}
	}
	if hit == nil || req == nil {
		e.R.Undecided(rule, q+":replay-mid", e.fpos(f), "no reply-cache lookup in this function")
		return
	}
	w := (&core.PathQuery{Fn: f, From: hit,
		EdgeOK: func(i *ssa.If, br bool) bool {
			cond, neg := core.StripNot(i.Cond)
			if ex, ok := core.Resolve(cond).(*ssa.Extract); ok && ex.Tuple == ssa.Value(hit) && ex.Index == 0 {
				return br != neg
			}
			return true
		},
		Stop: func(in ssa.Instruction) bool {
			c, ok := in.(*ssa.Call)
			if !ok || !strings.HasSuffix(core.CalleeName(c), "pool.Message.SetMessageID") {
				return false
			}
			mc, isM := isCallTo(core.Arg(c, 1), "pool.Message.MessageID")
			return isM && core.Resolve(core.Arg(mc, 0)) == ssa.Value(req)
		},
		Target: core.IsReturn}).Find()
	e.R.Check(w == nil, rule, q+":replay-mid", e.pos(hit), "every replay from the cache is given the duplicate's message ID", "a cached reply can be replayed with the message ID it was stored under, not the duplicate's: "+e.trace(w))
}

// runAlwaysCloses (C07, C09): when the read loop of a stream session ends – for whatever reason – the session is closed (context
// cancelled, socket closed): the deferred epilogue of Run calls Close on every path.
func runAlwaysCloses(e *Env, rule string) {
	q := "tcp/client.Session.Run"
	f := e.fn(rule, q)
	if f == nil {
		return
	}
	n, bad := 0, ""
	core.InstrsOwn(f, func(in ssa.Instruction) {
		d, ok := in.(*ssa.Defer)
		if !ok {
			return
		}
		body := core.StaticFn(d)
		if body == nil {
			return
		}
		if core.FnName(body) == "tcp/client.Session.Close" {
			n++
			return
		}
		if len(core.CallsNamedDeep(body, "tcp/client.Session.Close")) == 0 || len(body.Blocks) == 0 {
			return
		}
		n++
		if w := (&core.PathQuery{Fn: body, Target: core.IsReturn, Stop: core.CallPred("tcp/client.Session.Close")}).Find(); w != nil {
			bad = "the epilogue of Run can finish without closing the session (the peer of a connection that ended with an error never sees it closed): " + e.trace(w)
		}
	})
	e.R.Check(bad == "" && n >= 1, rule, q+":always-closes", e.fpos(f), "the deferred epilogue closes the session on every path", bad+map[bool]string{true: "", false: "no deferred Close"}[n >= 1])
}

// shrinkOnlyWhenEmpty (C07): the re-framing buffer is replaced by a smaller one only when it holds no unprocessed bytes.
func shrinkOnlyWhenEmpty(e *Env, rule string) {
	q := "tcp/client.shrinkBufferIfNecessary"
	f := e.fn(rule, q)
	if f == nil {
		return
	}
	bf := &core.BoolFn{Fn: f,
		AtomOf: func(v ssa.Value) (string, bool, bool) {
			c, ok := core.AsCmp(v)
			if !ok {
				return "", false, false
			}
			x, y, op := c.X, c.Y, c.Op
			if _, isK := core.ConstInt(x); isK {
				x, y, op = y, x, core.SwapOp(op)
			}
			k, isK := core.ConstInt(y)
			if _, isLen := isCallTo(x, "bytes.Buffer.Len"); !isLen || !isK {
				return "", false, false
			}
			switch {
			case (op == token.EQL && k == 0) || (op == token.LEQ && k == 0) || (op == token.LSS && k == 1):
				return "empty", false, true
			case (op == token.NEQ && k == 0) || (op == token.GTR && k == 0) || (op == token.GEQ && k == 1):
				return "empty", true, true
			}
			return "", false, false
		},
		Event: func(in ssa.Instruction) string {
			if c, ok := in.(*ssa.Call); ok && core.CalleeName(c) == "bytes.NewBuffer" {
				return "replaced"
			}
			return ""
		}}
	checkTruth(e, rule, q+":only-when-empty", bf,
		func(r core.BoolRow) bool { return r.Events["replaced"] && !r.Assign["empty"] },
		func(map[string]bool) bool { return false },
		"the buffer is replaced only when it is empty", "the re-framing buffer can be replaced while it holds unprocessed bytes (the start of the next message is lost)")
}

// ctxCheckedBeforeIO (C09): a context that is already done is noticed before the blocking socket call – on every path, not only
// when the connection is also marked closed. (A blocked read is otherwise only ended by closing the socket, which a cancelled
// context alone does not do.)
func ctxCheckedBeforeIO(e *Env, rule string) {
	for _, it := range []struct{ fn, io string }{
		{"net.UDPConn.readWithCfg", ".ReadFrom"},
		{"net.UDPConn.writeWithCfg", "udpConnWriteTo"},
		{"net.Conn.ReadWithContext", ".Read"},
		{"net.Conn.WriteWithContext", ".Write"},
	} {
		f := e.fn(rule, it.fn)
		if f == nil {
			continue
		}
		isCtxCheck := func(in ssa.Instruction) bool {
			switch x := in.(type) {
			case *ssa.Select:
				for _, st := range x.States {
					if _, ok := isCallTo(st.Chan, "Context.Done"); ok {
						return true
					}
				}
			case *ssa.Call:
				if x.Call.IsInvoke() && x.Call.Method.Name() == "Err" && strings.HasSuffix(x.Call.Value.Type().String(), "context.Context") {
					return true
				}
			case *ssa.UnOp:
				if x.Op == token.ARROW {
					if _, ok := isCallTo(x.X, "Context.Done"); ok {
						return true
					}
				}
			}
			return false
		}
		n := 0
		bad := ""
		core.Instrs(f, func(in ssa.Instruction) {
			c, ok := in.(*ssa.Call)
			if !ok {
				return
			}
			name := core.CalleeName(c)
			if name == "" && c.Call.IsInvoke() {
				name = "." + c.Call.Method.Name()
			}
			if ld, isLd := c.Call.Value.(*ssa.UnOp); isLd && name == "" {
				if g, isG := ld.X.(*ssa.Global); isG {
					name = g.Name() // a function held in a package variable
				}
			}
			if !strings.HasSuffix(name, it.io) {
				return
			}
			n++
			if w := (&core.PathQuery{Fn: f, Stop: isCtxCheck, Target: func(x ssa.Instruction) bool { return x == ssa.Instruction(c) }}).Find(); w != nil {
				bad = "the blocking call at " + e.pos(c) + " is reachable without looking at the context: " + e.trace(w)
			}
		})
		e.R.Check(bad == "" && n >= 1, rule, it.fn+":ctx-before-io", e.fpos(f), fmt.Sprintf("%d blocking call(s), each preceded on every path by a check of the context", n), bad)
	}
}

// requestDeadlineGovernsReassembly (C04): a partial body is kept as long as the request that asked for it may still be answered: when
// the request has a deadline, that deadline is the life time – whatever its relation to the configured transfer timeout.
func requestDeadlineGovernsReassembly(e *Env, rule string) {
	q := bw + ".getValidUntil"
	f := e.fn(rule, q)
	if f == nil {
		return
	}
	n, bad := 0, ""
	// the returns that yield a context's deadline – in the function itself or in the helper it returns through
	type dret struct {
		ret   *ssa.Return   // where the deadline is returned
		fn    *ssa.Function // the function that return belongs to
		outer *ssa.Return   // the return of getValidUntil that passes it on (nil: the same)
	}
	var cands []dret
	for _, ret := range core.ReturnsOf(f) {
		v := core.RetVal(ret, 0)
		if c, isCall := v.(*ssa.Call); isCall {
			if h := core.AbsorbedCallee(c); h != nil {
				for _, hr := range core.ReturnsOf(h) {
					cands = append(cands, dret{hr, h, ret})
				}
				continue
			}
		}
		cands = append(cands, dret{ret, f, nil})
	}
	for _, cd := range cands {
		ex, ok := core.Resolve(core.RetVal(cd.ret, 0)).(*ssa.Extract)
		if !ok {
			continue
		}
		dl, isC := ex.Tuple.(*ssa.Call)
		if !isC || !dl.Call.IsInvoke() || dl.Call.Method.Name() != "Deadline" {
			continue
		}
		n++
		check := func(g *ssa.Function, at ssa.Instruction) {
			for _, i := range core.IfsOf(g) {
				if i.Parent() != g {
					continue
				}
				for _, br := range []bool{true, false} {
					if !core.OnlyViaEdge(i, br, at) {
						continue
					}
					cond, _ := core.StripNot(i.Cond)
					if okEx, isEx := core.Resolve(cond).(*ssa.Extract); isEx && okEx.Tuple == ssa.Value(dl) && okEx.Index == 1 {
						continue // has a deadline
					}
					if c, isCmp := core.AsCmp(cond); isCmp && (core.IsNilConst(c.X) || core.IsNilConst(c.Y)) {
						continue // there is a request
					}
					bad = "the request's deadline is used only under a further condition (" + e.pos(i) + "): a transfer whose request allows more time than the transfer timeout loses its partial body early and the last block is handed on alone"
				}
			}
		}
		check(cd.fn, cd.ret)
		if cd.outer != nil {
			check(f, cd.outer)
		}
	}
	e.R.Check(bad == "" && n >= 1, rule, q+":request-deadline-governs", e.fpos(f), "a request's deadline, when it has one, is the life time of its partial body – unconditionally", bad)
}

// checkThenActOneSection (C08): the freshness test of a notification and the update of the state it was tested against are one
// critical section: no Unlock lies between them on any path.
func checkThenActOneSection(e *Env, rule string) {
	q := "net/observation.Observation.wantBeNotified"
	f := e.fn(rule, q)
	if f == nil {
		return
	}
	var valid *ssa.Call
	for _, c := range core.CallsNamedDeep(f, "net/observation.ValidSequenceNumber") {
		valid, _ = c.(*ssa.Call)
	}
	var stores []ssa.Instruction
	core.Instrs(f, func(in ssa.Instruction) {
		if st, ok := in.(*ssa.Store); ok {
			if _, fl, isF := core.FieldOf(st.Addr); isF && (fl == "obsSequence" || fl == "lastEvent") {
				stores = append(stores, st)
			}
		}
	})
	if valid == nil || len(stores) == 0 {
		e.R.Undecided(rule, q+":one-critical-section", e.fpos(f), "freshness test or state update not found")
		return
	}
	bad := ""
	core.Instrs(f, func(in ssa.Instruction) {
		u, ok := in.(*ssa.Call)
		if !ok || !strings.HasSuffix(core.CalleeName(u), "Mutex.Unlock") {
			return
		}
		if (&core.PathQuery{Fn: f, From: valid, Target: func(x ssa.Instruction) bool { return x == ssa.Instruction(u) }}).Find() == nil {
			return
		}
		for _, st := range stores {
			if (&core.PathQuery{Fn: f, From: u, Target: func(x ssa.Instruction) bool { return x == st }}).Find() != nil {
				bad = "the mutex is released at " + e.pos(u) + " between the freshness test and the state update at " + e.pos(st) + ": two notifications handled concurrently are both tested against the old state and both delivered"
			}
		}
	})
	e.R.Check(bad == "", rule, q+":one-critical-section", e.pos(valid), fmt.Sprintf("freshness test and %d state updates in one critical section", len(stores)), bad)
}

// replaceStoresUnlessDeleted (C14): ReplaceWithFunc writes the callback's value into the map on every path on which the callback
// did not ask for deletion – also when the key existed.
func replaceStoresUnlessDeleted(e *Env, rule string) {
	q := "pkg/sync.Map.ReplaceWithFunc"
	f := e.fn(rule, q)
	if f == nil {
		return
	}
	var cb *ssa.Call
	core.Instrs(f, func(in ssa.Instruction) { // including a locked-section helper shared with the sibling operations
		if c, ok := in.(*ssa.Call); ok && len(c.Call.Args) == 2 && c.Call.StaticCallee() == nil && !c.Call.IsInvoke() {
			if p, isP := core.Resolve(c.Call.Value).(*ssa.Parameter); isP && p.Parent() == f {
				cb = c
				return
			}
			for _, alt := range core.ResolveIn(f, c.Call.Value) {
				if p, isP := alt.(*ssa.Parameter); isP && p.Parent() == f {
					cb = c
				}
			}
		}
	})
	if cb == nil {
		e.R.Undecided(rule, q+":stores-unless-deleted", e.fpos(f), "callback invocation not found")
		return
	}
	w := (&core.PathQuery{Fn: f, From: cb,
		EdgeOK: func(i *ssa.If, br bool) bool {
			cond, neg := core.StripNot(i.Cond)
			if ex, ok := core.Resolve(cond).(*ssa.Extract); ok && ex.Tuple == ssa.Value(cb) && ex.Index == 1 {
				return br == neg // follow "not deleted"
			}
			return true
		},
		Stop: func(in ssa.Instruction) bool {
			mu, ok := in.(*ssa.MapUpdate)
			if !ok {
				return false
			}
			ex, isEx := core.Resolve(mu.Value).(*ssa.Extract)
			return isEx && ex.Tuple == ssa.Value(cb) && ex.Index == 0
		},
		Target: core.IsReturn}).Find()
	e.R.Check(w == nil, rule, q+":stores-unless-deleted", e.pos(cb), "unless deletion was asked for, the callback's value is written into the map on every path", "the value returned by the callback is not written on some path (an existing key keeps its old element although a replacement is reported): "+e.trace(w))
}

// isMsgMethodOn: a call of a pool.Message method whose receiver resolves to v.
func isMsgMethodOn(in ssa.Instruction, v ssa.Value) (string, bool) {
	c, ok := in.(ssa.CallInstruction)
	if !ok {
		return "", false
	}
	name := core.CalleeName(c)
	k := strings.LastIndex(name, "pool.Message.")
	if k < 0 || core.NArgs(c) == 0 || core.Resolve(core.Arg(c, 0)) != v {
		return "", false
	}
	return name[k+len("pool.Message."):], true
}

// nothingReadAfterHandOver (C12): once a received message was passed to the application's handler the dispatcher reads nothing
// from it but the hijack flag: whatever it needs afterwards (type, message ID) it has copied before. The handler – or whoever it
// gave the message to – may already have released it.
func nothingReadAfterHandOver(e *Env, rule string) {
	for _, q := range []string{"udp/client.Conn.handleReq", "udp/client.Conn.ProcessReceivedMessageWithHandler", "tcp/client.Conn.ProcessReceivedMessageWithHandler"} {
		f := e.fn(rule, q)
		if f == nil {
			continue
		}
		var req *ssa.Parameter
		for _, p := range f.Params {
			if core.IsNamed(p.Type(), "message/pool.Message") {
				req = p
			}
		}
		// the hand-over: a call that gets a response writer and the request as its last two arguments
		var hand ssa.Instruction
		core.Instrs(f, func(in ssa.Instruction) {
			c, ok := in.(*ssa.Call)
			if !ok || req == nil {
				return
			}
			n := len(c.Call.Args)
			if n >= 2 && core.Resolve(c.Call.Args[n-1]) == ssa.Value(req) && strings.Contains(c.Call.Args[n-2].Type().String(), "ResponseWriter") {
				hand = c
			}
		})
		if hand == nil {
			e.R.Undecided(rule, q+":nothing-read-after-hand-over", e.fpos(f), "no call that hands the request and a response writer on")
			continue
		}
		allowed := map[string]bool{"IsHijacked": true}
		bad := ""
		w := (&core.PathQuery{Fn: f, From: hand, Target: func(in ssa.Instruction) bool {
			m, ok := isMsgMethodOn(in, req)
			return ok && !allowed[m]
		}}).Find()
		if w != nil {
			m, _ := isMsgMethodOn(w[len(w)-1], req)
			bad = "after the hand-over at " + e.pos(hand) + " the dispatcher calls " + m + "() on the request at " + e.pos(w[len(w)-1]) + " (it may be released, reset and reused by then)"
		}
		// deferred closures run after the hand-over as well
		for _, g := range core.WithAnon(f) {
			if g == f {
				continue
			}
			isDeferred := false
			for _, u := range core.FuncValueUses(g) {
				if _, isD := u.(*ssa.Defer); isD {
					isDeferred = true
				}
			}
			if !isDeferred {
				continue
			}
			core.InstrsOwn(g, func(in ssa.Instruction) {
				if m, ok := isMsgMethodOn(in, req); ok && !allowed[m] {
					bad = "the deferred epilogue calls " + m + "() on the request at " + e.pos(in) + " after it was handed to the application"
				}
			})
		}
		e.R.Check(bad == "", rule, q+":nothing-read-after-hand-over", e.pos(hand), "after the hand-over only the hijack flag of the request is read", bad)
	}
}

// responseDecisionReached (C20, C11): after the handler returned, the dispatcher always gets to the question "did the handler set a
// response?" – no early exit for a hijacked request. A response the writer accepted is otherwise dropped.
func responseDecisionReached(e *Env, rule string) {
	for _, q := range []string{"tcp/client.Conn.ProcessReceivedMessageWithHandler", "udp/client.Conn.ProcessReceivedMessageWithHandler"} {
		f := e.fn(rule, q)
		if f == nil {
			continue
		}
		var hand ssa.Instruction
		core.InstrsOwn(f, func(in ssa.Instruction) {
			c, ok := in.(*ssa.Call)
			if !ok {
				return
			}
			if p, isP := core.Resolve(c.Call.Value).(*ssa.Parameter); isP && len(c.Call.Args) == 2 {
				_ = p
				hand = c
			}
		})
		if hand == nil {
			e.R.Undecided(rule, q+":response-decision-reached", e.fpos(f), "handler invocation not found")
			continue
		}
		w := (&core.PathQuery{Fn: f, From: hand, Target: core.IsReturn, Stop: func(in ssa.Instruction) bool {
			switch x := in.(type) {
			case *ssa.Call:
				if core.CalleeName(x) == "context.Context.Err" {
					return true // the connection-closed exit spelled `ctx.Err() != nil` instead of a non-blocking select on Done()
				}
				return strings.HasSuffix(core.CalleeName(x), "pool.Message.IsModified")
			case *ssa.Select:
				return true // the connection-closed exit of the datagram dispatcher
			}
			return false
		}}).Find()
		e.R.Check(w == nil, rule, q+":response-decision-reached", e.pos(hand), "every path after the handler asks whether a response was set", "after the handler returned an exit is reachable that never looks at the response (a response the writer accepted is dropped): "+e.trace(w))
	}
}

// growAndRetryUsesGrownBuffer (C15): the getters that retry with a larger buffer return a slice of the buffer that was filled last.
func growAndRetryUsesGrownBuffer(e *Env, rule string) {
	for _, q := range []string{"message.Options.Queries", "message.Options.Path", "message.Options.LocationPath"} {
		f := e.fn(rule, q)
		if f == nil {
			continue
		}
		// the filling calls: same callee called at least twice with a slice argument
		byCallee := map[string][]*ssa.Call{}
		core.InstrsOwn(f, func(in ssa.Instruction) {
			if c, ok := in.(*ssa.Call); ok {
				if n := core.CalleeName(c); strings.HasPrefix(n, "message.Options.") {
					byCallee[n] = append(byCallee[n], c)
				}
			}
		})
		var fills []*ssa.Call
		for _, cs := range byCallee {
			if len(cs) >= 2 {
				fills = cs
			}
		}
		if len(fills) < 2 {
			e.R.Undecided(rule, q+":returns-filled-buffer", e.fpos(f), "no retry of the filling call in this function")
			continue
		}
		bufArg := func(c *ssa.Call) ssa.Value {
			for _, a := range c.Call.Args[1:] {
				if _, isSl := a.Type().Underlying().(*types.Slice); isSl {
					return core.Resolve(a)
				}
			}
			return nil
		}
		bad, n := "", 0
		core.InstrsOwn(f, func(in ssa.Instruction) {
			sl, ok := in.(*ssa.Slice)
			if !ok || sl.High == nil {
				return
			}
			fromFill := false
			for _, l := range rawPhiLeaves(sl.High) {
				if ex, isEx := l.(*ssa.Extract); isEx {
					for _, c := range fills {
						if ex.Tuple == ssa.Value(c) {
							fromFill = true
						}
					}
				}
			}
			if !fromFill {
				return
			}
			n++
			leaves := map[ssa.Value]bool{core.Resolve(sl.X): true}
			for _, l := range phiLeaves(core.Resolve(sl.X)) {
				leaves[l] = true
			}
			for _, c := range fills {
				if b := bufArg(c); b != nil && !leaves[b] {
					bad = "the result at " + e.pos(sl) + " is cut from a buffer that the filling call at " + e.pos(c) + " did not write (the grown buffer is lost; the count then exceeds the old buffer)"
				}
			}
		})
		e.R.Check(bad == "" && n >= 1, rule, q+":returns-filled-buffer", e.fpos(f), "the result is cut from the buffer every attempt filled (first or grown)", bad)
	}
}

// routeKeyIsFilteredPattern (C17): all operations on the route table inside one router method use one key, the pattern after
// FilterPath – a route is removed under the key it was found under.
func routeKeyIsFilteredPattern(e *Env, rule string) {
	for _, q := range []string{"mux.Router.Handle", "mux.Router.HandleRemove", "mux.Router.GetRoute"} {
		f := e.fn(rule, q)
		if f == nil {
			continue
		}
		keys := map[ssa.Value]string{}
		core.Instrs(f, func(in ssa.Instruction) {
			isZ := func(v ssa.Value) bool {
				_, fl, ok := core.FieldOf(core.Unwrap(v))
				if !ok {
					if ld, isLd := v.(*ssa.UnOp); isLd {
						_, fl, ok = core.FieldOf(ld.X)
					}
				}
				return ok && fl == "z"
			}
			switch x := in.(type) {
			case *ssa.Lookup:
				if isZ(x.X) {
					keys[core.Resolve(x.Index)] = e.pos(x)
				}
			case *ssa.MapUpdate:
				if isZ(x.Map) {
					keys[core.Resolve(x.Key)] = e.pos(x)
				}
			case *ssa.Call:
				if b, isB := x.Call.Value.(*ssa.Builtin); isB && b.Name() == "delete" && isZ(x.Call.Args[0]) {
					keys[core.Resolve(x.Call.Args[1])] = e.pos(x)
				}
			}
		})
		bad := ""
		for k, pos := range keys {
			if _, ok := isCallTo(k, "mux.FilterPath"); !ok {
				bad = "the route table is accessed at " + pos + " with a key that is not the filtered pattern"
			}
		}
		if len(keys) > 1 {
			bad = fmt.Sprintf("the route table is accessed with %d different keys in one operation (looked up under one, changed under another)", len(keys))
		}
		e.R.Check(bad == "" && len(keys) == 1, rule, q+":one-filtered-key", e.fpos(f), "every access to the route table uses the one key FilterPath(pattern)", bad)
	}
	// FilterPath maps exactly the empty string to the root
	if f := e.fn(rule, "mux.FilterPath"); f != nil && len(f.Params) == 1 {
		p := f.Params[0]
		bf := &core.BoolFn{Fn: f, AtomOf: func(v ssa.Value) (string, bool, bool) {
			c, ok := core.AsCmp(v)
			if !ok {
				return "", false, false
			}
			if c.Op == token.EQL || c.Op == token.NEQ {
				for _, xy := range [][2]ssa.Value{{c.X, c.Y}, {c.Y, c.X}} {
					if k, isK := xy[1].(*ssa.Const); isK && core.Resolve(xy[0]) == ssa.Value(p) && k.Value != nil && k.Value.ExactString() == `""` {
						return "empty", c.Op == token.NEQ, true
					}
				}
			}
			if neg, isL := lenNonEmpty(c, func(x ssa.Value) bool { return core.Resolve(x) == ssa.Value(p) }); isL {
				return "empty", !neg, true
			}
			return "", false, false
		}}
		rows, err := bf.Table()
		bad := ""
		if err != nil {
			bad = err.Error()
		}
		for _, r := range rows {
			if r.Unknown != "" {
				bad = r.Unknown
				continue
			}
			isRoot := len(r.RetVals) == 1 && r.RetVals[0] != nil && func() bool {
				k, isK := r.RetVals[0].(*ssa.Const)
				return isK && k.Value != nil && k.Value.ExactString() == `"/"`
			}()
			same := len(r.RetVals) == 1 && r.RetVals[0] == ssa.Value(p)
			if r.Assign["empty"] && !isRoot {
				bad = "the empty pattern is not mapped to the root"
			}
			if !r.Assign["empty"] && !same {
				bad = "a non-empty pattern or path is rewritten for [" + core.AssignString(r.Assign) + "] (a one-character pattern such as \"a\" becomes the root route)"
			}
		}
		e.R.Check(bad == "", rule, "mux.FilterPath:only-empty-is-root", e.fpos(f), "\"\" ↦ \"/\", everything else unchanged", bad)
	}
}

// borrow runs rule fromRule of property fromProp on the current program and records its obligations under asRule.
func borrow(e *Env, fromProp, fromRule, asRule string) {
	pr := Registry[fromProp]
	if pr == nil {
		e.R.Undecided(asRule, "borrow:"+fromRule, "-", "property "+fromProp+" is not registered")
		return
	}
	tmp := core.NewReport(fromProp, e.Tier, pr.Level)
	tmp.SetConfig(e.R.CurConfig())
	sub := &Env{P: e.P, R: tmp, Tier: e.Tier, Only: fromRule, Primary: e.Primary}
	if !sub.Primary && pr.RunExtra != nil {
		pr.RunExtra(sub)
	} else {
		pr.Run(sub)
	}
	if e.R.Borrow(tmp, fromRule, asRule) == 0 {
		e.R.Undecided(asRule, "borrow:"+fromRule, "-", "the shared rule "+fromRule+" produced no obligation")
	}
}

// clampBeforeUse (C19, C04): in the function that builds a block every use of the size exponent – buffer size, offsets, the encoded
// option – takes the value clamped to the local maximum (getSzx), so that the bytes sent match the SZX announced.
func clampBeforeUse(e *Env, rule string) {
	q := bw + ".createSendingMessage"
	f := e.fn(rule, q)
	if f == nil {
		return
	}
	n, bad := 0, ""
	isClamped := func(v ssa.Value) bool {
		if _, ok := isCallTo(v, "net/blockwise.getSzx"); ok {
			return true
		}
		if c, ok := core.Resolve(core.Unwrap(v)).(*ssa.Call); ok {
			if b, isB := c.Call.Value.(*ssa.Builtin); isB && b.Name() == "min" {
				return true // the clamp written with the builtin
			}
		}
		return false
	}
	core.Instrs(f, func(in ssa.Instruction) {
		c, ok := in.(*ssa.Call)
		if !ok {
			return
		}
		if h := c.Call.StaticCallee(); h != nil && c.Parent() == f && core.IsAbsorbed(h) && h.Signature.Recv() == nil {
			// an offset / block-number helper that takes the exponent: the exponent handed to it is a use
			for _, a := range c.Call.Args {
				if core.IsNamed(a.Type(), "net/blockwise.SZX") {
					n++
					if !isClamped(a) {
						bad = "at " + e.pos(c) + " the size exponent handed to " + h.Name() + " is not the one clamped to the local maximum"
					}
				}
			}
			return
		}
		switch core.CalleeName(c) {
		case "net/blockwise.bufferSize", "net/blockwise.EncodeBlockOption", "net/blockwise.SZX.Size":
			if c.Parent() != f {
				return // inside a helper: its own argument is what the caller passed
			}
			n++
			if !isClamped(core.Arg(c, 0)) {
				bad = "at " + e.pos(c) + " the size exponent used is not the one clamped to the local maximum: the block is sized / numbered with the peer's exponent but announced with the clamped one"
			}
		}
	})
	e.R.Check(bad == "" && n >= 3, rule, q+":clamped-exponent-everywhere", e.fpos(f), fmt.Sprintf("all %d uses of the size exponent take getSzx's result", n), bad)
}

// reassemblyLookupHonoursExpiry (C03, C04, C13): the state of a transfer in progress is looked up through the cache's own Load /
// LoadOrStore, which hide an entry whose deadline has passed; the embedded map's accessors would find an expired entry of an earlier
// exchange with the same token.
func reassemblyLookupHonoursExpiry(e *Env, rule string) {
	n, bad := 0, ""
	for _, f := range e.P.SrcFuncs(false) {
		if !strings.HasPrefix(core.FnName(f), "net/blockwise.") {
			continue
		}
		for _, g := range core.WithAnon(f) {
			core.InstrsOwn(g, func(in ssa.Instruction) {
				c, ok := in.(ssa.CallInstruction)
				if !ok || core.NArgs(c) == 0 {
					return
				}
				name := core.CalleeName(c)
				if !strings.Contains(name, "pkg/sync.Map.") && !strings.Contains(name, "pkg/cache.Cache.") {
					return
				}
				if !strings.HasSuffix(tableOf(c), ".receivingMessagesCache") {
					return
				}
				n++
				m := name[strings.LastIndex(name, ".")+1:]
				if strings.Contains(name, "pkg/sync.Map.") && m != "Delete" && m != "DeleteWithFunc" && m != "LoadAndDelete" && m != "Length" {
					bad = "the reassembly table is read with the embedded map's " + m + " at " + e.pos(c) + ", which does not filter expired entries"
				}
			})
		}
	}
	e.R.Check(bad == "" && n >= 3, rule, "net/blockwise:reassembly-lookups-honour-expiry", "-", fmt.Sprintf("all %d accesses to the reassembly table go through the expiry-aware cache methods (or delete)", n), bad)
}

// activityOnlyFromReceive (C18): the activity timestamp of the inactivity monitor is refreshed only where a message from the peer was
// received – never by something the local side does (sending a ping, writing a request).
func activityOnlyFromReceive(e *Env, rule string) {
	allowed := map[string]string{
		"tcp/client.Session.processBuffer":     "a frame was decoded from the stream",
		"udp/client.Conn.handleReq":            "a request datagram is being handled",
		"udp/client.Conn.Process":              "a datagram was received for this connection",
		"udp/server.Server.getConn":            "a datagram arrived for this peer",
		"net/monitor/inactivity.New":           "construction: the period starts now",
		"net/monitor/inactivity.NewNilMonitor": "no-op monitor",
	}
	n, bad := 0, ""
	for _, f := range e.P.AllSrcFuncs(false) {
		if strings.HasPrefix(core.FnName(f), "examples/") {
			continue
		}
		core.InstrsOwn(f, func(in ssa.Instruction) {
			c, ok := in.(ssa.CallInstruction)
			if !ok {
				return
			}
			name := core.CalleeName(c)
			isNotify := strings.HasSuffix(name, "inactivity.Monitor.Notify")
			if !isNotify && c.Common().IsInvoke() && c.Common().Method.Name() == "Notify" && strings.Contains(c.Common().Value.Type().String(), "InactivityMonitor") {
				isNotify = true
			}
			if !isNotify {
				return
			}
			n++
			top := f
			for top.Parent() != nil {
				top = top.Parent()
			}
			for _, root := range core.RootsOf(top) {
				if _, ok := allowed[core.FnName(root)]; !ok {
					bad = core.FnName(root) + " refreshes the activity timestamp at " + e.pos(c) + ": it is not a receive path, so a silent peer is no longer closed after a full period"
				}
			}
		})
	}
	e.R.Check(bad == "" && n >= 4, rule, "inactivity.Notify:only-from-receive-paths", "-", fmt.Sprintf("%d refresh sites, all in receive paths", n), bad)
}

// resetClearsEverything (C02, C12): Message.Reset puts every field of the wire message back to its zero/unset value – a decoder that
// assigns a field only when it is present on the wire (the stream decoder and the payload) relies on it for recycled messages.
func resetClearsEverything(e *Env, rule string) {
	q := "message/pool.Message.Reset"
	f := e.fn(rule, q)
	if f == nil {
		return
	}
	want := map[string]bool{"Token": false, "Code": false, "Options": false, "MessageID": false, "Type": false, "Payload": false}
	core.Instrs(f, func(in ssa.Instruction) {
		st, ok := in.(*ssa.Store)
		if !ok {
			return
		}
		if owner, fl, isF := core.FieldOf(st.Addr); isF && strings.HasSuffix(owner, "Message") {
			if _, has := want[fl]; has {
				want[fl] = true
			}
		}
	})
	var missing []string
	for k, v := range want {
		if !v {
			missing = append(missing, k)
		}
	}
	sortStrings(missing)
	e.R.Check(len(missing) == 0, rule, q+":clears-all-wire-fields", e.fpos(f), "token, code, options, message ID, type and payload are all reset", "Reset leaves "+strings.Join(missing, ", ")+" of the previous use in place: a recycled message decodes a frame without that field to the old value")
}

func sortStrings(s []string) {
	for i := 1; i < len(s); i++ {
		for j := i; j > 0 && s[j] < s[j-1]; j-- {
			s[j], s[j-1] = s[j-1], s[j]
		}
	}
}

// settersStoreOwnField (C06, C09): each run-time setter of the transmission parameters stores into the parameter it is named after.
func settersStoreOwnField(e *Env, rule string) {
	for _, it := range []struct{ fn, field string }{
		{"udp/client.Transmission.SetTransmissionNStart", "nStart"},
		{"udp/client.Transmission.SetTransmissionAcknowledgeTimeout", "acknowledgeTimeout"},
		{"udp/client.Transmission.SetTransmissionMaxRetransmit", "maxRetransmit"},
	} {
		f := e.fn(rule, it.fn)
		if f == nil {
			continue
		}
		var fields []string
		core.Instrs(f, func(in ssa.Instruction) {
			c, ok := in.(*ssa.Call)
			if !ok || !strings.HasSuffix(core.CalleeName(c), ".Store") {
				return
			}
			if _, fl, isF := core.FieldOf(core.Unwrap(core.Arg(c, 0))); isF {
				fields = append(fields, fl)
			} else if ld, isLd := core.Arg(c, 0).(*ssa.UnOp); isLd {
				if _, fl, isF := core.FieldOf(ld.X); isF {
					fields = append(fields, fl)
				}
			}
		})
		ok := len(fields) == 1 && fields[0] == it.field
		e.R.Check(ok, rule, it.fn+":stores-own-parameter", e.fpos(f), "stores into "+it.field, fmt.Sprintf("the setter stores into %v instead of %s: the parameter it is named after keeps its old value and another one is overwritten", fields, it.field))
	}
}

// deliveredOnlyToLiveConn (C11): a datagram is handed to a server-side connection only after that connection was seen alive AFTER
// the expiry check the arrival itself triggers: the successful return is not reachable on the "closed" side of a liveness test that
// follows CheckExpirations.
func deliveredOnlyToLiveConn(e *Env, rule string) {
	q := "udp/server.Server.getConn"
	f := e.fn(rule, q)
	if f == nil {
		return
	}
	var chk *ssa.Call
	for _, c := range core.Calls(f, func(n string, _ ssa.CallInstruction) bool {
		return strings.HasSuffix(n, "client.Conn.CheckExpirations")
	}) {
		chk, _ = c.(*ssa.Call)
	}
	if chk == nil {
		e.R.Undecided(rule, q+":live-after-expiry-check", e.fpos(f), "no expiry check on arrival")
		return
	}
	w := (&core.PathQuery{Fn: f, From: chk,
		EdgeOK: func(i *ssa.If, br bool) bool {
			ev, nilBranch, ok := core.ErrNilEdge(i)
			if !ok {
				return true
			}
			if c, isC := core.Resolve(ev).(*ssa.Call); isC && c.Call.IsInvoke() && c.Call.Method.Name() == "Err" {
				return br != nilBranch // only the "context is done" side
			}
			return true
		},
		Target: func(in ssa.Instruction) bool {
			ret, ok := in.(*ssa.Return)
			return ok && len(ret.Results) == 2 && core.IsNilConst(core.RetVal(ret, 1))
		}}).Find()
	e.R.Check(w == nil, rule, q+":live-after-expiry-check", e.pos(chk), "a connection closed by the arrival's own expiry check is never returned as the receiver", "the connection can be returned although the expiry check just closed it (the datagram is then dropped or answered into the void): "+e.trace(w))
}

// rawPhiLeaves: the non-φ values a value can be, without looking through calls of helpers.
func rawPhiLeaves(v ssa.Value) []ssa.Value {
	var out []ssa.Value
	seen := map[ssa.Value]bool{}
	var walk func(x ssa.Value)
	walk = func(x ssa.Value) {
		if seen[x] {
			return
		}
		seen[x] = true
		if ph, ok := x.(*ssa.Phi); ok {
			for _, ed := range ph.Edges {
				walk(ed)
			}
			return
		}
		out = append(out, x)
	}
	walk(v)
	return out
}

// valueKey identifies "the same variable": the cell for a value loaded from a variable cell, the resolved value otherwise.
func valueKey(v ssa.Value) ssa.Value {
	if ld, ok := v.(*ssa.UnOp); ok && ld.Op == token.MUL {
		if a := core.CellOf(ld.X); a != nil {
			return a
		}
	}
	return core.Resolve(v)
}

// valueLeaves: the values v can be, looking through φ-nodes and through the results of helpers analysed as part of the caller.
func valueLeaves(v ssa.Value) []ssa.Value {
	var out []ssa.Value
	seen := map[ssa.Value]bool{}
	var walk func(x ssa.Value, d int)
	walk = func(x ssa.Value, d int) {
		if x == nil || seen[x] || d > 8 {
			return
		}
		seen[x] = true
		switch y := x.(type) {
		case *ssa.Phi:
			for _, ed := range y.Edges {
				walk(ed, d+1)
			}
			return
		case *ssa.Call:
			if h := core.AbsorbedCallee(y); h != nil && h.Signature.Results().Len() == 1 {
				for _, ret := range core.ReturnsOf(h) {
					walk(core.RetVal(ret, 0), d+1)
				}
				return
			}
		case *ssa.Extract:
			if c, ok := y.Tuple.(*ssa.Call); ok {
				if h := core.AbsorbedCallee(c); h != nil {
					for _, ret := range core.ReturnsOf(h) {
						walk(core.RetVal(ret, y.Index), d+1)
					}
					return
				}
			}
		}
		out = append(out, x)
	}
	walk(v, 0)
	return out
}

// guardAcquisitions: the places in f's own body where the reassembly guard is taken – a direct Acquire, or a call of an
// unexported helper that acquires its receiver/first argument and hands back (release func, error): the helper's body is
// checked here (its non-nil function result releases the semaphore it acquired), the call is the acquisition.
func guardAcquisitions(f *ssa.Function) []*ssa.Call {
	const acq, rel = "golang.org/x/sync/semaphore.Weighted.Acquire", "golang.org/x/sync/semaphore.Weighted.Release"
	var out []*ssa.Call
	core.InstrsOwn(f, func(in ssa.Instruction) {
		c, ok := in.(*ssa.Call)
		if !ok {
			return
		}
		if core.CalleeName(c) == acq {
			out = append(out, c)
			return
		}
		h := c.Call.StaticCallee()
		if h == nil || !core.IsAbsorbed(h) || len(core.CallsNamed(h, acq)) == 0 {
			return
		}
		sig := h.Signature.Results()
		if sig.Len() != 2 || !isFuncType(sig.At(0).Type()) {
			out = append(out, core.CallsNamed(h, acq)[0].(*ssa.Call)) // acquires without handing back a release function: its Acquire stands for itself
			return
		}
		releases := false
		for _, r := range core.ReturnsOf(h) {
			if mk, isMk := core.Resolve(core.RetVal(r, 0)).(*ssa.MakeClosure); isMk {
				if fn, _ := mk.Fn.(*ssa.Function); fn != nil && len(core.CallsNamedDeep(fn, rel)) > 0 {
					releases = true
					continue
				}
			}
			if !core.IsNilConst(core.RetVal(r, 0)) || core.IsNilConst(core.RetVal(r, 1)) {
				releases = false
				break
			}
		}
		if releases {
			out = append(out, c)
		} else {
			out = append(out, core.CallsNamed(h, acq)[0].(*ssa.Call))
		}
	})
	return out
}

func isFuncType(t types.Type) bool {
	_, ok := t.Underlying().(*types.Signature)
	return ok
}

// callsListElements: fn calls function values it loads out of a slice (runs a list of release functions).
func callsListElements(fn *ssa.Function) bool {
	found := false
	for _, g := range core.WithAnon(fn) {
		core.InstrsOwn(g, func(in ssa.Instruction) {
			c, ok := in.(ssa.CallInstruction)
			if !ok || c.Common().IsInvoke() || c.Common().StaticCallee() != nil {
				return
			}
			if ld, isLd := c.Common().Value.(*ssa.UnOp); isLd && ld.Op == token.MUL {
				if _, isIdx := ld.X.(*ssa.IndexAddr); isIdx {
					found = true
				}
			}
		})
	}
	return found
}

// errSourceVal: the value last stored (in the load's block) to the cell ld reads.
func errSourceVal(ld *ssa.UnOp) ssa.Value {
	a := core.CellOf(ld.X)
	if a == nil {
		return nil
	}
	var last ssa.Value
	for _, in := range ld.Block().Instrs {
		if in == ssa.Instruction(ld) {
			break
		}
		if st, ok := in.(*ssa.Store); ok && core.CellOf(st.Addr) == a {
			last = st.Val
		}
	}
	return last
}

// errSourceDirect: the call whose result tuple v is extracted from, without looking into an absorbed helper.
func errSourceDirect(v ssa.Value) *ssa.Call {
	if ld, ok := v.(*ssa.UnOp); ok && ld.Op == token.MUL {
		if src := errSourceVal(ld); src != nil {
			v = src
		}
	}
	if ex, ok := core.Unwrap(v).(*ssa.Extract); ok {
		if c, ok := ex.Tuple.(*ssa.Call); ok {
			return c
		}
	}
	return nil
}

package rules

import (
	"fmt"
	"go/token"
	"go/types"
	"strings"

	"coapcheck/internal/core"

	"golang.org/x/tools/go/ssa"
)

func init() {
	register(&Property{
		ID:    "C16",
		Title: "Parallel-request limits are never exceeded and never leak",
		Level: "other",
		Explain: "Decided: (R1) the per-path queue state (in-flight counter, waiter list) is touched only inside callbacks that the map runs under its write lock (or while the entry is being constructed); (R2) a successful endpoint / total-limit acquisition is released by defer with the same key or weight, and NOTHING is released on the failed-acquisition edge; " +
			"(R3) the counter is incremented only on the `counter < limit` edge (so counter ≤ limit is inductive) and decremented only when no waiter takes over the slot; (R4) FIFO: waiters are appended at the tail, admitted from index 0, and a cancelled waiter is removed order-preservingly; " +
			"(R5) cancellation knows who cancels: the context-done arm hands the waiter's own channel to the cleanup, which searches the queue for that channel and gives a slot back only if the waiter was no longer queued (i.e. had already been admitted); (R6) a waiter channel is closed exactly where a slot is granted.",
		NotDecided: "All event orders of arrive/cancel/finish and fairness across paths are not explored.",
		Run:        runC16,
	})
}

const lpr = "net/client/limitParallelRequests.LimitParallelRequests"
const lprPkg = "net/client/limitParallelRequests"

func runC16(e *Env) {
	r := e.R
	r.Rule("C16.R1", "locks", "queue state only inside map-locked callbacks", 8)
	r.Rule("C16.R2", "paths", "acquire ⇒ deferred release with the same key; nothing released on the failed edge", 6)
	r.Rule("C16.R3", "paths", "increment only under counter < limit; decrement only without waiters", 2)
	r.Rule("C16.R4", "flows", "FIFO append / pop-front / order-preserving removal", 3)
	r.Rule("C16.R5", "flows", "cancel path identifies the waiter by its own channel", 3)
	r.Rule("C16.R6", "paths", "waiter channel closed exactly where a slot is granted", 3)
	r.Rule("C16.R7", "flows", "the two configured limits reach the limiter uncrossed (config field → constructor parameter → limiter field)", 6)
	r.Rule("C16.R8", "paths", "the endpoint key covers the Uri-Path options and nothing else", 2)
	if e.want("C16.R7") {
		checkArgPlumbing(e, "C16.R7", []argPlumb{
			{"udp/client.NewConnWithOpts", lprPkg + ".New", "limit", "LimitClientParallelRequests"},
			{"udp/client.NewConnWithOpts", lprPkg + ".New", "endpointLimit", "LimitClientEndpointParallelRequests"},
			{"tcp/client.NewConnWithOpts", lprPkg + ".New", "limit", "LimitClientParallelRequests"},
			{"tcp/client.NewConnWithOpts", lprPkg + ".New", "endpointLimit", "LimitClientEndpointParallelRequests"},
		})
		checkCtorInit(e, "C16.R7", lprPkg+".New", map[string]string{"limit": "limit", "endpointLimit": "endpointLimit"})
		observationDoIsLimited(e, "C16.R7")
	}
	if e.want("C16.R8") {
		c16Key(e)
	}

	acq := e.fn("C16.R1", lpr+".acquireEndpoint")
	rel := e.fn("C16.R1", lpr+".releaseEndpoint")
	can := e.fn("C16.R5", lpr+".cancelEndpoint")

	if e.want("C16.R1") {
		n := 0
		for _, f := range e.P.SrcFuncs(false) {
			accs := core.FieldAccesses(f, func(owner, fl string, _ ssa.Value) bool {
				return owner == "net/client/limitParallelRequests.endpointQueue" && (fl == "processedCounter" || fl == "orderedRequest")
			})
			for _, a := range accs {
				n++
				construct := fmt.Sprintf("%s:endpointQueue.%s", core.FnName(f), a.Field)
				if strings.HasPrefix(a.Base, "alloc:") {
					e.R.OkTrivial("C16.R1", construct, e.pos(a.Instr), "entry under construction")
					continue
				}
				ok := runsUnderQueueLock(f, 0)
				e.R.Check(ok, "C16.R1", construct, e.pos(a.Instr), "inside a callback the queue map runs under its write lock", "queue state is accessed outside the map's locked callbacks: counter and waiter list can be corrupted by concurrent requests")
			}
		}
		if n == 0 {
			e.R.Undecided("C16.R1", "endpointQueue:accesses", "-", "no access found")
		}
	}
	if e.want("C16.R2") {
		for _, q := range []string{lpr + ".Do", lpr + ".DoObserve"} {
			f := e.fn("C16.R2", q)
			if f == nil {
				continue
			}
			for _, pair := range [][2]string{{lpr + ".acquireEndpoint", lpr + ".releaseEndpoint"}, {"golang.org/x/sync/semaphore.Weighted.Acquire", "golang.org/x/sync/semaphore.Weighted.Release"}} {
				acqs := core.CallsNamed(f, pair[0])
				if len(acqs) != 1 {
					e.R.Fail("C16.R2", q+":"+shortType(pair[0]), e.fpos(f), fmt.Sprintf("%d acquisitions", len(acqs)))
					continue
				}
				call := acqs[0].(*ssa.Call)
				// the error test of this acquisition
				var errIf *ssa.If
				nilBranch := false
				for _, i := range core.IfsOf(f) {
					ev, nb, ok := core.ErrNilEdge(i)
					if !ok {
						continue
					}
					if core.Resolve(ev) == ssa.Value(call) || ev == ssa.Value(call) {
						errIf, nilBranch = i, nb
					} else if ld, isLd := ev.(*ssa.UnOp); isLd {
						if a := core.CellOf(ld.X); a != nil {
							for _, st := range core.StoresToCell(a) {
								if st.Val == ssa.Value(call) && st.Block() == i.Block() {
									errIf, nilBranch = i, nb
								}
							}
						}
					}
				}
				if errIf == nil {
					e.R.Fail("C16.R2", q+":"+shortType(pair[0])+"-checked", e.pos(call), "the acquisition's error is not tested")
					continue
				}
				nRel, okEdge := 0, true
				core.Instrs(f, func(in ssa.Instruction) {
					c, ok := in.(ssa.CallInstruction)
					if !ok || core.CalleeName(c) != pair[1] {
						return
					}
					nRel++
					if !core.OnlyViaEdge(errIf, nilBranch, in) {
						okEdge = false
					}
				})
				// a release inside a closure (a release function built after the acquisition and deferred by the caller): the closure
				// must be created on the successful edge only
				core.Instrs(f, func(in ssa.Instruction) {
					mk, isMk := in.(*ssa.MakeClosure)
					if !isMk {
						return
					}
					body, _ := mk.Fn.(*ssa.Function)
					if body == nil || len(core.CallsNamedDeep(body, pair[1])) == 0 {
						return
					}
					nRel++
					if !core.OnlyViaEdge(errIf, nilBranch, mk) {
						okEdge = false
					}
				})
				// … and never twice on one path: no explicit release is reachable once the release has been deferred
				core.Instrs(f, func(in ssa.Instruction) {
					d, isD := in.(*ssa.Defer)
					if !isD {
						return
					}
					deferredRel := core.CalleeName(d) == pair[1]
					if body := core.StaticFn(d); !deferredRel && body != nil && body.Parent() != nil && len(core.CallsNamedDeep(body, pair[1])) > 0 {
						deferredRel = true
					}
					if !deferredRel {
						return
					}
					if w := (&core.PathQuery{Fn: f, From: d, Target: func(x ssa.Instruction) bool {
						c, isC := x.(*ssa.Call)
						return isC && core.CalleeName(c) == pair[1]
					}}).Find(); w != nil {
						okEdge = false
					}
				})
				e.R.Check(nRel >= 1 && okEdge, "C16.R2", q+":"+shortType(pair[1])+"-only-after-success", e.pos(call), "the (deferred) release is armed only on the successful-acquisition edge", "a release is reachable or deferred on the failed-acquisition edge: a cancelled waiter would give away a slot it does not own")
			}
		}
		// and the success side is released on all exits (same obligations as C13.R4)
		sub := *e
		rep := core.NewReport("tmp", e.Tier, "other")
		sub.R = rep
		c13Acquisitions(&sub)
		for _, o := range rep.Obls {
			if strings.Contains(o.Key, "LimitParallelRequests.Do") {
				if o.Status == core.Discharged {
					e.R.Ok("C16.R2", strings.TrimPrefix(o.Key, "C13.R4:"), o.Pos, o.Detail)
				} else {
					e.R.Fail("C16.R2", strings.TrimPrefix(o.Key, "C13.R4:"), o.Pos, o.Detail)
				}
			}
		}
	}
	if e.want("C16.R3") && acq != nil {
		ok, why := false, "no increment of the in-flight counter found in the on-load callback"
		for _, c := range core.CallsNamed(acq, "pkg/sync.Map.LoadOrStoreWithFunc", "pkg/sync.Map.ReplaceWithFunc") {
			onLoad, _ := core.MethodBehind(core.FuncArgClosure(core.Arg(c, 2))) // a literal, or the method behind a method value
			if onLoad == nil {
				continue
			}
			core.Instrs(onLoad, func(in ssa.Instruction) {
				st, isSt := in.(*ssa.Store)
				if !isSt {
					return
				}
				if _, fl, isF := core.FieldOf(st.Addr); !isF || fl != "processedCounter" {
					return
				}
				if fa, isFA := st.Addr.(*ssa.FieldAddr); isFA {
					if _, fresh := core.Resolve(fa.X).(*ssa.Alloc); fresh {
						return // the first request's new queue (counter 1): not an increment of a shared counter
					}
				}
				_, g := core.GuardedBy(st, func(cond ssa.Value) core.CondMatch {
					cmp, isCmp := core.AsCmp(cond)
					if !isCmp {
						return core.CondMatch{}
					}
					isCtr := func(v ssa.Value) bool {
						ld, ok := v.(*ssa.UnOp)
						if !ok {
							return false
						}
						_, fl, ok := core.FieldOf(ld.X)
						return ok && fl == "processedCounter"
					}
					isLim := func(v ssa.Value) bool {
						ld, ok := core.Resolve(v).(*ssa.UnOp) // through a helper's parameter to the argument of its call
						if !ok {
							return false
						}
						_, fl, ok := core.FieldOf(ld.X)
						return ok && fl == "endpointLimit"
					}
					switch {
					case cmp.Op == token.LSS && isCtr(cmp.X) && isLim(cmp.Y), cmp.Op == token.GTR && isLim(cmp.X) && isCtr(cmp.Y):
						return core.CondMatch{Match: true, Branch: true}
					case cmp.Op == token.GEQ && isCtr(cmp.X) && isLim(cmp.Y), cmp.Op == token.LEQ && isLim(cmp.X) && isCtr(cmp.Y):
						return core.CondMatch{Match: true, Branch: false}
					}
					return core.CondMatch{}
				})
				if g {
					ok = true
				} else {
					why = "the in-flight counter is incremented without the `counter < limit` guard: the per-endpoint limit can be exceeded"
				}
			})
		}
		e.R.Check(ok, "C16.R3", lpr+".acquireEndpoint:increment-under-limit", e.fpos(acq), "processedCounter++ is control-dependent on processedCounter < endpointLimit (counter ≤ limit is inductive)", why)
	}
	if e.want("C16.R3") && rel != nil {
		// decrement only on the no-waiter edge
		ok := false
		// the callbacks of releaseEndpoint that run under the map's lock (handed to ReplaceWithFunc directly, as a method value, or
		// through an update helper that calls them from its own locked callback)
		for _, cb := range core.WithAnon(rel) {
			if cb == rel || !runsUnderQueueLock(cb, 0) {
				continue
			}
			core.Instrs(cb, func(in ssa.Instruction) {
				st, isSt := in.(*ssa.Store)
				if !isSt {
					return
				}
				if _, fl, isF := core.FieldOf(st.Addr); !isF || fl != "processedCounter" {
					return
				}
				_, g := core.GuardedBy(st, func(cond ssa.Value) core.CondMatch {
					cmp, isCmp := core.AsCmp(cond)
					if !isCmp {
						return core.CondMatch{}
					}
					lc, isLen := cmp.X.(*ssa.Call)
					if !isLen {
						return core.CondMatch{}
					}
					if b, isB := lc.Call.Value.(*ssa.Builtin); !isB || b.Name() != "len" {
						return core.CondMatch{}
					}
					k, isK := core.ConstInt(cmp.Y)
					if !isK || k != 0 {
						return core.CondMatch{}
					}
					switch cmp.Op {
					case token.GTR, token.NEQ:
						return core.CondMatch{Match: true, Branch: false}
					case token.EQL, token.LEQ:
						return core.CondMatch{Match: true, Branch: true}
					}
					return core.CondMatch{}
				})
				if g {
					ok = true
				}
			})
		}
		e.R.Check(ok, "C16.R3", lpr+".releaseEndpoint:decrement-only-without-waiters", e.fpos(rel), "the counter is decremented only when no waiter takes over the slot", "the in-flight counter is decremented although a waiter is admitted (or vice versa): slots are lost or duplicated")
	}
	if e.want("C16.R4") {
		c16FIFO(e, acq, rel, can)
	}
	if e.want("C16.R5") {
		c16Cancel(e, acq, can)
	}
	if e.want("C16.R6") {
		c16Close(e, acq, rel)
	}
}

func isFieldLoadNamed(v ssa.Value, field string) bool {
	ld, ok := v.(*ssa.UnOp)
	if !ok || ld.Op != token.MUL {
		return false
	}
	_, fl, ok := core.FieldOf(ld.X)
	return ok && fl == field
}

func c16FIFO(e *Env, acq, rel, can *ssa.Function) {
	rule := "C16.R4"
	// append at the tail
	if acq != nil {
		ok := false
		for _, g := range core.WithAnon(acq) {
			core.Instrs(g, func(in ssa.Instruction) {
				st, isSt := in.(*ssa.Store)
				if !isSt {
					return
				}
				if _, fl, isF := core.FieldOf(st.Addr); !isF || fl != "orderedRequest" {
					return
				}
				ap, isCall := st.Val.(*ssa.Call)
				if !isCall {
					return
				}
				if b, isB := ap.Call.Value.(*ssa.Builtin); isB && b.Name() == "append" && isFieldLoadNamed(ap.Call.Args[0], "orderedRequest") {
					ok = true
				}
			})
		}
		e.R.Check(ok, rule, lpr+".acquireEndpoint:append-at-tail", e.fpos(acq), "a new waiter is appended to the end of the list", "a new waiter is not appended at the tail of the waiter list")
	}
	// pop at index 0
	if rel != nil {
		okIdx, okRest := false, false
		for _, g := range core.WithAnon(rel) {
			core.Instrs(g, func(in ssa.Instruction) {
				switch x := in.(type) {
				case *ssa.IndexAddr:
					if k, isK := core.ConstInt(x.Index); isK && k == 0 && isFieldLoadNamed(x.X, "orderedRequest") {
						okIdx = true
					}
				case *ssa.Store:
					if _, fl, isF := core.FieldOf(x.Addr); isF && fl == "orderedRequest" {
						if sl, isSl := x.Val.(*ssa.Slice); isSl && sl.High == nil && isFieldLoadNamed(sl.X, "orderedRequest") {
							if k, isK := core.ConstInt(sl.Low); isK && k == 1 {
								okRest = true
							}
						}
					}
				}
			})
		}
		e.R.Check(okIdx && okRest, rule, lpr+".releaseEndpoint:pop-front", e.fpos(rel), "the admitted waiter is element 0 and the list becomes list[1:]", "the next waiter is not taken from the front of the list")
	}
	// order-preserving removal on cancel
	if can != nil {
		ok := false
		for _, g := range core.WithAnon(can) {
			core.Instrs(g, func(in ssa.Instruction) {
				st, isSt := in.(*ssa.Store)
				if !isSt {
					return
				}
				if _, fl, isF := core.FieldOf(st.Addr); !isF || fl != "orderedRequest" {
					return
				}
				ap, isCall := st.Val.(*ssa.Call)
				if !isCall {
					return
				}
				// slices.Delete(list, i, i+1): the standard library's order-preserving cut of one element
				if strings.HasSuffix(core.CalleeName(ap), "slices.Delete") && len(ap.Call.Args) == 3 && isFieldLoadNamed(ap.Call.Args[0], "orderedRequest") {
					if add, isAdd := ap.Call.Args[2].(*ssa.BinOp); isAdd && add.Op == token.ADD && add.X == ap.Call.Args[1] {
						if k, isK := core.ConstInt(add.Y); isK && k == 1 {
							ok = true
						}
					}
					return
				}
				b, isB := ap.Call.Value.(*ssa.Builtin)
				if !isB || b.Name() != "append" || len(ap.Call.Args) != 2 {
					return
				}
				head, isH := ap.Call.Args[0].(*ssa.Slice)
				tail, isT := ap.Call.Args[1].(*ssa.Slice)
				if !isH || !isT || head.Low != nil || head.High == nil || tail.High != nil || tail.Low == nil {
					return
				}
				add, isAdd := tail.Low.(*ssa.BinOp)
				if !isAdd || add.Op != token.ADD || add.X != head.High {
					return
				}
				if k, isK := core.ConstInt(add.Y); isK && k == 1 && isFieldLoadNamed(head.X, "orderedRequest") && isFieldLoadNamed(tail.X, "orderedRequest") {
					ok = true
				}
			})
		}
		e.R.Check(ok, rule, lpr+".cancelEndpoint:order-preserving-removal", e.fpos(can), "the cancelled waiter is cut out as append(list[:i], list[i+1:]...)", "a cancelled waiter is not removed order-preservingly: the remaining waiters are no longer admitted in arrival order")
	}
}

func c16Cancel(e *Env, acq, can *ssa.Function) {
	rule := "C16.R5"
	var ch *ssa.MakeChan
	if acq != nil {
		core.Instrs(acq, func(in ssa.Instruction) {
			if mc, ok := in.(*ssa.MakeChan); ok {
				ch = mc
			}
		})
	}
	// the cleanup written into the waiting function itself: the waiter's own channel is the one made there
	inlined := can != nil && can == acq
	// releaseEndpoint only when the waiter was not found in the queue
	guardedRelease := func(f *ssa.Function) (n int, ok bool) {
		for _, c := range core.CallsNamed(f, lpr+".releaseEndpoint") {
			n++
			_, g := core.GuardedBy(c.(ssa.Instruction), func(cond ssa.Value) core.CondMatch {
				if ld, isLd := cond.(*ssa.UnOp); isLd && ld.Op == token.MUL {
					if a := core.CellOf(ld.X); a != nil && a.Comment == "queued" {
						return core.CondMatch{Match: true, Branch: false}
					}
					if _, fl, isF := core.FieldOf(ld.X); isF && fl == "queued" { // the flag kept in the waiter object
						return core.CondMatch{Match: true, Branch: false}
					}
				}
				return core.CondMatch{}
			})
			// the flag must be set exactly where the waiter is removed from the queue
			if g {
				ok = true
			}
		}
		return n, ok
	}
	if acq != nil && !inlined {
		// the select's ctx.Done arm
		ok, why := false, "the context-done arm does not hand the waiter's own channel to its cleanup"
		core.Instrs(acq, func(in ssa.Instruction) {
			c, isCall := in.(*ssa.Call)
			if !isCall || ch == nil {
				return
			}
			n := core.CalleeName(c)
			if !strings.HasPrefix(n, lpr+".") {
				return
			}
			passes := false
			for i := 0; i < core.NArgs(c); i++ {
				a := core.Resolve(core.Arg(c, i))
				if a == ssa.Value(ch) {
					passes = true
				}
				// … or the per-request waiter object that holds the channel
				if al, isAl := a.(*ssa.Alloc); isAl {
					for _, u := range core.Referrers(al) {
						if fa, isFA := u.(*ssa.FieldAddr); isFA {
							for _, uu := range core.Referrers(fa) {
								if st, isSt := uu.(*ssa.Store); isSt && st.Addr == ssa.Value(fa) && core.Resolve(st.Val) == ssa.Value(ch) {
									passes = true
								}
							}
						}
					}
				}
			}
			if passes {
				ok = true
			} else if n == lpr+".releaseEndpoint" {
				why = "the context-done arm calls releaseEndpoint(key), which cannot tell a still-queued waiter from an admitted one: cancelling a queued waiter admits another request while the slot holder is still running"
			}
		})
		e.R.Check(ok, rule, lpr+".acquireEndpoint:cancel-passes-own-channel", e.fpos(acq), "on cancellation the waiter's own channel identifies it to the cleanup", why)
	}
	var own ssa.Value
	switch {
	case inlined && ch != nil:
		own = ch
	case can != nil && !inlined && len(can.Params) == 3:
		own = can.Params[2]
	}
	if can != nil && own != nil {
		cmpFound := false
		// the waiter's own channel: the value itself, or the channel field of the waiter object handed in
		isOwn := func(v ssa.Value) bool {
			r := core.Resolve(v)
			if r == own {
				return true
			}
			if ld, isLd := r.(*ssa.UnOp); isLd && ld.Op == token.MUL {
				if fa, isFA := ld.X.(*ssa.FieldAddr); isFA {
					if _, isChan := ld.Type().Underlying().(*types.Chan); isChan {
						base := core.Resolve(fa.X)
						if rb := core.ReceiverBinding(base); rb != nil {
							base = core.Resolve(rb)
						}
						return base == own
					}
				}
			}
			return false
		}
		for _, g := range core.WithAnon(can) {
			core.Instrs(g, func(in ssa.Instruction) {
				if c, isC := in.(*ssa.Call); isC && strings.HasSuffix(core.CalleeName(c), "slices.Index") && len(c.Call.Args) == 2 {
					// slices.Index(list, own): linear search by ==
					if isFieldLoadNamed(c.Call.Args[0], "orderedRequest") && core.Resolve(c.Call.Args[1]) == own {
						cmpFound = true
					}
				}
				b, ok := in.(*ssa.BinOp)
				if !ok || (b.Op != token.EQL && b.Op != token.NEQ) {
					return
				}
				if isOwn(b.X) || isOwn(b.Y) {
					cmpFound = true
				}
			})
		}
		if inlined {
			nRel, okRel := guardedRelease(acq)
			why := "the context-done arm does not look for the waiter's own channel in the queue"
			if nRel > 0 && !okRel {
				why = "the context-done arm calls releaseEndpoint(key), which cannot tell a still-queued waiter from an admitted one: cancelling a queued waiter admits another request while the slot holder is still running"
			}
			e.R.Check(cmpFound, rule, lpr+".acquireEndpoint:cancel-passes-own-channel", e.fpos(acq), "on cancellation the waiter's own channel identifies it to the cleanup (written into the waiting function)", why)
		}
		e.R.Check(cmpFound, rule, lpr+".cancelEndpoint:searches-own-channel", e.fpos(can), "the queue is searched for the waiter's own channel", "the cleanup does not look for the cancelling waiter's own channel in the queue")
		_, ok := guardedRelease(can)
		e.R.Check(ok, rule, lpr+".cancelEndpoint:release-only-if-admitted", e.fpos(can), "a slot is given back only when the waiter was not found in the queue (it had been admitted)", "a cancelled waiter that is still queued gives away a slot it does not own")
	}
}

func c16Close(e *Env, acq, rel *ssa.Function) {
	rule := "C16.R6"
	closes := func(f *ssa.Function) []ssa.Instruction {
		var out []ssa.Instruction
		for _, g := range core.WithAnon(f) {
			core.Instrs(g, func(in ssa.Instruction) {
				if c, ok := in.(*ssa.Call); ok {
					if b, isB := c.Call.Value.(*ssa.Builtin); isB && b.Name() == "close" {
						out = append(out, in)
					}
				}
			})
		}
		return out
	}
	if acq != nil {
		cs := closes(acq)
		// the admission decided under the lock, the close done after it: the single close in acquireEndpoint itself is guarded by
		// a local flag; the admission points are then the stores of `true` into that flag inside the locked callbacks
		if len(cs) == 1 && cs[0].Parent() == acq {
			var flag *ssa.Alloc
			core.GuardedBy(cs[0], func(cond ssa.Value) core.CondMatch {
				if ld, isLd := cond.(*ssa.UnOp); isLd && ld.Op == token.MUL {
					if a := core.CellOf(ld.X); a != nil {
						flag = a
						return core.CondMatch{Match: true, Branch: true}
					}
				}
				return core.CondMatch{}
			})
			if flag != nil {
				var sets []ssa.Instruction
				for _, st := range core.StoresToCell(flag) {
					if b, isB := core.ConstBool(st.Val); isB && b && st.Parent() != acq {
						sets = append(sets, st)
					}
				}
				if len(sets) > 0 {
					cs = sets
				}
			}
		}
		// exactly two: on the counter<limit edge in onLoad, and in the create function
		e.R.Check(len(cs) == 2, rule, lpr+".acquireEndpoint:grant-sites", e.fpos(acq), "the waiter's channel is closed at exactly two places: immediate admission of an existing entry and creation of the entry", fmt.Sprintf("%d close() sites in acquireEndpoint (expected 2): a waiter may be admitted twice or never", len(cs)))
		okG := 0
		for _, c := range cs {
			g := c.Parent()
			hasInc := false
			core.Instrs(g, func(in ssa.Instruction) {
				if st, ok := in.(*ssa.Store); ok {
					if _, fl, isF := core.FieldOf(st.Addr); isF && fl == "processedCounter" && (core.Dominates(c, st) || core.Dominates(st, c) || st.Block() == c.Block()) {
						hasInc = true
					}
				}
			})
			if hasInc {
				okG++
			}
		}
		e.R.Check(okG == len(cs) && len(cs) > 0, rule, lpr+".acquireEndpoint:grant-counts", e.fpos(acq), "every immediate admission also accounts the slot in the counter", "a waiter is admitted without accounting its slot in the in-flight counter")
	}
	if rel != nil {
		cs := closes(rel)
		e.R.Check(len(cs) == 1, rule, lpr+".releaseEndpoint:hand-over", e.fpos(rel), "exactly one hand-over: the front waiter's channel is closed", fmt.Sprintf("%d close() sites in releaseEndpoint (expected 1)", len(cs)))
	}
}

// c16Key: hash() feeds the checksum only with the values of Uri-Path options: every Write of an option value is reachable only
// on the `opt.ID == URIPath` edge, or iterates the exact [start,end) window that Find(URIPath) returned.
func c16Key(e *Env) {
	rule := "C16.R8"
	f := e.fn(rule, lprPkg+".hash")
	if f == nil {
		return
	}
	uriPath, _, okc := e.P.ConstValue("message", "URIPath")
	if !okc {
		e.R.Undecided(rule, "message.URIPath", "-", "constant not found")
		return
	}
	writes := core.Calls(f, func(n string, _ ssa.CallInstruction) bool {
		return strings.HasSuffix(n, ".Write") || n == "hash/crc64.Update" || n == "hash/crc64.Checksum"
	})
	okAll := len(writes) > 0
	why := "no Write of option values"
	for _, w := range writes {
		guarded := false
		for _, i := range core.IfsOf(f) {
			for _, br := range []bool{true, false} {
				cmp, ok := core.EdgeFacts(i, br) // the comparison that holds on this edge (`ID != URIPath` false edge ≡ `ID == URIPath`)
				if !ok || cmp.Op != token.EQL {
					continue
				}
				k, isK := core.ConstInt(cmp.Y)
				if !isK {
					continue
				}
				if _, fl, isF := core.FieldOf(derefLoad(cmp.X)); isF && fl == "ID" && k == uriPath && core.OnlyViaEdge(i, br, w.(ssa.Instruction)) {
					guarded = true
				}
			}
		}
		if !guarded && c16FindWindow(f) {
			guarded = true
		}
		if !guarded {
			okAll, why = false, "an option value is hashed without testing that its ID is Uri-Path (and not inside Find's exact [start,end) window): requests for one path that differ in another option get different queues at "+e.pos(w.(ssa.Instruction))
		}
	}
	e.R.Check(okAll, rule, lprPkg+".hash:only-uri-path", e.fpos(f), "every hashed value belongs to a Uri-Path option", why)
	// and every Uri-Path option is hashed: the loop has no early exit
	e.R.Check(earlyLoopExit(f) == "", rule, lprPkg+".hash:all-segments", e.fpos(f), "the loop over the options runs to exhaustion", "not every path segment takes part in the key: "+earlyLoopExit(f))
}

func derefLoad(v ssa.Value) ssa.Value {
	v = core.Unwrap(v)
	if ld, ok := v.(*ssa.UnOp); ok && ld.Op == token.MUL {
		return ld.X
	}
	return v
}

// c16FindWindow: the options are sliced with both indices taken from one Options.Find(URIPath) call.
func c16FindWindow(f *ssa.Function) bool {
	ok := false
	core.Instrs(f, func(in ssa.Instruction) {
		sl, isSl := in.(*ssa.Slice)
		if !isSl || sl.Low == nil || sl.High == nil {
			return
		}
		lo, isLo := core.Unwrap(sl.Low).(*ssa.Extract)
		hi, isHi := core.Unwrap(sl.High).(*ssa.Extract)
		if isLo && isHi && lo.Tuple == hi.Tuple && lo.Index == 0 && hi.Index == 1 {
			if c, isC := lo.Tuple.(*ssa.Call); isC && strings.HasSuffix(core.CalleeName(c), "Options.Find") {
				ok = true
			}
		}
	})
	return ok
}

// runsUnderQueueLock: f is a callback the endpoint-queue map runs under its write lock – handed to one of the map's …WithFunc
// operations directly, or to a helper of the package whose only use of that parameter is to call it from such a callback; or f is
// a helper called only from such callbacks.
func runsUnderQueueLock(f *ssa.Function, depth int) bool {
	if depth > 3 {
		return false
	}
	uses := core.FuncValueUses(f)
	if len(uses) == 0 {
		// an absorbed helper (e.g. a method of the queue): every call site is in a locked callback
		sites := core.SitesOf(f)
		if len(sites) == 0 {
			return false
		}
		for _, s := range sites {
			if !runsUnderQueueLock(s.Parent(), depth+1) {
				return false
			}
		}
		return true
	}
	for _, use := range uses {
		if _, isMk := use.(*ssa.MakeClosure); isMk {
			continue // the creation of the function value itself
		}
		c, isCall := use.(*ssa.Call)
		if !isCall {
			return false
		}
		switch core.CalleeName(c) {
		case "pkg/sync.Map.LoadOrStoreWithFunc", "pkg/sync.Map.ReplaceWithFunc", "pkg/sync.Map.StoreWithFunc":
			if strings.HasSuffix(tableOf(c), ".endpointQueues") {
				continue
			}
			return false
		}
		h := core.StaticFn(c)
		if h == nil || len(h.Blocks) == 0 || h.Pkg != f.Pkg || c.Call.IsInvoke() {
			return false
		}
		// which parameter receives f?
		okParam := false
		for i, a := range c.Call.Args {
			mk, isMk := a.(*ssa.MakeClosure)
			isF := false
			if isMk {
				if w, ok := mk.Fn.(*ssa.Function); ok {
					t, _ := core.MethodBehind(w)
					isF = w == f || t == f
				}
			} else if fv, ok := a.(*ssa.Function); ok {
				isF = fv == f
			}
			if !isF || i >= len(h.Params) {
				continue
			}
			if paramOnlyCalledUnderQueueLock(h, h.Params[i], depth) {
				okParam = true
			} else {
				return false
			}
		}
		if !okParam {
			return false
		}
	}
	return true
}

// paramOnlyCalledUnderQueueLock: every use of the function-typed parameter p of h is a call of it made inside a locked callback.
func paramOnlyCalledUnderQueueLock(h *ssa.Function, p *ssa.Parameter, depth int) bool {
	n := 0
	var check func(v ssa.Value, in *ssa.Function) bool
	check = func(v ssa.Value, in *ssa.Function) bool {
		for _, u := range core.Referrers(v) {
			switch x := u.(type) {
			case *ssa.Call:
				if x.Call.Value != v {
					return false
				}
				n++
				if !runsUnderQueueLock(in, depth+1) {
					return false
				}
			case *ssa.MakeClosure:
				// captured by a closure of h: look at the free variable there
				g, _ := x.Fn.(*ssa.Function)
				for bi, b := range x.Bindings {
					if b == v && g != nil && bi < len(g.FreeVars) {
						if !check(g.FreeVars[bi], g) {
							return false
						}
					}
				}
			case *ssa.Store:
				// spilled to a variable cell (captured by reference): every other use of the cell is a load whose value is checked
				if x.Val != v {
					continue // a store INTO the cell v points to – nothing else is ever stored there? be strict:
				}
				cell, isCell := x.Addr.(*ssa.Alloc)
				if !isCell || !check(cell, in) {
					return false
				}
			case *ssa.UnOp:
				if x.Op != token.MUL || !check(x, in) {
					return false
				}
			case *ssa.DebugRef:
			default:
				return false
			}
		}
		return true
	}
	return check(p, h) && n > 0
}
